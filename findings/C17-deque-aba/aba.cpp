// Finding C17-deque-aba: the ABA tags of a deque node's links are reset when the node is recycled.
//
// pika::concurrency::detail::deque (Michael's CAS-based deque) protects the node-level CAS of stabilize_left /
// stabilize_right with a 16-bit tag in every node link.  alloc_node() placement-news a recycled node with link tags 0
// and push_left / push_right store node_pointer(ptr) (tag 0) into the new node, so the same (pointer, tag) word can
// appear again in the same cell.  A stabilize_right() that is paused just before its node-level CAS then succeeds
// after the node it targets has been popped, recycled and linked again: an interior link is redirected to a freed
// node, one element is lost and an already delivered one is delivered again.
//
// Scripted interleaving of two "threads" on ONE OS thread, on the REAL <pika/concurrency/deque.hpp> of the tree given
// to run.sh.  Everything that runs is the real code; only the first half of push_right and of stabilize_right (copied
// verbatim from deque.hpp, private members reached with -fno-access-control) is replicated so that thread A can be
// paused between its second `anchor_ != lrs` check and its node-level CAS.  (The replicated `n->left.store(...)`
// only writes the new node's own left link; the outcome does not depend on its tag.)
//
// Expected (property C17): after both threads are done the quiescent deque holds 1 40 50 and a drain from the left
// returns exactly these.  exit 0 = as expected, 1 = violated, 2 = harness error.
#include <pika/concurrency/deque.hpp>
#include <cstdio>
#include <cstdlib>
using deque_t = pika::concurrency::detail::deque<int>;
using node = deque_t::node;
using node_pointer = deque_t::node_pointer;
using anchor_pair = deque_t::anchor_pair;
using pika::concurrency::detail::rpush;
using pika::concurrency::detail::stable;

static void show(deque_t& d, char const* what)
{
    anchor_pair a = d.anchor_.lrs();
    std::printf("  [%s] anchor = (%p, %p, status %d, tag %d)\n", what, (void*) a.get_left_ptr(), (void*) a.get_right_ptr(),
        (int) a.get_left_tag(), (int) a.get_right_tag());
}
int main()
{
    deque_t d(8);
    int v = 0;
    d.push_right(1);     // node L
    d.push_right(10);    // node P
    d.push_right(20);    // node X      P->right becomes (X, 1)
    node* P = d.anchor_.lrs().get_right_ptr()->left.load().get_ptr();
    node* X = d.anchor_.lrs().get_right_ptr();
    d.pop_right(v);      // 20, X freed; P->right == (X, 1) is now stale
    std::printf("popped %d\n", v);
    d.push_left(5);      // re-uses cell X as the leftmost node
    std::printf("cell X reused as leftmost: %s\n", d.anchor_.lrs().get_left_ptr() == X ? "yes" : "no");

    // ---- thread A: push_right(30), first half (verbatim) ----
    node* n = d.alloc_node(nullptr, nullptr, 30);
    anchor_pair lrs = d.anchor_.lrs(std::memory_order_relaxed);
    n->left.store(node_pointer(lrs.get_right_ptr()));
    anchor_pair new_anchor(lrs.get_left_ptr(), n, rpush, lrs.get_right_tag() + 1);
    if (!d.anchor_.cas(lrs, new_anchor)) { std::printf("harness error\n"); return 2; }
    // ---- thread A: stabilize_right(new_anchor), first half (verbatim) ----
    anchor_pair& a_lrs = new_anchor;
    node_pointer prev = a_lrs.get_right_ptr()->left.load(std::memory_order_acquire);
    if (d.anchor_ != a_lrs) { std::printf("harness error\n"); return 2; }
    node_pointer prevnext = prev.get_ptr()->right.load(std::memory_order_acquire);
    if (prevnext.get_ptr() == a_lrs.get_right_ptr()) { std::printf("harness error: link already set\n"); return 2; }
    if (d.anchor_ != a_lrs) { std::printf("harness error\n"); return 2; }
    std::printf("A paused before CAS on P->right: expects (%p, tag %d); P=%p X=%p\n", (void*) prevnext.get_ptr(), (int) prevnext.get_tag(), (void*) P, (void*) X);
    // ---- thread B runs complete operations ----
    d.pop_right(v); std::printf("B popped %d\n", v);    // helps stabilize, pops 30 (frees r)
    d.pop_right(v); std::printf("B popped %d\n", v);    // pops 10 (frees P)
    d.push_right(40);                                   // re-uses cell P: P->right = (NULL, 0)
    d.pop_left(v); std::printf("B popped %d\n", v);     // pops 5 (frees cell X)
    d.push_right(50);                                   // re-uses cell X; stabilize sets P->right = (X, 1) again
    node_pointer now = P->right.load();
    std::printf("P->right is now (%p, tag %d)\n", (void*) now.get_ptr(), (int) now.get_tag());
    show(d, "quiescent, contents should be 1 40 50");
    // ---- thread A resumes: second half of stabilize_right (verbatim) ----
    bool stale_cas = prev.get_ptr()->right.compare_exchange_strong(
        prevnext, node_pointer(a_lrs.get_right_ptr(), prevnext.get_tag() + 1));
    std::printf("A's stale node-level CAS %s\n", stale_cas ? "SUCCEEDED" : "failed (as it must)");
    if (stale_cas)
        d.anchor_.cas(a_lrs, anchor_pair(a_lrs.get_left_ptr(), a_lrs.get_right_ptr(), stable, a_lrs.get_right_tag() + 1));
    // ---- drain from the left: expect exactly 1, 40, 50 ----
    int expect[3] = {1, 40, 50}; int fails = stale_cas ? 1 : 0;
    for (int i = 0; i < 3; ++i)
    {
        v = -1; bool ok = d.pop_left(v);
        std::printf("pop_left -> %s %d (expected %d)\n", ok ? "ok" : "EMPTY", v, expect[i]);
        if (!ok || v != expect[i]) ++fails;
    }
    std::printf(fails ? "FAIL\n" : "PASS\n");
    std::fflush(stdout);
    std::_Exit(fails ? 1 : 0);
}
