#!/bin/sh
# usage: run.sh <pika source root>   exit 0 = deque contents come out right (1 40 50), 1 = element lost / duplicated, 2 = build or harness error
# the configured build tree (generated config headers only) is taken from $PIKA_BUILD, default /repo/_build
R=${1:-/repo}; B=${PIKA_BUILD:-/repo/_build}; D=$(dirname "$0"); T=$(mktemp -d); trap 'rm -rf "$T"' EXIT
INC=""; for d in "$R"/libs/pika/*/include "$B"/libs/pika/*/include; do INC="$INC -I$d"; done
g++ -std=c++20 -pthread -O1 -mcx16 -fno-access-control -DNDEBUG -D_GNU_SOURCE -DFMT_SHARED -DSPDLOG_COMPILED_LIB \
    -DSPDLOG_FMT_EXTERNAL -DSPDLOG_SHARED_LIB -I"$B" $INC "$D/aba.cpp" -o "$T/aba" -latomic || exit 2
"$T/aba"
