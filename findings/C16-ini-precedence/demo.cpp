// C16: "--pika:ini=key=value" given on the command line must override the same key given through PIKA_COMMANDLINE_OPTIONS.
// The real pika::detail::prepend_options puts the environment's options in front of the command line; program_options stores the
// composing option --pika:ini in argument order; the real manage_config::add (included below) then decides which definition the
// handle_* functions see through cfgmap.get_value().
#include <cstdio>
#include <string>
#include <vector>
#include PIKA_MANAGE_CONFIG_CPP

int main()
{
    // vm["pika:ini"] after prepend_options + parsing, in argument order:
    std::vector<std::string> ini = {
        "pika.os_threads=4",    // from PIKA_COMMANDLINE_OPTIONS="--pika:ini=pika.os_threads=4" (prepended)
        "pika.os_threads=8",    // from the real command line: --pika:ini=pika.os_threads=8
    };
    std::vector<std::string> none;
    pika::detail::manage_config cfgmap(none);    // command_line_handling::call: manage_config cfgmap(ini_config_)
    cfgmap.add(ini);                             // command_line_handling::handle_arguments: cfgmap.add(vm["pika:ini"])
    std::size_t threads = cfgmap.get_value<std::size_t>("pika.os_threads", 1);    // handle_num_threads
    std::printf("pika.os_threads resolved to %zu (command line said 8, environment said 4)\n", threads);
    if (threads != 8) { std::printf("FAIL: the environment's entry overrides the command line's\n"); return 1; }
    std::printf("PASS\n");
    return 0;
}
