#!/bin/sh
# usage: run.sh <pika source root>   (exit 0 = the command line's --pika:ini entry wins)
R=${1:-/repo}; D=$(dirname "$0"); T=$(mktemp -d); trap 'rm -rf $T' EXIT
INC=""; for d in $R/libs/pika/*/include /repo/_build/libs/pika/*/include; do INC="$INC -I$d"; done
g++ -std=c++20 -g -O0 -D_GNU_SOURCE -DPIKA_NO_VERSION_CHECK -I/repo/_build $INC "-DPIKA_MANAGE_CONFIG_CPP=\"$R/libs/pika/util/src/manage_config.cpp\"" \
  $D/demo.cpp $R/libs/pika/string_util/src/bad_lexical_cast.cpp -o $T/demo 2>$T/err || { grep -E "error|undefined" $T/err | head; exit 2; }
$T/demo
