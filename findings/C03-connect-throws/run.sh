#!/bin/sh
# usage: run.sh <pika source root>   (exit 0 = one allocation and one deallocation in both cases; exit 1 = double deallocation)
# built with -DNDEBUG: in a debug build ~shared_state's PIKA_ASSERT(start_called) aborts first (same root cause)
R=${1:-/repo}; D=$(dirname "$0"); T=$(mktemp -d); trap 'rm -rf $T' EXIT
INC=""; for d in $R/libs/pika/*/include /repo/_build/libs/pika/*/include; do INC="$INC -I$d"; done
g++ -std=c++20 -pthread -g -O0 -DNDEBUG -D_GNU_SOURCE -DFMT_SHARED -DSPDLOG_COMPILED_LIB -DSPDLOG_FMT_EXTERNAL -DSPDLOG_SHARED_LIB -I/repo/_build $INC \
  $D/split_connect_throws.cpp $D/stubs.cpp $R/libs/pika/functional/src/basic_function.cpp -o $T/demo -lfmt 2>$T/err || { grep -E "error|undefined" $T/err | head; exit 2; }
$T/demo
