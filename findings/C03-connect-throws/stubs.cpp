// link-time stand-ins for libpika symbols that are not involved in the logic under test
#include <pika/assertion/source_location.hpp>
#include <cstddef>
#include <cstdio>
#include <cstdlib>
#include <string>
#include <thread>
namespace pika { char const* pika_check_version_0_34 = ""; char const* pika_check_boost_version_108300 = ""; }
namespace pika::execution::this_thread::detail {
    void yield_k(std::size_t, char const*) { std::this_thread::yield(); }
    void spin_k(std::size_t, char const*) {}
}
namespace pika::detail {
    void handle_assert(source_location const&, char const* expr, std::string const& msg)
    { std::printf("ASSERTION/UNREACHABLE: %s %s\n", expr ? expr : "", msg.c_str()); std::fflush(stdout); std::_Exit(3); }
}
namespace pika::util::detail { [[noreturn]] void throw_bad_function_call() { std::printf("bad_function_call\n"); std::_Exit(4); } }
