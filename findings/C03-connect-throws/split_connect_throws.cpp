// split / ensure_started of a sender whose connect() throws: the shared state must be destroyed at most once and its memory
// returned to the allocator exactly once.  (The receiver temporary handed to connect owns the only intrusive_ptr to the shared
// state that is still under construction: when connect throws, destroying the temporary destroys and frees the shared state,
// then the constructor's unwinding destroys the members again and the factory's unique_ptr frees the memory again.)
#include <pika/execution/algorithms/ensure_started.hpp>
#include <pika/execution/algorithms/split.hpp>
#include <pika/execution_base/receiver.hpp>
#include <pika/execution_base/sender.hpp>
#include <cstdio>
#include <cstdlib>
#include <exception>
#include <stdexcept>
#include <utility>
namespace ex = pika::execution::experimental;
static int allocs = 0, deallocs = 0;
template <typename T>
struct counting_allocator
{
    using value_type = T;
    counting_allocator() = default;
    template <typename U> counting_allocator(counting_allocator<U> const&) {}
    T* allocate(std::size_t n) { ++allocs; return static_cast<T*>(std::malloc(n * sizeof(T))); }
    // the memory is deliberately not handed back to malloc, so that the second deallocate is counted instead of crashing
    void deallocate(T*, std::size_t) { ++deallocs; }
    template <typename U> bool operator==(counting_allocator<U> const&) const { return true; }
    template <typename U> bool operator!=(counting_allocator<U> const&) const { return false; }
};
struct throwing_connect_sender
{
    PIKA_STDEXEC_SENDER_CONCEPT
    template <template <typename...> class Tuple, template <typename...> class Variant>
    using value_types = Variant<Tuple<>>;
    template <template <typename...> class Variant>
    using error_types = Variant<std::exception_ptr>;
    static constexpr bool sends_done = false;
    using completion_signatures = ex::completion_signatures<ex::set_value_t(), ex::set_error_t(std::exception_ptr)>;
    template <typename R>
    struct op
    {
        std::decay_t<R> r;
        void start() & noexcept { ex::set_value(std::move(r)); }
    };
    template <typename R> op<R> connect(R&&) && { throw std::runtime_error("connect failed"); }
    template <typename R> op<R> connect(R&&) const& { throw std::runtime_error("connect failed"); }
};
template <typename F>
static int run(char const* what, F&& f)
{
    allocs = deallocs = 0;
    bool threw = false;
    try { f(); } catch (std::runtime_error const&) { threw = true; }
    std::printf("%s: connect threw=%d allocations=%d deallocations=%d\n", what, threw, allocs, deallocs);
    return (threw && allocs == 1 && deallocs == 1) ? 0 : 1;
}
int main()
{
    int bad = 0;
    bad += run("split", [] { auto s = ex::split(throwing_connect_sender{}, counting_allocator<int>{}); (void) s; });
    bad += run("ensure_started", [] { auto s = ex::ensure_started(throwing_connect_sender{}, counting_allocator<int>{}); (void) s; });
    return bad ? 1 : 0;
}
