#!/bin/sh
# usage: run.sh <pika source root>     exit 0 = PASS, 1 = FAIL
ROOT=${1:?usage: run.sh <pika source root>}
ROOT=$(cd "$ROOT" && pwd)
HERE=$(cd "$(dirname "$0")" && pwd)
OUT=$(mktemp -d)
INC=""
for d in "$ROOT"/libs/pika/*/include /repo/_build/libs/pika/*/include; do INC="$INC -I$d"; done
g++ -std=c++20 -pthread -DNDEBUG -D_GNU_SOURCE -DFMT_SHARED -DSPDLOG_COMPILED_LIB \
    -DSPDLOG_FMT_EXTERNAL -DSPDLOG_SHARED_LIB -I/repo/_build $INC \
    -DPIKA_ROOT="$ROOT" "$HERE/demo.cpp" -o "$OUT/demo" -lspdlog -lfmt || { echo "BUILD ERROR"; exit 2; }
"$OUT/demo"
rc=$?
rm -rf "$OUT"
[ $rc -eq 0 ] && exit 0
exit 1
