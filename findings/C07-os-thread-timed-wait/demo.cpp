// C07 finding: a PLAIN OS THREAD in a TIMED wait (condition_variable_any::wait_for / wait_until) that is notified before its
// deadline dead-locks the notifier and the waiter.  default_agent::sleep_until is a plain std::this_thread::sleep_until: it never
// publishes "suspended" (running_ = false); detail::condition_variable::notify_one dequeues the waiter and calls ctx.resume()
// WHILE HOLDING the condition variable's internal lock; default_agent::resume() blocks until the target is suspended -- for ever.
// At its deadline the waiter blocks re-taking that internal lock.  Real sources compiled in (see the #includes); the stand-ins
// are link-only and not on the exercised path.
#define PIKA_STR2(x) #x
#define PIKA_STR(x) PIKA_STR2(x)
#define PIKA_SRC(rel) PIKA_STR(PIKA_ROOT/rel)

#include PIKA_SRC(libs/pika/execution_base/src/this_thread.cpp)
#include PIKA_SRC(libs/pika/execution_base/src/agent_ref.cpp)
#include PIKA_SRC(libs/pika/synchronization/src/detail/condition_variable.cpp)

#include <pika/synchronization/condition_variable.hpp>

#include <spdlog/sinks/null_sink.h>

#include <atomic>
#include <chrono>
#include <cstdio>
#include <cstdlib>
#include <memory>
#include <mutex>
#include <system_error>
#include <thread>
#include <unistd.h>

// ---------------------------------------------------------------------------------------------
// stand-ins for symbols that live in parts of libpika that cannot be linked here
namespace pika {
    char const PIKA_CHECK_VERSION[] = "";
    char const PIKA_CHECK_BOOST_VERSION[] = "";

    namespace detail {
        struct stub_category : std::error_category
        {
            char const* name() const noexcept override { return "pika-stub"; }
            std::string message(int) const override { return "pika-stub"; }
        };
        std::error_category const& get_pika_category(throwmode)
        {
            static stub_category c;
            return c;
        }
        spdlog::logger& get_pika_logger() noexcept
        {
            static spdlog::logger l("pika", std::make_shared<spdlog::sinks::null_sink_mt>());
            return l;
        }
        [[noreturn]] void throw_exception(
            error, std::string const& msg, std::string const&, std::string const&, long)
        {
            std::fprintf(stderr, "unexpected pika exception: %s\n", msg.c_str());
            std::_Exit(2);
        }
        void throws_if(pika::error_code&, error, std::string const& msg, std::string const&,
            std::string const&, long)
        {
            std::fprintf(stderr, "unexpected pika error: %s\n", msg.c_str());
            std::_Exit(2);
        }
    }    // namespace detail

    error_code& error_code::operator=(error_code const& rhs)
    {
        this->std::error_code::operator=(rhs);
        return *this;
    }
    error_code throws(throwmode::lightweight);
}    // namespace pika

int main()
{
    using namespace std::chrono_literals;
    static pika::condition_variable_any cv;
    static std::mutex m;
    static bool flag = false;
    static std::atomic<int> waiter_done{0}, notifier_done{0};
    static std::atomic<bool> no_timeout{false};

    std::thread waiter([] {
        std::unique_lock<std::mutex> l(m);
        // non-predicate timed wait: 400 ms deadline
        auto st = cv.wait_for(l, 400ms);
        no_timeout = (st == pika::cv_status::no_timeout);
        waiter_done = 1;
    });
    std::thread notifier([] {
        std::this_thread::sleep_for(100ms);    // the waiter is inside wait_for by now
        { std::lock_guard<std::mutex> l(m); flag = true; }
        cv.notify_one();                       // issued 300 ms before the waiter's deadline
        notifier_done = 1;
    });
    for (int i = 0; i < 30 && !(waiter_done && notifier_done); ++i) std::this_thread::sleep_for(100ms);
    std::printf("after 3 s: notifier returned from notify_one: %s, waiter returned from wait_for: %s\n",
        notifier_done ? "yes" : "NO", waiter_done ? "yes" : "NO");
    if (!(waiter_done && notifier_done))
    {
        std::printf("FAIL: a timed wait of a plain OS thread that is notified before its deadline dead-locks\n");
        std::fflush(stdout);
        std::_Exit(1);
    }
    waiter.join(); notifier.join();
    std::printf("wait_for reported %s\n", no_timeout ? "no_timeout" : "timeout");
    if (!no_timeout) { std::printf("FAIL: notified before the deadline but reported timeout\n"); return 1; }
    std::printf("PASS\n");
    return 0;
}
