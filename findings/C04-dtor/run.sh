#!/bin/sh
# usage: run.sh <pika source root>   (exit 0 = both accesses granted and no ASan report)
R=${1:-/repo}; D=$(dirname "$0"); T=$(mktemp -d); trap 'rm -rf $T' EXIT
INC=""; for d in $R/libs/pika/*/include /repo/_build/libs/pika/*/include; do INC="$INC -I$d"; done
g++ -std=c++20 -pthread -g -O0 -fsanitize=address -DNDEBUG -D_GNU_SOURCE -DFMT_SHARED -DSPDLOG_COMPILED_LIB -DSPDLOG_FMT_EXTERNAL -DSPDLOG_SHARED_LIB -I/repo/_build $INC $D/demo.cpp $D/stubs.cpp -o $T/demo -lfmt || exit 2
$T/demo
