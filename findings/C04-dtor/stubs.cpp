namespace pika { char const* pika_check_version_0_34 = ""; char const* pika_check_boost_version_108300 = ""; }
