// connect-and-drop of the middle access of an async_rw_mutex, then run the first access
#include <pika/execution/async_rw_mutex.hpp>
#include <pika/execution_base/sender.hpp>
#include <pika/execution_base/receiver.hpp>
#include <cstdio>
#include <exception>
#include <utility>
namespace ex = pika::execution::experimental;
static int granted = 0;
struct R {
    PIKA_STDEXEC_RECEIVER_CONCEPT
    int id;
    template <typename... Ts> void set_value(Ts&&...) && noexcept { ++granted; std::printf("access %d granted\n", id); }
    void set_stopped() && noexcept {}
    template <typename E> void set_error(E&&) && noexcept { std::printf("error\n"); }
    constexpr ex::empty_env get_env() const& noexcept { return {}; }
};
int main()
{
    ex::async_rw_mutex<void> m;
    auto s1 = m.readwrite();
    auto s2 = m.readwrite();
    auto s3 = m.readwrite();
    {
        auto op2 = ex::connect(std::move(s2), R{2});   // connected ...
    }                                                 // ... and destroyed without being started
    auto op3 = ex::connect(std::move(s3), R{3});
    ex::start(op3);
    {
        auto op1 = ex::connect(std::move(s1), R{1});
        ex::start(op1);   // access 1 granted and released -> group 1 destroyed -> must hand on to access 3
    }
    std::printf("granted=%d\n", granted);
    return granted == 2 ? 0 : 1;
}
