// split / split_tuple of a predecessor that completes with set_stopped: consumers must receive set_stopped.
#include <pika/execution/algorithms/split.hpp>
#include <pika/execution/algorithms/split_tuple.hpp>
#include <pika/execution_base/sender.hpp>
#include <pika/execution_base/receiver.hpp>
#include <cstdio>
#include <cstdlib>
#include <exception>
#include <tuple>
#include <utility>
namespace ex = pika::execution::experimental;
template <typename... Ts>
struct stopped_sender
{
    PIKA_STDEXEC_SENDER_CONCEPT
    template <template <typename...> class Tuple, template <typename...> class Variant>
    using value_types = Variant<Tuple<Ts...>>;
    template <template <typename...> class Variant>
    using error_types = Variant<std::exception_ptr>;
    static constexpr bool sends_done = true;
    using completion_signatures = ex::completion_signatures<ex::set_value_t(Ts...), ex::set_error_t(std::exception_ptr), ex::set_stopped_t()>;
    template <typename R>
    struct op
    {
        std::decay_t<R> r;
        void start() & noexcept { ex::set_stopped(std::move(r)); }
    };
    template <typename R>
    op<R> connect(R&& r) && { return {std::forward<R>(r)}; }
    template <typename R>
    op<R> connect(R&& r) const& { return {std::forward<R>(r)}; }
};
static int stopped = 0, other = 0;
struct R
{
    PIKA_STDEXEC_RECEIVER_CONCEPT
    template <typename... Ts> void set_value(Ts&&...) && noexcept { ++other; }
    void set_stopped() && noexcept { ++stopped; }
    template <typename E> void set_error(E&&) && noexcept { ++other; }
    constexpr ex::empty_env get_env() const& noexcept { return {}; }
};
int main()
{
    {
        auto s = ex::split(stopped_sender<int>{});
        auto op = ex::connect(s, R{});
        ex::start(op);
    }
    std::printf("split: stopped=%d other=%d\n", stopped, other);
    int s1 = stopped;
    {
        auto [a] = ex::split_tuple(stopped_sender<std::tuple<int>>{});
        auto op = ex::connect(std::move(a), R{});
        ex::start(op);
    }
    std::printf("split_tuple: stopped=%d other=%d\n", stopped - s1, other);
    return (stopped == 2 && other == 0) ? 0 : 1;
}
