#!/usr/bin/env python3
"""Regenerate the machine-derived part of DESIGN.md (between the AUTO markers) from evidence/*.json,
tools/claims.json, known_findings.txt and seeded/*/meta.json."""
import glob
import json
import os
import re

V = os.path.dirname(os.path.dirname(os.path.abspath(__file__)))
claims = json.load(open(os.path.join(V, "tools", "claims.json")))
out = []
out.append("### 10.1 What each registered check covered on its last run (generated from evidence/*.json)\n")
out.append("| id | proof units | bounded units (not counted) | functions under contract | obligations discharged | quick wall time | known findings |")
out.append("|---|---|---|---|---|---|---|")
tot_u = tot_o = tot_f = 0
for f in sorted(glob.glob(os.path.join(V, "evidence", "C*.json"))):
    e = json.load(open(f))
    pid = e["property_id"]
    if not claims.get(pid, {}).get("claimed"):
        continue
    c = e["coverage"]
    nu, nb, nf = len(c.get("units", [])), len(c.get("bounded", [])), len(c.get("functions_under_contract", []))
    tot_u += nu; tot_o += c["obligations"]; tot_f += nf
    out.append("| %s | %d | %d | %d | %d | %.0f s | %d |" % (pid, nu, nb, nf, c["obligations"], e["wall_s"], len(c.get("known_findings_reported", []))))
out.append("| **total** | **%d** | | **%d** | **%d** | | |" % (tot_u, tot_f, tot_o))
out.append("")
out.append("Back end for every unit: CBMC 6.11 built-in SAT (MiniSat2) unless the unit names another one (a few C09/C12 units use")
out.append("`--sat-solver cadical`); per-unit solver time is in the evidence files. No SMT solver, no quantifiers.\n")

out.append("### 10.2 Defects of the pinned tree found by the checks\n")
out.append("`fixed:` = repaired in /repo by a minimal unguarded `fix:` commit (the baseline suite was re-run for each); the check that found it")
out.append("fails again when the commit is reverted. `known:` = recorded, not repaired (KNOWN-FINDING line, exit 0).\n")
out.append("| kind | property | /repo commit | what failed |")
out.append("|---|---|---|---|")
for line in open(os.path.join(V, "known_findings.txt")):
    line = line.strip()
    m = re.match(r"fixed: property=(\w+) (\w+) (.*)", line)
    if m:
        out.append("| fixed | %s | `%s` | %s |" % (m.group(1), m.group(2), m.group(3).replace("|", "\\|")))
    m = re.match(r"known: property=(\w+) unit=(\S+) .*?:: (.*)", line)
    if m:
        out.append("| known | %s | – | unit `%s`: %s |" % (m.group(1), m.group(2).replace("\\", ""), m.group(3).replace("|", "\\|")))
out.append("")

out.append("### 10.3 Seeded changes (independent sub-agents, each given only the property text and a scratch worktree) and which check catches them\n")
out.append("Every change below was confirmed by me: its demonstration fails on the changed tree and passes on /repo, and every baseline")
out.append("header test whose include closure contains a changed file still compiles (tools/seedcheck.sh). `exit` is the exit code of")
out.append("`./check <id>` run against the changed tree (tools/seedrun.sh); the obligation is the first one reported.\n")
out.append("| seed | change | needs to manifest | check result | first failed obligation | history |")
out.append("|---|---|---|---|---|---|")
caught = missed = 0
for f in sorted(glob.glob(os.path.join(V, "seeded", "*", "meta.json"))):
    m = json.load(open(f))
    cm = m.get("confirmed_by_main", {})
    sid = os.path.basename(os.path.dirname(f))
    ex = cm.get("check_exit_on_changed_tree")
    ob = (cm.get("failed_obligations") or [""])[0]
    ob = re.sub(r"^FAILED ", "", ob)[:150].replace("|", "\\|")
    hist = "caught after the check was strengthened (see meta.json)" if "MISSED" in cm.get("history", "") or "UNDECIDED" in cm.get("history", "") else ""
    if ex == 1:
        caught += 1
    else:
        missed += 1
        hist = cm.get("history", "")[:160]
    out.append("| %s | %s | %s | exit %s | %s | %s |" % (sid, (m.get("summary") or "")[:170].replace("|", "\\|").replace("\n", " "),
               (m.get("needs_to_manifest") or "")[:150].replace("|", "\\|").replace("\n", " "), ex, ob, hist))
out.append("")
out.append("Caught: %d of %d. Not caught: %d." % (caught, caught + missed, missed))
out.append("")

p = os.path.join(V, "DESIGN.md")
s = open(p).read()
a, b = "<!-- AUTO:BEGIN -->", "<!-- AUTO:END -->"
block = a + "\n" + "\n".join(out) + "\n" + b
if a in s:
    s = s[: s.index(a)] + block + s[s.index(b) + len(b):]
else:
    s = s.rstrip() + "\n\n" + block + "\n"
open(p, "w").write(s)
print("DESIGN.md auto sections regenerated: %d units, %d obligations, %d seeds (%d caught)" % (tot_u, tot_o, caught + missed, caught))
