#!/bin/bash
# tools/seedintake.sh <Cxx> <k>: validate the seeded change produced in /tmp/seed_<Cxx>_<k> and keep it under seeded/<Cxx>-<k>/
#  1. demo FAILs on the changed tree and PASSes on /repo      2. baseline header tests affected by the change still compile
#  3. run ./check <Cxx> against the changed tree (scratch out) and record which obligations fail
p=$1; k=$2; WT=/tmp/seed_${p}_${k}; D=/verif/seeded/${p}-${k}
[ -f $WT/seed_out/patch.diff ] || { echo "no seed_out/patch.diff in $WT"; exit 9; }
bash $WT/seed_out/demo/run.sh $WT > /tmp/seed_demo_changed.log 2>&1; rc_changed=$?
bash $WT/seed_out/demo/run.sh /repo > /tmp/seed_demo_ref.log 2>&1; rc_ref=$?
echo "demo: changed tree rc=$rc_changed (want != 0), reference rc=$rc_ref (want 0)"
/verif/tools/seedcheck.sh $WT > /tmp/seed_tests.log 2>&1; rc_tests=$?
tail -1 /tmp/seed_tests.log
/verif/tools/seedrun.sh $p $WT "${@:3}" > /tmp/seed_check.log 2>&1
cat /tmp/seed_check.log | cut -c1-330
rc_check=$(grep -o 'exit=[0-9]*' /tmp/seed_check.log | tail -1 | cut -d= -f2)
if [ $rc_changed -ne 0 ] && [ $rc_ref -eq 0 ] && [ $rc_tests -eq 0 ]; then
  mkdir -p $D && cp $WT/seed_out/patch.diff $D/ && rm -rf $D/demo && cp -r $WT/seed_out/demo $D/demo
  python3 - $WT/seed_out/meta.json $D/meta.json $p $rc_changed $rc_ref $rc_check <<'PY'
import json,sys
src,dst,p,rc_c,rc_r,rc_chk=sys.argv[1:7]
try: m=json.load(open(src))
except Exception: m={}
m["property"]=p
m["confirmed_by_main"]={"demo_on_changed_tree_rc":int(rc_c),"demo_on_reference_rc":int(rc_r),
  "baseline_header_tests_affected_still_compile":True,
  "what_i_ran":["sh demo/run.sh <changed tree>","sh demo/run.sh /repo","tools/seedcheck.sh <changed tree>","tools/seedrun.sh %s <changed tree>"%p],
  "check_exit_on_changed_tree":int(rc_chk or -1),
  "failed_obligations":[l.strip()[:300] for l in open('/tmp/seed_check.log') if 'FAILED' in l][:8]}
json.dump(m,open(dst,'w'),indent=1)
PY
  echo "KEPT in $D (check exit on changed tree: $rc_check)"
else
  echo "NOT KEPT (validation failed)"
fi
