#!/bin/bash
# tools/selftest.sh [-u] [seed-id ...]: re-apply every kept seeded change (seeded/<id>/patch.diff) to a scratch copy of /repo/libs and
# run the property's check against it. Expected: exit 1 (a named obligation fails) for every seed. Never touches /repo.
# -u: record the result (exit code, failed obligations) in seeded/<id>/meta.json (confirmed_by_main.check_exit_on_changed_tree).
# SELFTEST_PAR=<n> seeds in parallel (default 3), VX_JOBS cbmc jobs per seed (default 5).
# Not part of any registered check; it is the regression test of the machinery itself (DESIGN.md 10.3).
cd /verif
upd=0; [ "$1" = "-u" ] && { upd=1; shift; }
ids=${@:-$(ls seeded)}
one() {
  id=$1; upd=$2; prop=${id%%-*}
  S=$(mktemp -d /tmp/vxself.XXXXXX)
  cp -r /repo/libs $S/libs; ln -s /repo/_build $S/_build
  if ! (cd $S && patch -p1 -s --no-backup-if-mismatch < /verif/seeded/$id/patch.diff) >/dev/null 2>&1; then
    echo "$id: PATCH DOES NOT APPLY to the current tree (source changed since the seed was taken)"; rm -rf $S; return 0
  fi
  VX_REPO=$S VX_OUTDIR=$S/out VX_EVIDENCE_DIR=$S/ev VX_JOBS=${VX_JOBS:-5} ./check $prop > $S/log 2>&1; rc=$?
  first=$(grep -m1 "FAILED" $S/log | sed 's/^ *//' | cut -c1-140)
  echo "$id: check exit=$rc  $first"
  if [ $upd = 1 ]; then
    python3 - $id $rc $S/log <<'PY'
import json, sys, re
sid, rc, log = sys.argv[1], int(sys.argv[2]), sys.argv[3]
p = "/verif/seeded/%s/meta.json" % sid
m = json.load(open(p))
c = m.setdefault("confirmed_by_main", {})
c["check_exit_on_changed_tree"] = rc
c["failed_obligations"] = [re.sub(r"/tmp/vxself\.\w+/", "<scratch>/", l.strip())[:300] for l in open(log) if "FAILED" in l][:8]
json.dump(m, open(p, "w"), indent=1)
PY
  fi
  rm -rf $S
  [ $rc -eq 1 ]
}
export -f one
printf "%s\n" $ids | xargs -P ${SELFTEST_PAR:-3} -I{} bash -c "one {} $upd" | tee /tmp/selftest.out
! grep -v "exit=1 " /tmp/selftest.out | grep -q .
