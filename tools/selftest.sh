#!/bin/bash
# tools/selftest.sh [seed-id ...]: re-apply every kept seeded change (seeded/<id>/patch.diff) to a scratch copy of /repo/libs and
# run the property's check against it. Expected: exit 1 (a named obligation fails) for every seed. Never touches /repo.
# Not part of any registered check; it is the regression test of the machinery itself (DESIGN.md 10.3).
cd /verif
ids=${@:-$(ls seeded)}
fail=0
for id in $ids; do
  prop=${id%%-*}
  S=$(mktemp -d /tmp/vxself.XXXXXX)
  cp -r /repo/libs $S/libs; ln -s /repo/_build $S/_build
  if ! (cd $S && patch -p1 -s --no-backup-if-mismatch < /verif/seeded/$id/patch.diff) >/dev/null 2>&1; then
    echo "$id: PATCH DOES NOT APPLY to the current tree (source changed since the seed was taken)"; rm -rf $S; continue
  fi
  VX_REPO=$S VX_OUTDIR=$S/out VX_EVIDENCE_DIR=$S/ev VX_JOBS=${VX_JOBS:-12} ./check $prop > $S/log 2>&1; rc=$?
  first=$(grep -m1 "FAILED" $S/log | sed 's/^ *//' | cut -c1-140)
  echo "$id: check exit=$rc  $first"
  [ $rc -ne 1 ] && fail=1
  rm -rf $S
done
exit $fail
