#!/usr/bin/env python3
"""tools/mkbenign.py <Cxx>: create scratch worktree /tmp/benign_<Cxx> of /repo HEAD and print the prompt for a benign-edit agent."""
import json, os, subprocess, sys
pid = sys.argv[1]
wt = "/tmp/benign_%s" % pid
if not os.path.exists(wt):
    subprocess.check_call(["git", "-C", "/repo", "worktree", "add", "--detach", wt, "HEAD"], stdout=subprocess.DEVNULL, stderr=subprocess.DEVNULL)
os.makedirs(wt + "/benign_out", exist_ok=True)
p = [json.loads(l) for l in open("/verif/properties.jsonl") if json.loads(l)["id"] == pid][0]
t = open("/verif/tools/benign_prompt.md").read()
t = t.replace("{WT}", wt).replace("{ID}", pid).replace("{TITLE}", p["title"]).replace("{STATEMENT}", p["statement"])
t = t.replace("{FILES}", ", ".join(p["anchors"]["files"]))
print(t)
