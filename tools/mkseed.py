#!/usr/bin/env python3
"""tools/mkseed.py <Cxx> <k>: create scratch worktree /tmp/seed_<Cxx>_<k> of /repo HEAD and print the prompt for a seeding agent."""
import json, os, subprocess, sys
pid, k = sys.argv[1], sys.argv[2]
wt = "/tmp/seed_%s_%s" % (pid, k)
if not os.path.exists(wt):
    subprocess.check_call(["git", "-C", "/repo", "worktree", "add", "--detach", wt, "HEAD"], stdout=subprocess.DEVNULL, stderr=subprocess.DEVNULL)
p = [json.loads(l) for l in open("/verif/properties.jsonl") if json.loads(l)["id"] == pid][0]
t = open("/verif/tools/seed_prompt.md").read()
t = t.replace("{WT}", wt).replace("{ID}", pid).replace("{TITLE}", p["title"]).replace("{STATEMENT}", p["statement"])
t = t.replace("{QUANT}", p["quantifier"]["text"]).replace("{FILES}", ", ".join(p["anchors"]["files"]))
if len(sys.argv) > 3:
    t += "\nADDITIONAL DIRECTION: " + sys.argv[3] + "\n"
print(t)
