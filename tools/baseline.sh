#!/bin/bash
# run the pinned suite and compare with BASELINE.json's stable_pass set (used before every fix: commit)
ctest --test-dir /repo/_build -j12 --timeout 900 >/tmp/vx_ctest.log 2>&1
python3 - <<'PY'
import json
b=json.load(open('/root/.vp/BASELINE.json'))
stable={x.split('::')[0] for x in b['stable_pass']}
failed={l.split(':',1)[1].strip() for l in open('/repo/_build/Testing/Temporary/LastTestsFailed.log')}
bad=sorted(stable&failed)
print("baseline stable=%d failed_now=%d regressions=%d %s" % (len(stable), len(failed), len(bad), bad[:10]))
raise SystemExit(1 if bad else 0)
PY
