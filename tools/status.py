#!/usr/bin/env python3
"""print a markdown table of what each property's last run covered (from evidence/*.json)"""
import json, glob, os
rows = []
for f in sorted(glob.glob('/verif/evidence/C*.json')):
    e = json.load(open(f)); c = e['coverage']
    units = c.get('units', []); b = c.get('bounded', [])
    fn = len(c.get('functions_under_contract', []))
    rows.append("| %s | %d | %d | %d | %d | %.0f s | %d | %s |" % (e['property_id'], len(units), len(b), fn, c['obligations'], e['wall_s'],
                len(c.get('known_findings_reported', [])), e['tier']))
print("| id | proof units | bounded units | functions under contract | obligations discharged | wall | known findings | tier |\n|---|---|---|---|---|---|---|---|")
print("\n".join(rows))
