#!/usr/bin/env python3
"""tools/covmap.py [Cxx ...]: which source lines of each property's anchored mechanisms are under contract?
Reads evidence/<id>.json (lifted_from: file, line, raw_lines) and properties.jsonl (anchors.mechanism[].where = file:a-b[, c-d]).
Prints, per anchor range, the fraction of non-blank source lines that lie inside a lifted function body, and the uncovered stretches."""
import json, os, re, sys
V = os.path.dirname(os.path.dirname(os.path.abspath(__file__)))
REPO = os.environ.get("VX_REPO", "/repo")
want = sys.argv[1:]
for l in open(os.path.join(V, "properties.jsonl")):
    p = json.loads(l)
    pid = p["id"]
    if want and pid not in want:
        continue
    ev = os.path.join(V, "evidence", pid + ".json")
    if not os.path.exists(ev):
        continue
    e = json.load(open(ev))
    cov = {}
    for u in e["coverage"].get("units", []) + e["coverage"].get("bounded", []):
        if not isinstance(u, dict):
            continue
        for lf in u.get("lifted_from", []):
            cov.setdefault(lf["file"], set()).update(range(lf["line"], lf["line"] + lf.get("raw_lines", 1) + 1))
    print("== %s %s" % (pid, p["title"]))
    for mech in p["anchors"].get("mechanism", []) + p["anchors"].get("state", []):
        w = mech.get("where", "")
        m = re.match(r"([^:]+):(.*)", w)
        if not m:
            continue
        f = m.group(1)
        try:
            src = open(os.path.join(REPO, f)).read().split("\n")
        except OSError:
            print("   ?? %s" % w)
            continue
        for a, b in re.findall(r"(\d+)-(\d+)", m.group(2)):
            a, b = int(a), int(b)
            lines = [i for i in range(a, b + 1) if i <= len(src) and src[i - 1].strip() and not src[i - 1].strip().startswith("//")]
            c = [i for i in lines if i in cov.get(f, ())]
            unc = [i for i in lines if i not in cov.get(f, ())]
            # group uncovered lines into stretches
            st, cur = [], []
            for i in unc:
                if cur and i - cur[-1] > 3:
                    st.append(cur); cur = []
                cur.append(i)
            if cur:
                st.append(cur)
            big = ["%d-%d" % (s[0], s[-1]) for s in st if len(s) >= 6]
            print("   %3d%%  %s:%d-%d  (%s)%s" % (100 * len(c) // max(1, len(lines)), os.path.basename(f), a, b, mech.get("name", "")[:70],
                                                ("  uncovered: " + ", ".join(big)) if big else ""))
