#!/bin/bash
# tools/seedrun.sh <Cxx> <worktree-or-dir-with-libs> [check args]: run the property's check against a seeded tree (scratch out/evidence)
prop=$1; wt=$2; shift 2
S=$(mktemp -d /tmp/vxseed.XXXXXX); trap 'rm -rf "$S"' EXIT
cd /verif && VX_REPO=$wt VX_OUTDIR=$S/out VX_EVIDENCE_DIR=$S/ev VX_JOBS=${VX_JOBS:-8} ./check $prop "$@" | grep -E "FAILED|VIOLATION|UNDECIDED|undecided|KNOWN" | cut -c1-400
echo "exit=${PIPESTATUS[0]}"
