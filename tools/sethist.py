#!/usr/bin/env python3
# tools/sethist.py <Cxx-k> <text> : record how a seeded change was first missed and then caught
import json, sys
p = "/verif/seeded/%s/meta.json" % sys.argv[1]
m = json.load(open(p))
m.setdefault("confirmed_by_main", {})["history"] = sys.argv[2]
json.dump(m, open(p, "w"), indent=1)
