#!/bin/bash
# tools/benignrun.sh <Cxx> [dir]: apply each behaviour-preserving patch <dir>/<k>.diff (default: /verif/benign/<Cxx>, the kept ones;
# a fresh agent's output is in /tmp/benign_<Cxx>/benign_out) to a scratch copy of /repo/libs and run ./check <Cxx> against it.
# Expected: exit 0 for every patch (exit 1 = false alarm, exit 2 = the extraction is too brittle).  Never touches /repo.
p=$1; D=${2:-/verif/benign/$p}; cd /verif; bad=0
for f in $D/*.diff; do
  [ -s $f ] || continue
  S=$(mktemp -d /tmp/vxben.XXXXXX); cp -r /repo/libs $S/libs; ln -s /repo/_build $S/_build
  if ! (cd $S && patch -p1 -s --no-backup-if-mismatch < $f) >/dev/null 2>&1; then echo "$p $(basename $f): patch does not apply"; rm -rf $S; continue; fi
  VX_REPO=$S VX_OUTDIR=$S/out VX_EVIDENCE_DIR=$S/ev VX_JOBS=${VX_JOBS:-8} ./check $p > $S/log 2>&1; rc=$?
  echo "$p $(basename $f): exit=$rc $(grep -m1 -E 'VIOLATION|UNDECIDED' $S/log | cut -c1-220)"
  [ $rc -ne 0 ] && bad=1
  rm -rf $S
done
exit $bad
