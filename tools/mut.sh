#!/bin/bash
# tools/mut.sh <prop> <repo-relative file> <python-regex> <replacement> [check args]: apply a one-off mutation to /repo,
# run the check, revert. For developing contracts only (never part of a registered check).
prop=$1; f=$2; pat=$3; rep=$4; shift 4
cd /repo || exit 9
python3 - "$f" "$pat" "$rep" <<'PY' || { echo "MUTATION DID NOT APPLY"; exit 9; }
import re,sys
f,pat,rep=sys.argv[1:4]
s=open(f).read()
t,n=re.subn(pat,rep,s,count=1,flags=re.S)
if n!=1 or t==s: sys.exit(1)
open(f,'w').write(t)
PY
git diff --stat | tail -1
cd /verif && ./check $prop "$@" | grep -E "FAILED|VIOLATION|UNDECIDED|undecided" | cut -c1-260
echo "exit=${PIPESTATUS[0]}"
git -C /repo checkout -- "$f"
