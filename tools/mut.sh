#!/bin/bash
# tools/mut.sh <prop> <repo-relative file> <python-regex> <replacement> [check args]
# Development aid (never part of a registered check): applies a one-off mutation to a SCRATCH copy of /repo/libs
# (never to /repo itself), runs ./check against the scratch tree (VX_REPO), prints failed obligations, cleans up.
# The mutation must apply exactly once.  Use --show to also print the lifted C of the affected unit.
prop=$1; f=$2; pat=$3; rep=$4; shift 4
S=$(mktemp -d /tmp/vxmut.XXXXXX)
trap 'rm -rf "$S"' EXIT
cp -r /repo/libs "$S/libs"; ln -s /repo/_build "$S/_build"
python3 - "$S/$f" "$pat" "$rep" <<'PY' || { echo "MUTATION DID NOT APPLY (regex must match exactly once)"; exit 9; }
import re,sys
f,pat,rep=sys.argv[1:4]
s=open(f).read()
n=len(re.findall(pat,s,flags=re.S))
if n!=1: print("matches:",n); sys.exit(1)
t=re.sub(pat,rep,s,count=1,flags=re.S)
if t==s: sys.exit(1)
open(f,'w').write(t)
PY
(cd "$S" && diff -u /repo/$f $f | sed -n 3,12p)
cd /verif && VX_REPO=$S VX_OUTDIR=$S/out VX_EVIDENCE_DIR=$S/ev VX_JOBS=${VX_JOBS:-6} ./check $prop "$@" | grep -E "FAILED|VIOLATION|UNDECIDED|undecided|KNOWN" | cut -c1-300
echo "exit=${PIPESTATUS[0]}"
