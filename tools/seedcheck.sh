#!/bin/bash
# tools/seedcheck.sh <worktree> : "the existing tests still pass with the change" for a seeded change, without
# touching /repo: every baseline header test (the generated one-include TUs under /repo/_build/libs/pika/*/tests)
# whose include closure contains a file changed in the worktree is compiled against the worktree with the build's
# own flags (taken from build.ninja), and must compile exactly when it is in BASELINE.stable_pass.
WT=$1
cd "$WT" || exit 9
changed=$(git diff --name-only HEAD | grep '^libs/' )
[ -z "$changed" ] && { echo "no source change in $WT"; exit 9; }
echo "changed: $changed"
python3 - "$WT" $changed <<'PY'
import json, os, re, subprocess, sys, concurrent.futures as cf
wt, changed = sys.argv[1], sys.argv[2:]
base = json.load(open('/root/.vp/BASELINE.json'))
stable = {x.split('::')[0] for x in base['stable_pass']}
ninja = open('/repo/_build/build.ninja').read()
# map test name -> (source, flags, includes, defines)
tests = {}
for m in re.finditer(r"build (libs/pika/\S+/tests/CMakeFiles/(tests_headers_\S+?)\.dir/\S+\.o): \S+ (\S+\.cpp)[^\n]*\n((?:  [^\n]*\n)+)", ninja):
    name, src, body = m.group(2), m.group(3), m.group(4)
    kv = dict(re.findall(r"^  (\w+) = (.*)$", body, re.M))
    tests[name.replace('_', '.', 3) if False else name] = (src, kv.get('FLAGS', ''), kv.get('INCLUDES', ''), kv.get('DEFINES', ''))
def tname(n):  # tests_headers_modules_x_pika_y_hpp -> tests.headers.modules.x.pika_y_hpp is not reversible; match by suffix instead
    return n
def run(item):
    name, (src, flags, inc, defs) = item
    inc2 = inc.replace('-I/repo/libs/', '-I%s/libs/' % wt).replace('-isystem /repo/libs/', '-isystem %s/libs/' % wt)
    cmd = "g++ %s %s %s -fsyntax-only -H %s 2>&1" % (defs, inc2, flags, src)
    p = subprocess.run(cmd, shell=True, stdout=subprocess.PIPE, stderr=subprocess.STDOUT)
    out = p.stdout.decode(errors='replace')
    uses = any(('/' + c) in out for c in changed)
    return name, p.returncode == 0, uses
with cf.ThreadPoolExecutor(max_workers=int(os.environ.get('VX_JOBS', '8'))) as ex:
    res = list(ex.map(run, tests.items()))
def in_stable(n):
    # ctest name: tests.headers.modules.<module>.<file with / -> _>; ninja target: tests_headers_modules_<module>_<...>
    return any(s.replace('.', '_') == n for s in stable)
bad = []
affected = [r for r in res if r[2]]
for name, ok, uses in affected:
    if in_stable(name) and not ok:
        bad.append(name)
print("header tests compiled against worktree: %d, affected by the change: %d, stable tests now failing: %d %s" % (len(res), len(affected), len(bad), bad[:8]))
sys.exit(1 if bad else 0)
PY
