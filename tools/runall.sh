#!/bin/bash
# tools/runall.sh [tier]: run every claimed check (MANIFEST) sequentially on /repo, print exit codes and times.
cd /verif; tier=${1:-quick}
for p in $(python3 -c "import json;print(' '.join(c['property_id'] for c in json.load(open('MANIFEST.json'))['checks']))"); do
  s=$(date +%s); ./check $p --tier $tier > /tmp/runall_$p.log 2>&1; rc=$?
  echo "$p exit=$rc $(( $(date +%s)-s ))s $(grep -c 'KNOWN-FINDING' /tmp/runall_$p.log) known $(grep -c UNDECIDED /tmp/runall_$p.log) undecided"
done
