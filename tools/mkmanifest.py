#!/usr/bin/env python3
"""Regenerate /verif/MANIFEST.json from the table below + the spec directories that exist.
A property is claimed iff specs/<id>/spec.py exists and tools/claims.json has an entry for it."""
import json, os, sys
V = os.path.dirname(os.path.dirname(os.path.abspath(__file__)))
claims = json.load(open(os.path.join(V, "tools", "claims.json")))
props = [json.loads(l) for l in open(os.path.join(V, "properties.jsonl"))]
checks, na = [], []
for p in props:
    pid = p["id"]
    c = claims.get(pid, {})
    if c.get("claimed") and os.path.exists(os.path.join(V, "specs", pid, "spec.py")):
        checks.append({
            "property_id": pid,
            "quick_cmd": "./check %s --tier quick" % pid,
            "thorough_cmd": "./check %s --tier thorough" % pid,
            "evidence_file": "/verif/evidence/%s.json" % pid,
            "replay_cmd_template": "./check %s --replay {path}" % pid,
            "engine": "vx",
            "level_claimed": {"category": "proof", "text": c["text"], "design_ref": c.get("design_ref", "DESIGN.md section 4, " + pid)},
            "level_note": c["note"],
            "technique": c.get("technique", "CBMC 6.11 function/loop contracts (goto-instrument --dfcc --enforce-contract/--replace-call-with-contract/--apply-loop-contracts) on C lifted mechanically from /repo on every run"),
        })
    else:
        na.append({"property_id": pid, "reason": c.get("na_reason", "not yet under contract: no unit of this property is finished; not claimed rather than claimed with a hollow check")})
m = {
    "version": 1,
    "setup_cmd": "python3 -m py_compile vx/lift.py vx/run.py && cbmc --version && goto-instrument --version && gcc --version | head -1",
    "hooks": {"guard": "PIKA_ORG_PIKA_VERIF",
              "enable": "none needed: no instrumentation is compiled into /repo; contracts live in /verif/specs side files keyed by function and loop ordinal, the checks lift function text from /repo's working tree on every run",
              "baseline_off_cmd": "ctest --test-dir /repo/_build -j8 --timeout 900",
              "source_commits": [], "add_only": True},
    "engines": [{"name": "vx", "path": "/verif/vx", "serves_properties": [c["property_id"] for c in checks],
                 "kind_free_text": "contract-based deductive verification: mechanical lifter (C++ function text -> C), CBMC dfcc contract instrumentation, native replay of counterexamples on the lifted text"}],
    "checks": checks,
    "not_applicable": na,
    "notes": "exit 0 proved / exit 1 VIOLATION (named obligation; replay file) / exit 2 undecided (extraction failure, vacuity guard, timeout). Genuine defects repaired in /repo by 'fix:' commits are listed in known_findings.txt.",
}
json.dump(m, open(os.path.join(V, "MANIFEST.json"), "w"), indent=1)
print("claimed:", [c["property_id"] for c in checks])
