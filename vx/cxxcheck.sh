#!/bin/bash
# syntax-check one /repo translation unit with the build's include paths and flags (used to vet fix: commits
# for files no baseline test compiles). usage: vx/cxxcheck.sh <file.cpp> [extra flags]
f=$1; shift
INC=""
for d in /repo/libs/pika/*/include /repo/_build/libs/pika/*/include; do INC="$INC -I$d"; done
exec g++ -std=c++20 -pthread -fsyntax-only -DNDEBUG -D_GNU_SOURCE -DFMT_SHARED -DSPDLOG_COMPILED_LIB -DSPDLOG_FMT_EXTERNAL -DSPDLOG_SHARED_LIB \
  -I/repo/_build $INC -I/repo/libs/pika/synchronization/src "$@" "$f"
