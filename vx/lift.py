"""vx.lift -- mechanical extraction ("lifting") of C++ function bodies from /repo to C.

Pipeline per lifted function (see DESIGN.md 3.2):
  locate -> slice (brace matching) -> strip comments -> resolve #if -> unit rules (must-fire)
  -> RAII lowering -> generic rules -> loop-contract splicing.
Every failure raises LiftError, which the driver maps to exit code 2 (undecided).
"""
import glob
import json
import os
import re

REPO = os.environ.get("VX_REPO", "/repo")


class LiftError(Exception):
    pass


# --------------------------------------------------------------------------------------------
# lexical helpers


def strip_comments(src):
    """Replace comments by blanks (newlines kept), leave string/char literals alone."""
    out = []
    i, n = 0, len(src)
    while i < n:
        c = src[i]
        if c == "'" and i > 0 and (src[i - 1].isalnum()) and i + 1 < n and src[i + 1].isalnum():
            # C++14 digit separator (0x7fff'ffff), not a character literal
            out.append(c)
            i += 1
        elif c == '"' or c == "'":
            j = i + 1
            while j < n and src[j] != c:
                if src[j] == "\\":
                    j += 1
                j += 1
            out.append(src[i : j + 1])
            i = j + 1
        elif src.startswith("//", i):
            j = src.find("\n", i)
            if j < 0:
                j = n
            i = j
        elif src.startswith("/*", i):
            j = src.find("*/", i + 2)
            if j < 0:
                j = n - 2
            out.append("".join(ch if ch == "\n" else " " for ch in src[i : j + 2]))
            i = j + 2
        else:
            out.append(c)
            i += 1
    return "".join(out)


def _skip_literal(s, i):
    """s[i] is a quote; return index just after the literal."""
    q = s[i]
    j = i + 1
    n = len(s)
    while j < n and s[j] != q:
        if s[j] == "\\":
            j += 1
        j += 1
    return j + 1


def match_close(s, i, open_ch="(", close_ch=")"):
    """s[i] == open_ch; return index of the matching close_ch (literal aware)."""
    assert s[i] == open_ch, (s[i : i + 20], open_ch)
    depth = 0
    n = len(s)
    j = i
    while j < n:
        c = s[j]
        if c == '"' or (c == "'" and not (j > 0 and s[j - 1].isalnum())):
            j = _skip_literal(s, j)
            continue
        if c == open_ch:
            depth += 1
        elif c == close_ch:
            depth -= 1
            if depth == 0:
                return j
        j += 1
    raise LiftError("unbalanced %s at offset %d" % (open_ch, i))


def split_args(s):
    """split a call argument string at top-level commas"""
    args, depth, cur = [], 0, []
    i, n = 0, len(s)
    while i < n:
        c = s[i]
        if c == '"' or c == "'":
            j = _skip_literal(s, i)
            cur.append(s[i:j])
            i = j
            continue
        if c in "([{":
            depth += 1
        elif c in ")]}":
            depth -= 1
        elif c == "<" and False:
            pass
        if c == "," and depth == 0:
            args.append("".join(cur).strip())
            cur = []
        else:
            cur.append(c)
        i += 1
    last = "".join(cur).strip()
    if last or args:
        args.append(last)
    return args


# --------------------------------------------------------------------------------------------
# build configuration for #if resolution

_DEFINES = None
_DEFINES_SNAPSHOT = os.path.join(os.path.dirname(os.path.abspath(__file__)), "config_defines.json")


def build_defines():
    global _DEFINES
    if _DEFINES is not None:
        return _DEFINES
    d = {}
    files = sorted(glob.glob(os.path.join(REPO, "_build/libs/pika/*/include/pika/*/config/defines.hpp")))
    files += sorted(glob.glob(os.path.join(REPO, "_build/libs/pika/config/include/pika/config/defines.hpp")))
    if files:
        for f in files:
            for m in re.finditer(r"^\s*#\s*define\s+(\w+)[ \t]*(.*)$", open(f).read(), re.M):
                d.setdefault(m.group(1), m.group(2).strip())
        d["__vx_source"] = "_build defines.hpp (%d files)" % len(files)
    elif os.path.exists(_DEFINES_SNAPSHOT):
        d = json.load(open(_DEFINES_SNAPSHOT))
        d["__vx_source"] = "snapshot vx/config_defines.json"
    # compiler / platform builtins of the shipped configuration (linux, x86-64, gcc 12)
    for k, v in {
        "__linux__": "1", "__linux": "1", "linux": "1", "__x86_64__": "1", "__GNUC__": "12",
        "__cplusplus": "201703", "__unix__": "1", "_POSIX_VERSION": "200809",
    }.items():
        d.setdefault(k, v)
    # PIKA_DEBUG: the shipped build type decides; assertions are lifted as obligations anyway
    _DEFINES = d
    return d


def _pp_eval(expr, defs):
    e = expr
    e = re.sub(r"defined\s*\(\s*(\w+)\s*\)", lambda m: "1" if m.group(1) in defs else "0", e)
    e = re.sub(r"defined\s+(\w+)", lambda m: "1" if m.group(1) in defs else "0", e)

    def ident(m):
        w = m.group(0)
        if w in ("and", "or", "not"):
            return w
        v = defs.get(w)
        if v is None or v == "":
            return "0" if v is None else "1"
        try:
            return str(int(v.rstrip("uUlL"), 0))
        except ValueError:
            return "0"

    e = e.replace("&&", " and ").replace("||", " or ")
    e = re.sub(r"!(?!=)", " not ", e)
    e = re.sub(r"\b[A-Za-z_]\w*\b", ident, e)
    e = re.sub(r"\b(\d+)[uUlL]+\b", r"\1", e)
    try:
        return bool(eval(e, {"__builtins__": {}}, {}))
    except Exception as ex:
        raise LiftError("cannot evaluate #if '%s' (%s)" % (expr, ex))


def resolve_pp(text, defs=None):
    """Evaluate #if/#ifdef/#ifndef/#elif/#else/#endif inside a slice; drop inactive branches."""
    if "#" not in text:
        return text
    defs = build_defines() if defs is None else defs
    out = []
    stack = []  # entries: [parent_active, taken_already, active_now]
    lines = text.split("\n")
    i = 0
    while i < len(lines):
        line = lines[i]
        full = line
        while full.rstrip().endswith("\\") and i + 1 < len(lines):
            i += 1
            full = full.rstrip()[:-1] + " " + lines[i]
        m = re.match(r"\s*#\s*(\w+)\s*(.*)$", full)
        active = all(s[2] for s in stack)
        if m:
            d, rest = m.group(1), m.group(2)
            if d in ("if", "ifdef", "ifndef"):
                if d == "if":
                    v = _pp_eval(rest, defs) if active else False
                elif d == "ifdef":
                    v = rest.strip() in defs
                else:
                    v = rest.strip() not in defs
                stack.append([active, v, v and active])
                out.append("")
            elif d == "elif":
                s = stack[-1]
                if s[1]:
                    s[2] = False
                else:
                    v = _pp_eval(rest, defs) if s[0] else False
                    s[1] = v
                    s[2] = v and s[0]
                out.append("")
            elif d == "else":
                s = stack[-1]
                s[2] = (not s[1]) and s[0]
                s[1] = True
                out.append("")
            elif d == "endif":
                stack.pop()
                out.append("")
            else:
                out.append(full if active and d not in ("include", "pragma") else "")
        else:
            out.append(line if active else "")
        i += 1
    if stack:
        raise LiftError("unbalanced #if in slice")
    return "\n".join(out)


# --------------------------------------------------------------------------------------------
# locate + slice

_SRC_CACHE = {}


def read_source(relpath):
    p = os.path.join(REPO, relpath)
    if p not in _SRC_CACHE:
        if not os.path.exists(p):
            raise LiftError("source file missing: %s" % relpath)
        raw = open(p, encoding="utf-8", errors="replace").read()
        _SRC_CACHE[p] = strip_comments(raw)
    return _SRC_CACHE[p]


def locate(relpath, pattern, which=0, expect=1, ctor=False):
    """Return (body_text including braces, line_number, header_text)."""
    src = read_source(relpath)
    ms = list(re.finditer(pattern, src, re.S))
    if len(ms) != expect:
        raise LiftError("locator /%s/ matched %d times in %s (expected %d)" % (pattern, len(ms), relpath, expect))
    m = ms[which]
    i = m.end()
    n = len(src)
    # walk to the opening brace of the body, skipping parenthesised groups; a ';' first => declaration
    depth = 0
    if ctor:
        # constructor with mem-initialiser list: the body is the first '{' that follows a ')' or '}'
        # at depth 0 and is preceded (ignoring blanks) by ')' , '}' and not by an identifier or ','
        j = i
        while j < n:
            c = src[j]
            if c == "(":
                j = match_close(src, j) + 1
                continue
            if c == "{":
                k = j - 1
                while k >= 0 and src[k].isspace():
                    k -= 1
                if src[k] in ")}" or src[k:k+1] == ")":
                    # could still be a brace-initialiser 'x{..}' -> preceded by identifier, handled below
                    break
                if src[k].isalnum() or src[k] == "_" or src[k] == ">":
                    j = match_close(src, j, "{", "}") + 1
                    continue
                break
            if c == ";":
                raise LiftError("locator /%s/ hit a declaration, not a definition" % pattern)
            j += 1
        i = j
    else:
        while i < n:
            c = src[i]
            if c == "(":
                i = match_close(src, i) + 1
                continue
            if c == "{":
                break
            if c == ";":
                raise LiftError("locator /%s/ hit a declaration, not a definition" % pattern)
            i += 1
    if i >= n:
        raise LiftError("no body after locator /%s/" % pattern)
    end = match_close(src, i, "{", "}")
    line = src.count("\n", 0, m.start()) + 1
    return src[i : end + 1], line, src[m.start() : i]


def locate_fragment(relpath, start_pat, end_pat):
    """Fragment unit: text from the match of start_pat to the match of end_pat (both unique)."""
    src = read_source(relpath)
    a = list(re.finditer(start_pat, src, re.S))
    if len(a) != 1:
        raise LiftError("fragment start /%s/ matched %d times" % (start_pat, len(a)))
    b = list(re.finditer(end_pat, src[a[0].end():], re.S))
    if len(b) < 1:
        raise LiftError("fragment end /%s/ not found" % end_pat)
    s, e = a[0].start(), a[0].end() + b[0].end()
    return src[s:e], src.count("\n", 0, s) + 1, ""


# --------------------------------------------------------------------------------------------
# rules


class Rule:
    def apply(self, text):
        raise NotImplementedError

    def check(self, fired, what):
        n = self.n
        ok = (n is None) or (n == "+" and fired >= 1) or (isinstance(n, int) and fired == n)
        if not ok:
            raise LiftError("rule %s fired %d times (expected %s)" % (what, fired, n))


class Sub(Rule):
    """regex substitution; n = exact fire count, '+' = at least once, None = any"""

    def __init__(self, pat, repl, n=1, flags=re.S):
        self.pat, self.repl, self.n, self.flags = pat, repl, n, flags

    def apply(self, text):
        out, k = re.subn(self.pat, self.repl, text, flags=self.flags)
        self.check(k, "Sub(/%s/)" % self.pat)
        return out


class Call(Rule):
    """rewrite `<head>(args)` with balanced arguments.  head is a regex that ends just before '('.
    template may use {0},{1},.. (arguments), {args} (all), {h1},{h2}.. (groups of the head regex)."""

    def __init__(self, head, template, n=1, stmt=False):
        self.head, self.template, self.n, self.stmt = head, template, n, stmt

    def apply(self, text):
        out, pos, scan, k = [], 0, 0, 0
        rx = re.compile(self.head + r"\s*\(", re.S)
        while True:
            m = rx.search(text, scan)
            if not m:
                break
            op = m.end() - 1
            cl = match_close(text, op)
            args = split_args(text[op + 1 : cl])
            env = {"args": text[op + 1 : cl].strip()}
            for i, g in enumerate(m.groups()):
                env["h%d" % (i + 1)] = g or ""
            end = cl + 1
            if self.stmt:
                mm = re.match(r"\s*;", text[end:])
                if not mm:
                    scan = m.end()
                    continue
                end += mm.end()
            try:
                if isinstance(self.template, str):
                    rep = _fmt(self.template, args, env)
                else:
                    rep = self.template(args, env)
            except IndexError:
                raise LiftError("rule Call(/%s/): template needs more arguments than %r" % (self.head, args))
            out.append(text[pos : m.start()])
            out.append(rep)
            pos = scan = end
            k += 1
        out.append(text[pos:])
        res = "".join(out)
        if self.n is None and k > 0 and not getattr(self, "_nested", False):
            # nested occurrences inside rewritten arguments: iterate to a fixed point
            self._nested = True
            try:
                for _ in range(6):
                    nxt = self.apply(res)
                    if nxt == res:
                        break
                    res = nxt
            finally:
                self._nested = False
        self.check(k, "Call(/%s/)" % self.head)
        return res


def _fmt(template, args, env):
    def r(m):
        key = m.group(1)
        if key.isdigit():
            return args[int(key)]
        return env[key]

    return re.sub(r"\{(\d+|args|h\d+)\}", r, template)


class DropStmt(Call):
    """delete a whole statement `<head>(...);`"""

    def __init__(self, head, n=1):
        Call.__init__(self, head, "", n, stmt=True)


class Members(Rule):
    """bare member identifiers -> self->m (each listed member must occur at least once unless optional)"""

    def __init__(self, names, optional=(), obj="self"):
        self.names, self.optional, self.obj = list(names), set(optional), obj
        self.n = None

    def apply(self, text):
        for nm in self.names:
            rx = re.compile(r"(?<![\w.>])(?<!->)(?<!::)%s\b" % re.escape(nm))
            text, k = rx.subn("%s->%s" % (self.obj, nm), text)
            if k == 0 and nm not in self.optional:
                raise LiftError("rule Members: member '%s' does not occur" % nm)
        return text


class Guard(Rule):
    """RAII lowering.  decl: regex matching the whole declaration statement (including ';').
    ctor/dtor: replacement templates (may use \\1.. of decl).  The dtor text is inserted at every
    exit of the enclosing scope (fall through, return, break/continue leaving the scope)."""

    def __init__(self, decl, ctor, dtor, n=1):
        self.decl, self.ctor, self.dtor, self.n = decl, ctor, dtor, n

    def apply(self, text):
        ms = list(re.finditer(self.decl, text, re.S))
        self.check(len(ms), "Guard(/%s/)" % self.decl)
        # last declared first, so that destructors come out in reverse order of declaration
        for idx in range(len(ms) - 1, -1, -1):
            m = list(re.finditer(self.decl, text, re.S))[idx]
            ctor = self.ctor(m) if callable(self.ctor) else m.expand(self.ctor)
            dtor = self.dtor(m) if callable(self.dtor) else m.expand(self.dtor)
            text = _lower_one_guard(text, m, ctor, dtor)
        return text


_VXR = [0]


def _blocks(text):
    """list of (open, close, kind) for every brace block; kind in loop/switch/plain"""
    res = []
    i, n = 0, len(text)
    while i < n:
        c = text[i]
        if c == '"' or (c == "'" and not (i > 0 and text[i - 1].isalnum())):
            i = _skip_literal(text, i)
            continue
        if c == "{":
            close = match_close(text, i, "{", "}")
            k = i - 1
            while k >= 0 and text[k].isspace():
                k -= 1
            kind = "plain"
            if k >= 1 and text[k - 1 : k + 1] == "do" and (k < 2 or not (text[k - 2].isalnum() or text[k - 2] == "_")):
                kind = "loop"
            elif k >= 0 and text[k] == ")":
                # find matching '(' backwards
                depth, j = 0, k
                while j >= 0:
                    if text[j] == ")":
                        depth += 1
                    elif text[j] == "(":
                        depth -= 1
                        if depth == 0:
                            break
                    j -= 1
                w = re.search(r"(\w+)\s*$", text[:j])
                if w and w.group(1) in ("for", "while"):
                    kind = "loop"
                elif w and w.group(1) == "switch":
                    kind = "switch"
                elif w and w.group(1).startswith("__CPROVER_"):
                    kind = "loop"  # loop contract clause between header and body
            res.append((i, close, kind))
        i += 1
    return res


def _lower_one_guard(text, m, ctor, dtor):
    blocks = _blocks(text)
    p = m.start()
    if p == 0 and text[0] == "{":
        # parameter guard: the scope is the whole function body; decl regex matched the opening brace
        encl = [b for b in blocks if b[0] == 0]
    else:
        encl = [b for b in blocks if b[0] < p and b[1] > p]
    if not encl:
        raise LiftError("guard declaration outside any block")
    B = max(encl, key=lambda b: b[0])
    # collect edits as (pos_start, pos_end, replacement); applied right-to-left
    edits = [(m.start(), m.end(), ctor)]
    # 1. fall-through at the closing brace of B
    edits.append((B[1], B[1], " " + dtor + " "))
    # 2. return / break / continue inside (m.end(), B[1])
    for t in re.finditer(r"\b(return|break|continue)\b", text[m.end() : B[1]]):
        q = m.end() + t.start()
        if _in_literal(text, q):
            continue
        kw = t.group(1)
        semi = _stmt_end(text, q)
        if kw == "return":
            expr = text[q + 6 : semi].strip()
            if expr:
                _VXR[0] += 1
                v = "vx_r%d" % _VXR[0]
                rep = "{ __typeof__(%s) %s = (%s); %s return %s; }" % (expr, v, expr, dtor, v)
            else:
                rep = "{ %s return; }" % dtor
            edits.append((q, semi + 1, rep))
        else:
            kinds = ("loop",) if kw == "continue" else ("loop", "switch")
            inner = [b for b in blocks if b[0] < q and b[1] > q and b[2] in kinds]
            if not inner:
                raise LiftError("%s outside a loop near offset %d" % (kw, q))
            X = max(inner, key=lambda b: b[0])
            if X[0] <= B[0] and X[1] >= B[1]:
                edits.append((q, semi + 1, "{ %s %s; }" % (dtor, kw)))
    for a, b, rep in sorted(edits, key=lambda e: (e[0], e[1]), reverse=True):
        text = text[:a] + rep + text[b:]
    return text


def _in_literal(text, q):
    # cheap check: odd number of unescaped double quotes on the same line before q
    ls = text.rfind("\n", 0, q) + 1
    seg = text[ls:q]
    return len(re.findall(r'(?<!\\)"', seg)) % 2 == 1


def _stmt_end(text, q):
    depth = 0
    i = q
    n = len(text)
    while i < n:
        c = text[i]
        if c == '"' or (c == "'" and not text[i - 1].isalnum()):
            i = _skip_literal(text, i)
            continue
        if c in "([{":
            depth += 1
        elif c in ")]}":
            depth -= 1
        elif c == ";" and depth == 0:
            return i
        i += 1
    raise LiftError("statement end not found")


class Auto(Rule):
    """`auto [const] x = init;` and `for (auto x = init; ...` -> `__typeof__(init) [const] x = init` (value
    declarations only; references need a unit rule).  The declared type is whatever C's typeof gives for the
    (already rewritten) initialiser -- run it after the rules that translate the initialiser to C."""

    def __init__(self, n="+"):
        self.n = n

    def apply(self, text):
        out, pos, k = [], 0, 0
        for m in re.finditer(r"\bauto(\s+const)?\s+(\w+)\s*=\s*", text):
            if m.start() < pos:
                continue
            # initialiser extends to the next top-level ';' (or ',' at depth 0 is not supported)
            end = _stmt_end(text, m.end())
            init = text[m.end():end].strip()
            out.append(text[pos:m.start()])
            out.append("__typeof__(%s)%s %s = %s" % (init, m.group(1) or "", m.group(2), init))
            pos = end
            k += 1
        out.append(text[pos:])
        self.check(k, "Auto")
        return "".join(out)


class TryCatch(Rule):
    """`try { A } catch (...) { B }` -> `{ vx_exc = 0; A  vx_catch_k: if (vx_exc) { B } }` where calls
    marked may-throw (THROWS(...) macros inserted by other rules) jump to the handler.
    Lowering used: try {A} catch(..){B}  ==>  { A } if (VX_CAUGHT()) { B }
    with VX_MAYTHROW(stmt) in A expanded by the prelude to: if (nondet) { vx_exc=1; goto handler }.
    """

    def __init__(self, n=1, catch_pat=r"catch\s*\([^)]*\)"):
        self.n, self.catch_pat = n, catch_pat

    def apply(self, text):
        k = 0
        while True:
            m = re.search(r"\btry\s*\{", text)
            if not m:
                break
            k += 1
            op = m.end() - 1
            cl = match_close(text, op, "{", "}")
            mc = re.match(r"\s*" + self.catch_pat + r"\s*\{", text[cl + 1 :], re.S)
            if not mc:
                raise LiftError("try without recognised catch")
            cop = cl + 1 + mc.end() - 1
            ccl = match_close(text, cop, "{", "}")
            A = text[op + 1 : cl]
            Bk = text[cop + 1 : ccl]
            lab = "vx_handler_%d" % k
            A = A.replace("VX_THROW_POINT", "VX_THROW_TO(%s)" % lab).replace("VX_THROW_NOW", "goto %s" % lab)
            rep = "{ VX_TRY_BEGIN(%d); { %s } goto vx_after_%d; %s: VX_CATCH_BEGIN(%d); { %s } vx_after_%d: ; }" % (
                k, A, k, lab, k, Bk, k)
            text = text[: m.start()] + rep + text[ccl + 1 :]
        self.check(k, "TryCatch")
        return text


def _stmt_past(text, i):
    """index just past the statement that starts at (or after white space from) i: a block, an if/else chain, a loop, or a
    simple statement ending in ';' (top level)"""
    n = len(text)
    while i < n and text[i].isspace():
        i += 1
    if text[i] == "{":
        return match_close(text, i, "{", "}") + 1
    m = re.match(r"(if|while|for|switch)\b\s*\(", text[i:])
    if m:
        cl = match_close(text, i + m.end() - 1)
        e = _stmt_past(text, cl + 1)
        if m.group(1) == "if":
            me = re.match(r"\s*else\b", text[e:])
            if me:
                return _stmt_past(text, e + me.end())
        return e
    m = re.match(r"do\b", text[i:])
    if m:
        e = _stmt_past(text, i + m.end())
        me = re.match(r"\s*while\s*\(", text[e:])
        cl = match_close(text, e + me.end() - 1)
        return text.index(";", cl) + 1
    depth = 0
    while i < n:
        c = text[i]
        if c == '"' or (c == "'" and not (i > 0 and text[i - 1].isalnum())):
            i = _skip_literal(text, i)
            continue
        if c in "([{":
            depth += 1
        elif c in ")]}":
            depth -= 1
        elif c == ";" and depth == 0:
            return i + 1
        i += 1
    raise LiftError("statement without end")


class IfInit(Rule):
    """C++17 `if (init; cond) S [else S2]`  ->  `{ init; if (cond) S [else S2] }`: the variable declared by the init-statement lives
    exactly as long as the if statement (RAII guards declared there are released at ITS end, not at the end of the enclosing block)"""

    n = None

    def apply(self, text):
        scan = 0
        while True:
            m = re.compile(r"\bif\s*(?:constexpr\s*)?\(").search(text, scan)
            if not m:
                return text
            scan = m.end()
            if _in_literal(text, m.start()):
                continue
            op = m.end() - 1
            try:
                cl = match_close(text, op)
            except LiftError:
                continue          # a fragment that ends inside this condition: nothing to lower
            parts, depth, last = [], 0, op + 1
            j = op + 1
            while j < cl:
                c = text[j]
                if c == '"' or (c == "'" and not text[j - 1].isalnum()):
                    j = _skip_literal(text, j)
                    continue
                if c in "([{":
                    depth += 1
                elif c in ")]}":
                    depth -= 1
                elif c == ";" and depth == 0:
                    parts.append(text[last:j]); last = j + 1
                j += 1
            parts.append(text[last:cl])
            if len(parts) != 2:
                continue
            try:
                end = _stmt_past(text, m.start())
            except (LiftError, ValueError, IndexError, AttributeError):
                raise LiftError("if-with-initialiser whose statement cannot be delimited")
            rep = "{ %s; if (%s)%s }" % (parts[0].strip(), parts[1].strip(), text[cl + 1:end])
            text = text[:m.start()] + rep + text[end:]
            scan = m.start() + 2


# applied first (before the unit rules): `for (;;)` and `while (true)` are the same loop as `while (1)` (CBMC's contract
# instrumentation names the latter's obligations; unit rules that key on `while (` see one spelling)
PRE_RULES = [
    Sub(r"\bfor\s*\(\s*;\s*;\s*\)", "while (1)", None),
    Sub(r"\bwhile\s*\(\s*true\s*\)", "while (1)", None),
    # for (init;; step): an empty condition is `true`; CBMC silently drops a loop contract on a for-loop without a condition
    Sub(r"\bfor\s*\(([^;(){}]+);\s*;(?=[^;(){}]*\))", r"for (\1; 1;", None),
    IfInit(),
]

def _static_local(m):
    init = m.group(4)
    if not re.search(r"[\w>\]]\s*\(|\.|->", init):      # compile-time constant: a plain static is the same in C
        return m.group(0)
    ty = " ".join((m.group(1) + " " + (m.group(2) or "")).replace("constexpr", "").split())
    return "%s %s = (%s);" % (ty, m.group(3), init.strip())


# function-local static initialised at run time: lowered to a plain local, i.e. the initialiser is evaluated by THIS call
# ("first call" semantics).  That is exact when the initialiser reads only immutable facts; where a unit's environment model
# knows that the value can change between calls, the unit lowers the declaration itself BEFORE this rule fires (unit rules
# run first on `static`; example: specs/C15 -- a cached process mask is a stale mask).  Assumption A-STATIC in the evidence.
STATIC_LOCAL_RULE = Sub(r"\bstatic\s+((?:const\s+|constexpr\s+)*(?:struct\s+)?[\w:<>]+(?:\s*[*&])?)\s+((?:const\s+)?)(\w+)\s*=\s*([^;{}]+);", _static_local, None)

GENERIC_RULES = [
    STATIC_LOCAL_RULE,
    DropStmt(r"\bPIKA_LOG", None),
    DropStmt(r"\bLTM_", None),
    DropStmt(r"\bLTHM_", None),
    Sub(r"\[\[\s*\w+(::\w+)?\s*(\([^\]]*\))?\s*\]\]", "", None),
    Sub(r"\bnoexcept\b(\s*\((?:[^()]|\([^()]*\))*\))?", "", None),
    Sub(r"\b(constexpr|PIKA_FORCEINLINE|PIKA_EXPORT|inline)\b", "", None),
    Call(r"\bPIKA_(?:UN)?LIKELY", "({args})", None),
    Sub(r",\s*std::memory_order(?:_|::)\w+", "", None),
    Sub(r"\(\s*std::memory_order(?:_|::)\w+\s*\)", "()", None),
    Call(r"\bPIKA_ASSERT_MSG", "VX_PIKA_ASSERT({0})", None),
    Call(r"\bPIKA_ASSERT_OWNS_LOCK", "VX_ASSERT_OWNS_LOCK({args})", None),
    Call(r"\bPIKA_ASSERT_LOCKED", "VX_PIKA_ASSERT({1})", None),
    Call(r"\bPIKA_ASSERT", "VX_PIKA_ASSERT({args})", None),
    Sub(r"\bstatic_cast\s*<([^<>]*(?:<[^<>]*>)?[^<>]*)>\s*\(", r"(\1)(", None),
    Sub(r"\bnullptr\b", "NULL", None),
    Call(r"\bstd::move", "({args})", None),
    Sub(r"\bstd::((?:u?int(?:8|16|32|64)_t)|size_t|ptrdiff_t|uintptr_t|intptr_t)\b", r"\1", None),
    Sub(r"\bPIKA_UNREACHABLE\b", "VX_UNREACHABLE()", None),
]


# applied last (after the unit's `post` rules): spellings that can never be valid C, so rewriting them can only turn an
# extraction failure into a decidable unit -- a local introduced by a harmless refactoring (`auto const r = f();`,
# `pika::threads::detail::thread_restart_state const reason = ...`) must not make the unit undecided
FALLBACK_RULES = [
    Sub(r"(?:\b\w+::)+(?:thread_restart_state|thread_schedule_state|thread_priority|thread_stacksize|runtime_state)(\s+const)?\s+(\w+)\s*(=|;)",
        r"int\1 \2 \3", None),
    Sub(r"\bstd::(?:size_t|ptrdiff_t|u?int(?:8|16|32|64)_t)\b", lambda m: m.group(0)[5:], None),
    # functional cast of a builtin integer type: std::size_t(-1) -> ((size_t)(-1))
    Sub(r"(?<![\w.>:])(size_t|ptrdiff_t|u?int(?:8|16|32|64)_t)\((-?\w+)\)", r"((\1)(\2))", None),
    Auto(None),
]


def apply_rules(text, rules):
    for r in rules:
        text = r.apply(text)
    return text


# --------------------------------------------------------------------------------------------
# loop contracts


def splice_loops(text, loops):
    """loops: {ordinal(1-based, textual order of for/while/do): contract text}.  The number of loops
    found must equal loops['count'] if given."""
    found = []  # (insert_pos, kind)
    consumed_while = set()
    for m in re.finditer(r"\b(for|while|do)\b", text):
        q = m.start()
        if _in_literal(text, q):
            continue
        kw = m.group(1)
        if kw == "do":
            j = m.end()
            while text[j].isspace():
                j += 1
            if text[j] != "{":
                raise LiftError("do without block")
            cl = match_close(text, j, "{", "}")
            w = re.match(r"\s*while\b", text[cl + 1 :])
            if not w:
                raise LiftError("do-block without while")
            consumed_while.add(cl + 1 + w.end() - 5)
            found.append((m.end(), "do", q))
        else:
            if kw == "while" and q in consumed_while:
                continue
            j = m.end()
            while text[j].isspace():
                j += 1
            if text[j] != "(":
                continue
            cl = match_close(text, j)
            found.append((cl + 1, kw, q))
    if loops and "by_pattern" in loops:
        # contracts attached by what the loop looks like (regex on the text starting at its keyword) instead of by ordinal: an edit
        # under test may remove one of several loops; an optional pattern that matches no loop is skipped, a loop that matches no
        # pattern is an extraction failure (an uncontracted loop cannot be verified unboundedly)
        used = set()
        inserts = []
        for (pos, kw, q) in found:
            hit = None
            for k, (pat, contract, required) in enumerate(loops["by_pattern"]):
                if k not in used and re.match(pat, text[q:q + 400], re.S):
                    hit = k
                    break
            if hit is None:
                raise LiftError("loop at offset %d (%s) matches no loop-contract pattern" % (q, kw))
            used.add(hit)
            inserts.append((pos, loops["by_pattern"][hit][1]))
        for k, (pat, contract, required) in enumerate(loops["by_pattern"]):
            if required and k not in used:
                raise LiftError("required loop /%s/ not found" % pat)
        for pos, contract in sorted(inserts, reverse=True):
            text = text[:pos] + "\n" + contract.strip() + "\n" + text[pos:]
        return text, len(found)
    expect = loops.get("count") if loops else None
    if expect is not None and expect != len(found):
        if loops.get("allow_missing") and len(found) == 0:
            # every loop of the function was removed by the edit under test: verify the loop-free text without loop contracts
            # (a deleted re-check loop must FAIL an obligation, not the extraction)
            return text, 0
        raise LiftError("loop census: found %d loops, spec expects %d" % (len(found), expect))
    if not loops:
        return text, len(found)
    for ordinal in sorted([k for k in loops if isinstance(k, int)], reverse=True):
        if ordinal < 1 or ordinal > len(found):
            raise LiftError("loop contract for loop %d but only %d loops found" % (ordinal, len(found)))
        pos = found[ordinal - 1][0]
        text = text[:pos] + "\n" + loops[ordinal].strip() + "\n" + text[pos:]
    return text, len(found)


# --------------------------------------------------------------------------------------------


class Lift:
    """One lifted function (or fragment)."""

    def __init__(self, src, locate, rules=(), loops=None, which=0, expect=1, ctor=False,
                 fragment_end=None, generic=True, post=(), keep_braces=True, optional=False):
        self.src, self.locate, self.rules, self.loops = src, locate, list(rules), loops or {}
        self.which, self.expect, self.ctor = which, expect, ctor
        self.fragment_end, self.generic, self.post = fragment_end, generic, list(post)
        self.keep_braces = keep_braces
        # optional: a small helper that a refactoring may fold into its caller; when the locator matches nothing the
        # helper is lifted as an empty body (a remaining call of a function that no longer exists would not compile as C++)
        self.optional = optional

    def run(self):
        try:
            if self.fragment_end:
                body, line, header = locate_fragment(self.src, self.locate, self.fragment_end)
            else:
                body, line, header = locate(self.src, self.locate, self.which, self.expect, self.ctor)
        except LiftError as e:
            if self.optional and "matched 0 times" in str(e):
                return {"text": "{ }", "line": 1, "file": self.src, "raw": "", "nloops": 0, "header": "", "absent": True}
            raise
        raw = body
        body = resolve_pp(body)
        if self.generic:
            body = apply_rules(body, PRE_RULES)
        body = apply_rules(body, self.rules)
        if self.generic:
            body = apply_rules(body, GENERIC_RULES)
        body = apply_rules(body, self.post)
        if self.generic:
            body = apply_rules(body, FALLBACK_RULES)
        body, nloops = splice_loops(body, self.loops)
        if not self.keep_braces:
            body = body.strip()[1:-1]
        return {"text": body, "line": line, "file": self.src, "raw": raw, "nloops": nloops,
                "header": header}
