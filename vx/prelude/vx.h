/* vx.h -- common prelude of every verification unit (CBMC mode and native replay mode).
 * CBMC mode:    -DVX_CBMC   (goto-cc does not predefine __CPROVER__)
 * native mode:  -DVX_NATIVE (gcc; nondet_* pop the values recorded in the counterexample trace) */
#ifndef VX_H
#define VX_H
#include <stdint.h>
#include <stddef.h>
#include <stdbool.h>
#include <limits.h>

#define VX_STR2(x) #x
#define VX_STR(x) VX_STR2(x)

#ifdef VX_CBMC
#define VX_ASSERT(c, msg) __CPROVER_assert((c), msg)
#define VX_ASSUME(c) __CPROVER_assume(c)
/* reachability marker: this assertion MUST fail (vacuity guard, DESIGN 3.5) */
#define VX_REACH(tag) __CPROVER_assert(0, "vx_reach:" tag)
#define VX_IMPLIES(a, b) (!(a) || (b))
/* every nondeterministic value flows through a local named vx_nd_<type>, so that the counterexample trace
 * lists all of them in program order (vx/run.py reads them back for the native replay) */
#define VX_ND(T, name) T nondet_vxraw_##name(void); static T nondet_##name(void) { T vx_nd_##name = nondet_vxraw_##name(); return vx_nd_##name; }
VX_ND(_Bool, bool) VX_ND(char, char) VX_ND(int, int) VX_ND(unsigned, uint) VX_ND(long, long)
VX_ND(unsigned long, ulong) VX_ND(int8_t, i8) VX_ND(uint8_t, u8) VX_ND(int16_t, i16)
VX_ND(uint16_t, u16) VX_ND(int32_t, i32) VX_ND(uint32_t, u32) VX_ND(int64_t, i64)
VX_ND(uint64_t, u64) VX_ND(size_t, size) VX_ND(ptrdiff_t, ptrdiff)
#else /* ---------------- native replay ---------------- */
#include <stdio.h>
#include <stdlib.h>
#include <string.h>
struct vx_trace_item { const char *fn; long long v; };
extern struct vx_trace_item vx_trace[];
extern int vx_trace_len;
static int vx_trace_pos = 0;
static int vx_failed = 0;
static void vx_fail(const char *kind, const char *msg, const char *file, int line)
{
  printf("REPLAY-%s: %s (%s:%d)\n", kind, msg, file, line);
  fflush(stdout);
  if (!strcmp(kind, "DIVERGED")) exit(4);
  vx_failed = 1;
}
static long long vx_pop(const char *fn)
{
  /* best effort: CBMC's trace omits values that are irrelevant to the failed obligation; a request whose
   * name does not match the next recorded item gets 0 and consumes nothing.  Whatever values are used, a
   * reproduced failure is a genuine failing execution of the natively compiled lifted text. */
  int k;
  for (k = vx_trace_pos; k < vx_trace_len && k < vx_trace_pos + 1; k++)
    if (strcmp(vx_trace[k].fn, fn) == 0) { vx_trace_pos = k + 1; return vx_trace[k].v; }
  return 0;
}
#define VX_ASSERT(c, msg) do { if (!(c)) vx_fail("FAIL", msg, __FILE__, __LINE__); } while (0)
#define VX_ASSUME(c) do { if (!(c)) vx_fail("DIVERGED", "assumption " #c, __FILE__, __LINE__); } while (0)
#define VX_REACH(tag) do { printf("REPLAY-REACHED: %s\n", tag); } while (0)
#define VX_IMPLIES(a, b) (!(a) || (b))
#define __CPROVER_assert(c, msg) VX_ASSERT(c, msg)
#define __CPROVER_assume(c) VX_ASSUME(c)
#define __CPROVER_requires(...)
#define __CPROVER_ensures(...)
#define __CPROVER_assigns(...)
#define __CPROVER_frees(...)
#define __CPROVER_loop_invariant(...)
#define __CPROVER_decreases(...)
#define VX_ND(T, name) static T nondet_##name(void) { return (T) vx_pop("nondet_" #name); }
VX_ND(_Bool, bool) VX_ND(char, char) VX_ND(int, int) VX_ND(unsigned, uint) VX_ND(long, long)
VX_ND(unsigned long, ulong) VX_ND(int8_t, i8) VX_ND(uint8_t, u8) VX_ND(int16_t, i16)
VX_ND(uint16_t, u16) VX_ND(int32_t, i32) VX_ND(uint32_t, u32) VX_ND(int64_t, i64)
VX_ND(uint64_t, u64) VX_ND(size_t, size) VX_ND(ptrdiff_t, ptrdiff)
#endif

/* the authors' own assertions become proof obligations */
#define VX_PIKA_ASSERT(...) VX_ASSERT((__VA_ARGS__), "PIKA_ASSERT(" #__VA_ARGS__ ")")
#define VX_UNREACHABLE() VX_ASSERT(0, "PIKA_UNREACHABLE reached")


/* lowered try/catch (vx.lift.TryCatch): a call marked VX_THROW_POINT may transfer control to the handler */
#ifndef VX_TRY_BEGIN
#define VX_TRY_BEGIN(k) ((void) 0)
#define VX_CATCH_BEGIN(k) ((void) 0)
#define VX_THROW_TO(label) do { if (nondet_bool()) goto label; } while (0)
#endif

#endif
