/* monitor.h -- M-contracts (DESIGN 3.3): state protected by an internal lock.
 * The client template defines, before including this header:
 *   MON_AT_RELEASE()   assert the monitor invariant (an obligation at every release point)
 *   MON_AT_ACQUIRE()   havoc the protected state under invariant /\ rely (environment step)
 * TRUSTED: the lock gives mutual exclusion (A-LOCK); std::unique_lock semantics as modelled here. */
#ifndef VX_MONITOR_H
#define VX_MONITOR_H
#include "vx.h"

struct vx_mutex { bool held; };
struct ulock { struct vx_mutex *m; bool owns; };

static void mon_release(struct vx_mutex *m)
{
  VX_ASSERT(m->held, "lock discipline: unlock of a lock that is not held");
  MON_AT_RELEASE();
  m->held = false;
}
static void mon_acquire(struct vx_mutex *m)
{
  VX_ASSERT(!m->held, "lock discipline: lock taken twice by the same agent (self-deadlock)");
  MON_AT_ACQUIRE();
  m->held = true;
}
/* std::unique_lock<M> l(m) */
static struct ulock ulock_make(struct vx_mutex *m)
{
  struct ulock l;
  mon_acquire(m);
  l.m = m;
  l.owns = true;
  return l;
}
/* std::unique_lock<M> l(m, std::try_to_lock): may fail (the lock is held by another agent); nothing is acquired then */
static struct ulock ulock_try(struct vx_mutex *m)
{
  struct ulock l;
  bool vx_nd_try = nondet_bool();
  l.m = m;
  l.owns = false;
  if (!m->held && vx_nd_try) { mon_acquire(m); l.owns = true; }
  return l;
}
static bool ulock_owns(struct ulock *l) { return l->owns; }
/* ~unique_lock */
static void ulock_dtor(struct ulock *l)
{
  if (l->owns) { mon_release(l->m); l->owns = false; }
}
static void ulock_unlock(struct ulock *l)
{
  VX_ASSERT(l->owns, "unique_lock::unlock without ownership");
  mon_release(l->m);
  l->owns = false;
}
static void ulock_lock(struct ulock *l)
{
  VX_ASSERT(!l->owns, "unique_lock::lock while owning");
  mon_acquire(l->m);
  l->owns = true;
}
/* std::move(l) into a by-value parameter */
static struct ulock ulock_move(struct ulock *l)
{
  struct ulock r = *l;
  l->owns = false;
  return r;
}
/* l = std::unique_lock<M>(m)  (move assignment: releases what it owned first) */
static void ulock_assign(struct ulock *l, struct ulock r)
{
  if (l->owns) mon_release(l->m);
  *l = r;
}
static bool vx_owns_p(struct ulock *l) { return l->owns && l->m->held; }
static bool vx_owns_v(struct ulock l) { return l.owns && l.m->held; }
#define VX_ASSERT_OWNS_LOCK(x) \
  VX_ASSERT(_Generic((x), struct ulock *: vx_owns_p, struct ulock: vx_owns_v)(x), "PIKA_ASSERT_OWNS_LOCK")

enum thread_restart_state {
  thread_restart_state_unknown = 0, thread_restart_state_signaled = 1, thread_restart_state_timeout = 2,
  thread_restart_state_terminate = 3, thread_restart_state_abort = 4 };

#endif
