"""vx.census -- supporting static facts checked on every run (DESIGN 3.4 A-CLOSED, prelude/enum agreement).
A spec lists them as  STATIC = [sites(...), enum(...), ...]; a fact that no longer holds makes the property
UNDECIDED (exit 2): the contracts were written against a different set of write sites / enumerator values."""
import glob
import os
import re

from . import lift as L


def sites(name, paths, pattern, expect, note=""):
    """exactly `expect` textual matches of `pattern` (comments stripped) in the files matched by the globs `paths`
    (relative to the repository root).  Used for mutator closure: every write site of a shared word is a lifted unit."""
    def run():
        n, where = 0, []
        files = []
        for g in paths:
            files += sorted(glob.glob(os.path.join(L.REPO, g), recursive=True))
        for f in files:
            rel = os.path.relpath(f, L.REPO)
            src = L.read_source(rel)
            for m in re.finditer(pattern, src):
                n += 1
                where.append("%s:%d" % (rel, src.count("\n", 0, m.start()) + 1))
        ok = (n == expect)
        return ok, "census %s: %d site(s) of /%s/ (expected %d)%s %s" % (name, n, pattern, expect, "" if ok else " -- UNVERIFIED MUTATOR or removed site:", ", ".join(where[:12]))
    run.fact_name = name
    run.note = note
    return run


def enum(name, path, enum_name, expected):
    """the enumerators of `enum [class] enum_name` in `path` have exactly the values in `expected` (those the
    prelude / templates hard-code); missing explicit values count up from the previous one as in C++."""
    def run():
        src = L.read_source(path)
        m = re.search(r"enum\s+(?:class\s+)?%s\b[^{;]*\{(.*?)\}" % re.escape(enum_name), src, re.S)
        if not m:
            return False, "enum %s not found in %s" % (enum_name, path)
        vals, nxt = {}, 0
        for item in m.group(1).split(","):
            item = item.strip()
            if not item:
                continue
            mm = re.match(r"(\w+)\s*(?:=\s*(.+))?$", item, re.S)
            if not mm:
                continue
            if mm.group(2) is not None:
                try:
                    nxt = int(mm.group(2).strip().rstrip("uUlL"), 0)
                except ValueError:
                    if mm.group(2).strip() in vals:
                        nxt = vals[mm.group(2).strip()]
                    else:
                        return False, "enum %s: cannot evaluate '%s'" % (enum_name, item)
            vals[mm.group(1)] = nxt
            nxt += 1
        bad = {k: (v, vals.get(k)) for k, v in expected.items() if vals.get(k) != v}
        return (not bad), "enum %s in %s: %s" % (enum_name, path, "agrees with the prelude" if not bad else "DISAGREES with the prelude (expected, found): %r" % bad)
    run.fact_name = name
    run.note = ""
    return run
