"""vx.run -- build, verify (goto-cc / goto-instrument --dfcc / cbmc), parse, replay, evidence."""
import concurrent.futures as cf
import hashlib
import json
import os
import re
import shutil
import subprocess
import sys
import time

from . import lift as L

VERIF = os.path.dirname(os.path.dirname(os.path.abspath(__file__)))
PRELUDE = os.path.join(VERIF, "vx", "prelude")

DEFAULT_FLAGS = ["--bounds-check", "--pointer-check", "--signed-overflow-check", "--div-by-zero-check",
                 "--undefined-shift-check", "--pointer-overflow-check"]


class Unit:
    """One verification unit.

    name      unique name inside the property
    template  C template (relative to the spec directory) with //@LIFT <key> markers
    lifts     {key: vx.lift.Lift}
    enforce   function whose contract is enforced (None for lemma harnesses over contracts)
    replace   callees replaced by their contracts (modular step)
    kind      'proof' | 'lemma' | 'bounded'
    tier      'quick' (run in both tiers) | 'thorough' (thorough only)
    defines   extra -D for this instance (template instantiation parameters)
    reach     reach tags that must be present and must FAIL (vacuity guard); None = every tag present
    """

    def __init__(self, name, template, lifts=None, enforce=None, replace=(), entry="harness", kind="proof",
                 tier="quick", defines=(), flags=None, extra_flags=(), unwind=None, min_obligations=1,
                 loop_contracts=None, timeout=None, funcs=None, doc="", solver=None, object_bits=None,
                 no_replay=False):
        self.name, self.template, self.lifts = name, template, lifts or {}
        self.enforce, self.replace, self.entry = enforce, list(replace), entry
        self.kind, self.tier, self.defines = kind, tier, list(defines)
        self.flags = list(DEFAULT_FLAGS if flags is None else flags) + list(extra_flags)
        self.unwind, self.min_obligations = unwind, min_obligations
        self.loop_contracts, self.timeout = loop_contracts, timeout
        self.funcs = funcs or []  # human readable list "file: function" under contract
        self.doc, self.solver, self.object_bits = doc, solver, object_bits
        self.no_replay = no_replay


# --------------------------------------------------------------------------------------------


def _sh(cmd, timeout, mem_gb=8, cwd=None):
    pre = "ulimit -v %d; " % (mem_gb * 1024 * 1024)
    t0 = time.time()
    try:
        p = subprocess.run(["bash", "-c", pre + "exec " + " ".join(_q(c) for c in cmd)], cwd=cwd,
                           stdout=subprocess.PIPE, stderr=subprocess.PIPE, timeout=timeout)
        return p.returncode, p.stdout.decode("utf-8", "replace"), p.stderr.decode("utf-8", "replace"), time.time() - t0
    except subprocess.TimeoutExpired as e:
        return -9, (e.stdout or b"").decode("utf-8", "replace"), "TIMEOUT", time.time() - t0


def _q(s):
    return "'" + s.replace("'", "'\\''") + "'"


def _widen_loop_frames(text, names):
    """Prepend `names` to the assigns clause of every LOOP contract (an assigns clause followed by a loop invariant) that lies in
    the scope of the name's declaration (declared textually before the loop, in the same lifted function)."""
    out, pos = [], 0
    for m in re.finditer(r"__CPROVER_assigns\(", text):
        if m.start() < pos:
            continue
        cl = L.match_close(text, m.end() - 1)
        rest = text[cl + 1:cl + 400]
        if re.match(r"(\s|\\\n)*__CPROVER_loop_invariant", rest):
            fstart = text.rfind("\n#line ", 0, m.start())
            before = text[max(fstart, 0):m.start()]
            add = [n for n in names if re.search(r"(?:\w|\*)[\s\*]+%s\s*(?:=[^=]|;)" % re.escape(n), before)]
            inner = text[m.end():cl]
            out.append(text[pos:m.end()])
            out.append(", ".join(add) + (", " if add and inner.strip() else "") + inner)
            pos = cl
    out.append(text[pos:])
    return "".join(out)


def _loop_assigns_spans(text):
    spans = []
    for m in re.finditer(r"__CPROVER_assigns\(", text):
        cl = L.match_close(text, m.end() - 1)
        if re.match(r"(\s|\\\n)*__CPROVER_loop_invariant", text[cl + 1:cl + 400]):
            spans.append((m.end(), cl))
    return spans


def _frame_names(text):
    """simple identifiers named in loop assigns clauses"""
    names = []
    for a, b in _loop_assigns_spans(text):
        names += [x.strip() for x in L.split_args(text[a:b]) if re.fullmatch(r"\s*[A-Za-z_]\w*\s*", x)]
    return sorted(set(names))


def _drop_frame_names(text, drop):
    out, pos = [], 0
    for a, b in _loop_assigns_spans(text):
        keep = [x.strip() for x in L.split_args(text[a:b]) if x.strip() not in drop]
        out.append(text[pos:a]); out.append(", ".join(keep)); pos = b
    out.append(text[pos:])
    return "".join(out)


def render(unit, specdir, outdir, widen=(), drop=()):
    """Produce the C translation unit of `unit`; returns (path, info)."""
    tpath = os.path.join(specdir, unit.template)
    tpl = open(tpath).read()
    info = {"lifted": [], "lifted_text": ""}
    used = set()

    def sub(m):
        key = m.group(1)
        if key not in unit.lifts:
            # marker belongs to another unit of the same template (inside an inactive #ifdef block); if it
            # were active the placeholder does not compile, so a forgotten lift cannot pass silently
            return "VX_NOT_LIFTED_IN_THIS_UNIT(%s)" % key
        used.add(key)
        r = unit.lifts[key].run()
        info["lifted_text"] += "\n" + r["text"]
        info["lifted"].append({"key": key, "file": r["file"], "line": r["line"], "loops": r["nloops"],
                               "sha1_raw": hashlib.sha1(r["raw"].encode()).hexdigest()[:12],
                               "raw_lines": r["raw"].count("\n") + 1})
        return '\n#line %d "%s"\n%s\n#line 1 "vx_after_%s"\n' % (r["line"], os.path.join(L.REPO, r["file"]), r["text"], key)

    text = re.sub(r"^[ \t]*//@LIFT[ \t]+(\w+)[ \t]*$", sub, tpl, flags=re.M)
    for k in unit.lifts:
        if k not in used:
            raise L.LiftError("lift '%s' of unit %s is not used by template %s" % (k, unit.name, unit.template))
    os.makedirs(outdir, exist_ok=True)
    path = os.path.join(outdir, unit.name + ".c")
    lines = text.split("\n")
    for i, ln in enumerate(lines):
        if ln.startswith('#line 1 "vx_after_'):
            lines[i] = '#line %d "%s"' % (i + 2, path)
    text = "\n".join(lines)
    info["frame_names"] = _frame_names(text)
    if drop:
        text = _drop_frame_names(text, set(drop))
    if widen:
        text = _widen_loop_frames(text, list(widen))
    with open(path, "w") as f:
        f.write(text)
    info["template"] = tpl
    info["text"] = text
    return path, info


def verify_unit(unit, prop, specdir, outroot, tier, budget):
    """verify one unit; if the ONLY failed obligations are loop-frame checks on locals of the lifted text (a refactoring introduced
    a loop-carried local, e.g. `for (T* next = 0; ...)`), those locals are added to the loop contracts' assigns clauses and the unit
    is verified again: havocking a variable the invariants do not mention only weakens what is known, so this is sound."""
    widen, drop = [], []
    for _round in range(4):
        res = _verify_unit_once(unit, prop, specdir, outroot, tier, budget, tuple(widen), tuple(drop))
        if res["status"] == "undecided":
            # a loop frame names a local that no longer exists (renamed by a refactoring): drop the stale name and try again
            m = re.search(r"failed to find symbol '(\w+)'", res.get("reason", ""))
            if m and m.group(1) not in drop and m.group(1) in res.get("_frame_names", ()):
                drop.append(m.group(1))
                continue
            break
        if res["status"] != "failed":
            break
        names = []
        for r in res.get("_raw_failed", []):
            m = re.match(r"Check that (\w+) is assignable", r.get("description", ""))
            if not (m and ".assigns." in r.get("property", "")):
                names = None
                break
            names.append(m.group(1))
        lt = res.get("_info", {}).get("lifted_text", "")
        # only locals DECLARED in the lifted text (never ghost state or parameters of the hand-written signature)
        if not names or any(n in widen or not re.search(r"(?:\w|\*)[\s\*]+%s\s*(?:=[^=]|;)" % re.escape(n), lt) for n in names):
            break
        widen += sorted(set(names))
    if widen:
        res["loop_frames_widened_by"] = list(widen)
    if drop:
        res["stale_loop_frame_names_dropped"] = list(drop)
    return res


def _verify_unit_once(unit, prop, specdir, outroot, tier, budget, widen=(), drop=()):
    """Returns a result dict; never raises (errors become status 'undecided')."""
    t0 = time.time()
    res = {"unit": unit.name, "kind": unit.kind, "status": "undecided", "reason": "", "obligations": 0,
           "discharged": 0, "failed": [], "reach_ok": [], "reach_missing": [], "solver_s": 0.0,
           "wall_s": 0.0, "backend": "cbmc 6.11 built-in SAT (MiniSat2)", "funcs": unit.funcs,
           "lifted": [], "bound": unit.unwind, "cmds": []}
    outdir = os.path.join(outroot, unit.name)
    try:
        shutil.rmtree(outdir, ignore_errors=True)
        cpath, info = render(unit, specdir, outdir, widen, drop)
        res["lifted"] = info["lifted"]
        res["_frame_names"] = info.get("frame_names", [])
        res["c_file"] = cpath
    except L.LiftError as e:
        res["reason"] = "extraction failure: %s" % e
        res["wall_s"] = time.time() - t0
        return res
    except Exception as e:  # template problems
        res["reason"] = "render error: %r" % e
        res["wall_s"] = time.time() - t0
        return res
    timeout = unit.timeout or budget["timeout"]
    gb1 = os.path.join(outdir, "a.gb")
    gb2 = os.path.join(outdir, "b.gb")
    tdir = os.path.dirname(os.path.normpath(os.path.join(specdir, unit.template)))
    cmd1 = ["goto-cc", "-DVX_CBMC", "-I", PRELUDE, "-I", specdir, "-I", tdir, "-I", os.path.dirname(tdir), "--function", unit.entry] + \
        ["-D" + d for d in unit.defines] + [cpath, "-o", gb1]
    rc, so, se, _ = _sh(cmd1, 120)
    res["cmds"].append(" ".join(cmd1))
    if rc != 0:
        res["reason"] = "goto-cc failed: " + (se + so)[-1500:]
        res["wall_s"] = time.time() - t0
        return res
    has_loops = unit.loop_contracts
    if has_loops is None:
        has_loops = "__CPROVER_loop_invariant" in info["text"]
    needs_instr = bool(unit.enforce or unit.replace or has_loops)
    if needs_instr:
        cmd2 = ["goto-instrument", "--dfcc", unit.entry]
        if unit.enforce:
            cmd2 += ["--enforce-contract", unit.enforce]
        for r in unit.replace:
            cmd2 += ["--replace-call-with-contract", r]
        if has_loops:
            cmd2 += ["--apply-loop-contracts"]
        cmd2 += [gb1, gb2]
        rc, so, se, _ = _sh(cmd2, 300)
        res["cmds"].append(" ".join(cmd2))
        if rc != 0:
            res["reason"] = "goto-instrument failed: " + (se + so)[-1500:]
            res["wall_s"] = time.time() - t0
            return res
    else:
        gb2 = gb1
    cmd3 = ["cbmc", gb2] + unit.flags + ["--trace", "--json-ui"]
    if unit.unwind:
        cmd3 += ["--unwind", str(unit.unwind), "--unwinding-assertions"]
    if unit.object_bits:
        cmd3 += ["--object-bits", str(unit.object_bits)]
    if unit.solver:
        cmd3 += unit.solver
        res["backend"] = "cbmc 6.11 " + " ".join(unit.solver)
    rc, so, se, dt = _sh(cmd3, timeout, budget["mem_gb"])
    res["cmds"].append(" ".join(cmd3))
    with open(os.path.join(outdir, "cbmc.json"), "w") as f:
        f.write(so)
    if se == "TIMEOUT":
        res["reason"] = "cbmc timeout after %ds" % timeout
        res["wall_s"] = time.time() - t0
        return res
    try:
        doc = json.loads(so)
    except Exception:
        res["reason"] = "cbmc produced no JSON (rc=%d): %s" % (rc, (se + so)[-800:])
        res["wall_s"] = time.time() - t0
        return res
    results = None
    msgs = []
    for item in doc:
        if "result" in item:
            results = item["result"]
        if "messageText" in item:
            msgs.append(item["messageText"])
    alltext = "\n".join(msgs)
    for m in re.finditer(r"Runtime (?:decision procedure|Solver): ([0-9.]+)s", alltext):
        res["solver_s"] += float(m.group(1))
    if results is None:
        res["reason"] = "cbmc gave no result list (rc=%d): %s" % (rc, alltext[-1200:])
        res["wall_s"] = time.time() - t0
        return res
    if re.search(r"ignoring (forall|exists)|Parse Error", alltext):
        res["reason"] = "log scan: quantifier ignored / parse error"
        res["wall_s"] = time.time() - t0
        return res
    obligations, failed, reach_fail, reach_pass = [], [], [], []
    n_step = 0
    for r in results:
        desc = r.get("description", "")
        pid = r.get("property", "")
        if desc.startswith("vx_reach:"):
            (reach_fail if r["status"] == "FAILURE" else reach_pass).append(desc[9:])
            continue
        if "loop_invariant_step" in pid or "loop invariant step" in desc.lower() or "invariant after step" in desc.lower():
            n_step += 1
        obligations.append(r)
        if r["status"] != "SUCCESS":
            failed.append(r)
    res["obligations"] = len(obligations)
    res["discharged"] = len([r for r in obligations if r["status"] == "SUCCESS"])
    res["reach_ok"] = sorted(set(reach_fail))
    res["reach_missing"] = sorted(set(reach_pass) - set(reach_fail))
    res["samples"] = [_short(r) for r in obligations[:: max(1, len(obligations) // 4)]][:5]
    declared_loops = len(re.findall(r"__CPROVER_loop_invariant", info["text"])) > 0
    res["loop_step_obligations"] = n_step
    if failed:
        res["status"] = "failed"
        res["failed"] = [_fail_record(r) for r in failed]
        res["_raw_failed"] = failed
    elif res["reach_missing"] or not reach_fail:
        res["status"] = "undecided"
        res["reason"] = "vacuity guard: reach markers not reachable: %s" % (res["reach_missing"] or "none declared")
    elif res["obligations"] < unit.min_obligations:
        res["reason"] = "vacuity guard: %d obligations < min %d" % (res["obligations"], unit.min_obligations)
    elif declared_loops and has_loops and n_step == 0:
        res["reason"] = "vacuity guard: loop contract declared but no loop_invariant_step obligation generated"
    else:
        res["status"] = "proved" if unit.kind != "bounded" else "bounded-pass"
    # thorough tier: every proved unit is re-checked with a second SAT back end (CaDiCaL); disagreement => undecided
    if tier == "thorough" and res["status"] in ("proved", "bounded-pass") and not unit.solver:
        cmd4 = [c for c in cmd3 if c != "--trace"] + ["--sat-solver", "cadical"]
        rc4, so4, se4, dt4 = _sh(cmd4, timeout, budget["mem_gb"])
        ok2 = None
        try:
            doc4 = json.loads(so4)
            r4 = [it["result"] for it in doc4 if "result" in it]
            if r4:
                bad = [x for x in r4[0] if (x["status"] != "SUCCESS") != x.get("description", "").startswith("vx_reach:")]
                ok2 = not bad
        except Exception:
            ok2 = None
        res["second_backend"] = {"solver": "cbmc 6.11 --sat-solver cadical", "agrees": ok2, "wall_s": round(dt4, 2)}
        if ok2 is False:
            res["status"] = "undecided"
            res["reason"] = "back ends disagree: MiniSat2 proves the unit, CaDiCaL reports a failed obligation"
        elif ok2 is None:
            res["second_backend"]["note"] = "no result (timeout or tool error); the first back end's result stands"
    res["wall_s"] = time.time() - t0
    res["_info"] = info
    res["_gb1"] = gb1
    res["_has_loops"] = bool(has_loops)
    return res


_LINE_CACHE = {}


def _src_line(path, line):
    try:
        if path not in _LINE_CACHE:
            _LINE_CACHE[path] = open(path, errors="replace").read().split("\n")
        return " ".join(_LINE_CACHE[path][int(line) - 1].split())[:220]
    except Exception:
        return ""


def _short(r):
    sl = r.get("sourceLocation", {})
    desc = r.get("description", "")
    if re.match(r"Check (ensures|requires|invariant|that|decreases|variant)", desc) and sl.get("file"):
        f = sl["file"] if os.path.isabs(sl["file"]) else os.path.join(sl.get("workingDirectory", ""), sl["file"])
        t = _src_line(f, sl.get("line", "0"))
        if t:
            desc = desc + " :: " + t
    return {"obligation": r.get("property"), "description": desc,
            "at": "%s:%s" % (sl.get("file", "?"), sl.get("line", "?")), "status": r.get("status")}


def _fail_record(r):
    d = _short(r)
    vals = []
    for s in r.get("trace", []):
        if s.get("stepType") == "assignment" and not s.get("hidden"):
            lhs = str(s.get("lhs", ""))
            m = re.match(r"vx_nd_(\w+?)(\$\d+)?$", lhs)
            if m:
                v = s.get("value", {})
                vals.append(["nondet_" + m.group(1), _val(v)])
    d["nondet_trace"] = vals
    return d


def _val(v):
    if "binary" in v and v.get("width"):
        b = v["binary"]
        w = int(v["width"])
        x = int(b, 2)
        tp = v.get("type", "")
        if v.get("name") == "integer" and "unsigned" not in tp and tp not in ("_Bool",) and b[0] == "1" and len(b) == w:
            x -= 1 << w
        return x
    d = v.get("data")
    if d in ("TRUE", "true"):
        return 1
    if d in ("FALSE", "false"):
        return 0
    try:
        return int(re.sub(r"[uUlL]+$", "", str(d)))
    except Exception:
        return 0


# --------------------------------------------------------------------------------------------
# native replay


def _implies(expr):
    """rewrite a ==> b (lowest precedence, right assoc) into (!(a) || (b)); recurses into parens"""
    out, i, n = [], 0, len(expr)
    # first rewrite inside parenthesised groups
    while i < n:
        c = expr[i]
        if c == "(":
            j = L.match_close(expr, i)
            out.append("(" + _implies(expr[i + 1 : j]) + ")")
            i = j + 1
        else:
            out.append(c)
            i += 1
    flat = "".join(out)
    # split at top-level ==>
    parts, depth, cur, i = [], 0, [], 0
    while i < len(flat):
        c = flat[i]
        if c in "([":
            depth += 1
        elif c in ")]":
            depth -= 1
        if depth == 0 and flat.startswith("==>", i):
            parts.append("".join(cur))
            cur = []
            i += 3
            continue
        cur.append(c)
        i += 1
    parts.append("".join(cur))
    r = parts[-1]
    for a in reversed(parts[:-1]):
        r = "(!(%s) || (%s))" % (a, r)
    return r


def native_program(unit, info, trace_vals):
    """Build the native replay program text from the rendered template, or None if the contract uses
    constructs that cannot be evaluated natively."""
    text = info["text"]
    out = []
    pos = 0
    for m in re.finditer(r"^[ \t]*//@FUNC[ \t]*\n", text, re.M):
        start = m.end()
        # signature up to the first __CPROVER_ clause or '{' / '#line'
        mm = re.search(r"__CPROVER_\w+\s*\(|\n#line|\{", text[start:])
        if not mm:
            continue
        sig = re.sub(r"/\*.*?\*/|//[^\n]*", "", text[start : start + mm.start()], flags=re.S).strip()
        j = start + mm.start()
        clauses = []
        while True:
            mc = re.match(r"(?:\s|/\*.*?\*/|//[^\n]*\n)*(__CPROVER_(requires|ensures|assigns|frees))\s*\(", text[j:], re.S)
            if not mc:
                break
            op = j + mc.end() - 1
            cl = L.match_close(text, op)
            clauses.append((mc.group(2), text[op + 1 : cl]))
            j = cl + 1
        msig = re.match(r"(.*?)(\w+)\s*\((.*)\)\s*$", sig, re.S)
        if not msig:
            return None
        ret, name, params = msig.group(1).strip(), msig.group(2), msig.group(3)
        pnames = []
        for p in L.split_args(params):
            if p.strip() in ("void", ""):
                continue
            pm = re.search(r"(\w+)\s*(\[[^\]]*\])?\s*$", p)
            pnames.append(pm.group(1))
        pre, post, olds = [], [], []
        for kind, e in clauses:
            if kind in ("assigns", "frees"):
                continue
            if re.search(r"__CPROVER_(forall|exists|is_fresh|same_object|POINTER|r_ok|w_ok|rw_ok|pointer_in_range)", e):
                return None

            def old(mo, olds=olds):
                pass

            # __CPROVER_old(e)
            while True:
                k = e.find("__CPROVER_old")
                if k < 0:
                    break
                op = e.index("(", k)
                cl = L.match_close(e, op)
                inner = e[op + 1 : cl]
                olds.append(inner)
                e = e[:k] + "vx_old_%d" % len(olds) + e[cl + 1 :]
            e2 = _implies(e.replace("__CPROVER_return_value", "vx_ret"))
            (pre if kind == "requires" else post).append((e2, " ".join(e.split())[:160].replace('"', "'").replace("\\", "")))
        is_void = ret.replace("static", "").strip() == "void"
        w = []
        w.append("%s %s__impl(%s)" % (ret, name, params))
        out.append(text[pos : m.start()])
        out.append("\n".join(w) + "\n")
        # body follows at j (the lifted text or a hand-written body) -- find its extent
        jb = text.index("{", j)
        je = L.match_close(text, jb, "{", "}")
        out.append(text[j : je + 1])
        wr = ["\n#line 1 \"vx_contract_wrapper_%s\"" % name, "%s %s(%s)\n{" % (ret, name, params)]
        for (e2, t) in pre:
            wr.append('  if (!(%s)) vx_fail("DIVERGED", "precondition not met: %s", "contract", 0);' % (e2, t))
        for i, o in enumerate(olds):
            wr.append("  __typeof__(%s) vx_old_%d = (%s);" % (o, i + 1, o))
        call = "%s__impl(%s)" % (name, ", ".join(pnames))
        wr.append(("  %s;" % call) if is_void else ("  __typeof__(%s) vx_ret = %s;" % (call, call)))
        for (e2, t) in post:
            wr.append('  if (!(%s)) vx_fail("FAIL", "postcondition: %s", "%s", 0);' % (e2, t, name))
        wr.append("  return;\n}" if is_void else "  return vx_ret;\n}")
        out.append("\n".join(wr) + "\n")
        pos = je + 1
    out.append(text[pos:])
    prog = "".join(out)
    tr = ",\n".join('  {"%s", %dLL}' % (fn, v) for fn, v in trace_vals) or '  {"", 0}'
    prog += "\n#line 1 \"vx_replay_main\"\nstruct vx_trace_item vx_trace[] = {\n%s\n};\nint vx_trace_len = %d;\n" % (tr, len(trace_vals))
    prog += "int main(void) { %s(); if (vx_failed) { printf(\"REPLAY-RESULT: reproduced\\n\"); return 1; } printf(\"REPLAY-RESULT: not reproduced\\n\"); return 0; }\n" % unit.entry
    return prog


def bounded_traces(unit, res, outdir, k=4):
    """Loop contracts replace a loop by 'havoc; assume invariant', so the trace of a failed obligation does not
    contain a real execution of the loop.  For replay only, the same unit is re-run WITHOUT --apply-loop-contracts
    and with --unwind k; a failing obligation there comes with a genuine execution trace."""
    gb1 = res.get("_gb1")
    if not gb1 or not os.path.exists(gb1):
        return {}
    gb3 = os.path.join(outdir, "c.gb")
    cmd = ["goto-instrument", "--dfcc", unit.entry]
    if unit.enforce:
        cmd += ["--enforce-contract", unit.enforce]
    for r in unit.replace:
        cmd += ["--replace-call-with-contract", r]
    cmd += [gb1, gb3]
    rc, so, se, _ = _sh(cmd, 300)
    if rc != 0:
        return {}
    cmd = ["cbmc", gb3] + unit.flags + ["--trace", "--json-ui", "--unwind", str(k)]
    rc, so, se, _ = _sh(cmd, 120, 8)
    try:
        doc = json.loads(so)
    except Exception:
        return {}
    out = {}
    for item in doc:
        for r in item.get("result", []) if isinstance(item, dict) else []:
            if r.get("status") == "FAILURE" and not r.get("description", "").startswith("vx_reach:"):
                out[r.get("property")] = _fail_record(r)
    return out


def replay(unit, res, specdir, outroot, prop):
    """For each failed obligation try a native replay of the counterexample. Returns replay file path."""
    outdir = os.path.join(outroot, unit.name)
    info = res.get("_info")
    alt = bounded_traces(unit, res, outdir) if res.get("_has_loops") and not unit.no_replay else {}
    rep = {"property": prop, "unit": unit.name, "functions": unit.funcs, "lifted_from": res.get("lifted"),
           "failed_obligations": [], "reproduced": False}
    for idx, fr in enumerate(res["failed"][:4]):
        entry = dict(fr)
        entry["native"] = "not attempted"
        trace_vals = fr.get("nondet_trace", [])
        if alt:
            cand = alt.get(fr["obligation"]) or next(iter(alt.values()))
            trace_vals = cand.get("nondet_trace", [])
            entry["trace_source"] = "bounded re-run without loop contracts (--unwind 4), obligation %s" % cand["obligation"]
            entry["nondet_trace"] = trace_vals
        if info and not unit.no_replay:
            try:
                prog = native_program(unit, info, trace_vals)
            except Exception as e:
                prog = None
                entry["native"] = "replay generator failed: %r" % e
            if prog:
                src = os.path.join(outdir, "replay_%d.c" % idx)
                exe = os.path.join(outdir, "replay_%d" % idx)
                open(src, "w").write(prog)
                tdir = os.path.dirname(os.path.normpath(os.path.join(specdir, unit.template)))
                cmd = ["gcc", "-std=gnu11", "-O0", "-w", "-DVX_NATIVE", "-I", PRELUDE, "-I", specdir, "-I", tdir, "-I", os.path.dirname(tdir)] + \
                    ["-D" + d for d in unit.defines] + [src, "-o", exe]
                rc, so, se, _ = _sh(cmd, 120)
                if rc != 0:
                    entry["native"] = "native compile failed: " + se[-600:]
                else:
                    rc, so, se, _ = _sh([exe], 20)
                    entry["native_program"] = src
                    entry["native_output"] = so[-2000:]
                    if "REPLAY-RESULT: reproduced" in so:
                        entry["native"] = "reproduced"
                        rep["reproduced"] = True
                    elif rc == 4:
                        entry["native"] = "diverged (loop-contract or callee-contract havoc has no native counterpart)"
                    else:
                        entry["native"] = "not reproduced"
        rep["failed_obligations"].append(entry)
    rep["cbmc_output"] = os.path.join(outdir, "cbmc.json")
    path = os.path.join(outroot, "replay_%s_%s.json" % (prop, unit.name))
    with open(path, "w") as f:
        json.dump(rep, f, indent=1)
    return path, rep["reproduced"]


# --------------------------------------------------------------------------------------------
# known findings


def load_known(prop):
    known = []
    p = os.path.join(VERIF, "known_findings.txt")
    if os.path.exists(p):
        for line in open(p):
            line = line.strip()
            if not line.startswith("known:"):
                continue
            kv = dict(re.findall(r"(\w+)=(\S+)", line.split("::")[0]))
            if kv.get("property") != prop:
                continue
            kv["text"] = line.split("::", 1)[1].strip() if "::" in line else line
            known.append(kv)
    return known


# --------------------------------------------------------------------------------------------
# property driver


def run_property(prop, tier, replay_file=None, only=None, jobs=None, keep=False):
    t0 = time.time()
    specdir = os.path.join(VERIF, "specs", prop)
    spec = {}
    src = open(os.path.join(specdir, "spec.py")).read()
    exec(compile(src, os.path.join(specdir, "spec.py"), "exec"), spec)
    units = [u for u in spec["UNITS"] if tier == "thorough" or u.tier == "quick"]
    if only:
        units = [u for u in units if re.search(only, u.name)]
    meta = spec.get("META", {})
    outroot = os.path.join(os.environ.get("VX_OUTDIR", os.path.join(VERIF, "out")), prop)
    os.makedirs(outroot, exist_ok=True)
    budget = {"timeout": 150 if tier == "quick" else 900, "mem_gb": 8 if tier == "quick" else 16}
    seed = int(os.environ.get("VERIF_SEED", "0") or 0)
    jobs = jobs or int(os.environ.get("VX_JOBS", "14"))
    # supporting static facts (mutator-closure census, prelude/enum agreement): a broken fact => undecided
    static_facts, static_bad = [], []
    if not only:
        for fact in spec.get("STATIC", []):
            try:
                ok, msg = fact()
            except L.LiftError as e:
                ok, msg = False, "static fact %s: %s" % (getattr(fact, "fact_name", "?"), e)
            static_facts.append({"fact": getattr(fact, "fact_name", "?"), "holds": bool(ok), "detail": msg})
            if not ok:
                static_bad.append(msg)
    meta = dict(meta)
    meta["static_facts"] = static_facts
    results = []
    with cf.ThreadPoolExecutor(max_workers=jobs) as ex:
        futs = {ex.submit(verify_unit, u, prop, specdir, outroot, tier, budget): u for u in units}
        for f in cf.as_completed(futs):
            results.append((futs[f], f.result()))
    results.sort(key=lambda ur: [u.name for u in units].index(ur[0].name))
    known = load_known(prop)
    violations, undecided, known_hits = [], [], []
    for u, r in results:
        if r["status"] == "failed":
            remaining = []
            for fr in r["failed"]:
                k = _match_known(known, u, fr)
                if k:
                    known_hits.append((u, fr, k))
                else:
                    remaining.append(fr)
            # a known finding must vanish when its input class is excluded
            for (uu, fr, k) in [h for h in known_hits if h[0] is u]:
                if k.get("exclude") and u.name not in k.setdefault("_checked", set()):
                    k["_checked"].add(u.name)
                    u2 = Unit(**{**_unit_kwargs(u), "name": u.name + "__kf", "defines": u.defines + [k["exclude"]]})
                    r2 = verify_unit(u2, prop, specdir, outroot, tier, budget)
                    if r2["status"] == "failed":
                        for fr2 in r2["failed"]:
                            fr2 = dict(fr2)
                            fr2["description"] += " [still fails with the known input class excluded]"
                            remaining.append(fr2)
                        r["_raw_failed"] = r2.get("_raw_failed")
                    elif r2["status"] == "undecided":
                        undecided.append((u2, r2))
            if remaining:
                r = dict(r)
                r["failed"] = remaining
                violations.append((u, r))
        elif r["status"] == "undecided":
            undecided.append((u, r))
    # ---- report
    for u, r in results:
        line = "  %-34s %-12s obligations=%-4d discharged=%-4d reach=%s  %.1fs" % (
            u.name, r["status"], r["obligations"], r["discharged"], ",".join(r["reach_ok"]) or "-", r["wall_s"])
        print(line)
        if r["status"] == "undecided":
            print("      undecided: " + r["reason"].strip().replace("\n", "\n      "))
        if r["status"] == "failed":
            for fr in r["failed"][:6]:
                print("      FAILED %s: %s @ %s" % (fr["obligation"], fr["description"], fr["at"]))
    printed_known = set()
    for (u, fr, k) in known_hits:
        key = k["text"]
        if key not in printed_known:
            printed_known.add(key)
            print("KNOWN-FINDING: property=%s %s" % (prop, k["text"]))
    exit_code = 0
    vio_records = []
    for u, r in violations:
        path, reproduced = replay(u, r, specdir, outroot, prop)
        suffix = "" if reproduced else " no-failing-input-found"
        names = ", ".join("%s (%s)" % (fr["obligation"], fr["description"]) for fr in r["failed"][:3])
        print("VIOLATION property=%s replay=%s unit=%s obligation=%s%s" % (prop, path, u.name, names, suffix))
        vio_records.append({"unit": u.name, "obligations": [fr["obligation"] + ": " + fr["description"] for fr in r["failed"]],
                            "replay": path, "reproduced": reproduced})
        exit_code = 1
    for msg in static_bad:
        print("UNDECIDED property=%s static-fact %s" % (prop, msg[:400]))
    if exit_code == 0 and static_bad:
        exit_code = 2
    if exit_code == 0 and undecided:
        exit_code = 2
        for u, r in undecided:
            print("UNDECIDED property=%s unit=%s reason=%s" % (prop, u.name, r["reason"].split("\n")[0][:300]))
    if only:
        # a partial run (--only) is a development aid: it never replaces the evidence file of the registered check
        os.environ["VX_EVIDENCE_DIR"] = os.path.join(outroot, "evidence_partial")
    write_evidence(prop, tier, seed, results, meta, vio_records, known_hits, undecided, time.time() - t0)
    if not keep and exit_code == 0:
        # keep lifted C and logs (small); drop goto binaries
        for u, r in results:
            for fn in ("a.gb", "b.gb"):
                try:
                    os.remove(os.path.join(outroot, u.name, fn))
                except OSError:
                    pass
    return exit_code


def _unit_kwargs(u):
    return dict(name=u.name, template=u.template, lifts=u.lifts, enforce=u.enforce, replace=u.replace,
                entry=u.entry, kind=u.kind, tier=u.tier, defines=u.defines, flags=u.flags, unwind=u.unwind,
                min_obligations=u.min_obligations, loop_contracts=u.loop_contracts, timeout=u.timeout,
                funcs=u.funcs, doc=u.doc, solver=u.solver, object_bits=u.object_bits, no_replay=u.no_replay)


def _match_known(known, u, fr):
    for k in known:
        if k.get("unit") and not re.fullmatch(k["unit"], u.name):
            continue
        if k.get("obligation") and not re.search(k["obligation"], fr["obligation"] + " " + fr["description"]):
            continue
        return k
    return None


def write_evidence(prop, tier, seed, results, meta, vio, known_hits, undecided, wall):
    proof = [(u, r) for u, r in results if u.kind != "bounded"]
    bounded = [(u, r) for u, r in results if u.kind == "bounded"]
    # obligations that fail only because of a recorded known finding are reported separately and are not part of
    # the obligations claimed as discharged by this run
    kf_obl = sorted({"%s: %s" % (u.name, fr["obligation"]) for (u, fr, k) in known_hits})
    obligations = sum(r["obligations"] for u, r in proof) - len([1 for (u, fr, k) in known_hits if u.kind != "bounded"])
    discharged = sum(r["discharged"] for u, r in proof)
    samples = []
    for u, r in proof:
        for s in r.get("samples", [])[:2]:
            samples.append({"unit": u.name, **s})
    trusted = list(meta.get("trusted_base", []))
    replaced = sorted({c for u, r in results for c in u.replace})
    for c in replaced:
        trusted.append("callee replaced by its contract (proved as its own unit or stated as assumed): " + c)
    ev = {
        "property_id": prop, "tier": tier, "seed": seed, "level": "proof",
        "coverage": {
            "obligations": obligations, "discharged": discharged,
            "checker_cmd": "per unit: goto-cc -DVX_CBMC --function harness <lifted>.c ; goto-instrument --dfcc harness "
                           "--enforce-contract <f> [--replace-call-with-contract <g>] [--apply-loop-contracts] ; "
                           "cbmc --bounds-check --pointer-check --signed-overflow-check --div-by-zero-check "
                           "--undefined-shift-check --pointer-overflow-check [...] --trace --json-ui",
            "trusted_base": trusted,
            "samples": samples[:12] or [{"note": "no obligations"}],
            "units": [{"unit": u.name, "kind": u.kind, "status": r["status"], "functions_under_contract": u.funcs,
                       "lifted_from": [{k: v for k, v in l.items()} for l in r.get("lifted", [])],
                       "obligations": r["obligations"], "discharged": r["discharged"],
                       "reach_markers_confirmed": r["reach_ok"], "backend": r["backend"],
                       "solver_s": round(r["solver_s"], 3), "wall_s": round(r["wall_s"], 2),
                       "second_backend": r.get("second_backend"),
                       "enforced_contract": u.enforce, "callees_replaced_by_contract": u.replace,
                       "defines": u.defines, "doc": u.doc,
                       "reason": r["reason"][:400]} for u, r in proof],
            "bounded": [{"unit": u.name, "bound": "unwind %s" % u.unwind, "status": r["status"],
                         "obligations_not_counted_as_proof": r["obligations"], "doc": u.doc,
                         "wall_s": round(r["wall_s"], 2)} for u, r in bounded],
            "functions_under_contract": sorted({f for u, r in proof for f in u.funcs}),
            "extraction_drops": meta.get("extraction_drops", EXTRACTION_DROPS),
            "explanation": meta.get("explanation", ""),
            "not_decided": meta.get("not_decided", []),
            "static_facts": meta.get("static_facts", []),
            "known_findings_reported": sorted({k["text"] for (_, _, k) in known_hits}),
            "known_finding_obligations_not_discharged": kf_obl,
            "undecided_units": [{"unit": u.name, "reason": r["reason"][:300]} for u, r in undecided],
            "violations_detail": vio,
        },
        "assumptions": meta.get("assumptions", []) + COMMON_ASSUMPTIONS,
        "wall_s": round(wall, 2),
        "violations": len(vio),
    }
    evdir = os.environ.get("VX_EVIDENCE_DIR", os.path.join(VERIF, "evidence"))
    os.makedirs(evdir, exist_ok=True)
    with open(os.path.join(evdir, prop + ".json"), "w") as f:
        json.dump(ev, f, indent=1)


EXTRACTION_DROPS = [
    "comments; PIKA_LOG/LTM_ logging statements; attributes, noexcept, constexpr, inline",
    "std::memory_order arguments (all atomics treated as sequentially consistent: A-SC)",
    "template parameters (instantiated as C typedefs per unit instance); payload types/values (opaque tokens)",
    "C++ object lifetime outside explicit new/delete/emplace/reset text; exceptions except at lowered try/catch sites",
    "everything behind a callee contract or a prelude stub (listed in trusted_base)",
]

COMMON_ASSUMPTIONS = [
    "verified text = C translation produced on this run from /repo's working tree by must-fire rewrite rules (vx/lift.py); "
    "the C++ compiler's view of the same text is not verified",
    "machine integers are bit-vectors of the real widths (not idealised); LP64 data model",
    "A-SC: atomics are sequentially consistent indivisible steps; memory-order adequacy not verified",
    "history-induction (DESIGN 3.4): per-step / monitor obligations are machine checked, the induction over the "
    "interleaved history that turns them into an all-schedules statement is a paper argument",
    "A-STATIC: a function-local static with a run-time initialiser is lowered to a local initialised by the current call "
    "(first-call semantics); staleness across calls is decided only where a unit models it (C15: cached process mask)",
]
