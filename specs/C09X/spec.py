exec(open("/verif/specs/C09/once_spec.py").read()); UNITS = ONCE_UNITS; META = ONCE_META; STATIC = ONCE_STATIC
