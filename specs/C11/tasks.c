/* C11 -- completion bookkeeping of bulk on thread_pool_scheduler: finish / store_exception / task entry /
 * do_work_task / set_value / the chunk-stealing visitor  (T and S contracts) */
#include "bulk.h"

struct ciq { uint32_t first, last; };
struct opt { bool has; uint32_t value; };
struct op_state_t {
  size_t num_worker_threads;
  struct ciq the_queue;                /* queues[]: ONE cell plus the ghost index it was selected with (bounds asserted in vx_queue) */
  Shape shape;
  tasks_remaining_t tasks_remaining;   /* std::atomic<...> */
  bool exception_thrown;               /* std::atomic<bool> */
  bool exception_has;                  /* std::optional<std::exception_ptr>::has_value() */
  int exception_tok;                   /* which exception is stored (opaque token) */
  int ts_index;                        /* variant index of ts: 0 = monostate, 1 = the value tuple */
  int scheduler_hint_mode;             /* get_hint(scheduler): 0 = none (default constructed) */
  uint32_t scheduler_hint_thread;
};
struct bulk_receiver { struct op_state_t *op_state; };
struct task_fn { struct op_state_t *op_state; Shape n; chunk_t chunk_size; uint32_t worker_thread; };

/* ---- ghost trace ---- */
static long g_set_value, g_set_error, g_set_stopped;   /* signals on the downstream receiver */
static int g_error_tok;
static long g_finish, g_store_exc, g_do_work, g_spawned, g_local, g_inits, g_tasks;
static bool g_lin; static tasks_remaining_t g_lin_old, g_lin_new;
static int g_current_exception;                         /* std::current_exception() token */
static uint32_t g_spawn_hint_thread; static int g_spawn_hint_mode;
static struct op_state_t *vx_op;

static void recv_set_value(void) { VX_ASSERT(g_set_value + g_set_error + g_set_stopped == 0, "receiver signalled at most once"); g_set_value++; }
static void recv_set_error(int tok) { VX_ASSERT(g_set_value + g_set_error + g_set_stopped == 0, "receiver signalled at most once"); g_set_error++; g_error_tok = tok; }

/* --(tasks_remaining): atomic pre-decrement.  Environment: the other workers' finish() calls may decrement the
 * counter before our step, but never below the contributions still outstanding (ours included): value >= 1. */
static tasks_remaining_t atomic_dec_fetch(tasks_remaining_t *p)
{
  /* environment step, taken before our own atomic step: other workers finish.  Each of them may have thrown:
   * its store_exception (flag set, exception stored) precedes its finish() in program order, so whenever the
   * counter is seen lowered the flag may have been raised and the exception slot filled.  The flag is monotone. */
  if (nondet_bool())
  {
    tasks_remaining_t v = (tasks_remaining_t) nondet_u64();
    VX_ASSUME(v >= 1 && v <= *p);
    *p = v;
    if (nondet_bool() && !vx_op->exception_thrown) { vx_op->exception_thrown = true; vx_op->exception_has = true; vx_op->exception_tok = nondet_int(); }
  }
  VX_ASSERT(!g_lin, "one decrement per finish()");
  g_lin = true; g_lin_old = *p; *p = *p - 1; g_lin_new = *p;
  /* whoever brings the counter to 0 runs after every other worker's store_exception and finish: from then on the
   * flag and the stored exception are stable.  Otherwise other workers are still running and may still throw. */
  if (g_lin_new != 0 && nondet_bool()) { vx_op->exception_thrown = true; }
  return g_lin_new;
}
static bool atomic_exchange_bool(bool *p, bool v)
{
  if (nondet_bool()) *p = true;   /* environment: another worker's store_exception (flag is only ever set) */
  bool old = *p; *p = v; return old;
}

#ifdef U_FINISH
//@FUNC
void finish(struct task_fn *self)
__CPROVER_requires(self->op_state == vx_op && vx_op->tasks_remaining >= 1 && !g_lin && g_set_value + g_set_error + g_set_stopped == 0)
__CPROVER_requires(vx_op->ts_index == 1 && (!vx_op->exception_thrown || vx_op->exception_has))
/* the receiver is signalled exactly once, by the finish() whose decrement reaches 0, and by nobody else */
__CPROVER_ensures(g_lin && g_lin_new == g_lin_old - 1)
__CPROVER_ensures(g_set_value + g_set_error == (g_lin_new == 0 ? 1 : 0) && g_set_stopped == 0)
/* an error (the stored exception) iff one was latched, the values otherwise */
__CPROVER_ensures(g_lin_new == 0 ==> (g_set_error == (vx_op->exception_thrown ? 1 : 0)))
__CPROVER_ensures(g_set_error == 1 ==> g_error_tok == vx_op->exception_tok)
__CPROVER_assigns(vx_op->tasks_remaining, vx_op->exception_thrown, vx_op->exception_has, vx_op->exception_tok, g_lin, g_lin_old, g_lin_new, g_set_value, g_set_error, g_error_tok)
//@LIFT body
#endif

#ifdef U_STORE_EXCEPTION
//@FUNC
void store_exception(struct task_fn *self)
__CPROVER_requires(self->op_state == vx_op && (!vx_op->exception_thrown || vx_op->exception_has || 1))
/* first thrower wins: the slot is written iff our exchange found the flag clear; the flag is set afterwards */
__CPROVER_ensures(vx_op->exception_thrown)
__CPROVER_ensures(g_store_exc == 1 ==> (vx_op->exception_has && vx_op->exception_tok == g_current_exception))
__CPROVER_ensures(g_store_exc == 0 ==> (vx_op->exception_has == __CPROVER_old(vx_op->exception_has) && vx_op->exception_tok == __CPROVER_old(vx_op->exception_tok)))
__CPROVER_assigns(vx_op->exception_thrown, vx_op->exception_has, vx_op->exception_tok, g_store_exc)
//@LIFT body
#endif

#ifdef U_TASK_ENTRY
static void do_work(struct task_fn *self) { g_do_work++; }
static void store_exception(struct task_fn *self) { VX_ASSERT(g_finish == 0, "store_exception precedes finish"); g_store_exc++; }
static void finish(struct task_fn *self) { g_finish++; }
static bool g_threw;
//@FUNC
void task_entry(struct task_fn *self)
__CPROVER_requires(g_finish == 0 && g_store_exc == 0 && g_do_work == 0 && !g_threw)
/* finish() exactly once on both paths; the exception is latched iff the work threw */
__CPROVER_ensures(g_finish == 1 && g_do_work == 1 && g_store_exc == (g_threw ? 1 : 0))
__CPROVER_assigns(g_finish, g_store_exc, g_do_work, g_threw)
//@LIFT body
#endif

struct hint { int mode; uint32_t thread; };
enum { HINT_NONE = 0, HINT_THREAD = 1, HINT_NUMA = 2 };
#ifdef U_DO_WORK_TASK
static Shape g_task_n; static chunk_t g_task_cs; static uint32_t g_task_w; static struct hint g_task_hint; static bool g_finish_w_ok;
static void task_finish(struct task_fn *t) { VX_ASSERT(t->op_state == vx_op, "task bound to this operation state"); g_finish++; }
static bool ciq_empty(struct ciq *q) { return q->first >= q->last; }
static size_t g_qidx; static long g_qsel;
static struct ciq *vx_queue(struct op_state_t *op, size_t i) { VX_ASSERT(i < op->num_worker_threads, "queues[] index within num_worker_threads"); g_qidx = i; if (g_qsel < 2) g_qsel++; return &op->the_queue; }
static struct hint get_hint(struct op_state_t *op) { struct hint h; h.mode = op->scheduler_hint_mode; h.thread = op->scheduler_hint_thread; return h; }
static struct hint hint_default(void) { struct hint h; h.mode = HINT_NONE; h.thread = (uint32_t) -1; return h; }
static struct hint hint_make(int mode, uint32_t th) { struct hint h; h.mode = mode; h.thread = th; return h; }
static bool hint_eq(struct hint a, struct hint b) { return a.mode == b.mode && a.thread == b.thread; }
static bool get_self_id(void) { return true; } /* the customisation runs on a pika task (documented precondition) */
struct init_data { struct task_fn fn; struct hint hint; };
static struct init_data init_data_make(struct task_fn fn, struct hint h) { struct init_data d; d.fn = fn; d.hint = h; return d; }
static void register_work(struct init_data d)
{
  VX_ASSERT(d.fn.op_state == vx_op, "spawned task bound to this operation state");
  g_spawned++; g_task_n = d.fn.n; g_task_cs = d.fn.chunk_size; g_task_w = d.fn.worker_thread; g_task_hint = d.hint;
}
//@FUNC
void do_work_task(struct bulk_receiver *self, Shape n, chunk_t chunk_size, uint32_t worker_thread)
__CPROVER_requires(self->op_state == vx_op && worker_thread < vx_op->num_worker_threads && vx_op->num_worker_threads <= W_MAX && g_finish == 0 && g_spawned == 0 && g_qsel == 0)
/* every worker's share is accounted for exactly once: an empty queue finishes without spawning, otherwise exactly one task is spawned */
__CPROVER_ensures(g_finish + g_spawned == 1)
__CPROVER_ensures(g_qsel >= 1 && g_qidx == worker_thread && (g_finish == 1) == (vx_op->the_queue.first >= vx_op->the_queue.last))
/* the spawned task works on this worker's queue with the same n and chunk size, hinted to that worker unless the scheduler carries a hint */
__CPROVER_ensures(g_spawned == 1 ==> (g_task_n == n && g_task_cs == chunk_size && g_task_w == worker_thread))
__CPROVER_ensures(g_spawned == 1 ==> (vx_op->scheduler_hint_mode == HINT_NONE && vx_op->scheduler_hint_thread == (uint32_t) -1 ? (g_task_hint.mode == HINT_THREAD && g_task_hint.thread == worker_thread) : (g_task_hint.mode == vx_op->scheduler_hint_mode && g_task_hint.thread == vx_op->scheduler_hint_thread)))
__CPROVER_assigns(g_finish, g_spawned, g_task_n, g_task_cs, g_task_w, g_task_hint, g_qidx, g_qsel)
//@LIFT body
#endif

#ifdef U_SET_VALUE
static uint32_t g_vw;            /* ONE symbolic victim worker */
static long g_vw_init, g_vw_task, g_vw_local; static bool g_emplaced;
static Shape g_arg_n; static chunk_t g_arg_cs; static uint32_t g_arg_nc; static size_t g_local_worker;
chunk_t get_chunk_size(uint32_t num_threads, Shape n)
__CPROVER_requires(num_threads >= 1 && num_threads <= W_MAX && n >= 1 && (uint64_t) n <= N_MAX)
__CPROVER_ensures(__CPROVER_return_value >= 1)
__CPROVER_assigns()
;
/* tasks_remaining is the number of finish() calls that will be made: every worker's share ends in exactly one (bulk.do_work_task:
 * one spawned task or one direct finish; bulk.task_entry / bulk.do_work_local: one finish each) */
static void tasks_remaining_store(struct op_state_t *op, size_t v)
{
  VX_ASSERT(v == op->num_worker_threads, "tasks_remaining == number of finish() calls that will be made (one per worker: bulk.do_work_task / bulk.task_entry)");
}
static bool init_queue(struct bulk_receiver *r, size_t w, uint32_t num_chunks)
{
  VX_ASSERT(g_tasks == 0 && g_local == 0, "all queues are initialised before any worker task is started");
  VX_ASSERT(g_emplaced, "the predecessor's values are stored before the queues are published");
  VX_ASSERT(w < vx_op->num_worker_threads, "init_queue for an existing worker");
  if (g_inits == 0) g_arg_nc = num_chunks; else VX_ASSERT(num_chunks == g_arg_nc, "same num_chunks for every queue");
  g_inits++; if (w == g_vw) g_vw_init++;
  return nondet_bool();   /* the pinned init_queue returns nothing; a result, if one is introduced, is not relied upon */
}
static void do_work_task(struct bulk_receiver *r, Shape n, chunk_t cs, size_t w)
{
  VX_ASSERT(g_inits == (long) vx_op->num_worker_threads, "all queues are initialised before any worker task is started");
  VX_ASSERT(n == vx_op->shape && cs == g_arg_cs && w < vx_op->num_worker_threads && w != g_local_worker, "task arguments");
  g_tasks++; if (w == g_vw) g_vw_task++;
}
static void do_work_local(struct bulk_receiver *r, Shape n, chunk_t cs, size_t w)
{
  VX_ASSERT(g_inits == (long) vx_op->num_worker_threads && g_tasks == (long) vx_op->num_worker_threads - 1, "the local share runs after all other workers were started");
  VX_ASSERT(n == vx_op->shape && cs == g_arg_cs && w == g_local_worker, "local task arguments");
  g_local++; if (w == g_vw) g_vw_local++;
}
static size_t get_local_worker_thread_num(void) { return g_local_worker; }
/* the predecessor's values `std::forward<Ts>(ts)...`: an opaque pack that can be consumed (moved from) once */
static bool g_pack_moved;
static int vx_fwd_pack(void)
{
  VX_ASSERT(!g_pack_moved, "the predecessor's values are forwarded while still intact (not after they were moved from)");
  g_pack_moved = true;
  return 1;
}
static void ts_emplace(struct op_state_t *op, int pack) { VX_ASSERT(pack == 1, "the values stored are the predecessor's values"); op->ts_index = 1; g_emplaced = true; }
static void recv_set_value_pack(int pack) { VX_ASSERT(pack == 1, "the values forwarded are the predecessor's values"); recv_set_value(); }
//@FUNC
void set_value(struct bulk_receiver *self)
__CPROVER_requires(self->op_state == vx_op && vx_op->num_worker_threads >= 1 && vx_op->num_worker_threads <= W_MAX && vx_op->shape >= 0 && (uint64_t) vx_op->shape <= N_MAX)
__CPROVER_requires(g_local_worker < vx_op->num_worker_threads && g_vw < vx_op->num_worker_threads)
__CPROVER_requires(g_inits == 0 && g_tasks == 0 && g_local == 0 && g_vw_init == 0 && g_vw_task == 0 && g_vw_local == 0 && g_set_value == 0 && !g_emplaced && !g_pack_moved)
/* n == 0 completes immediately with the values and starts nothing */
__CPROVER_ensures(vx_op->shape == 0 ==> (g_set_value == 1 && g_inits == 0 && g_tasks == 0 && g_local == 0))
/* otherwise: no direct signal; every worker's queue is initialised once; every worker gets exactly one share: a task, or (the calling worker) the inline share */
__CPROVER_ensures(vx_op->shape != 0 ==> (g_set_value == 0 && g_vw_init == 1 && g_vw_task + g_vw_local == 1 && g_local == 1 && (g_vw_local == 1) == (g_vw == g_local_worker)))
__CPROVER_assigns(g_inits, g_tasks, g_local, g_vw_init, g_vw_task, g_vw_local, g_set_value, g_emplaced, g_pack_moved, g_arg_nc, g_arg_cs, vx_op->ts_index)
//@LIFT body
#endif

#ifdef U_NUM_CHUNKS
/* the expression computing num_chunks in set_value, lifted as a fragment */
//@FUNC
uint32_t num_chunks_of(Shape shape, chunk_t chunk_size, uint32_t num_threads)
__CPROVER_requires(shape >= 1 && (uint64_t) shape <= N_MAX && num_threads >= 1 && num_threads <= W_MAX)
/* postcondition of get_chunk_size for this K: chunk_size == 2^K is the least power of two with chunk_size*W*8 >= n */
__CPROVER_requires(chunk_size == ((chunk_t) 1 << KCONST) && (unsigned __int128) chunk_size * num_threads * 8 >= (unsigned __int128) shape)
/* the chunks [c*cs, (c+1)*cs) for c < num_chunks cover [0, n), none of them starts beyond n, and num_chunks fits the queue index type */
__CPROVER_ensures((unsigned __int128) __CPROVER_return_value * chunk_size >= (unsigned __int128) shape)
__CPROVER_ensures((unsigned __int128) (__CPROVER_return_value - 1) * chunk_size < (unsigned __int128) shape)
__CPROVER_ensures(__CPROVER_return_value >= 1 && __CPROVER_return_value <= 8 * num_threads)
__CPROVER_assigns()
{
//@LIFT frag
  return num_chunks;
}
#endif

void harness(void)
{
  static struct op_state_t op;
  struct task_fn t;
  g_set_value = g_set_error = g_set_stopped = 0; g_error_tok = 0;
  g_finish = g_store_exc = g_do_work = g_spawned = g_local = g_inits = g_tasks = 0;
  g_lin = false; g_lin_old = g_lin_new = 0;
  vx_op = &op;
  t.op_state = &op;
  op.tasks_remaining = (tasks_remaining_t) nondet_u64();
  op.exception_thrown = nondet_bool();
  op.exception_has = nondet_bool();
  op.exception_tok = nondet_int();
  op.ts_index = 1;
  g_current_exception = nondet_int();
#ifdef U_FINISH
  finish(&t);
  if (g_set_value) VX_REACH("last_signals_value");
  if (g_set_error) VX_REACH("last_signals_error");
  if (g_set_value + g_set_error == 0) VX_REACH("not_last");
#endif
#ifdef U_STORE_EXCEPTION
  store_exception(&t);
  if (g_store_exc) VX_REACH("first_thrower_stores"); else VX_REACH("later_thrower_does_not");
#endif
#ifdef U_DO_WORK_TASK
  struct bulk_receiver r; r.op_state = &op;
  op.num_worker_threads = nondet_size();
  op.scheduler_hint_mode = nondet_int(); op.scheduler_hint_thread = nondet_u32();
  uint32_t w = nondet_u32();
  VX_ASSUME(w < W_MAX);
  op.the_queue.first = nondet_u32(); op.the_queue.last = nondet_u32(); g_qidx = 0; g_qsel = 0;
  do_work_task(&r, nondet_Shape(), (chunk_t) nondet_u64(), w);
  if (g_finish) VX_REACH("empty_queue_finishes"); else VX_REACH("task_spawned");
  if (g_spawned && g_task_hint.mode != HINT_THREAD) VX_REACH("scheduler_hint_kept");
#endif
#ifdef U_SET_VALUE
  struct bulk_receiver r; r.op_state = &op;
  op.num_worker_threads = nondet_size(); op.shape = nondet_Shape(); op.ts_index = 0;
  g_local_worker = nondet_size(); g_vw = nondet_u32();
  g_vw_init = g_vw_task = g_vw_local = 0; g_emplaced = false; g_pack_moved = false; g_arg_nc = 0; g_arg_cs = 0;
  set_value(&r);
  if (op.shape == 0) VX_REACH("n0_immediate"); else VX_REACH("work_distributed");
  if (g_vw_local) VX_REACH("victim_is_local"); if (g_vw_task) VX_REACH("victim_gets_task");
#endif
#ifdef U_NUM_CHUNKS
  uint32_t nc = num_chunks_of(nondet_Shape(), (chunk_t) nondet_u64(), nondet_u32());
  VX_REACH("returned");
#endif
#ifdef U_TASK_ENTRY
  g_threw = false;
  task_entry(&t);
  if (g_threw) VX_REACH("work_threw"); else VX_REACH("work_returned");
#endif
}
