#include "bulk.h"

#ifdef U_GET_CHUNK_SIZE
/* cs is a power of two, cs*W*8 >= n, and cs is the least such (cs == 1 or (cs/2)*W*8 < n), in exact arithmetic */
#define POW2(x) ((x) != 0 && (((x) & ((x) - 1)) == 0))
//@FUNC
chunk_t get_chunk_size(uint32_t num_threads, Shape n)
__CPROVER_requires(num_threads >= 1 && num_threads <= W_MAX && n >= 1 && (uint64_t) n <= N_MAX)
__CPROVER_ensures(POW2(__CPROVER_return_value))
__CPROVER_ensures((unsigned __int128) __CPROVER_return_value * num_threads * 8 >= (unsigned __int128) n)
__CPROVER_ensures(__CPROVER_return_value == 1 || (unsigned __int128) (__CPROVER_return_value / 2) * num_threads * 8 < (unsigned __int128) n)
__CPROVER_assigns()
//@LIFT body
#endif

#ifdef U_DO_WORK_CHUNK
struct op_state_t { int f; };
struct visitor { struct op_state_t *op_state; struct task_function const *task_f; };
static unsigned g_K; /* ghost: chunk_size == 2^g_K (postcondition of get_chunk_size) */
#define IN_CHUNK(v, idx) ((v) >= 0 && (v) < g_n && (((uint64_t)(v)) >> g_K) == (uint64_t)(idx))
//@FUNC
void do_work_chunk(struct visitor *self, int ts, uint32_t index)
__CPROVER_requires(self->task_f->n == g_n && g_n >= 1 && (uint64_t) g_n <= N_MAX && g_K < 64)
__CPROVER_requires(self->task_f->chunk_size == ((chunk_t) 1 << g_K) && ((unsigned __int128) index << g_K) < (unsigned __int128) g_n)
__CPROVER_requires(g_victim_calls == 0)
/* f is called exactly once for every i of this chunk (i / chunk_size == index, 0 <= i < n) and for no other i */
__CPROVER_ensures(g_victim_calls == (IN_CHUNK(g_victim, index) ? 1 : 0))
__CPROVER_assigns(g_victim_calls)
//@LIFT body
#endif

#ifdef U_INIT_QUEUE
struct ciq { uint32_t first, last; };
/* the vector of queues is abstracted to ONE cell plus the ghost index it was selected with (bounds asserted) */
struct op_state_t { size_t num_worker_threads; struct ciq the_queue; };
static size_t g_qidx;
struct bulk_receiver { struct op_state_t *op_state; };
static long g_resets;
static uint32_t g_reset_first, g_reset_last, g_reset_q;
/* contiguous_index_queue::reset (proved in C17: requires first <= last) */
static void ciq_reset(struct ciq *q, uint32_t first, uint32_t last)
{
  VX_ASSERT(first <= last, "contiguous_index_queue::reset precondition first <= last (PIKA_ASSERT in reset)");
  q->first = first; q->last = last;
  g_reset_first = first; g_reset_last = last;
  if (g_resets < 2) g_resets++;
}
#define QUEUE(op, i) (*vx_queue((op), (i)))
static struct ciq *vx_queue(struct op_state_t *op, size_t i)
{
  VX_ASSERT(i < op->num_worker_threads, "queues[] index within num_worker_threads");
  g_qidx = i;
  return &op->the_queue;
}
//@FUNC
/* the pinned function returns void; the C signature returns a value so that a variant that reports something still lifts
 * (falling off the end is fine in C as long as the value is not used: the harness ignores it) */
int init_queue(struct bulk_receiver *self, uint32_t worker_thread, uint32_t num_chunks)
__CPROVER_requires(self->op_state->num_worker_threads >= 1 && self->op_state->num_worker_threads <= W_MAX)
#ifdef W_CONST
__CPROVER_requires(self->op_state->num_worker_threads == W_CONST)
#endif
__CPROVER_requires(worker_thread < self->op_state->num_worker_threads && num_chunks <= 8 * self->op_state->num_worker_threads && g_resets == 0)
/* exactly one reset, of this worker's own queue, and the queue then holds what was passed to reset */
__CPROVER_ensures(g_resets == 1)
__CPROVER_ensures(g_qidx == worker_thread && self->op_state->the_queue.first == g_reset_first && self->op_state->the_queue.last == g_reset_last)
#ifdef W_CONST
__CPROVER_ensures(worker_thread != 0 || g_reset_first == 0)
/* partition facts (need reasoning about division; decided per worker count W_CONST -- bounded stand-in over W):
 * worker w gets [floor(w*C/W), floor((w+1)*C/W)): ordered, inside [0, C], the last worker's part ends at C, and
 * consecutive parts are adjacent because part_end(w) and part_begin(w+1) are the same expression */
__CPROVER_ensures(g_reset_first == (uint32_t)(((uint64_t) worker_thread * num_chunks) / W_CONST))
__CPROVER_ensures(g_reset_last == (uint32_t)((((uint64_t) worker_thread + 1) * num_chunks) / W_CONST))
__CPROVER_ensures(g_reset_first <= g_reset_last && g_reset_last <= num_chunks)
__CPROVER_ensures(worker_thread + 1 != W_CONST || g_reset_last == num_chunks)
#endif
__CPROVER_assigns(g_resets, g_reset_first, g_reset_last, g_qidx, self->op_state->the_queue)
//@LIFT body
#endif

void harness(void)
{
#ifdef U_DO_WORK_CHUNK
  struct op_state_t op;
  struct task_function tf;
  struct visitor v;
  v.op_state = &op; v.task_f = &tf;
  tf.n = nondet_Shape(); g_n = tf.n;
  g_K = nondet_uint();
  VX_ASSUME(g_K < 64);
  tf.chunk_size = (chunk_t) 1 << g_K;
  tf.worker_thread = nondet_u32();
  g_victim = nondet_Shape();
  g_victim_calls = 0;
  uint32_t index = nondet_u32();
  do_work_chunk(&v, 0, index);
  if (g_victim_calls == 1) VX_REACH("victim_called"); else VX_REACH("victim_not_in_chunk");
  if (g_K > 32) VX_REACH("chunk_size_above_2^32");
#endif
#ifdef U_INIT_QUEUE
  static struct op_state_t op;
  struct bulk_receiver r;
  r.op_state = &op;
  op.num_worker_threads = nondet_size();
  g_resets = 0;
  uint32_t w = nondet_u32(), c = nondet_u32();
  init_queue(&r, w, c);
  VX_REACH("returned");
  if (g_reset_first < g_reset_last) VX_REACH("nonempty_part");
  if (g_reset_first == g_reset_last) VX_REACH("empty_part");
#endif
#ifdef U_GET_CHUNK_SIZE
  uint32_t w = nondet_u32();
  Shape n = nondet_Shape();
  chunk_t cs = get_chunk_size(w, n);
  VX_REACH("returned");
  if (cs > 1) VX_REACH("cs_gt_1");
#if SHAPE_BITS > 32 || (SHAPE_BITS == 32 && !SHAPE_IS_SIGNED)
  if ((uint64_t) n > 0x80000000ull) VX_REACH("n_gt_2^31");
#endif
#endif
}
