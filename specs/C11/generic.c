/* C11 -- the generic (non-pool) bulk fallback: bulk_detail::bulk_sender::bulk_receiver::set_value (execution/algorithms/bulk.hpp).
 * f(i, values...) exactly once for every i of the shape, in order, then the values are forwarded once; if a call throws the receiver
 * gets exactly one error (that exception) and no value.  (written by main; T contract, loop contract over the shape) */
#include "bulk.h"
struct bulk_receiver { int receiver; Shape shape_n; int f; };   /* counting shape [0, n) */
static long g_set_value, g_set_error; static int g_error_tok; static bool g_value_pack_ok;
static bool g_threw; static int g_exc; static Shape g_throw_at;
static bool g_calls_after_signal;
/* pika::util::detail::counting_shape(n): begin() == 0, end() == n (integral shapes; bulk() wraps an integral n this way) */
static Shape shape_begin(struct bulk_receiver const *r) { return 0; }
static Shape shape_end(struct bulk_receiver const *r) { return r->shape_n; }
/* the user callable: counts calls for the victim index; may throw */
static void invoke_f(struct bulk_receiver *r, Shape i, int ts_pack)
{
  VX_ASSERT(g_set_value == 0 && g_set_error == 0, "f is not called after the receiver was signalled");
  VX_ASSERT(ts_pack == 7, "the predecessor's values are passed unchanged to every call");
  call_f(i);
  if (nondet_bool()) { g_threw = true; g_exc = 11; g_throw_at = i; }
}
static int vx_current_exception(void) { return g_exc; }
static void recv_set_value(int receiver, int ts_pack) { if (g_set_value < 2) g_set_value++; g_value_pack_ok = (ts_pack == 7); }
static void recv_set_error(int receiver, int ep) { if (g_set_error < 2) g_set_error++; g_error_tok = ep; }

#define VICTIM_IN_SHAPE (g_victim >= 0 && g_victim < g_n)
//@FUNC
void set_value(struct bulk_receiver *self, int ts_pack)
__CPROVER_requires(ts_pack == 7 && self->shape_n == g_n && g_n >= 0 && g_victim_calls == 0 && g_set_value == 0 && g_set_error == 0 && !g_threw)
/* no call threw: f once for every index of the shape and for no other, then the values forwarded exactly once, no error */
__CPROVER_ensures(!g_threw ==> (g_victim_calls == (VICTIM_IN_SHAPE ? 1 : 0) && g_set_value == 1 && g_value_pack_ok && g_set_error == 0))
/* a call threw: exactly one error (that exception), no value, no index called twice, nothing called after the throwing index */
__CPROVER_ensures(g_threw ==> (g_set_error == 1 && g_error_tok == g_exc && g_set_value == 0 && g_victim_calls == ((VICTIM_IN_SHAPE && g_victim <= g_throw_at) ? 1 : 0)))
__CPROVER_assigns(g_victim_calls, g_set_value, g_set_error, g_error_tok, g_value_pack_ok, g_threw, g_exc, g_throw_at)
//@LIFT body

void harness(void)
{
  struct bulk_receiver r;
  g_n = nondet_Shape(); g_victim = nondet_Shape(); g_victim_calls = 0;
  r.receiver = 1; r.shape_n = g_n; r.f = 2;
  g_set_value = g_set_error = 0; g_error_tok = 0; g_value_pack_ok = false; g_threw = false; g_exc = 0; g_throw_at = 0;
  set_value(&r, 7);
  if (!g_threw && g_n == 0) VX_REACH("empty_shape_completes_at_once");
  if (!g_threw && g_victim_calls == 1) VX_REACH("victim_called_once");
  if (g_threw) VX_REACH("a_call_threw");
}
