/* C11 -- set_value_loop_visitor::operator()(Ts&): the chunk-stealing loop of one worker (T contract over the queue and
 * do_work_chunk stubs).  "f once per index" needs, per worker task: every chunk index this task popped is handed to
 * do_work_chunk exactly once, nothing that was not popped is processed, an optional is read only when engaged, and the
 * task returns only after it has seen every queue empty (so no chunk is left behind by the last worker). */
#include "bulk.h"

struct opt_u32 { bool has; uint32_t val; };
typedef uint32_t qref; /* `auto& q = op_state->queues[i].data_` : a queue is identified by its index */
struct op_state_t { uint32_t num_worker_threads; };
struct visitor { struct op_state_t *op_state; struct task_function const *task_f; };

static uint32_t g_num_chunks;  /* ghost: number of chunks the queues were initialised with */
static uint32_t g_vc;          /* symbolic victim chunk index */
static long g_vc_pops, g_vc_calls; /* times the victim chunk was popped by / processed by this task */
static long g_pops, g_calls;
static uint32_t g_vq;          /* symbolic victim queue */
static bool g_vq_seen_empty;   /* this task saw pop on queue g_vq return nullopt */
static bool g_pending;         /* a popped chunk has not been handed to do_work_chunk yet */
static uint32_t g_pending_val;

static qref vx_queue(struct op_state_t *op, size_t i)
{
  VX_ASSERT(i < op->num_worker_threads, "queues[] index within num_worker_threads");
  return (qref) i;
}
/* contiguous_index_queue::pop_left / pop_right (contract proved in C17: a value is handed out to exactly one popper and
 * lies in the range the queue was reset with -- which init_queue keeps inside [0, num_chunks)) */
static struct opt_u32 ciq_pop(qref q)
{
  struct opt_u32 r;
  bool has = nondet_bool();
  uint32_t val = nondet_u32();
  VX_ASSERT(!g_pending, "a popped chunk index is processed before the next pop overwrites it");
  r.has = has;
  r.val = val; /* a disengaged optional keeps an arbitrary stale payload */
  if (has)
  {
    VX_ASSUME(val < g_num_chunks);
    if (val == g_vc) { VX_ASSUME(g_vc_pops == 0); g_vc_pops++; } /* C17: handed out at most once */
    if (g_pops < 3) g_pops++;
    g_pending = true; g_pending_val = val;
  }
  else if (q == g_vq) g_vq_seen_empty = true;
  return r;
}
static struct opt_u32 ciq_pop_left(qref q) { return ciq_pop(q); }
static struct opt_u32 ciq_pop_right(qref q) { return ciq_pop(q); }
static bool ciq_empty(qref q) { (void) q; return nondet_bool(); } /* a racy snapshot: says nothing about the next pop */
static bool opt_has(struct opt_u32 o) { return o.has; }
static uint32_t opt_deref(struct opt_u32 const *o)
{
  VX_ASSERT(o->has, "std::optional dereferenced only when engaged");
  return o->val;
}
/* do_work_chunk (contract proved in bulk.do_work_chunk.*: f once for every i of chunk `index`) */
static void do_work_chunk(struct visitor const *self, int ts, uint32_t index)
{
  (void) self; (void) ts;
  VX_ASSERT(index < g_num_chunks, "do_work_chunk precondition: chunk index below num_chunks");
  VX_ASSERT(g_pending && index == g_pending_val, "do_work_chunk is given the chunk index that was just popped");
  g_pending = false;
  if (index == g_vc && g_vc_calls < 3) g_vc_calls++;
  if (g_calls < 3) g_calls++;
}

/* distance of queue q from this worker's own queue in stealing order */
#define W (self->op_state->num_worker_threads)
#define WT (self->task_f->worker_thread)
#define DIST(q) ((q) >= WT ? (q) - WT : (q) + (W - WT))
#define CALLS_MATCH (g_vc_calls == g_vc_pops && !g_pending && g_vc_pops >= 0 && g_vc_pops <= 1 && g_pops >= 0 && g_pops <= 3 && \
                     g_calls >= 0 && g_calls <= 3 && (g_pops < 3 ? g_calls == g_pops : g_calls == 3))

//@FUNC
void visit(struct visitor const *self, int ts)
__CPROVER_requires(W >= 1 && W <= W_MAX && WT < W && g_vq < W && g_vc < g_num_chunks)
__CPROVER_requires(g_vc_pops == 0 && g_vc_calls == 0 && g_pops == 0 && g_calls == 0 && !g_vq_seen_empty && !g_pending)
/* every chunk this task popped was processed exactly once, and nothing else was processed */
__CPROVER_ensures(g_vc_calls == g_vc_pops && !g_pending)
__CPROVER_ensures(g_pops < 3 ? g_calls == g_pops : g_calls == 3)
/* the task returns only after it has seen every queue (its own and every neighbour's) empty */
__CPROVER_ensures(g_vq_seen_empty)
__CPROVER_assigns(g_vc_pops, g_vc_calls, g_pops, g_calls, g_vq_seen_empty, g_pending, g_pending_val)
//@LIFT body

void harness(void)
{
  struct op_state_t os;
  struct task_function tf;
  struct visitor v;
  os.num_worker_threads = nondet_u32();
  tf.n = 1; tf.chunk_size = 1;
  tf.worker_thread = nondet_u32();
  v.op_state = &os; v.task_f = &tf;
  g_num_chunks = nondet_u32();
  g_vc = nondet_u32();
  g_vq = nondet_u32();
  g_vc_pops = 0; g_vc_calls = 0; g_pops = 0; g_calls = 0; g_vq_seen_empty = false; g_pending = false; g_pending_val = 0;
  visit(&v, 7);
  if (g_vc_pops == 1) VX_REACH("victim_chunk_processed");
  if (g_pops == 0) VX_REACH("nothing_to_do");
  if (g_pops >= 2) VX_REACH("several_chunks");
  if (os.num_worker_threads > 1 && g_vq != tf.worker_thread) VX_REACH("neighbour_queue_drained");
}
