/* C11 -- thread_pool_scheduler bulk: types, ghost state, stubs */
#ifndef C11_BULK_H
#define C11_BULK_H
#include "vx.h"
typedef SHAPE_T Shape;            /* template parameter Shape (instantiated per unit) */
typedef CS_T chunk_t;             /* declared type of chunk_size in the real code (read from /repo by spec.py) */
typedef TR_T tasks_remaining_t;   /* declared value type of operation_state::tasks_remaining (read from /repo) */
#define nondet_Shape SHAPE_ND
#define SHAPE_MAX ((Shape)(SHAPE_IS_SIGNED ? (((uint64_t)1 << (sizeof(Shape) * 8 - 1)) - 1) : (Shape)~(Shape)0))
#define VX_MIN(a, b) ((a) < (b) ? (a) : (b))

struct task_function { Shape n; chunk_t chunk_size; uint32_t worker_thread; };

/* ---- T-stub for the user callable f(i, ts...): ghost call counter for ONE symbolic victim index ---- */
static Shape g_victim;       /* arbitrary index chosen by the harness */
static long g_victim_calls;  /* number of times f was invoked with i == g_victim */
static Shape g_n;            /* ghost copy of n */
static void call_f(Shape i)
{
  VX_ASSERT(i >= 0 && i < g_n, "f is invoked only for indices in [0, n)");
  if (i == g_victim && g_victim_calls < 3) g_victim_calls++;
}
#endif
