/* The per-OS-thread worker identity (threading_base/src/thread_num_tss.cpp): global worker number, pool-local worker number, pool number.
 * bulk uses pika::get_local_worker_thread_num() as the slot of the worker the predecessor completed on (the one queue it does not
 * spawn a task for and works off inline): it must be the POOL-LOCAL number, an index into the pool's num_worker_threads queues.
 * All nine functions lifted; F contracts, loop free, full domain.  The thread_local object is one C global (one OS thread's view).
 * (written by main after seeded change C11-8 was missed) */
#include "vx.h"
struct thread_nums { size_t global_thread_num, local_thread_num, thread_pool_num; };
static struct thread_nums thread_nums_tss_;
#define TSS thread_nums_tss_
#define VX_SWAP(a, b) do { size_t vx_t = (a); (a) = (b); (b) = vx_t; } while (0)

size_t set_global_thread_num_tss(size_t num)
__CPROVER_ensures(TSS.global_thread_num == num && __CPROVER_return_value == __CPROVER_old(TSS.global_thread_num))
__CPROVER_ensures(TSS.local_thread_num == __CPROVER_old(TSS.local_thread_num) && TSS.thread_pool_num == __CPROVER_old(TSS.thread_pool_num))
__CPROVER_assigns(TSS)
//@LIFT set_global
size_t get_global_thread_num_tss(void)
__CPROVER_ensures(__CPROVER_return_value == TSS.global_thread_num)
__CPROVER_assigns()
//@LIFT get_global
size_t set_local_thread_num_tss(size_t num)
__CPROVER_ensures(TSS.local_thread_num == num && __CPROVER_return_value == __CPROVER_old(TSS.local_thread_num))
__CPROVER_ensures(TSS.global_thread_num == __CPROVER_old(TSS.global_thread_num) && TSS.thread_pool_num == __CPROVER_old(TSS.thread_pool_num))
__CPROVER_assigns(TSS)
//@LIFT set_local
size_t get_local_thread_num_tss(void)
__CPROVER_ensures(__CPROVER_return_value == TSS.local_thread_num)
__CPROVER_assigns()
//@LIFT get_local
size_t set_thread_pool_num_tss(size_t num)
__CPROVER_ensures(TSS.thread_pool_num == num && __CPROVER_return_value == __CPROVER_old(TSS.thread_pool_num))
__CPROVER_ensures(TSS.global_thread_num == __CPROVER_old(TSS.global_thread_num) && TSS.local_thread_num == __CPROVER_old(TSS.local_thread_num))
__CPROVER_assigns(TSS)
//@LIFT set_pool
size_t get_thread_pool_num_tss(void)
__CPROVER_ensures(__CPROVER_return_value == TSS.thread_pool_num)
__CPROVER_assigns()
//@LIFT get_pool
/* the public accessors: what the worker thread registered with the setter OF THE SAME NAME */
size_t get_worker_thread_num(void)
__CPROVER_ensures(__CPROVER_return_value == TSS.global_thread_num)
__CPROVER_assigns()
//@LIFT pub_global
size_t get_local_worker_thread_num(void)
__CPROVER_ensures(__CPROVER_return_value == TSS.local_thread_num)
__CPROVER_assigns()
//@LIFT pub_local
size_t get_thread_pool_num(void)
__CPROVER_ensures(__CPROVER_return_value == TSS.thread_pool_num)
__CPROVER_assigns()
//@LIFT pub_pool

void harness(void)
{
  TSS.global_thread_num = nondet_size(); TSS.local_thread_num = nondet_size(); TSS.thread_pool_num = nondet_size();
  size_t g = nondet_size(), l = nondet_size(), p = nondet_size();
  /* what scheduled_thread_pool::thread_func does for a worker: register the three numbers, then everybody reads them */
#if defined(U_SET_GLOBAL)
  set_global_thread_num_tss(g);
#elif defined(U_SET_LOCAL)
  set_local_thread_num_tss(l);
#elif defined(U_SET_POOL)
  set_thread_pool_num_tss(p);
#elif defined(U_GET_GLOBAL)
  get_global_thread_num_tss();
#elif defined(U_GET_LOCAL)
  get_local_thread_num_tss();
#elif defined(U_GET_POOL)
  get_thread_pool_num_tss();
#elif defined(U_PUB_GLOBAL)
  get_worker_thread_num();
#elif defined(U_PUB_LOCAL)
  get_local_worker_thread_num();
#elif defined(U_PUB_POOL)
  get_thread_pool_num();
#endif
  VX_REACH("returned");
  if (TSS.global_thread_num != TSS.local_thread_num) VX_REACH("worker_of_a_pool_with_a_thread_offset");
}
