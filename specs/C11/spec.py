import re
from vx.lift import Lift, Sub, Call, Members, Guard, DropStmt, TryCatch, Auto, locate, read_source, LiftError
from vx.run import Unit
from vx import census

BULK = "libs/pika/executors/include/pika/executors/thread_pool_scheduler_bulk.hpp"

# declared types are read from /repo (the template must not invent them)
def _decl(pattern, default):
    try:
        m = re.search(pattern, read_source(BULK), re.S)
        return m.group(1) if m else default
    except LiftError:
        return default

CS_T = _decl(r"static constexpr std::(u?int\d+_t) get_chunk_size\(", "uint32_t")
_tr = _decl(r"std::atomic<([\w:]+)> tasks_remaining", "Shape")
TR_T = None if _tr == "Shape" else _tr.replace("std::", "")

SHAPES = [("i32", "int32_t", "nondet_i32", 1, 32), ("u32", "uint32_t", "nondet_u32", 0, 32),
          ("i64", "int64_t", "nondet_i64", 1, 64), ("u64", "uint64_t", "nondet_u64", 0, 64)]
THOROUGH_SHAPES = [("i16", "int16_t", "nondet_i16", 1, 16), ("u16", "uint16_t", "nondet_u16", 0, 16),
                   ("i8", "int8_t", "nondet_i8", 1, 8), ("u8", "uint8_t", "nondet_u8", 0, 8)]

def shape_defs(ttype, nd, signed, bits):
    tr = TR_T or ttype
    return ["SHAPE_T=" + ttype, "SHAPE_ND=" + nd, "SHAPE_IS_SIGNED=%d" % signed, "SHAPE_BITS=%d" % bits, "CS_T=" + CS_T, "TR_T=" + tr,
            "W_MAX=4096", "N_MAX=0x8000000000000000ull"]

LOOP_GCS = """
__CPROVER_assigns(chunk_size)
__CPROVER_loop_invariant(POW2(chunk_size))
__CPROVER_loop_invariant(chunk_size == 1 || (unsigned __int128) (chunk_size / 2) * num_threads * 8 < (unsigned __int128) n)
__CPROVER_decreases((unsigned __int128) 2 * N_MAX + 16 - (unsigned __int128) chunk_size * num_threads * 8)
"""

UNITS = []
for (tn, tt, nd, sg, bits) in SHAPES + THOROUGH_SHAPES:
    tier = "quick" if (tn, tt, nd, sg, bits) in SHAPES else "thorough"
    D = shape_defs(tt, nd, sg, bits)
    UNITS.append(Unit("bulk.get_chunk_size." + tn, "chunks.c", defines=D + ["U_GET_CHUNK_SIZE"], enforce="get_chunk_size",
                      tier=tier, lifts={"body": Lift(BULK, r"static constexpr std::u?int\d+_t get_chunk_size\(", rules=[],
                                                     loops={1: LOOP_GCS, "count": 1})},
                      funcs=[BULK + ": bulk_receiver::get_chunk_size [Shape=%s]" % tt], min_obligations=10,
                      extra_flags=["--unsigned-overflow-check", "--conversion-check"], timeout=300))

LOOP_DWC = """
__CPROVER_assigns(i, g_victim_calls)
__CPROVER_loop_invariant((Shape) i_begin <= i && i <= (Shape) i_end)
__CPROVER_loop_invariant(g_victim_calls == ((g_victim >= (Shape) i_begin && g_victim < i) ? 1 : 0))
__CPROVER_decreases((Shape) i_end - i)
"""
DWC_RULES = [
    Sub(r"std::apply\(pika::util::detail::bind_front\(op_state->f,\s*(\w+)\),\s*ts\);", r"call_f(\1);", 1),
    Sub(r"\(std::min\)", "VX_MIN", 1),
    Members(["task_f"]),
]
for (tn, tt, nd, sg, bits) in SHAPES + THOROUGH_SHAPES:
    tier = "quick" if (tn, tt, nd, sg, bits) in SHAPES else "thorough"
    D = shape_defs(tt, nd, sg, bits)
    UNITS.append(Unit("bulk.do_work_chunk." + tn, "chunks.c", defines=D + ["U_DO_WORK_CHUNK"], enforce="do_work_chunk",
                      tier=tier, lifts={"body": Lift(BULK, r"void do_work_chunk\(Ts& ts, std::uint32_t const index\) const",
                                                     rules=DWC_RULES, post=[Auto(None)], loops={1: LOOP_DWC, "count": 1})},
                      funcs=[BULK + ": set_value_loop_visitor::do_work_chunk [Shape=%s]" % tt], min_obligations=20,
                      extra_flags=["--unsigned-overflow-check", "--conversion-check"], timeout=300))

D0 = shape_defs("uint32_t", "nondet_u32", 0, 32)
IQ_LIFT = lambda: {"body": Lift(BULK, r"(?:void|bool|auto) init_queue\(std::uint32_t const worker_thread, std::uint32_t const num_chunks\)", rules=[
    Sub(r"auto& queue = op_state->queues\[(\w+)\]\.data_;", r"struct ciq *queue = &QUEUE(self->op_state, \1);", 1),
    Call(r"queue\.reset", "ciq_reset(queue, {0}, {1})", 1),
    Members(["op_state"])], post=[Auto(2)])}
# NOTE: a unit with symbolic worker count W was tried and dropped: contiguous_index_queue::reset requires
# first <= last, i.e. monotonicity of floor(w*C/W) in w -- division reasoning on which CBMC's SAT back end timed out
# (300 s) as did z3/cvc5-free alternatives.  init_queue is therefore decided per worker count (bounded stand-in over W).
W_QUICK = list(range(1, 33)) + [48, 64]
W_THOROUGH = [w for w in range(33, 129) if w not in W_QUICK]
for w in W_QUICK + W_THOROUGH:
    UNITS.append(Unit("bulk.init_queue.W%d" % w, "chunks.c", defines=D0 + ["U_INIT_QUEUE", "W_CONST=%d" % w],
                      enforce="init_queue", lifts=IQ_LIFT(), kind="bounded", tier="quick" if w in W_QUICK else "thorough",
                      funcs=[BULK + ": bulk_receiver::init_queue"], extra_flags=["--unsigned-overflow-check"], timeout=400,
                      doc="partition facts for worker count W == %d, all w < W, all num_chunks <= 8W (bounded stand-in over W)" % w))

# ---- completion bookkeeping (Shape-independent; instantiated with Shape = int64_t) ----
DT = shape_defs("int64_t", "nondet_i64", 1, 64)
OPS = Members(["op_state"])
UNITS += [
    Unit("bulk.finish", "tasks.c", defines=DT + ["U_FINISH"], enforce="finish",
         lifts={"body": Lift(BULK, r"void finish\(\) const", rules=[
             Sub(r"--\(op_state->tasks_remaining\)", "atomic_dec_fetch(&op_state->tasks_remaining)", 1),
             Sub(r"op_state->exception\.has_value\(\)", "op_state->exception_has", None),
             Call(r"pika::execution::experimental::set_error", "recv_set_error(op_state->exception_tok)", 1),
             Call(r"pika::detail::visit", "(VX_ASSERT(op_state->ts_index != 0, \"set_value_end_loop_visitor on monostate: std::terminate\"), recv_set_value())", 1),
             OPS])},
         funcs=[BULK + ": task_function::finish"], min_obligations=10),
    Unit("bulk.store_exception", "tasks.c", defines=DT + ["U_STORE_EXCEPTION"], enforce="store_exception",
         lifts={"body": Lift(BULK, r"void store_exception\(\) const", rules=[
             Call(r"op_state->exception_thrown\.exchange", "atomic_exchange_bool(&op_state->exception_thrown, {0})", 1),
             Sub(r"op_state->exception = std::current_exception\(\);",
                 "{ op_state->exception_has = true; op_state->exception_tok = g_current_exception; g_store_exc++; }", 1),
             OPS])},
         funcs=[BULK + ": task_function::store_exception"], min_obligations=5),
    Unit("bulk.task_entry", "tasks.c", defines=DT + ["U_TASK_ENTRY"], enforce="task_entry",
         lifts={"body": Lift(BULK, r"void operator\(\)\(\)(?=\s*\{\s*try)", rules=[
             DropStmt(r"pika::scoped_annotation ann", 1),
             Sub(r"\bdo_work\(\);", "do_work(self); if (nondet_bool()) { g_threw = true; VX_THROW_NOW; }", 1),
             Sub(r"\bstore_exception\(\);", "store_exception(self);", 1),
             Sub(r"\bfinish\(\);", "finish(self);", 1),
             TryCatch(1)])},
         funcs=[BULK + ": task_function::operator()"], min_obligations=3),
]

QUEUE_REF = Sub(r"auto& queue = op_state->queues\[(\w+)\]\.data_;", r"struct ciq *queue = vx_queue(self->op_state, \1);", 1)
UNITS += [
    Unit("bulk.do_work_task", "tasks.c", defines=DT + ["U_DO_WORK_TASK"], enforce="do_work_task",
         lifts={"body": Lift(BULK, r"void do_work_task\(Shape const n, std::u?int\d+_t const chunk_size,\s*std::uint32_t const worker_thread\) const", rules=[
             Sub(r"task_function task_f\{this->op_state,([^;]*)\};", r"struct task_fn task_f = { self->op_state,\1 };", 1),
             QUEUE_REF,
             Sub(r"\bqueue\.empty\(\)", "ciq_empty(queue)", 1),
             Sub(r"\btask_f\.finish\(\);", "task_finish(&task_f);", None),   # any number: "exactly one finish or one spawn" is the contract
             Sub(r"auto hint = pika::execution::experimental::get_hint\(op_state->scheduler\);", "struct hint hint = get_hint(self->op_state);", None),
             Sub(r"hint == pika::execution::thread_schedule_hint\(\)", "hint_eq(hint, hint_default())", None),
             Call(r"(?<![\w.>])hint = pika::execution::thread_schedule_hint", "hint = hint_make({0}, {1})", None),
             # a hint built in place (no look at the scheduler's own hint): `auto [const] hint = thread_schedule_hint(mode, n);`
             Call(r"auto(?: const)? hint = pika::execution::thread_schedule_hint", "struct hint hint = hint_make({0}, {1})", None),
             Sub(r"pika::execution::thread_schedule_hint_mode::(\w+)", lambda m: "HINT_" + m.group(1).upper(), 1),
             Sub(r"pika::threads::detail::get_self_id\(\)", "get_self_id()", 2),
             Sub(r"pika::detail::thread_description desc =[^;]*;", "", 1),
             Call(r"threads::detail::make_thread_function_nullary", "{0}", 1),
             Call(r"threads::detail::thread_init_data data", "struct init_data data = init_data_make({0}, {3})", 1),
             Call(r"threads::detail::register_work", "register_work({0})", 1),
         ])},
         funcs=[BULK + ": bulk_receiver::do_work_task"], min_obligations=10),
    Unit("bulk.set_value", "tasks.c", defines=DT + ["U_SET_VALUE"], enforce="set_value", replace=["get_chunk_size"],
         lifts={"body": Lift(BULK, r"void set_value\(Ts&&\.\.\. ts\) && noexcept", rules=[
             Sub(r"auto r = std::move\(\*this\);", "struct bulk_receiver r = *self;", 1),
             Sub(r"std::forward<Ts>\(ts\)\.\.\.", "vx_fwd_pack()", None),
             Call(r"pika::execution::experimental::set_value", "recv_set_value_pack({1})", 1),
             Sub(r"auto const chunk_size =\s*get_chunk_size\(", "chunk_t const chunk_size = g_arg_cs = get_chunk_size((uint32_t) ", 1),
             Call(r"r\.op_state->ts\.template emplace<[^;]*?>", "ts_emplace(r.op_state, {0})", 1),
             Sub(r"\br\.(init_queue|do_work_task|do_work_local)\(", r"\1(&r, ", 3),
             Sub(r"pika::get_local_worker_thread_num\(\)", "get_local_worker_thread_num()", 1),
             # not in the pinned tree (tasks_remaining is set once, by the operation state's constructor): a store made here is
             # checked against the number of finish() calls the workers will make
             Call(r"\br\.op_state->tasks_remaining\.store", "tasks_remaining_store(r.op_state, {0})", None),
         ], post=[Auto(None)], loops={
             1: "__CPROVER_assigns(worker_thread, g_inits, g_vw_init, g_arg_nc)\n__CPROVER_loop_invariant(worker_thread <= r.op_state->num_worker_threads && g_inits == (long) worker_thread && g_vw_init == (g_vw < worker_thread ? 1 : 0) && g_tasks == 0 && g_local == 0 && g_emplaced && (g_inits == 0 || g_arg_nc == num_chunks))\n__CPROVER_decreases(r.op_state->num_worker_threads - worker_thread)",
             2: "__CPROVER_assigns(worker_thread, g_tasks, g_vw_task)\n__CPROVER_loop_invariant(worker_thread <= r.op_state->num_worker_threads && g_local == 0 && g_inits == (long) r.op_state->num_worker_threads && g_tasks == (long) worker_thread - (g_local_worker < worker_thread ? 1 : 0) && g_vw_task == ((g_vw < worker_thread && g_vw != g_local_worker) ? 1 : 0))\n__CPROVER_decreases(r.op_state->num_worker_threads - worker_thread)",
             "count": 2})},
         funcs=[BULK + ": bulk_receiver::set_value"], min_obligations=20, timeout=300),
]
for k in range(0, 64):
    UNITS.append(Unit("bulk.num_chunks.K%d" % k, "tasks.c", defines=DT + ["U_NUM_CHUNKS", "KCONST=%d" % k], enforce="num_chunks_of",
                      lifts={"frag": Lift(BULK, r"auto const num_chunks = ", fragment_end=r";", rules=[
                          Sub(r"r\.op_state->shape", "shape", 1)], post=[Auto(1)])},
                      funcs=[BULK + ": bulk_receiver::set_value (num_chunks expression) [chunk_size = 2^%d]" % k],
                      extra_flags=["--unsigned-overflow-check"],
                      doc="complete case split over the power-of-two chunk size (postcondition of get_chunk_size)"))

# ---- the chunk-stealing loop of one worker task (set_value_loop_visitor::operator()(Ts&)) ----
VIS_GHOSTS = "g_vc_pops, g_vc_calls, g_pops, g_calls, g_vq_seen_empty, g_pending, g_pending_val"
LOOP_VIS_LOCAL = """
__CPROVER_assigns(index, %s)
__CPROVER_loop_invariant(CALLS_MATCH && (g_vq_seen_empty ==> g_vq == WT))
""" % VIS_GHOSTS
LOOP_VIS_OUTER = """
__CPROVER_assigns(offset, index, %s)
__CPROVER_loop_invariant(1 <= offset && offset <= W && CALLS_MATCH && ((DIST(g_vq) < offset) ==> g_vq_seen_empty))
""" % VIS_GHOSTS
LOOP_VIS_STEAL = """
__CPROVER_assigns(index, %s)
__CPROVER_loop_invariant(1 <= offset && offset < W && CALLS_MATCH && ((DIST(g_vq) < offset) ==> g_vq_seen_empty))
""" % VIS_GHOSTS
UNITS.append(Unit("bulk.loop_visitor", "visitor.c", defines=DT, enforce="visit",
    lifts={"body": Lift(BULK, r"void operator\(\)\(Ts& ts\) const", rules=[
        Sub(r"auto& (\w+) = op_state->queues\[([^\]]+)\]\.data_;", r"qref \1 = vx_queue(self->op_state, \2);", "+"),
        Sub(r"std::optional<std::uint32_t> (\w+);", r"struct opt_u32 \1; \1.has = false; \1.val = nondet_u32();", 1),
        Sub(r"\b(\w+)\.pop_(left|right)\(\)", r"ciq_pop_\2(\1)", None),
        Sub(r"\b(\w+)\.empty\(\)", r"ciq_empty(\1)", None),
        Sub(r"\b(\w+)\.has_value\(\)", r"opt_has(\1)", None),
        Sub(r"\(\((\w+) = (ciq_pop_\w+\(\w+\))\)\)", r"(opt_has(\1 = \2))", None),
        Sub(r"\*index\b", "opt_deref(&index)", None),
        Sub(r"\bindex\.value\(\)", "opt_deref(&index)", None),
        Call(r"(?<![\w.>])do_work_chunk(?!\s*\(\s*self\b)", "do_work_chunk(self, {0}, {1})", None),
        Members(["op_state", "task_f"]),
    ], loops={1: LOOP_VIS_LOCAL, 2: LOOP_VIS_OUTER, 3: LOOP_VIS_STEAL, "count": 3})},
    funcs=[BULK + ": set_value_loop_visitor::operator()(Ts&)"], min_obligations=20, timeout=300,
    doc="per worker task: every popped chunk index goes to do_work_chunk exactly once, nothing else does, an optional is only "
        "read when engaged, and the task returns only after seeing its own and every neighbour's queue empty"))

# ---- the generic (non-pool) bulk fallback of execution/algorithms/bulk.hpp ----
GBULK = "libs/pika/execution/include/pika/execution/algorithms/bulk.hpp"
from vx.lift import Rule, match_close


class TryCatchEP(Rule):
    """pika::detail::try_catch_exception_ptr([&]() { A }, [&](std::exception_ptr X) { B });
    ->  try { A } catch (...) { int X = vx_current_exception(); B }
    (copied from specs/C03/spec.py; contract of the helper proved there as unit errors.try_catch_exception_ptr: t once; c iff t threw, with that exception)"""

    def __init__(self, n=None):
        self.n = n

    def apply(self, text):
        k = 0
        rx = re.compile(r"pika::detail::try_catch_exception_ptr\s*\(")
        while True:
            m = rx.search(text)
            if not m:
                break
            op = m.end() - 1
            cl = match_close(text, op)
            inner = text[op + 1:cl]
            m1 = re.match(r"\s*\[&\]\s*\(\s*\)\s*\{", inner)
            if not m1:
                raise LiftError("TryCatchEP: first argument is not a [&]() lambda")
            a0 = m1.end() - 1
            a1 = match_close(inner, a0, "{", "}")
            m2 = re.match(r"\s*,\s*\[&\]\s*\(\s*std::exception_ptr\s+(\w+)\s*\)\s*\{", inner[a1 + 1:])
            if not m2:
                raise LiftError("TryCatchEP: second argument is not a [&](std::exception_ptr x) lambda")
            b0 = a1 + 1 + m2.end() - 1
            b1 = match_close(inner, b0, "{", "}")
            if inner[b1 + 1:].strip():
                raise LiftError("TryCatchEP: trailing text")
            end = cl + 1
            ms = re.match(r"\s*;", text[end:])
            if ms:
                end += ms.end()
            text = text[:m.start()] + "try { %s } catch (...) { int %s = vx_current_exception(); %s }" % (
                inner[a0 + 1:a1], m2.group(1), inner[b0 + 1:b1]) + text[end:]
            k += 1
        self.check(k, "TryCatchEP")
        return text


LOOP_GBULK = """
__CPROVER_assigns(s, g_victim_calls, g_threw, g_exc, g_throw_at)
__CPROVER_loop_invariant(0 <= s && s <= g_n && !g_threw && g_set_value == 0 && g_set_error == 0)
__CPROVER_loop_invariant(g_victim_calls == ((g_victim >= 0 && g_victim < s) ? 1 : 0))
__CPROVER_decreases(g_n - s)
"""
for (tn, tt, nd, sg, bits) in SHAPES:
    UNITS.append(Unit("bulk.generic.set_value." + tn, "generic.c", defines=shape_defs(tt, nd, sg, bits), enforce="set_value",
        lifts={"body": Lift(GBULK, r"void set_value\(Ts&&\.\.\. ts\) && noexcept", rules=[
            Sub(r"auto r = std::move\(\*this\);", "struct bulk_receiver r = *self;", 1),
            TryCatchEP(None),
            Sub(r"for \(auto const& (\w+) : r\.shape\)", r"for (Shape \1 = shape_begin(&r); \1 != shape_end(&r); ++\1)", None),
            Sub(r"PIKA_INVOKE\(r\.f, (\w+), ts\.\.\.\);", r"{ invoke_f(&r, \1, ts_pack); if (g_threw) VX_THROW_NOW; }", None),
            Sub(r"std::forward<Ts>\(ts\)\.\.\.", "ts_pack", None),
            Call(r"pika::execution::experimental::set_value", "recv_set_value({0}, {1})", None),
            Call(r"pika::execution::experimental::set_error", "recv_set_error({0}, {1})", None),
            TryCatch(None),
        ], loops={1: LOOP_GBULK, "count": 1})},
        funcs=[GBULK + ": bulk_detail::bulk_sender::bulk_receiver::set_value [Shape=%s]" % tt], min_obligations=10))

META = {"trusted_base": [], "assumptions": [], "not_decided": []}

STATIC = [
    # A-CLOSED: tasks_remaining and exception_thrown are touched only by finish() / store_exception() (+ their declarations)
    census.sites("bulk tasks_remaining accesses", [BULK], r"\btasks_remaining\b", 2),
    census.sites("bulk exception_thrown accesses", [BULK], r"\bexception_thrown\b", 3),
]


# ---- C17 units reused (added after seeded change C11-4 was missed): "f once per index" rests on contiguous_index_queue handing out
# ---- every chunk index at most once under concurrent pops from both ends; these are the C17 units of the same name, run here too
_c17 = {"UNITS": [], "VX_NO_REUSE": True, "__name__": "c17_reuse"}
if not globals().get("VX_NO_REUSE"):     # reuse is never transitive: the other spec is loaded without ITS reuse blocks (no cycles)
    exec(compile(open("/verif/specs/C17/spec.py").read(), "/verif/specs/C17/spec.py", "exec"), _c17)
for _u in _c17["UNITS"]:
    if _u.name.startswith("ciq.") and not _u.name.endswith(".i32"):
        _u.name = "c17." + _u.name
        _u.template = "../C17/" + _u.template
        UNITS.append(_u)
META["trusted_base"] = list(META.get("trusted_base", [])) + ["units c17.* are the C17 units of the same name (specs/C17/ciq.c) with their trusted base"]


# ---- the per-OS-thread worker identity (added by main after seeded change C11-8 was missed) ----------------------------------------------
TSS_CPP = "libs/pika/threading_base/src/thread_num_tss.cpp"
_TSS_RULES = [
    Sub(r"\bthreads::detail::", "", None),
    Sub(r"std::swap\(([^,()]+),\s*(\w+)\);", r"VX_SWAP(\1, \2);", None),
    Sub(r"\b(get_\w+_tss)\(\)", r"\1()", None),
]
_TSS_FUNCS = [("set_global", r"std::size_t set_global_thread_num_tss\(std::size_t num\)", "set_global_thread_num_tss", "U_SET_GLOBAL"),
              ("get_global", r"std::size_t get_global_thread_num_tss\(\)", "get_global_thread_num_tss", "U_GET_GLOBAL"),
              ("set_local", r"std::size_t set_local_thread_num_tss\(std::size_t num\)", "set_local_thread_num_tss", "U_SET_LOCAL"),
              ("get_local", r"std::size_t get_local_thread_num_tss\(\)", "get_local_thread_num_tss", "U_GET_LOCAL"),
              ("set_pool", r"std::size_t set_thread_pool_num_tss\(std::size_t num\)", "set_thread_pool_num_tss", "U_SET_POOL"),
              ("get_pool", r"std::size_t get_thread_pool_num_tss\(\)", "get_thread_pool_num_tss", "U_GET_POOL"),
              ("pub_global", r"std::size_t get_worker_thread_num\(\)", "get_worker_thread_num", "U_PUB_GLOBAL"),
              ("pub_local", r"std::size_t get_local_worker_thread_num\(\)", "get_local_worker_thread_num", "U_PUB_LOCAL"),
              ("pub_pool", r"std::size_t get_thread_pool_num\(\)", "get_thread_pool_num", "U_PUB_POOL")]
_TSS_LIFTS = lambda: {k: Lift(TSS_CPP, loc, rules=_TSS_RULES) for (k, loc, fn, d) in _TSS_FUNCS}
for (_k, _loc, _fn, _d) in _TSS_FUNCS:
    UNITS.append(Unit("tss." + _fn, "tss.c", defines=[_d], enforce=_fn, lifts=_TSS_LIFTS(),
                      funcs=[TSS_CPP + ": " + _fn], min_obligations=2,
                      doc="F: the worker identity accessor reads / replaces exactly the number of its own name"))
META["trusted_base"] = list(META.get("trusted_base", [])) + ["specs/C11/tss.c: the thread_local thread_nums object is one C global (the view of one OS thread)"]


# ---- operation_state::num_worker_threads (added by main after seeded change C11-9 was missed) ------------------------------------------------
UNITS.append(Unit("bulk.op_state.num_worker_threads", "nwt.c", enforce="op_init_num_worker_threads",
                  lifts={"body": Lift(BULK, r"std::size_t num_worker_threads =", fragment_end=r";", rules=[
                      Sub(r"^\s*std::size_t num_worker_threads =", "self->num_worker_threads =", 1),
                      Sub(r"\bscheduler\.get_thread_pool\(\)", "sched_get_thread_pool(&self->scheduler)", None),
                      Call(r"(sched_get_thread_pool\(&self->scheduler\))->(get_\w+_count)", "pool_{h2}({h1})", None)])},
                  funcs=[BULK + ": thread_pool_bulk_detail::operation_state (default member initialiser of num_worker_threads)"], min_obligations=3,
                  doc="F: one per-worker queue per OS thread of the pool (the range of get_local_worker_thread_num)"))
