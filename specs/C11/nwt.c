/* C11 -- thread_pool_bulk_detail::operation_state: the default member initialiser of num_worker_threads.  It sizes the per-worker
 * queues, tasks_remaining, the chunk partition and the spawn loop, and the worker the predecessor completes on is identified by
 * pika::get_local_worker_thread_num(), which ranges over ALL OS threads of the pool [0, get_os_thread_count()): the number of queues
 * must be the pool's OS thread count (not the number of currently active / not suspended workers).
 * F contract on the lifted initialiser expression.  (written by main after seeded change C11-9 was missed) */
#include "vx.h"
struct pool { size_t os_threads, active_os_threads; };
struct sched { struct pool *pool; };
static long g_os_calls, g_active_calls;
static struct pool *sched_get_thread_pool(struct sched *s) { return s->pool; }
static size_t pool_get_os_thread_count(struct pool *p) { if (g_os_calls < 2) g_os_calls++; return p->os_threads; }
/* thread_pool_base::get_active_os_thread_count(): workers whose state is not suspended / sleeping: <= get_os_thread_count() */
static size_t pool_get_active_os_thread_count(struct pool *p) { if (g_active_calls < 2) g_active_calls++; return p->active_os_threads; }
struct op { struct sched scheduler; size_t num_worker_threads; };
//@FUNC
void op_init_num_worker_threads(struct op *self)
__CPROVER_requires(self->scheduler.pool->active_os_threads <= self->scheduler.pool->os_threads)
/* one queue per OS thread of the pool: every value of get_local_worker_thread_num() on that pool is a valid queue index */
__CPROVER_ensures(self->num_worker_threads == self->scheduler.pool->os_threads)
__CPROVER_assigns(self->num_worker_threads, g_os_calls, g_active_calls)
{
//@LIFT body
}

void harness(void)
{
  struct pool p; p.os_threads = nondet_size(); p.active_os_threads = nondet_size();
  struct op o; o.scheduler.pool = &p; o.num_worker_threads = nondet_size();
  g_os_calls = g_active_calls = 0;
  op_init_num_worker_threads(&o);
  VX_REACH("initialised");
  if (p.active_os_threads < p.os_threads) VX_REACH("pool_with_a_suspended_worker");
}
