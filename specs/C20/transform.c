/* C20 units over transform_mpi.hpp: the internal receiver of transform_mpi (dispatch, trigger, set_value).
 * T contracts: per call, COMPLETIONS = set_value + set_error on the outer receiver + registered polling callbacks that signal the receiver themselves
 * (new_task, continuation; the suspend/resume callback only wakes the task) + MPIX continuations registered.  "The sender signals its receiver exactly once" = COMPLETIONS goes up by exactly one per started operation. */
/* lowered try/catch: entering the handler consumes the exception in flight */
#define VX_TRY_BEGIN(k) ((void) 0)
#define VX_CATCH_BEGIN(k) (vx_exc = false)
#define VX_THROW_TO(label) do { if (nondet_bool()) goto label; } while (0)
#include "vx.h"
enum handler_method
//@LIFT e_handler_method
;
#include "c20_op.h"
struct receiver { struct op_state *op_state; };
#define COMPLETIONS (OG.completions)
#define METHOD(o) ((((o)->mode_flags) >> 3) & 7)        /* documented: bits 3..5 (unit mode.get_handler_method) */

handler_method get_handler_method(uint32_t flags)
//@LIFT get_handler_method
bool use_priority_boost(size_t mode)
//@LIFT use_priority_boost

/* callees with the contracts proved in the help.* units */
static void set_value_error_helper(int mpi_status, int receiver)
{
  if (mpi_status == MPI_SUCCESS) ex_set_value(receiver); else ex_set_error(receiver, mpi_exception(mpi_status));
}
static void add_suspend_resume_request_callback(struct op_state *o)
{
  VX_ASSERT(o->completed == false, "precondition of add_suspend_resume_request_callback (PIKA_ASSERT): flag not set yet");
  VX_ASSERT(o->mutex.held, "the suspend/resume callback is registered while op_state.mutex is held (it cannot publish before the task waits)");
  add_request_callback(CB_suspend_resume, o->request);
  OG.shared = true;
}
static void add_new_task_request_callback(struct op_state *o) { add_request_callback(CB_new_task, o->request); }
static void add_continuation_request_callback(struct op_state *o) { add_request_callback(CB_continuation, o->request); }
#define mpix_callback_continuation 5

/* user's MPI function f(ts..., &request): ASSUMED to leave a non-null request behind (the authors assert it), may return an error code
 * (int-returning f) and may throw (e.g. pika's MPI error handler converts errors into exceptions) */
static int vx_invoke_mpi_f(int f, MPI_Request *req)
{
  if (OG.f_calls < 2) OG.f_calls++;
  if (OC.f_throws && nondet_bool()) { vx_exc = true; return 0; }
  *req = nondet_int();
  VX_ASSUME(*req != MPI_REQUEST_NULL);
  int rc = nondet_int();
  if (!OC.f_returns_error) rc = MPI_SUCCESS;
  return rc;
}

#ifdef U_DISPATCH
//@FUNC
void dispatch(struct receiver *r)
__CPROVER_requires(r->op_state == vx_op && !vx_exc && OG.f_calls == 0 && r->op_state->status == MPI_SUCCESS)
/* the MPI function is invoked exactly once; if it throws nothing is signalled */
__CPROVER_ensures(OG.f_calls == 1 && OG.sv == __CPROVER_old(OG.sv) && (vx_exc ==> (COMPLETIONS == __CPROVER_old(COMPLETIONS) && OG.se == __CPROVER_old(OG.se))))
/* an error CODE returned by the MPI function is reported to the receiver with set_error, exactly once; success signals nothing yet */
__CPROVER_ensures(!vx_exc ==> (r->op_state->status != MPI_SUCCESS ? (OG.se == __CPROVER_old(OG.se) + 1 && COMPLETIONS == __CPROVER_old(COMPLETIONS) + 1 && OG.se_tok == EXC_mpi && OG.se_code == r->op_state->status)
                                                                    : (OG.se == __CPROVER_old(OG.se) && COMPLETIONS == __CPROVER_old(COMPLETIONS))))
__CPROVER_ensures(OG.shared == __CPROVER_old(OG.shared) && OG.cb_reg == __CPROVER_old(OG.cb_reg) && OG.cb_sig == __CPROVER_old(OG.cb_sig) && OG.mpix_reg == __CPROVER_old(OG.mpix_reg) && (!vx_exc ==> r->op_state->request != MPI_REQUEST_NULL))
#if !defined(F_RETURNS_INT) || defined(KF_MPI_ERROR_CODE)
/* instance "MPI function returns void" -- or, for the known-finding re-run (-DKF_MPI_ERROR_CODE), the input class "the MPI function
 * returned an error code" excluded */
__CPROVER_ensures(r->op_state->status == MPI_SUCCESS)
#endif
__CPROVER_assigns(OG, vx_exc, r->op_state->status, r->op_state->request)
//@LIFT dispatch
/*{}*/
#elif defined(U_SET_VALUE)
/* called through its contract: SAME clauses as proved by the tmpi.dispatch.* units (identity checked by spec.py at load time) */
void dispatch(struct receiver *r)
__CPROVER_requires(r->op_state == vx_op && !vx_exc && OG.f_calls == 0 && r->op_state->status == MPI_SUCCESS)
/* the MPI function is invoked exactly once; if it throws nothing is signalled */
__CPROVER_ensures(OG.f_calls == 1 && OG.sv == __CPROVER_old(OG.sv) && (vx_exc ==> (COMPLETIONS == __CPROVER_old(COMPLETIONS) && OG.se == __CPROVER_old(OG.se))))
/* an error CODE returned by the MPI function is reported to the receiver with set_error, exactly once; success signals nothing yet */
__CPROVER_ensures(!vx_exc ==> (r->op_state->status != MPI_SUCCESS ? (OG.se == __CPROVER_old(OG.se) + 1 && COMPLETIONS == __CPROVER_old(COMPLETIONS) + 1 && OG.se_tok == EXC_mpi && OG.se_code == r->op_state->status)
                                                                    : (OG.se == __CPROVER_old(OG.se) && COMPLETIONS == __CPROVER_old(COMPLETIONS))))
__CPROVER_ensures(OG.shared == __CPROVER_old(OG.shared) && OG.cb_reg == __CPROVER_old(OG.cb_reg) && OG.cb_sig == __CPROVER_old(OG.cb_sig) && OG.mpix_reg == __CPROVER_old(OG.mpix_reg) && (!vx_exc ==> r->op_state->request != MPI_REQUEST_NULL))
#if !defined(F_RETURNS_INT) || defined(KF_MPI_ERROR_CODE)
/* instance "MPI function returns void" -- or, for the known-finding re-run (-DKF_MPI_ERROR_CODE), the input class "the MPI function
 * returned an error code" excluded */
__CPROVER_ensures(r->op_state->status == MPI_SUCCESS)
#endif
__CPROVER_assigns(OG, vx_exc, r->op_state->status, r->op_state->request)
;
#elif defined(U_SET_VALUE_FULL)
void dispatch(struct receiver *r)
//@LIFT dispatch
#endif

#ifdef U_TRIGGER
//@FUNC
void trigger(struct receiver *r)
__CPROVER_requires(r->op_state == vx_op && !vx_exc && OC.need_complete && OC.env_callback && !r->op_state->mutex.held && !r->op_state->completed && !OG.shared)
__CPROVER_requires(OG.cb_reg == 0 && OG.cb_sig == 0 && OG.mpix_reg == 0 && r->op_state->request != MPI_REQUEST_NULL)
/* documented handler methods only (an undocumented method value reaches PIKA_UNREACHABLE: see report) */
__CPROVER_requires(METHOD(r->op_state) <= 4)
/* yield_while and suspend_resume need a pika thread (the authors' assertions; caller's duty) */
__CPROVER_requires(OC.on_pika_thread)
/* exactly ONE completion is arranged: the receiver is signalled here (set_value only after MPI reported the request complete --
 * stub obligation), or exactly one polling callback / MPIX continuation is registered that will signal it */
__CPROVER_ensures(COMPLETIONS == __CPROVER_old(COMPLETIONS) + 1)
/* which one: an eager poll that finds the request complete short-cuts every method */
__CPROVER_ensures((OG.cb_reg == 1) ==> ((METHOD(r->op_state) == 1 && OG.cb_kind == CB_suspend_resume) || (METHOD(r->op_state) == 2 && OG.cb_kind == CB_new_task) ||
                                        (METHOD(r->op_state) == 3 && OG.cb_kind == CB_continuation)))
__CPROVER_ensures((OG.cb_reg == 1) ==> OG.cb_req == r->op_state->request)
__CPROVER_ensures(OG.mpix_reg == 1 ==> METHOD(r->op_state) == 4)
/* new_task / continuation / mpix: the receiver is NOT signalled by trigger once the callback is registered */
__CPROVER_ensures((OG.cb_reg == 1 && OG.cb_kind != CB_suspend_resume) ==> (OG.sv == __CPROVER_old(OG.sv) && OG.se == __CPROVER_old(OG.se)))
/* suspend_resume: the callback only wakes the task (unit help.cb.suspend_resume); the resumed task signals the receiver itself, after it
 * saw the completion flag under the mutex, with the status the callback published */
__CPROVER_ensures((OG.cb_reg == 1 && OG.cb_kind == CB_suspend_resume) ==> (r->op_state->completed && OG.completions == __CPROVER_old(OG.completions) + 1 && OG.sv + OG.se == 1 &&
                  r->op_state->status == OG.cb_status && (OG.sv == 1) == (OG.cb_status == MPI_SUCCESS) && (OG.se == 1 ==> OG.se_code == OG.cb_status)))
__CPROVER_assigns(OG, r->op_state->status, r->op_state->completed, r->op_state->mutex.held, g_completed_at_release)
//@LIFT trigger
/*{}*/
#elif defined(U_SET_VALUE)
/* called through its contract: SAME clauses as proved by unit tmpi.trigger */
void trigger(struct receiver *r)
__CPROVER_requires(r->op_state == vx_op && !vx_exc && OC.need_complete && OC.env_callback && !r->op_state->mutex.held && !r->op_state->completed && !OG.shared)
__CPROVER_requires(OG.cb_reg == 0 && OG.cb_sig == 0 && OG.mpix_reg == 0 && r->op_state->request != MPI_REQUEST_NULL)
/* documented handler methods only (an undocumented method value reaches PIKA_UNREACHABLE: see report) */
__CPROVER_requires(METHOD(r->op_state) <= 4)
/* yield_while and suspend_resume need a pika thread (the authors' assertions; caller's duty) */
__CPROVER_requires(OC.on_pika_thread)
/* exactly ONE completion is arranged: the receiver is signalled here (set_value only after MPI reported the request complete --
 * stub obligation), or exactly one polling callback / MPIX continuation is registered that will signal it */
__CPROVER_ensures(COMPLETIONS == __CPROVER_old(COMPLETIONS) + 1)
/* which one: an eager poll that finds the request complete short-cuts every method */
__CPROVER_ensures((OG.cb_reg == 1) ==> ((METHOD(r->op_state) == 1 && OG.cb_kind == CB_suspend_resume) || (METHOD(r->op_state) == 2 && OG.cb_kind == CB_new_task) ||
                                        (METHOD(r->op_state) == 3 && OG.cb_kind == CB_continuation)))
__CPROVER_ensures((OG.cb_reg == 1) ==> OG.cb_req == r->op_state->request)
__CPROVER_ensures(OG.mpix_reg == 1 ==> METHOD(r->op_state) == 4)
/* new_task / continuation / mpix: the receiver is NOT signalled by trigger once the callback is registered */
__CPROVER_ensures((OG.cb_reg == 1 && OG.cb_kind != CB_suspend_resume) ==> (OG.sv == __CPROVER_old(OG.sv) && OG.se == __CPROVER_old(OG.se)))
/* suspend_resume: the callback only wakes the task (unit help.cb.suspend_resume); the resumed task signals the receiver itself, after it
 * saw the completion flag under the mutex, with the status the callback published */
__CPROVER_ensures((OG.cb_reg == 1 && OG.cb_kind == CB_suspend_resume) ==> (r->op_state->completed && OG.completions == __CPROVER_old(OG.completions) + 1 && OG.sv + OG.se == 1 &&
                  r->op_state->status == OG.cb_status && (OG.sv == 1) == (OG.cb_status == MPI_SUCCESS) && (OG.se == 1 ==> OG.se_code == OG.cb_status)))
__CPROVER_assigns(OG, r->op_state->status, r->op_state->completed, r->op_state->mutex.held, g_completed_at_release)
;
#elif defined(U_SET_VALUE_FULL)
void trigger(struct receiver *r)
//@LIFT trigger
#endif

#if defined(U_SET_VALUE) || defined(U_SET_VALUE_FULL)
//@FUNC
void recv_set_value(struct receiver *self)
__CPROVER_requires(self->op_state == vx_op && !vx_exc && COMPLETIONS == 0 && OG.cb_reg == 0 && OG.f_calls == 0 && self->op_state->status == MPI_SUCCESS)
__CPROVER_requires(OC.need_complete && OC.env_callback && !self->op_state->mutex.held && !self->op_state->completed && !OG.shared && OC.on_pika_thread && METHOD(self->op_state) <= 4)
#ifdef KF_MPI_ERROR_CODE
__CPROVER_requires(!OC.f_returns_error)
#endif
/* started once => exactly one completion: one signal now, or one registered callback that delivers it later -- never both, never two */
__CPROVER_ensures(COMPLETIONS == 1 && !vx_exc)
__CPROVER_assigns(OG, vx_exc, self->op_state->status, self->op_state->request, self->op_state->completed, self->op_state->mutex.held, self->op_state->ts, g_completed_at_release)
//@LIFT recv_set_value
/*{}*/
#endif

void harness(void)
{
  struct op_state o;
  struct receiver rc;
  og_init(&o);
  rc.op_state = &o;
  OC.need_complete = true;
  OC.env_callback = true;
#ifdef U_DISPATCH
  OC.f_throws = nondet_bool();
#ifdef F_RETURNS_INT
  OC.f_returns_error = nondet_bool();
#endif
  o.request = MPI_REQUEST_NULL;
  dispatch(&rc);
  if (vx_exc) VX_REACH("mpi_function_threw");
#ifdef F_RETURNS_INT
  else if (o.status != MPI_SUCCESS) VX_REACH("error_code_set_error");
#endif
  else VX_REACH("request_posted");
#endif
#ifdef U_TRIGGER
  OC.on_pika_thread = true;
  if (o.request == MPI_REQUEST_NULL) o.request = 1;
  trigger(&rc);
  if (OG.polls == 1 && OG.sv == 1) VX_REACH("eager_poll_complete");
  if (METHOD(&o) == 0 && OG.yields >= 1 && OG.sv == 1) VX_REACH("yield_while_polled_until_complete");
  if (METHOD(&o) == 1 && OG.waits >= 1 && OG.sv == 1) VX_REACH("suspend_resume_blocked_then_set_value");
  if (METHOD(&o) == 1 && OG.waits == 0 && OG.cb_reg == 1) VX_REACH("suspend_resume_callback_won_the_race");
  if (METHOD(&o) == 1 && OG.se == 1) VX_REACH("suspend_resume_set_error");
  if (METHOD(&o) == 1 && (o.mode_flags & 4)) VX_REACH("suspend_resume_boosted");
  if (METHOD(&o) == 2 && OG.cb_reg == 1) VX_REACH("new_task_callback_registered");
  if (METHOD(&o) == 3 && OG.cb_reg == 1) VX_REACH("continuation_callback_registered");
  if (METHOD(&o) == 4 && OG.mpix_reg == 1) VX_REACH("mpix_continuation_registered");
#endif
#if defined(U_SET_VALUE) || defined(U_SET_VALUE_FULL)
  OC.on_pika_thread = true;
  OC.f_throws = nondet_bool();
#ifdef KF_MPI_ERROR_CODE
  OC.f_returns_error = false;    /* known-finding re-run: input class "the MPI function returns an error code" excluded */
#else
  OC.f_returns_error = nondet_bool();
#endif
  recv_set_value(&rc);
  if (OG.sv == 1) VX_REACH("set_value_now");
  if (OG.se == 1 && OG.se_tok == EXC_mpi) VX_REACH("set_error_mpi_code");
  if (OG.se == 1 && OG.se_tok == EXC_other) VX_REACH("set_error_exception_caught");
  if (OG.cb_reg == 1) VX_REACH("callback_registered");
#endif
}
