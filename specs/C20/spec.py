"""C20 -- MPI requests complete their sender exactly once, after the transfer.

SLICE decided on SOURCE TEXT ONLY: the MPI adaptor is not part of this sandbox's build (PIKA_WITH_MPI=OFF, no mpi.h); the C++
compiler never saw these files here.  Every MPI_* function / constant / type is an environment stub (specs/C20/c20_mpi.h, c20.h).
"""
import os
import re

from vx import lift as L
from vx.lift import Lift, Sub, Call, Members, Guard, DropStmt, Rule, LiftError, match_close, split_args, TryCatch
from vx.run import Unit
from vx import census

POLL = "libs/pika/async_mpi/src/mpi_polling.cpp"
POLL_H = "libs/pika/async_mpi/include/pika/async_mpi/mpi_polling.hpp"
HELP_H = "libs/pika/async_mpi/include/pika/async_mpi/mpi_helpers.hpp"
TRAN_H = "libs/pika/async_mpi/include/pika/async_mpi/transform_mpi.hpp"
ENV = "libs/pika/mpi_base/src/mpi_environment.cpp"

# ---------------------------------------------------------------------------------------------------------------
# local helpers (the framework has no per-Lift preprocessor configuration; nothing under vx/ is changed)


class LiftPP(Lift):
    """Lift with an explicit preprocessor configuration: `defs` are added to / `undefs` removed from the build's defines before
    #if resolution.  (vx.lift.Lift.run always uses the build configuration; this subclass repeats its pipeline.)"""

    def __init__(self, *a, defs=None, undefs=(), loops_optional=False, **k):
        Lift.__init__(self, *a, **k)
        self.defs, self.undefs, self.loops_optional = dict(defs or {}), tuple(undefs), loops_optional

    def run(self):
        if self.fragment_end:
            body, line, header = L.locate_fragment(self.src, self.locate, self.fragment_end)
        else:
            body, line, header = L.locate(self.src, self.locate, self.which, self.expect, self.ctor)
        raw = body
        d = dict(L.build_defines())
        d.update(self.defs)
        for u in self.undefs:
            d.pop(u, None)
        body = L.resolve_pp(body, d)
        if self.generic:
            body = L.apply_rules(body, L.PRE_RULES)
        body = L.apply_rules(body, self.rules)
        if self.generic:
            body = L.apply_rules(body, L.GENERIC_RULES)
        body = L.apply_rules(body, self.post)
        if self.generic:
            body = L.apply_rules(body, L.FALLBACK_RULES)
        try:
            body, nloops = L.splice_loops(body, self.loops)
        except LiftError as e:
            # a loop the contract was written for no longer exists (e.g. a wait loop was deleted): verify the text WITHOUT loop
            # contracts for the missing loops -- the function contract then fails as an obligation instead of the unit being undecided
            if not (self.loops_optional and re.search(r"found \d+ loops|only \d+ loops", str(e))):
                raise
            n = len(re.findall(r"\b(?:for|while)\s*\(|\bdo\s*\{", body))
            body, nloops = L.splice_loops(body, {k: v for k, v in self.loops.items() if isinstance(k, int) and k <= n})
        if not self.keep_braces:
            body = body.strip()[1:-1]
        return {"text": body, "line": line, "file": self.src, "raw": raw, "nloops": nloops, "header": header}


# configuration verified: PIKA_DEBUG on (superset of statements: the debug-only register count and the authors' assertions are
# part of the text), OMPI_HAVE_MPI_EXT_CONTINUE off (MPIX continuations not available), PIKA_HAVE_APEX off, PIKA_HAVE_STDEXEC off
CFG = {"PIKA_DEBUG": "1"}
CFG_UNDEF = ("OMPI_HAVE_MPI_EXT_CONTINUE", "PIKA_HAVE_APEX", "PIKA_HAVE_STDEXEC")


def PL(src, locate, rules=(), **k):
    return LiftPP(src, locate, rules=rules, defs=CFG, undefs=CFG_UNDEF, **k)


class YieldWhile(Rule):
    """(copied from specs/C19) `util::yield_while([caps]() { BODY }, "name");` -> the loop it is (this_thread.hpp:
    `for (k = 0; predicate(); ++k) yield_k(k)`), lambda body inlined:
        while (1) { bool vx_ywK; { BODY' } vx_ywK_end: ; if (!vx_ywK) break; vx_yield(); }"""

    def __init__(self, n=None):
        self.n = n

    def apply(self, text):
        k = 0
        rx = re.compile(r"(?:pika::)?util::yield_while\s*\(")
        while True:
            m = rx.search(text)
            if not m:
                break
            op = m.end() - 1
            cl = match_close(text, op)
            lam = split_args(text[op + 1: cl])[0]
            ml = re.match(r"\[[^\]]*\]\s*(?:\(\s*\))?\s*(?:mutable\s*)?\{", lam, re.S)
            if not ml:
                raise LiftError("YieldWhile: first argument is not a lambda: %r" % lam[:60])
            bop = ml.end() - 1
            bcl = match_close(lam, bop, "{", "}")
            if lam[bcl + 1:].strip():
                raise LiftError("YieldWhile: text after the lambda body")
            k += 1
            v = "vx_yw%d" % k
            body, nret = re.subn(r"\breturn\b\s*([^;]*);", lambda mm: "{ %s = (%s); goto %s_end; }" % (v, mm.group(1), v),
                                 lam[bop + 1: bcl])
            if nret == 0:
                raise LiftError("YieldWhile: predicate without return")
            end = cl + 1
            ms = re.match(r"\s*;", text[end:])
            if not ms:
                raise LiftError("YieldWhile: not a statement")
            end += ms.end()
            rep = "while (1) { bool %s; { %s } %s_end: ; if (!%s) break; vx_yield(); }" % (v, body, v, v)
            text = text[: m.start()] + rep + text[end:]
        self.check(k, "YieldWhile")
        return text


class VecIndex(Rule):
    """element access of an abstract vector:  `&C[E]` -> P_addr(&C, E);  `C[E] = X;` -> P_set(&C, E, X);  `C[E]` -> P_get(&C, E).
    C is a regex for the container expression, P the stub prefix.  Purely positional: which index / value expressions are used
    is the code's."""

    def __init__(self, cont, prefix, n=None):
        self.cont, self.prefix, self.n = cont, prefix, n

    def apply(self, text):
        k = 0
        rx = re.compile(r"(&\s*)?(%s)\s*\[" % self.cont)
        pos = 0
        while True:
            m = rx.search(text, pos)
            if not m:
                break
            ob = m.end() - 1
            cb = match_close(text, ob, "[", "]")
            idx = text[ob + 1: cb].strip()
            c = m.group(2)
            after = text[cb + 1:]
            ma = re.match(r"\s*=(?!=)", after)
            if m.group(1):
                rep, end = "%s_addr(&%s, %s)" % (self.prefix, c, idx), cb + 1
            elif ma:
                semi = L._stmt_end(text, cb + 1 + ma.end())
                val = text[cb + 1 + ma.end(): semi].strip()
                rep, end = "%s_set(&%s, %s, %s)" % (self.prefix, c, idx, val), semi
            else:
                rep, end = "%s_get(&%s, %s)" % (self.prefix, c, idx), cb + 1
            text = text[: m.start()] + rep + text[end:]
            pos = m.start() + 1          # rescan the replacement: the value of a store may contain further accesses
            k += 1
        self.check(k, "VecIndex(%s)" % self.cont)
        return text


class StdArray(Rule):
    """`std::array<T, N> name;` -> `struct vx_<T>_array name;` (abstract output array of an MPI call), `name.data()` -> `&name`,
    `name[E]` -> `vx_<T>_array_get(&name, E)`.  The capacity expressions N are collected in self.caps."""

    TYPES = {"int": "int", "MPI_Status": "status"}

    def __init__(self, n=None):
        self.n = n

    def apply(self, text):
        k = 0
        while True:
            m = re.search(r"\bstd::array\s*<\s*(\w+)\s*,\s*([^<>;]+?)\s*>\s*(\w+)\s*;", text)
            if not m:
                break
            t, cap, name = m.group(1), m.group(2), m.group(3)
            if t not in self.TYPES:
                raise LiftError("StdArray: element type %s not modelled" % t)
            st = "vx_%s_array" % self.TYPES[t]
            text = text[: m.start()] + "struct %s %s; VX_ARRAY_CAPACITY(%s, %s);" % (st, name, self.TYPES[t], cap) + text[m.end():]
            text = re.sub(r"\b%s\.data\(\)" % name, "&%s" % name, text)
            out, pos = [], 0
            for mm in re.finditer(r"\b%s\s*\[" % name, text):
                if mm.start() < pos:
                    continue
                ob = mm.end() - 1
                cb = match_close(text, ob, "[", "]")
                out.append(text[pos: mm.start()])
                out.append("%s_get(&%s, %s)" % (st, name, text[ob + 1: cb].strip()))
                pos = cb + 1
            out.append(text[pos:])
            text = "".join(out)
            k += 1
        self.check(k, "StdArray")
        return text


class DropDebugBlocks(Rule):
    """`if constexpr (mpi_debug<N>.is_enabled()) { ...timers and debug printing... }` -> nothing (logging)."""

    def __init__(self, n=None):
        self.n = n

    def apply(self, text):
        k = 0
        while True:
            m = re.search(r"\bif\s+constexpr\s*\(\s*mpi_debug<\d+>\.is_enabled\(\)\s*\)\s*\{", text)
            if not m:
                break
            cl = match_close(text, m.end() - 1, "{", "}")
            text = text[: m.start()] + text[cl + 1:]
            k += 1
        self.check(k, "DropDebugBlocks")
        return text


def _uninit(m):
    return "int " + ", ".join("%s = nondet_int()" % n.strip() for n in m.group(1).split(",")) + ";"


# `int a, b;` (uninitialised out-parameters of an MPI call) -> `int a = nondet_int(), b = nondet_int();`: exactly CBMC's meaning of an
# uninitialised local, spelled out.  TOOL WORKAROUND: goto-instrument --dfcc (6.11) does not put a local that is declared inside a loop
# body and only written through a pointer by a callee into the loop's write set unless the declaration carries an initialiser.
UNINIT = Sub(r"\bint\s+((?:\w+\s*,\s*)*\w+)\s*;", _uninit, None)


def _rmw(m):
    return "atomic_u32_%s(&%s)" % ("inc" if m.group(1) == "++" else "dec", m.group(2))


AIF = r"(?:detail::)?mpi_data_\.all_in_flight_"
NS_RULES = [
    Sub(r"\busing\s+(?:namespace\s+)?[\w:]+\s*;", "", None),
    Sub(r"\b(?:pika::)?threads::detail::", "", None),
    Sub(r"\b(?:pika::)?mpi::detail::environment::", "environment_", None),
    Sub(r"\bmpi::detail::", "", None),
    Sub(r"(?<![\w:])detail::", "", None),
    Sub(r"\bpolling_status::(\w+)", r"polling_status_\1", None),
    Sub(r"\bhandler_method::(\w+)", r"\1", None),
]
POLL_RULES = NS_RULES + [
    DropStmt(r"\bPIKA_DETAIL_DP", None),
    DropDebugBlocks(None),
    # atomics: spelling -> stub (which operation is applied where is the code's)
    Sub(r"(\+\+|--)\s*(mpi_data_\.all_in_flight_)\b", _rmw, None),
    Sub(r"\bmpi_data_\.all_in_flight_\.load\(\s*(?:std::memory_order\w*)?\s*\)", "atomic_u32_load(&mpi_data_.all_in_flight_)", None),
    Sub(r"(?<![&\w.])mpi_data_\.all_in_flight_\b(?!\s*\.)", "atomic_u32_load(&mpi_data_.all_in_flight_)", None),
    Sub(r"\bmpi_data_\.max_polling_requests\.load\(\s*(?:std::memory_order\w*)?\s*\)", "mpi_data_.max_polling_requests", None),
    Sub(r"\bget_register_polling_count\(\)", "mpi_data_.register_polling_count_", None),
    # aggregates
    Sub(r"\b(request_callback|ready_callback)\s+(\w+)\s*;", r"struct \1 \2;", None),
    Sub(r"\brequest_callback\s*\{", "(struct request_callback){", None),
    # the two parallel vectors
    Call(r"\bmpi_data_\.requests_\.push_back", "vreq_push_back(&mpi_data_.requests_, {0})", None),
    Call(r"\bmpi_data_\.callbacks_\.push_back", "vcb_push_back(&mpi_data_.callbacks_, (struct mpi_callback_info){0})", None),
    Call(r"\bmpi_data_\.requests_\.resize", "vreq_resize(&mpi_data_.requests_, {0})", None),
    Call(r"\bmpi_data_\.callbacks_\.resize", "vcb_resize(&mpi_data_.callbacks_, {0})", None),
    Sub(r"\bmpi_data_\.requests_\.size\(\)", "vreq_size(&mpi_data_.requests_)", None),
    Sub(r"\bmpi_data_\.callbacks_\.size\(\)", "vcb_size(&mpi_data_.callbacks_)", None),
    Sub(r"\bmpi_data_\.requests_\.data\(\)", "vreq_data(&mpi_data_.requests_)", None),
    VecIndex(r"mpi_data_\.requests_", "vreq", None),
    VecIndex(r"mpi_data_\.callbacks_", "vcb", None),
    # the two lock-free queues
    Call(r"\bmpi_data_\.request_callback_queue_\.enqueue", "rq_enqueue(&mpi_data_.request_callback_queue_, {0})", None),
    Call(r"\bmpi_data_\.request_callback_queue_\.try_dequeue", "rq_try_dequeue(&mpi_data_.request_callback_queue_, &{0})", None),
    Sub(r"\bmpi_data_\.request_callback_queue_\.size_approx\(\)", "rq_size_approx(&mpi_data_.request_callback_queue_)", None),
    Call(r"\bmpi_data_\.ready_requests_\.enqueue", "rdq_enqueue(&mpi_data_.ready_requests_, (struct ready_callback){0})", None),
    Call(r"\bmpi_data_\.ready_requests_\.try_dequeue", "rdq_try_dequeue(&mpi_data_.ready_requests_, &{0})", None),
    Call(r"\bPIKA_INVOKE", "vx_invoke_cb({0}, {1})", None),
    Sub(r"\(std::min\)", "VX_MIN", None),
    UNINIT,
    StdArray(None),
    Guard(r"std::unique_lock\s*<\s*mutex_type\s*>\s*(\w+)\s*\(\s*mpi_data_\.polling_vector_mtx_\s*,\s*std::try_to_lock\s*\)\s*;",
          r"struct ulock \1 = ulock_try_make(&mpi_data_.polling_vector_mtx_);", r"ulock_dtor(&\1);", None),
    Guard(r"std::(?:lock_guard|unique_lock|scoped_lock)\s*(?:<[^;()]*>)?\s*(\w+)\s*\(\s*mpi_data_\.polling_vector_mtx_\s*\)\s*;",
          r"struct ulock \1 = ulock_make(&mpi_data_.polling_vector_mtx_);", r"ulock_dtor(&\1);", None),
    Sub(r"\b(\w+)\.owns_lock\(\)", r"\1.owns", None),
]


def _const(path, name, default=None):
    try:
        src = L.read_source(path)
    except LiftError:
        return default
    m = re.search(r"constexpr\s+[\w:]+\s+%s\s*=\s*([^;]+);" % name, src)
    return m.group(1).strip() if m else default


MAXPOLL = _const(POLL, "max_poll_requests", "0")

STRUCT_LIFTS = {
    "s_request_callback": Lift(POLL, r"struct request_callback\b(?=\s*\{)"),
    "s_mpi_callback_info": Lift(POLL, r"struct mpi_callback_info\b(?=\s*\{)"),
    "s_ready_callback": Lift(POLL, r"struct ready_callback\b(?=\s*\{)"),
}
F = POLL + ": pika::mpi::experimental::detail::"


def pl(**more):
    d = dict(STRUCT_LIFTS)
    d.update(more)
    return d


L_ADD_VEC = PL(POLL, r"inline void add_to_request_callback_vector\(", rules=POLL_RULES)
L_ADD_Q = PL(POLL, r"void add_to_request_callback_queue\(", rules=POLL_RULES)
L_ADD = PL(POLL, r"bool add_request_callback\(", rules=POLL_RULES)

UNITS = [
    Unit("poll.add_to_vector", "polling.c", defines=["U_ADD_VEC"], enforce="add_to_request_callback_vector",
         lifts=pl(add_vec=L_ADD_VEC), funcs=[F + "add_to_request_callback_vector"], min_obligations=10,
         doc="I: request and callback are appended exactly once each, to the SAME new slot of the two parallel vectors"),
    Unit("poll.add_to_queue", "polling.c", defines=["U_ADD_Q"], enforce="add_to_request_callback_queue",
         lifts=pl(add_vec=L_ADD_VEC, add_q=L_ADD_Q), funcs=[F + "add_to_request_callback_queue", F + "add_to_request_callback_vector"],
         min_obligations=10,
         doc="T: counted once (all_in_flight_, activity count) BEFORE being published; published exactly once (queue xor vectors)"),
    Unit("poll.add_request_callback", "polling.c", defines=["U_ADD"], enforce="add_request_callback",
         lifts=pl(add_vec=L_ADD_VEC, add_q=L_ADD_Q, add=L_ADD),
         funcs=[F + "add_request_callback"], min_obligations=10,
         doc="T: the (callback, request) pair given by the caller is stored exactly once, paired"),
    Unit("poll.poll_request", "polling.c", defines=["U_POLL_REQUEST"], enforce="poll_request",
         lifts=pl(poll_request=PL(POLL, r"bool poll_request\(", rules=POLL_RULES)),
         funcs=[F + "poll_request"], min_obligations=3, doc="F: true iff MPI_Test set the flag, one test of the given request"),
    Unit("poll.get_work_count", "polling.c", defines=["U_WORK_COUNT"], enforce="get_work_count",
         lifts=pl(get_work_count=PL(POLL, r"size_t get_work_count\(\)", rules=POLL_RULES)),
         funcs=[POLL + ": pika::mpi::experimental::get_work_count"], min_obligations=1, doc="F: == all_in_flight_"),
]

LOOP_C1 = """
__CPROVER_assigns(i, pos, GV.rc_j, GV.rc_x)
__CPROVER_loop_invariant(i <= size && pos == size && size == mpi_data_.requests_.size)
__CPROVER_loop_invariant(g_tomb == NOSLOT || g_tomb >= i)
"""
# E_x = value at entry of the second loop (the first loop does not modify the vectors)
LOOP_C2 = """
__CPROVER_assigns(i, pos, GV)
__CPROVER_loop_invariant(pos <= i && i <= size + 1 && pos <= size && size == mpi_data_.requests_.size && SIZES_EQ)
__CPROVER_loop_invariant((__CPROVER_loop_entry(g_r1) == NOSLOT && __CPROVER_loop_entry(g_c1) == NOSLOT) ==> V_GONE)
__CPROVER_loop_invariant(__CPROVER_loop_entry(g_r1) != NOSLOT ==> (g_r1 == g_c1 && g_r2 == g_c2 && g_tomb == NOSLOT && g_c_req == VR && g_r1 <= __CPROVER_loop_entry(g_r1)))
__CPROVER_loop_invariant(__CPROVER_loop_entry(g_r1) != NOSLOT ==> (
    (g_r2 == NOSLOT && g_r1 == __CPROVER_loop_entry(g_r1) && (g_r1 < pos || g_r1 >= i)) ||
    (g_r1 < pos && __CPROVER_loop_entry(g_r1) < i && (g_r2 == NOSLOT || (g_r2 == __CPROVER_loop_entry(g_r1) && g_r2 >= pos)))))
__CPROVER_loop_invariant((__CPROVER_loop_entry(g_r1) == NOSLOT && __CPROVER_loop_entry(g_c1) != NOSLOT) ==> (i <= size && g_r1 == NOSLOT && g_r2 == NOSLOT && g_c2 == NOSLOT && (
    (g_c1 == __CPROVER_loop_entry(g_c1) && g_tomb == g_c1 && g_c1 >= pos && (i <= g_c1 || pos < i)) || (g_c1 == NOSLOT && g_tomb == NOSLOT && pos < i))))
"""
L_COMPACT = PL(POLL, r"void compact_vectors\(\)", rules=POLL_RULES, loops={1: LOOP_C1, 2: LOOP_C2, "count": 2})
UNITS += [
    Unit("poll.compact_vectors", "polling.c", defines=["U_COMPACT"], enforce="compact_vectors",
         lifts=pl(compact=L_COMPACT), funcs=[F + "compact_vectors"], min_obligations=40,
         doc="I (two loop contracts, one symbolic victim pair): pairs with a non-null request survive exactly once with request and "
             "callback in one common slot; pairs whose request was nulled are removed; the vectors stay parallel"),
]

LOOP_ST_DO = """
__CPROVER_assigns(event_handled, POLL_FRAME)
__CPROVER_loop_invariant(ST_LEDGER && ST_COUNTERS)
"""
LOOP_ST_DEQ = """
__CPROVER_assigns(req_callback, mpi_data_.requests_.size, mpi_data_.callbacks_.size, GV, GQ)
__CPROVER_loop_invariant(ST_LEDGER)
"""
L_POLL_ST = PL(POLL, r"polling_status poll_singlethreaded\(\)", rules=POLL_RULES, loops={1: LOOP_ST_DO, 2: LOOP_ST_DEQ, "count": 2})
UNITS += [
    Unit("poll.poll_singlethreaded", "polling.c", defines=["U_POLL_ST"], enforce="poll_singlethreaded", replace=["compact_vectors"],
         lifts=pl(add_vec=L_ADD_VEC, poll_st=L_POLL_ST), funcs=[F + "poll_singlethreaded", F + "add_to_request_callback_vector"],
         min_obligations=100,
         doc="T+I (loop contracts, one symbolic victim pair): callback invoked at most once, only after MPI_Testany reported ITS request, "
             "with MPI's code; request slot nulled; counters down by exactly one per invocation; pairs not reported are kept (queue -> "
             "vectors exactly once)"),
]

LOOP_MT_RDY = """
__CPROVER_assigns(ready_callback_, MT_RDQ_FRAME, MT_INV_FRAME)
__CPROVER_loop_invariant(MT_LEDGER && MT_COUNTERS && !mpi_data_.polling_vector_mtx_.held)
"""
LOOP_MT_DO = """
__CPROVER_assigns(event_handled, MT_VEC_FRAME, MT_MPI_FRAME, GR)
__CPROVER_loop_invariant(MT_LEDGER && MT_COUNTERS && MT_LOCKED)
"""
LOOP_MT_DEQ = """
__CPROVER_assigns(req_callback, MT_VEC_FRAME)
__CPROVER_loop_invariant(MT_LEDGER && MT_COUNTERS && MT_LOCKED)
"""
LOOP_MT_CHUNK = """
__CPROVER_assigns(vsize, req_init, num_completed, event_handled, GV, MT_MPI_FRAME, GR)
__CPROVER_loop_invariant(MT_LEDGER && MT_COUNTERS && MT_LOCKED && req_init >= 0 && (size_t) req_init + (size_t) vsize == mpi_data_.requests_.size && g_cap_int == max_poll_requests && g_cap_status == max_poll_requests)
"""
LOOP_MT_FOR = """
__CPROVER_assigns(i, GV, GR)
__CPROVER_loop_invariant(MT_LEDGER_FOR && MT_COUNTERS && MT_LOCKED && 0 <= i && i <= num_completed && num_completed == g_ts_n && (size_t) req_init == g_ts_off && (size_t) req_size == g_ts_incount)
__CPROVER_loop_invariant(g_ts_off + g_ts_incount <= mpi_data_.requests_.size && (g_ts_k >= 0 ==> (g_ts_k < g_ts_n && g_ts_vidx < g_ts_incount)) && (PENDING == (g_ts_k >= i)))
__CPROVER_loop_invariant(status_valid == (status == MPI_ERR_IN_STATUS) && (g_ts_k >= 0 ==> g_rep_code == (status == MPI_ERR_IN_STATUS ? g_ts_verr : MPI_SUCCESS)))
"""
L_POLL_MT = PL(POLL, r"polling_status poll_multithreaded\(\)", rules=POLL_RULES,
               loops={1: LOOP_MT_RDY, 2: LOOP_MT_DO, 3: LOOP_MT_DEQ, 4: LOOP_MT_CHUNK, 5: LOOP_MT_FOR, 6: LOOP_MT_RDY, "count": 6})
for _case, _defs in (("testsome", ["CASE_TESTSOME"]), ("testany", ["CASE_TESTANY"])):
    UNITS.append(Unit("poll.poll_multithreaded." + _case, "polling.c", defines=["U_POLL_MT", "MAX_POLL_REQUESTS=" + MAXPOLL] + _defs,
         enforce="poll_multithreaded", replace=["compact_vectors"], lifts=pl(add_vec=L_ADD_VEC, poll_mt=L_POLL_MT),
         funcs=[F + "poll_multithreaded", F + "add_to_request_callback_vector"], min_obligations=200, solver=["--sat-solver", "cadical"],
         no_replay=True,   # the bounded re-run the driver makes for replay (no loop contracts, --unwind 4, six nested loops) needs minutes
         doc="M+T+I (six loop contracts, one symbolic victim pair; other pollers interfere with all_in_flight_ and the ready queue; case "
             "max_polling_requests %s): hand-over to the ready queue at most once and only after MPI reported ITS request, with MPI's "
             "code, request slot nulled; a ready callback is invoked exactly once by whoever dequeues it; counters down by one per "
             "invocation; vectors touched only under polling_vector_mtx_, consistent at release, lock released on every path"
             % ("> 1 (MPI_Testsome in chunks)" if _case == "testsome" else "<= 1 (MPI_Testany)")))

# ---------------------------------------------------------------------------------------------------------------
# enabling / disabling polling


def _regpoll(args, env):
    un = env["h1"]
    return "%sregister_polling_pool(%s)" % (un, env["args"]) if env["args"].strip() else "%sregister_polling()" % un


TO_UNDERLYING = Call(r"(?:pika::)?detail::to_underlying", "((uint32_t)({0}))", None)
DIGITSEP = Sub(r"(?<=[0-9a-fA-FbBxX])'(?=[0-9a-fA-F])", "", None)
LC_RULES = [TO_UNDERLYING, YieldWhile(None)] + POLL_RULES + [
    Sub(r"auto\s*\*\s*(\w+)\s*=\s*pool\.get_scheduler\(\)\s*;", r"struct sched *\1 = pool_get_scheduler(pool);", None),
    Call(r"\b(\w+)->set_mpi_polling_functions", "sched_set_mpi_polling_functions({h1}, {0}, {1})", None),
    Sub(r"\b(\w+)->clear_mpi_polling_function\(\)", r"sched_clear_mpi_polling_function(\1)", None),
    Sub(r"&\s*(poll_singlethreaded|poll_multithreaded|get_work_count)\b", r"FN_\1", None),
    Sub(r"\b(?:pika::)?resource::get_thread_pool\(", "resource_get_thread_pool(", None),
    Sub(r"\bresource::get_partitioner\(\)\.get_default_pool_name\(\)", "resource_default_pool_name()", None),
    Call(r"\b(un)?register_polling", _regpoll, None),
    Sub(r"\b(\w+)\.empty\(\)", r"str_empty(\1)", None),
    Sub(r"\bthrow\s+(?:mpi::)?exception\(\s*(\w+)\s*,[^;]*\)\s*;", r"{ vx_throw(\1); return; }", None),
    Call(r"\bPIKA_THROW_EXCEPTION", "{ vx_throw(-1); return; }", None, stmt=True),
    Sub(r"\bexception_mode::", "", None),
]
# the guard rules of POLL_RULES must see `return` statements produced by the throw lowering: run the throw rules first
LC_RULES = [r for r in LC_RULES if not isinstance(r, Guard)] + [r for r in LC_RULES if isinstance(r, Guard)]
LOOP_YIELD = """
__CPROVER_assigns(GI, mpi_data_.all_in_flight_, LG.yields)
__CPROVER_loop_invariant(LG.yields <= 2)
"""
DECODE_RULES = [TO_UNDERLYING] + NS_RULES
LC_LIFTS = {
    "e_exception_mode": Lift(POLL_H, r"enum exception_mode\b"),
    "e_handler_method": Lift(POLL_H, r"enum class handler_method\b", rules=[DIGITSEP]),
}
DEC_LIFTS = {
    "get_handler_method": Lift(POLL_H, r"inline handler_method get_handler_method\(", rules=DECODE_RULES),
    "use_inline_request": Lift(POLL_H, r"inline bool use_inline_request\(", rules=DECODE_RULES),
    "use_inline_completion": Lift(POLL_H, r"inline bool use_inline_completion\(", rules=DECODE_RULES),
}


def lc(**more):
    d = dict(STRUCT_LIFTS)
    d.update(LC_LIFTS)
    d.update(more)
    return d


FX = POLL + ": pika::mpi::experimental::"
UNITS += [
    Unit("life.register_polling_pool", "lifecycle.c", defines=["U_REG_POOL"], enforce="register_polling_pool",
         lifts=lc(register_polling_pool=PL(POLL, r"void register_polling\(pika::threads::detail::thread_pool_base& pool\)", rules=LC_RULES,
                                           loops={1: LOOP_YIELD, "count": 1}, loops_optional=True),
                  can_run_singlethreaded=PL(POLL, r"inline bool can_run_singlethreaded\(", rules=LC_RULES), **DEC_LIFTS),
         funcs=[F + "register_polling(thread_pool_base&)", F + "can_run_singlethreaded"], min_obligations=10,
         doc="T: scheduler hook installed exactly once, after all_in_flight_ was read as 0; poller matches single_thread_mode_"),
    Unit("life.unregister_polling_pool", "lifecycle.c", defines=["U_UNREG_POOL"], enforce="unregister_polling_pool",
         lifts=lc(unregister_polling_pool=PL(POLL, r"void unregister_polling\(pika::threads::detail::thread_pool_base& pool\)", rules=LC_RULES)),
         funcs=[F + "unregister_polling(thread_pool_base&)"], min_obligations=5,
         doc="T: hook cleared exactly once; the authors' assertions (nothing queued, nothing in flight) are the precondition"),
    Unit("life.register_polling", "lifecycle.c", defines=["U_REG"], enforce="register_polling",
         lifts=lc(register_polling=PL(POLL, r"void register_polling\(\)", rules=LC_RULES), **DEC_LIFTS),
         funcs=[F + "register_polling()"], min_obligations=3,
         doc="T: register_polling(pool) exactly once unless the handler method is yield_while, on the pool named get_pool_name()"),
    Unit("life.unregister_polling", "lifecycle.c", defines=["U_UNREG"], enforce="unregister_polling",
         lifts=lc(unregister_polling=PL(POLL, r"void unregister_polling\(\)", rules=LC_RULES), **DEC_LIFTS),
         funcs=[F + "unregister_polling()"], min_obligations=3, doc="T: mirror image of register_polling()"),
    Unit("life.start_polling", "lifecycle.c", defines=["U_START"], enforce="start_polling",
         lifts=lc(start_polling=PL(POLL, r"void start_polling\(exception_mode errorhandler, std::string pool_name\)", rules=LC_RULES), **DEC_LIFTS),
         funcs=[FX + "start_polling"], min_obligations=10,
         doc="T+M: polling registered exactly once on normal return, under polling_vector_mtx_; nothing registered when it throws "
             "(MPI not initialised, MPIX continuations unavailable); lock released on every path"),
    Unit("life.stop_polling", "lifecycle.c", defines=["U_STOP"], enforce="stop_polling",
         lifts=lc(stop_polling=PL(POLL, r"void stop_polling\(\)", rules=LC_RULES, loops={1: LOOP_YIELD, "count": 1}, loops_optional=True)),
         funcs=[FX + "stop_polling"], min_obligations=10,
         doc="T+M: hook cleared exactly once under the lock, then (in-flight counter read as 0) MPI finalised exactly once; error handler "
             "freed iff installed; precondition = nothing queued or in flight (the authors' assertions in unregister_polling)"),
]

# ---------------------------------------------------------------------------------------------------------------
# completion-mode decoding (F), mpi_helpers.hpp (T)


class Lambda(Rule):
    """(after specs/C03) `[caps](params) [mutable] { BODY }` -> `repl`.  The BODY is not part of the enclosing function's behaviour
    (it runs when the closure is invoked); it is lifted as a unit of its own, located INSIDE the same enclosing function."""

    def __init__(self, repl, n=1, params=r"[^()]*"):
        self.repl, self.n, self.params = repl, n, params

    def apply(self, text):
        k = 0
        rx = re.compile(r"\[([^\[\]]*)\]\s*\((%s)\)\s*(?:mutable\s*)?(?:->\s*[\w:<>]+\s*)?\{" % self.params)
        while True:
            m = rx.search(text)
            if not m:
                break
            cl = match_close(text, m.end() - 1, "{", "}")
            text = text[: m.start()] + self.repl + text[cl + 1:]
            k += 1
        self.check(k, "Lambda")
        return text


FWD_EMPTY_PACK = Sub(r",\s*std::forward<Ts>\(ts\)\s*\.\.\.", "", None)       # instantiation Ts... = <> (transform_mpi sends no value)
FWD = Sub(r"std::forward<(?:[^<>()]|\([^()]*\))*>\((\w+)\)", r"\1", None)
HELP_RULES = [
    TO_UNDERLYING,
    DropStmt(r"\bPIKA_DETAIL_DP", None),
    Call(r"\bstatic_assert", "", None, stmt=True),
    FWD_EMPTY_PACK, FWD,
    Call(r"\bstd::make_exception_ptr", "{0}", None),
    Call(r"\b(?:pika::)?mpi::exception", "mpi_exception({0})", None),
    Sub(r"\bex::(\w+)", r"ex_\1", None),
    Sub(r"(?:\w+::)*thread_priority::(\w+)", r"thread_priority_\1", None),
    Sub(r"\bauto\s+(\w+)\s*=\s*([^;|]+?)\s*\|\s*([^;|]+?)\s*;", r"int \1 = vx_pipe(\2, \3);", None),      # sender | adaptor
    Sub(r"\bop_state\.ts\s*=\s*\{\s*\}\s*;", "op_state_ts_reset(op_state);", None),
    Sub(r"\bop_state\.completed\s*=(?!=)\s*([^;]+);", r"op_set_completed(op_state, \1);", None),
    Sub(r"\bop_state\.status\s*=(?!=)\s*([^;]+);", r"op_set_status(op_state, \1);", None),
    Guard(r"std::(?:lock_guard|unique_lock|scoped_lock)\s*(?:<[^;()]*>)?\s*(\w+)\s*[({]\s*op_state\.mutex\s*[)}]\s*;",
          r"struct ulock \1 = ulock_make(&op_state->mutex);", r"ulock_dtor(&\1);", None),
    Sub(r"\bop_state\.cond_var\.notify_one\(\)", "cv_notify_one(&op_state->cond_var)", None),
    Sub(r"\bop_state\.", "op_state->", None),
] + NS_RULES
E_HM = {"e_handler_method": Lift(POLL_H, r"enum class handler_method\b", rules=[DIGITSEP])}
L_BOOST = Lift(POLL_H, r"inline bool use_priority_boost\(", rules=DECODE_RULES)
FH = HELP_H + ": pika::mpi::experimental::detail::"
FP = POLL_H + ": pika::mpi::experimental::detail::"


def hl(**more):
    d = dict(E_HM)
    d.update(more)
    return d


UNITS += [
    Unit("mode.get_handler_method", "decode.c", defines=["U_GHM"], enforce="get_handler_method",
         lifts=hl(get_handler_method=DEC_LIFTS["get_handler_method"]), funcs=[FP + "get_handler_method", FP + "enum handler_method"],
         min_obligations=5, doc="F (full domain): method = bits 3..5; documented enumerator values and ranges"),
    Unit("mode.use_priority_boost", "decode.c", defines=["U_BOOST"], enforce="use_priority_boost",
         lifts=hl(use_priority_boost=L_BOOST), funcs=[FP + "use_priority_boost"], doc="F (full domain): bit 2"),
    Unit("mode.use_inline_completion", "decode.c", defines=["U_INLINE_COMPLETION"], enforce="use_inline_completion",
         lifts=hl(use_inline_completion=DEC_LIFTS["use_inline_completion"]), funcs=[FP + "use_inline_completion"], doc="F (full domain): bit 1"),
    Unit("mode.use_inline_request", "decode.c", defines=["U_INLINE_REQUEST"], enforce="use_inline_request",
         lifts=hl(use_inline_request=DEC_LIFTS["use_inline_request"]), funcs=[FP + "use_inline_request"], doc="F (full domain): bit 0"),
]
L_SVEH = Lift(HELP_H, r"void set_value_error_helper\(int mpi_status, Receiver&& receiver, Ts&&\.\.\. ts\)", rules=HELP_RULES)
CB_LAMBDA = r"\[&op_state\]\(int status\) mutable"


def in_fn(fn):
    return r"void %s\(OperationState& op_state\)(?:(?!\n    template ).)*?" % fn


UNITS += [
    Unit("help.set_value_error_helper", "helpers.c", defines=["U_SVEH"], enforce="set_value_error_helper",
         lifts=hl(set_value_error_helper=L_SVEH), funcs=[FH + "set_value_error_helper"], min_obligations=5,
         doc="T: exactly one completion signal; set_value iff MPI_SUCCESS, else set_error(mpi::exception(status))"),
    Unit("help.cb.continuation", "helpers.c", defines=["U_CB_CONT"], enforce="cb_continuation",
         lifts=hl(set_value_error_helper=L_SVEH,
                  cb_continuation=Lift(HELP_H, in_fn("add_continuation_request_callback") + CB_LAMBDA, rules=HELP_RULES)),
         funcs=[FH + "add_continuation_request_callback::<lambda(int)>", FH + "set_value_error_helper"], min_obligations=5,
         doc="T: the polling callback of handler_method::continuation signals the receiver exactly once with MPI's status"),
    Unit("help.cb.new_task", "helpers.c", defines=["U_CB_NT"], enforce="cb_new_task",
         lifts=hl(use_priority_boost=L_BOOST,
                  cb_new_task=Lift(HELP_H, in_fn("add_new_task_request_callback") + CB_LAMBDA,
                                   rules=[Lambda("VX_CLOSURE(op_state)", 1, params=r"\s*")] + HELP_RULES)),
         funcs=[FH + "add_new_task_request_callback::<lambda(int)>"], min_obligations=5,
         doc="T: error -> set_error once, now; success -> exactly one new task carrying the set_value closure, nothing signalled here"),
    Unit("help.cb.new_task.task", "helpers.c", defines=["U_CB_NT_TASK"], enforce="cb_new_task_task",
         lifts=hl(use_priority_boost=L_BOOST,
                  cb_new_task_task=Lift(HELP_H, in_fn("add_new_task_request_callback") + r"ex::then\(\[&op_state\]\(\) mutable", rules=HELP_RULES)),
         funcs=[FH + "add_new_task_request_callback::<lambda(int)>::<lambda()>"], min_obligations=3,
         doc="T: the task body calls set_value exactly once"),
    Unit("help.cb.suspend_resume", "helpers.c", defines=["U_CB_SR"], enforce="cb_suspend_resume",
         lifts=hl(cb_suspend_resume=Lift(HELP_H, in_fn("add_suspend_resume_request_callback") + CB_LAMBDA, rules=HELP_RULES)),
         funcs=[FH + "add_suspend_resume_request_callback::<lambda(int)>"], min_obligations=10,
         doc="M+T: status and completion flag written under op_state.mutex, flag published before notify_one, exactly one notify, "
             "receiver not signalled by the poller"),
]
for _nm, _fn in (("suspend_resume", "add_suspend_resume_request_callback"), ("new_task", "add_new_task_request_callback"),
                 ("continuation", "add_continuation_request_callback")):
    UNITS.append(Unit("help.add_cb." + _nm, "helpers.c", defines=["U_ADD_" + {"suspend_resume": "SR", "new_task": "NT", "continuation": "CONT"}[_nm],
                                                                   "ADD_KIND=1"], enforce="add_cb",
                      lifts=hl(add_cb=Lift(HELP_H, r"void %s\(OperationState& op_state\)" % _fn,
                                           rules=[Lambda("VX_CALLBACK(1)", 1, params=r"int status")] + HELP_RULES)),
                      funcs=[FH + _fn], min_obligations=3,
                      doc="T: exactly one polling callback (the lambda verified as help.cb.%s) registered for the operation's own request" % _nm))

# ---------------------------------------------------------------------------------------------------------------
# transform_mpi.hpp: the internal receiver


class TryCatchEP(Rule):
    """(copied from specs/C03) pika::detail::try_catch_exception_ptr([&]() [mutable] { A }, [&](std::exception_ptr X) { B });
    ->  try { A } catch (...) { int X = vx_current_exception(); B }   (contract of the helper: C03 unit errors.try_catch_exception_ptr)"""

    def __init__(self, n=None):
        self.n = n

    def apply(self, text):
        k = 0
        rx = re.compile(r"pika::detail::try_catch_exception_ptr\s*\(")
        while True:
            m = rx.search(text)
            if not m:
                break
            op = m.end() - 1
            cl = match_close(text, op)
            inner = text[op + 1:cl]
            m1 = re.match(r"\s*\[&\]\s*\(\s*\)\s*(?:mutable\s*)?\{", inner)
            if not m1:
                raise LiftError("TryCatchEP: first argument is not a [&]() lambda")
            a0 = m1.end() - 1
            a1 = match_close(inner, a0, "{", "}")
            m2 = re.match(r"\s*,\s*\[&\]\s*\(\s*std::exception_ptr\s+(\w+)\s*\)\s*\{", inner[a1 + 1:])
            if not m2:
                raise LiftError("TryCatchEP: second argument is not a [&](std::exception_ptr x) lambda")
            b0 = a1 + 1 + m2.end() - 1
            b1 = match_close(inner, b0, "{", "}")
            if inner[b1 + 1:].strip():
                raise LiftError("TryCatchEP: trailing text")
            end = cl + 1
            ms = re.match(r"\s*;", text[end:])
            if ms:
                end += ms.end()
            text = text[:m.start()] + "try { %s } catch (...) { int %s = vx_current_exception(); %s }" % (
                inner[a0 + 1:a1], m2.group(1), inner[b0 + 1:b1]) + text[end:]
            k += 1
        self.check(k, "TryCatchEP")
        return text


class IfConstexpr(Rule):
    """`if constexpr (COND) { A } else { B }` -> A or B: template instantiation (which branch exists is decided by the instance)."""

    def __init__(self, cond, take_then, n=1):
        self.cond, self.take_then, self.n = cond, take_then, n

    def apply(self, text):
        k = 0
        while True:
            m = re.search(r"\bif\s+constexpr\s*\(\s*%s\s*\)\s*\{" % self.cond, text)
            if not m:
                break
            a0 = m.end() - 1
            a1 = match_close(text, a0, "{", "}")
            me = re.match(r"\s*else\s*\{", text[a1 + 1:])
            if not me:
                raise LiftError("IfConstexpr: no else branch")
            b0 = a1 + 1 + me.end() - 1
            b1 = match_close(text, b0, "{", "}")
            keep = text[a0:a1 + 1] if self.take_then else text[b0:b1 + 1]
            text = text[:m.start()] + keep + text[b1 + 1:]
            k += 1
        self.check(k, "IfConstexpr")
        return text


class AssignStub(Rule):
    """`LHS = EXPR;` -> `STUB(ARG, EXPR);` with EXPR delimited by the statement end (depth aware: EXPR may contain lambdas)."""

    def __init__(self, lhs, repl, n=None):
        self.lhs, self.repl, self.n = lhs, repl, n

    def apply(self, text):
        k, pos = 0, 0
        rx = re.compile(self.lhs + r"\s*=(?!=)")
        while True:
            m = rx.search(text, pos)
            if not m:
                break
            semi = L._stmt_end(text, m.end())
            rep = self.repl % text[m.end():semi].strip()
            text = text[:m.start()] + rep + text[semi:]
            pos = m.start() + 1
            k += 1
        self.check(k, "AssignStub(%s)" % self.lhs)
        return text


def tr_rules(void_f=True):
    return [
        TryCatchEP(None),
        Sub(r"\bauto\s+r\s*=\s*std::move\(\*this\)\s*;", "struct receiver vx_r = *self; struct receiver *r = &vx_r;", None),
        Sub(r"\busing\s+\w+\s*=[^;]*;", "", None),
        Sub(r"\bauto&\s*t\s*=\s*std::get<[^;]*;", "", None),
        Call(r"\br\.op_state\.ts\.template emplace<[^()]*>", "op_state_ts_emplace(r->op_state); VX_THROW_POINT", None),
        Sub(r"\bdispatch<Ts\.\.\.>\(r\)\s*;", "dispatch(r); if (vx_exc) VX_THROW_NOW;", None),
        IfConstexpr(r"std::is_void_v<invoke_result_type>", void_f, None),
        # std::apply([&](auto&... ts) mutable { [return] PIKA_INVOKE(F, ts..., REQ); }, t)  ->  call of the user's MPI function (may throw)
        Sub(r"std::apply\(\s*\[&\]\(auto&\.\.\.\s*ts\)\s*mutable\s*\{\s*(?:return\s+)?PIKA_INVOKE\(\s*((?:(?!ts\.\.\.)[^;])*?),\s*ts\.\.\.,\s*([^;]*?)\)\s*;\s*\},\s*t\s*\)",
            r"({ int vx_v = vx_invoke_mpi_f(\1, \2); if (vx_exc) return; vx_v; })", None),
        # cond_var.wait(l, pred) is `while (!pred()) wait(l);` (condition_variable.hpp), predicate inlined
        Sub(r"\br\.op_state\.cond_var\.wait\(\s*(\w+)\s*,\s*\[&\]\s*\(\s*\)\s*\{\s*return\s+([^;]+);\s*\}\s*\)\s*;",
            r"while (!(\2)) { cv_wait(&r->op_state->cond_var, &\1); }", None),
        Sub(r"\bthreads::detail::thread_data::scoped_thread_priority\s+\w+\(\w+\)\s*;", "((void) 0);", None),
        Guard(r"std::unique_lock\s*(?:<[^;()]*>)?\s*(\w+)\s*[({]\s*r\.op_state\.mutex\s*[)}]\s*;",
              r"struct ulock \1 = ulock_make(&r->op_state->mutex);", r"ulock_dtor(&\1);", None),
        YieldWhile(None),
        Sub(r"(?:mpi::detail::)?MPIX_Continue_cb_function\s*\*\s*(\w+)\s*=\s*&\s*(?:mpi::detail::)?(\w+)<operation_state>\s*;", r"int \1 = \2;", None),
        AssignStub(r"\br\.op_state\.status", "op_set_status(r->op_state, %s)", None),
        Sub(r"\br\.op_state\.", "r->op_state->", None),
        Sub(r"\br\.op_state\b", "r->op_state", None),
    ] + HELP_RULES + [TryCatch(None)]


FT = TRAN_H + ": pika::transform_mpi_detail::operation_state::receiver::"
TR_LIFTS = {"get_handler_method": DEC_LIFTS["get_handler_method"], "use_priority_boost": L_BOOST}
LOOP_TRIG_YIELD = """
__CPROVER_assigns(OG)
__CPROVER_loop_invariant(OG.completions == __CPROVER_loop_entry(OG.completions))
__CPROVER_loop_invariant(OG.sv == 0 && OG.se == 0 && OG.cb_reg == 0 && OG.cb_sig == 0 && OG.mpix_reg == 0 && OC.need_complete && OC.env_callback && !OG.shared && OC.on_pika_thread && vx_op == r->op_state)
"""
LOOP_TRIG_WAIT = """
__CPROVER_assigns(OG, r->op_state->status, r->op_state->completed, r->op_state->mutex.held, g_completed_at_release, l.owns)
__CPROVER_loop_invariant(OG.completions == __CPROVER_loop_entry(OG.completions))
__CPROVER_loop_invariant(OG.sv == 0 && OG.se == 0 && OG.cb_reg == 1 && OG.cb_sig == 0 && OG.cb_kind == CB_suspend_resume && OG.mpix_reg == 0 && OC.need_complete && OC.env_callback && OG.shared && vx_op == r->op_state)
__CPROVER_loop_invariant(l.owns && l.m == &r->op_state->mutex && r->op_state->mutex.held && OG.cb_req == r->op_state->request)
__CPROVER_loop_invariant(r->op_state->completed ==> (OG.known_complete && r->op_state->status == OG.cb_status))
"""
L_TRIGGER = PL(TRAN_H, r"void trigger\(receiver& r\)", rules=tr_rules(), loops={1: LOOP_TRIG_YIELD, 2: LOOP_TRIG_WAIT, 3: LOOP_TRIG_WAIT, "count": 3},
               loops_optional=True)
UNITS += [
    Unit("tmpi.dispatch.void_f", "transform.c", defines=["U_DISPATCH"], enforce="dispatch",
         lifts=hl(dispatch=Lift(TRAN_H, r"void dispatch\(receiver& r\)", rules=tr_rules(True)), **TR_LIFTS),
         funcs=[FT + "dispatch<Ts...> (F returns void)"], min_obligations=5,
         doc="T: MPI function invoked once; nothing signalled (instance: the MPI function returns void)"),
    Unit("tmpi.dispatch.int_f", "transform.c", defines=["U_DISPATCH", "F_RETURNS_INT"], enforce="dispatch",
         lifts=hl(dispatch=Lift(TRAN_H, r"void dispatch\(receiver& r\)", rules=tr_rules(False)), **TR_LIFTS),
         funcs=[FT + "dispatch<Ts...> (F returns int)"], min_obligations=5,
         doc="T: MPI function invoked once; a returned error code -> set_error(mpi::exception(code)) exactly once"),
    Unit("tmpi.trigger", "transform.c", defines=["U_TRIGGER"], enforce="trigger", lifts=hl(trigger=L_TRIGGER, **TR_LIFTS),
         funcs=[FT + "trigger"], min_obligations=50,
         doc="T+M over the whole mode domain (handler method x priority bit): exactly one completion is arranged -- set_value only "
             "after poll_request returned true (eager / yield_while), or one registered polling callback of the method's kind, or "
             "(suspend_resume) the task blocks only while the flag is unset under the mutex, and after seeing it signals once with "
             "the status the callback published"),
    Unit("tmpi.set_value.whole", "transform.c", defines=["U_SET_VALUE_FULL", "F_RETURNS_INT"], enforce="recv_set_value",
         lifts=hl(recv_set_value=Lift(TRAN_H, r"constexpr void set_value\(Ts&&\.\.\. ts\) && noexcept", rules=tr_rules()),
                  dispatch=Lift(TRAN_H, r"void dispatch\(receiver& r\)", rules=tr_rules(False)), trigger=L_TRIGGER, **TR_LIFTS),
         funcs=[FT + "set_value", FT + "dispatch<Ts...> (F returns int)", FT + "trigger"], min_obligations=50,
         doc="T (same contract as tmpi.set_value, but dispatch and trigger are the lifted BODIES, not their contracts: a failing input can be "
             "replayed natively)"),
    Unit("tmpi.set_value", "transform.c", defines=["U_SET_VALUE", "F_RETURNS_INT"], enforce="recv_set_value", replace=["dispatch", "trigger"],
         lifts=hl(recv_set_value=Lift(TRAN_H, r"constexpr void set_value\(Ts&&\.\.\. ts\) && noexcept", rules=tr_rules()), **TR_LIFTS),
         funcs=[FT + "set_value"], min_obligations=10,
         doc="T: one start of the operation arranges EXACTLY ONE completion (dispatch and trigger by their contracts; exceptions of the "
             "MPI function caught and turned into one set_error)"),
]

# ---------------------------------------------------------------------------------------------------------------
# mpi_environment.cpp: init / finalize balance
ENV_RULES = [
    Sub(r"\benvironment::is_mpi_initialized\(\)", "({ bool vx_b = environment_is_mpi_initialized(); if (vx_exc) return 0; vx_b; })", None),
    Sub(r"\bthrow\s+(?:mpi::)?exception\(\s*(\w+)\s*,[^;]*\)\s*;", r"{ vx_throw(\1); return 0; }", None),
    Call(r"\bPIKA_THROW_EXCEPTION", "{ vx_throw(-1); return 0; }", None, stmt=True),
    Sub(r"&provided\b", "VXPROVIDED", None), Sub(r"(?<![\w&])provided\b", "(*provided)", None), Sub(r"\bVXPROVIDED\b", "provided", None),
]
FE = ENV + ": pika::mpi::detail::environment::"
L_IS_INIT = Lift(ENV, r"bool environment::is_mpi_initialized\(\)", rules=ENV_RULES[1:3])
UNITS += [
    Unit("env.is_mpi_initialized", "env.c", defines=["U_IS_INIT"], enforce="environment_is_mpi_initialized",
         lifts={"is_mpi_initialized": L_IS_INIT}, funcs=[FE + "is_mpi_initialized"], min_obligations=3),
    Unit("env.init", "env.c", defines=["U_INIT"], enforce="environment_init",
         lifts={"is_mpi_initialized": L_IS_INIT, "init": Lift(ENV, r"int environment::init\(", rules=ENV_RULES)},
         funcs=[FE + "init", FE + "is_mpi_initialized"], min_obligations=10,
         doc="T: MPI_Init_thread only if MPI is not yet initialised; mpi_init_pika_ remembers exactly 'we initialised it'"),
    Unit("env.finalize", "env.c", defines=["U_FINALIZE"], enforce="environment_finalize",
         lifts={"pika_called_init": Lift(ENV, r"bool environment::pika_called_init\(\)"), "finalize": Lift(ENV, r"void environment::finalize\(\)")},
         funcs=[FE + "finalize", FE + "pika_called_init"], min_obligations=5,
         doc="T: MPI_Finalize exactly when pika initialised MPI and it is not yet finalised"),
]

# ---------------------------------------------------------------------------------------------------------------
# transform_mpi_t::tag_fallback_invoke: how the mode bits shape the sender chain


class Pipe(Rule):
    """`A | B` (sender | adaptor, never `||`) -> vx_pipe(A, B).  Operands are delimited by the enclosing parenthesis / `return` / `=` on
    the left and the enclosing parenthesis / `;` on the right (balanced scan)."""

    def __init__(self, n=None):
        self.n = n

    def apply(self, text):
        k = 0
        while True:
            m = re.search(r"(?<!\|)\|(?![|=])", text)
            if not m:
                break
            # left operand
            i, depth = m.start() - 1, 0
            while i >= 0:
                c = text[i]
                if c in ")]}":
                    depth += 1
                elif c in "([{":
                    if depth == 0:
                        break
                    depth -= 1
                elif depth == 0 and (c in ";=" or text[max(0, i - 5):i + 1] == "return"):
                    break
                i -= 1
            ls = i + 1
            j, depth = m.end(), 0
            while j < len(text):
                c = text[j]
                if c in "([{":
                    depth += 1
                elif c in ")]}":
                    if depth == 0:
                        break
                    depth -= 1
                elif depth == 0 and c == ";":
                    break
                j += 1
            left, right = text[ls:m.start()].strip(), text[m.end():j].strip()
            lead = text[ls:m.start()][: len(text[ls:m.start()]) - len(text[ls:m.start()].lstrip())]
            text = text[:ls] + lead + "vx_pipe(%s, %s)" % (left, right) + text[j:]
            k += 1
        self.check(k, "Pipe")
        return text


MD_RULES = [
    TO_UNDERLYING,
    DropStmt(r"\bPIKA_DETAIL_DP", None),
    Sub(r"\busing\s+(?:namespace\s+)?[\w:]+\s*;", "", None),
    Sub(r"std::forward<(?:[^<>()]|\([^()]*\))*>\((\w+)\)", r"\1", None),
    # [&]-captured locals of the enclosing function are shared with the lambda: file-scope variables of the template
    Sub(r"\b(?:std::size_t|bool|execution::thread_priority)\s+(mode|completions_inline|requests_inline|p)\s*=", r"\1 =", None),
    Lambda("VX_LAMBDA", None, params=r"auto&& sender"),
    Sub(r"\bauto\s+f_completion\s*=\s*VX_LAMBDA\s*;", "", None),
    Sub(r"\bunique_any_sender<>\s+(\w+)\s*\{\s*transform_mpi_detail::sender<[^;]*?>\s*\{([^;{}]*)\}\s*\}\s*;", r"struct snd \1 = make_tmpi_sender(\2);", None),
    Sub(r"\bex::thread_pool_scheduler\{\s*&\s*resource::get_thread_pool\(get_pool_name\(\)\)\s*\}", "POOL_mpi", None),
    Sub(r"\bex::thread_pool_scheduler\{\s*&\s*pika::detail::get_runtime_ptr\(\)->get_thread_manager\(\)\.default_pool\(\)\s*\}", "POOL_default", None),
    Sub(r"\bex::with_priority\b", "ex_with_priority", None),
    Sub(r"(?:\w+::)*thread_priority::(\w+)", r"thread_priority_\1", None),
    Pipe(None),
] + NS_RULES
UNITS += [
    Unit("tmpi.mode_dispatch", "modedispatch.c", enforce="transform_mpi_invoke",
         lifts=hl(use_priority_boost=L_BOOST, use_inline_completion=DEC_LIFTS["use_inline_completion"], use_inline_request=DEC_LIFTS["use_inline_request"],
                  default_pool_scheduler=Lift(HELP_H, r"inline auto default_pool_scheduler\(", rules=MD_RULES),
                  mpi_pool_scheduler=Lift(HELP_H, r"inline auto mpi_pool_scheduler\(", rules=MD_RULES),
                  f_completion=Lift(TRAN_H, r"auto f_completion = \[&\]\(auto&& sender\) mutable -> unique_any_sender<>", rules=[r for r in MD_RULES if not isinstance(r, Lambda)]),
                  invoke=Lift(TRAN_H, r"tag_fallback_invoke\(transform_mpi_t, Sender&& sender, F&& f\)", rules=MD_RULES)),
         funcs=[TRAN_H + ": pika::mpi::experimental::transform_mpi_t::tag_fallback_invoke(Sender&&, F&&)", FH + "default_pool_scheduler", FH + "mpi_pool_scheduler"],
         min_obligations=10,
         doc="F/T over the whole mode domain: chain = [continues_on(MPI pool | default pool, prio) iff bit 0 clear] transform_mpi(mode, f) "
             "[continues_on(default pool, prio) iff bit 1 clear], prio = boost iff bit 2"),
]

META = {
    "explanation": "SLICE, decided on source text that this sandbox never compiled (PIKA_WITH_MPI=OFF, no mpi.h): the safety form of C20 -- "
                   "'a transform_mpi sender arranges exactly one completion of its receiver, a polling callback is invoked exactly once and only "
                   "after MPI reported ITS request complete, with MPI's code; the in-flight counter / global activity count move by exactly one per "
                   "registered / completed request (activity count released only after the callback ran); polling is registered / cleared exactly "
                   "once per start / stop' -- as per-function contracts (T/I/M/F) over lifted bodies, one symbolic victim (request, callback) pair.",
    "trusted_base": [
        "specs/C20/c20_mpi.h + the MPI_* stubs of c20.h / env.c: ASSUMED contract of the MPI library (MPI-4.1 3.7.5, 11.2): MPI_Test / MPI_Testany / "
        "MPI_Testsome report only active (non-null) requests whose operation HAS completed, each at most once per call, never a null handle; "
        "statuses[i].MPI_ERROR is meaningful only when the call returned MPI_ERR_IN_STATUS; completion may happen at any MPI call. NOT assumed: "
        "that MPI replaces a completed handle by MPI_REQUEST_NULL (the proofs rely on pika nulling the slot). MPI_Initialized / MPI_Finalized "
        "report the library state",
        "c20.h abstract containers: std::vector<MPI_Request> / std::vector<mpi_callback_info> = size + identity tracking of ONE symbolic victim "
        "pair (up to two slots each, a tombstone for the nulled request cell, one-entry read cache); every other cell unconstrained except "
        "VX_ASSUME 'no other cell holds the victim's unique request handle / callback object' (MPI handles of outstanding operations are "
        "distinct; unique_function is move-only)",
        "c20.h moodycamel::ConcurrentQueue stubs: enqueue stores, try_dequeue returns some stored element or fails (also spuriously); another "
        "poller may take the victim from the ready queue at any time (element conservation of the queue itself: C17, unverified dependency)",
        "c20.h atomic_u32_*: std::atomic<uint32_t> all_in_flight_ as an indivisible word; in the multi-threaded units other threads may change "
        "it before each access (own RMW steps counted in ghosts); A-SC",
        "vx/prelude/monitor.h: spinlock / unique_lock / lock_guard as a ghost 'held' bit (A-LOCK); try_to_lock may fail",
        "c20_op.h: receivers, senders, schedulers, closures, exception_ptr as opaque tokens; ex::schedule | ex::then | ex::start_detached run the "
        "closure exactly once on the given scheduler (C03 / C10); pika::condition_variable::wait(lock, pred) == while (!pred()) wait(lock) "
        "(condition_variable.hpp:236) with wait = release inside the suspension + re-acquire (C07); try_catch_exception_ptr (C03 unit)",
        "c20_op.h vx_mon_acquire_hook: environment of the suspend/resume waiter = the registered polling callback may run whenever op_state.mutex "
        "is free, with the effect proved for it in unit help.cb.suspend_resume (VX-free: a nondeterministic choice, no assumption)",
        "transform.c vx_invoke_mpi_f: VX_ASSUME the user's MPI function leaves a non-null request (the authors assert exactly this right after the call)",
        "rule UNINIT: `int a, b;` -> `int a = nondet_int(), b = nondet_int();` (CBMC's own meaning of an uninitialised local) -- workaround: "
        "goto-instrument --dfcc 6.11 does not track a loop-body local that is written only through a pointer by a callee unless its declaration has an initialiser",
        "ghost: vector sizes bounded by 10^6 (VX_BIG) so that int/uint32 index arithmetic of poll_multithreaded cannot overflow",
    ],
    "assumptions": [
        "(a) the MPI library contract above is assumed, not verified",
        "(b) the C++ compiler never saw libs/pika/async_mpi or libs/pika/mpi_base in this sandbox (PIKA_WITH_MPI=OFF, no mpi.h): no cxxcheck, "
        "no header test covers this text; units are decided on lifted source text only",
        "(c) preprocessor configuration verified: PIKA_DEBUG defined (superset of statements: debug-only register count and the authors' "
        "assertions are in the text), OMPI_HAVE_MPI_EXT_CONTINUE undefined (no MPIX continuations: try_mpix_polling, the real "
        "register_mpix_continuation / restart_mpix and the MPIX branch of start_polling are NOT covered), PIKA_HAVE_APEX and PIKA_HAVE_STDEXEC undefined",
        "template instances: Ts... = <> for set_value_error_helper (transform_mpi sends no value); dispatch for an MPI function returning void and "
        "one returning int; Receiver / Sender / F opaque",
        "polling callbacks do not re-enter the poller's vectors while poll_singlethreaded runs (single-thread mode requires requests to be "
        "transferred to a new task: can_run_singlethreaded)",
        "A-CLOSED (census below): all_in_flight_, the activity count, requests_/callbacks_, the two queues and PIKA_INVOKE are touched only in lifted functions of mpi_polling.cpp",
        "case split of poll_multithreaded on max_polling_requests (> 1 / <= 1): two units, together the whole domain",
        "handler method restricted to the five documented values in tmpi.trigger / tmpi.set_value (an undocumented value reaches PIKA_UNREACHABLE: see not_decided)",
    ],
    "not_decided": [
        "liveness: that a registered request is eventually polled / its callback eventually runs; that stop_polling's wait terminates "
        "(it waits for all_in_flight_ == 0 AFTER clearing the scheduler hook and WHILE holding polling_vector_mtx_, which poll_multithreaded needs)",
        "'received data is fully visible to the continuation': memory ordering between MPI's completion and the continuation (A-SC assumed)",
        "the MPIX continuation configuration; create_pool / register_pool / init_resource_partitioner_handler; set_error_handler / pika_MPI_Handler",
        "composition of the per-function contracts into 'for all interleavings of pollers and submitters' (history induction, DESIGN 3.4)",
        "the continues_on / unique_any_sender plumbing of transform_mpi_t::tag_fallback_invoke (C03 / C18 material): only its mode decoding functions are under contract",
        "PIKA_MPI_COMPLETION_MODE / set_completion_mode values whose bits 3..5 are 5..7 are not validated anywhere: trigger reaches PIKA_UNREACHABLE",
        "debug-only register_polling_count_ is incremented by register_polling and never decremented (after the first start/stop cycle the "
        "assertion in add_request_callback no longer detects 'polling not enabled')",
    ],
    "extraction_drops": [
        "comments; PIKA_DETAIL_DP debug printing and `if constexpr (mpi_debug<N>.is_enabled()) { timers }` blocks; PIKA_LOG; static_assert",
        "std::memory_order arguments (A-SC); attributes, noexcept, constexpr, inline; std::move / std::forward (moved-from state not modelled)",
        "template parameters (instances listed under assumptions); scoped_thread_priority (priority restore) in trigger",
        "everything behind a stub of c20.h / c20_op.h / env.c (listed in trusted_base)",
    ],
}

def _same_contract(template, fn):
    """a function that one unit proves (//@FUNC) and other units use through --replace-call-with-contract carries the SAME clause text in both
    places of the template"""
    def run():
        t = open(os.path.join(os.path.dirname(os.path.abspath(__file__)) if "__file__" in globals() else "/verif/specs/C20", template)).read()
        norm = []
        for m in re.finditer(r"^(?:void|int|bool) %s\([^)\n]*\)\n" % fn, t, re.M):
            rest = t[m.end():]
            e = re.search(r"^(?://@LIFT|;|\{)", rest, re.M)
            blk = rest[:e.start()] if e else ""
            if "__CPROVER_ensures" in blk:
                norm.append(re.sub(r"/\*.*?\*/|\s+", "", blk, flags=re.S))
        ok = len(norm) >= 2 and all(n == norm[0] for n in norm)
        return ok, "contract text of %s in %s: %d copies, %s" % (fn, template, len(norm), "identical" if ok else "DIFFERENT or missing")
    run.fact_name = "contract copies of %s" % fn
    return run


STATIC = [
    _same_contract("polling.c", "compact_vectors"),
    _same_contract("transform.c", "dispatch"),
    _same_contract("transform.c", "trigger"),
    census.enum("polling_status", "libs/pika/threading_base/include/pika/threading_base/scheduler_base.hpp", "polling_status", {"idle": 0, "busy": 1}),
    # A-CLOSED: every mutator of the shared state is inside a lifted function
    census.sites("all_in_flight_ RMW sites", [POLL], r"(\+\+|--)\s*(?:detail::)?mpi_data_\.all_in_flight_", 4,
                 "add_to_request_callback_queue (++), poll_multithreaded (-- x2), poll_singlethreaded (--)"),
    census.sites("all_in_flight_ other writes", [POLL], r"mpi_data_\.all_in_flight_\s*(?:=(?!=)|\+=|-=|\.store|\.exchange|\.fetch_)", 0),
    census.sites("global activity count sites", [POLL], r"\b(?:in|de)crement_global_activity_count\(\)", 4),
    census.sites("requests_/callbacks_ structural mutators", [POLL], r"mpi_data_\.(?:requests_|callbacks_)\.(?:push_back|emplace_back|resize|clear|erase|pop_back|insert|assign|swap)\b", 4,
                 "add_to_request_callback_vector (push_back x2), compact_vectors (resize x2)"),
    census.sites("requests_/callbacks_ element stores", [POLL], r"mpi_data_\.(?:requests_|callbacks_)\[[^\]]*\]\s*=(?!=)", 5,
                 "compact_vectors x2, poll_multithreaded x2, poll_singlethreaded x1"),
    census.sites("callback invocations", [POLL], r"\bPIKA_INVOKE\(", 3, "poll_multithreaded x2, poll_singlethreaded"),
    census.sites("ready queue producers/consumers", [POLL], r"mpi_data_\.ready_requests_\.(?:enqueue|try_dequeue)\b", 4),
    census.sites("request queue producers/consumers", [POLL], r"mpi_data_\.request_callback_queue_\.(?:enqueue|try_dequeue)\b", 3),
    census.sites("scheduler hook clear sites", [POLL], r"->clear_mpi_polling_function\(\)", 1),
]
