"""C20 -- MPI requests complete their sender exactly once, after the transfer.

SLICE decided on SOURCE TEXT ONLY: the MPI adaptor is not part of this sandbox's build (PIKA_WITH_MPI=OFF, no mpi.h); the C++
compiler never saw these files here.  Every MPI_* function / constant / type is an environment stub (specs/C20/c20_mpi.h, c20.h).
"""
import os
import re

from vx import lift as L
from vx.lift import Lift, Sub, Call, Members, Guard, DropStmt, Rule, LiftError, match_close, split_args, TryCatch
from vx.run import Unit
from vx import census

POLL = "libs/pika/async_mpi/src/mpi_polling.cpp"
POLL_H = "libs/pika/async_mpi/include/pika/async_mpi/mpi_polling.hpp"
HELP_H = "libs/pika/async_mpi/include/pika/async_mpi/mpi_helpers.hpp"
TRAN_H = "libs/pika/async_mpi/include/pika/async_mpi/transform_mpi.hpp"
ENV = "libs/pika/mpi_base/src/mpi_environment.cpp"

# ---------------------------------------------------------------------------------------------------------------
# local helpers (the framework has no per-Lift preprocessor configuration; nothing under vx/ is changed)


class LiftPP(Lift):
    """Lift with an explicit preprocessor configuration: `defs` are added to / `undefs` removed from the build's defines before
    #if resolution.  (vx.lift.Lift.run always uses the build configuration; this subclass repeats its pipeline.)"""

    def __init__(self, *a, defs=None, undefs=(), **k):
        Lift.__init__(self, *a, **k)
        self.defs, self.undefs = dict(defs or {}), tuple(undefs)

    def run(self):
        if self.fragment_end:
            body, line, header = L.locate_fragment(self.src, self.locate, self.fragment_end)
        else:
            body, line, header = L.locate(self.src, self.locate, self.which, self.expect, self.ctor)
        raw = body
        d = dict(L.build_defines())
        d.update(self.defs)
        for u in self.undefs:
            d.pop(u, None)
        body = L.resolve_pp(body, d)
        if self.generic:
            body = L.apply_rules(body, L.PRE_RULES)
        body = L.apply_rules(body, self.rules)
        if self.generic:
            body = L.apply_rules(body, L.GENERIC_RULES)
        body = L.apply_rules(body, self.post)
        if self.generic:
            body = L.apply_rules(body, L.FALLBACK_RULES)
        body, nloops = L.splice_loops(body, self.loops)
        if not self.keep_braces:
            body = body.strip()[1:-1]
        return {"text": body, "line": line, "file": self.src, "raw": raw, "nloops": nloops, "header": header}


# configuration verified: PIKA_DEBUG on (superset of statements: the debug-only register count and the authors' assertions are
# part of the text), OMPI_HAVE_MPI_EXT_CONTINUE off (MPIX continuations not available), PIKA_HAVE_APEX off, PIKA_HAVE_STDEXEC off
CFG = {"PIKA_DEBUG": "1"}
CFG_UNDEF = ("OMPI_HAVE_MPI_EXT_CONTINUE", "PIKA_HAVE_APEX", "PIKA_HAVE_STDEXEC")


def PL(src, locate, rules=(), **k):
    return LiftPP(src, locate, rules=rules, defs=CFG, undefs=CFG_UNDEF, **k)


class YieldWhile(Rule):
    """(copied from specs/C19) `util::yield_while([caps]() { BODY }, "name");` -> the loop it is (this_thread.hpp:
    `for (k = 0; predicate(); ++k) yield_k(k)`), lambda body inlined:
        while (1) { bool vx_ywK; { BODY' } vx_ywK_end: ; if (!vx_ywK) break; vx_yield(); }"""

    def __init__(self, n=None):
        self.n = n

    def apply(self, text):
        k = 0
        rx = re.compile(r"(?:pika::)?util::yield_while\s*\(")
        while True:
            m = rx.search(text)
            if not m:
                break
            op = m.end() - 1
            cl = match_close(text, op)
            lam = split_args(text[op + 1: cl])[0]
            ml = re.match(r"\[[^\]]*\]\s*(?:\(\s*\))?\s*(?:mutable\s*)?\{", lam, re.S)
            if not ml:
                raise LiftError("YieldWhile: first argument is not a lambda: %r" % lam[:60])
            bop = ml.end() - 1
            bcl = match_close(lam, bop, "{", "}")
            if lam[bcl + 1:].strip():
                raise LiftError("YieldWhile: text after the lambda body")
            k += 1
            v = "vx_yw%d" % k
            body, nret = re.subn(r"\breturn\b\s*([^;]*);", lambda mm: "{ %s = (%s); goto %s_end; }" % (v, mm.group(1), v),
                                 lam[bop + 1: bcl])
            if nret == 0:
                raise LiftError("YieldWhile: predicate without return")
            end = cl + 1
            ms = re.match(r"\s*;", text[end:])
            if not ms:
                raise LiftError("YieldWhile: not a statement")
            end += ms.end()
            rep = "while (1) { bool %s; { %s } %s_end: ; if (!%s) break; vx_yield(); }" % (v, body, v, v)
            text = text[: m.start()] + rep + text[end:]
        self.check(k, "YieldWhile")
        return text


class VecIndex(Rule):
    """element access of an abstract vector:  `&C[E]` -> P_addr(&C, E);  `C[E] = X;` -> P_set(&C, E, X);  `C[E]` -> P_get(&C, E).
    C is a regex for the container expression, P the stub prefix.  Purely positional: which index / value expressions are used
    is the code's."""

    def __init__(self, cont, prefix, n=None):
        self.cont, self.prefix, self.n = cont, prefix, n

    def apply(self, text):
        k = 0
        rx = re.compile(r"(&\s*)?(%s)\s*\[" % self.cont)
        pos = 0
        while True:
            m = rx.search(text, pos)
            if not m:
                break
            ob = m.end() - 1
            cb = match_close(text, ob, "[", "]")
            idx = text[ob + 1: cb].strip()
            c = m.group(2)
            after = text[cb + 1:]
            ma = re.match(r"\s*=(?!=)", after)
            if m.group(1):
                rep, end = "%s_addr(&%s, %s)" % (self.prefix, c, idx), cb + 1
            elif ma:
                semi = L._stmt_end(text, cb + 1 + ma.end())
                val = text[cb + 1 + ma.end(): semi].strip()
                rep, end = "%s_set(&%s, %s, %s)" % (self.prefix, c, idx, val), semi
            else:
                rep, end = "%s_get(&%s, %s)" % (self.prefix, c, idx), cb + 1
            text = text[: m.start()] + rep + text[end:]
            pos = m.start() + 1          # rescan the replacement: the value of a store may contain further accesses
            k += 1
        self.check(k, "VecIndex(%s)" % self.cont)
        return text


class StdArray(Rule):
    """`std::array<T, N> name;` -> `struct vx_<T>_array name;` (abstract output array of an MPI call), `name.data()` -> `&name`,
    `name[E]` -> `vx_<T>_array_get(&name, E)`.  The capacity expressions N are collected in self.caps."""

    TYPES = {"int": "int", "MPI_Status": "status"}

    def __init__(self, n=None):
        self.n = n

    def apply(self, text):
        k = 0
        while True:
            m = re.search(r"\bstd::array\s*<\s*(\w+)\s*,\s*([^<>;]+?)\s*>\s*(\w+)\s*;", text)
            if not m:
                break
            t, cap, name = m.group(1), m.group(2), m.group(3)
            if t not in self.TYPES:
                raise LiftError("StdArray: element type %s not modelled" % t)
            st = "vx_%s_array" % self.TYPES[t]
            text = text[: m.start()] + "struct %s %s; VX_ARRAY_CAPACITY(%s, %s);" % (st, name, self.TYPES[t], cap) + text[m.end():]
            text = re.sub(r"\b%s\.data\(\)" % name, "&%s" % name, text)
            out, pos = [], 0
            for mm in re.finditer(r"\b%s\s*\[" % name, text):
                if mm.start() < pos:
                    continue
                ob = mm.end() - 1
                cb = match_close(text, ob, "[", "]")
                out.append(text[pos: mm.start()])
                out.append("%s_get(&%s, %s)" % (st, name, text[ob + 1: cb].strip()))
                pos = cb + 1
            out.append(text[pos:])
            text = "".join(out)
            k += 1
        self.check(k, "StdArray")
        return text


class DropDebugBlocks(Rule):
    """`if constexpr (mpi_debug<N>.is_enabled()) { ...timers and debug printing... }` -> nothing (logging)."""

    def __init__(self, n=None):
        self.n = n

    def apply(self, text):
        k = 0
        while True:
            m = re.search(r"\bif\s+constexpr\s*\(\s*mpi_debug<\d+>\.is_enabled\(\)\s*\)\s*\{", text)
            if not m:
                break
            cl = match_close(text, m.end() - 1, "{", "}")
            text = text[: m.start()] + text[cl + 1:]
            k += 1
        self.check(k, "DropDebugBlocks")
        return text


def _uninit(m):
    return "int " + ", ".join("%s = nondet_int()" % n.strip() for n in m.group(1).split(",")) + ";"


# `int a, b;` (uninitialised out-parameters of an MPI call) -> `int a = nondet_int(), b = nondet_int();`: exactly CBMC's meaning of an
# uninitialised local, spelled out.  TOOL WORKAROUND: goto-instrument --dfcc (6.11) does not put a local that is declared inside a loop
# body and only written through a pointer by a callee into the loop's write set unless the declaration carries an initialiser.
UNINIT = Sub(r"\bint\s+((?:\w+\s*,\s*)*\w+)\s*;", _uninit, None)


def _rmw(m):
    return "atomic_u32_%s(&%s)" % ("inc" if m.group(1) == "++" else "dec", m.group(2))


AIF = r"(?:detail::)?mpi_data_\.all_in_flight_"
NS_RULES = [
    Sub(r"\busing\s+(?:namespace\s+)?[\w:]+\s*;", "", None),
    Sub(r"\b(?:pika::)?threads::detail::", "", None),
    Sub(r"\b(?:pika::)?mpi::detail::environment::", "environment_", None),
    Sub(r"\bmpi::detail::", "", None),
    Sub(r"(?<![\w:])detail::", "", None),
    Sub(r"\bpolling_status::(\w+)", r"polling_status_\1", None),
    Sub(r"\bhandler_method::(\w+)", r"\1", None),
]
POLL_RULES = NS_RULES + [
    DropStmt(r"\bPIKA_DETAIL_DP", None),
    DropDebugBlocks(None),
    # atomics: spelling -> stub (which operation is applied where is the code's)
    Sub(r"(\+\+|--)\s*(mpi_data_\.all_in_flight_)\b", _rmw, None),
    Sub(r"\bmpi_data_\.all_in_flight_\.load\(\s*(?:std::memory_order\w*)?\s*\)", "atomic_u32_load(&mpi_data_.all_in_flight_)", None),
    Sub(r"(?<![&\w.])mpi_data_\.all_in_flight_\b(?!\s*\.)", "atomic_u32_load(&mpi_data_.all_in_flight_)", None),
    Sub(r"\bmpi_data_\.max_polling_requests\.load\(\s*(?:std::memory_order\w*)?\s*\)", "mpi_data_.max_polling_requests", None),
    Sub(r"\bget_register_polling_count\(\)", "mpi_data_.register_polling_count_", None),
    # aggregates
    Sub(r"\b(request_callback|ready_callback)\s+(\w+)\s*;", r"struct \1 \2;", None),
    Sub(r"\brequest_callback\s*\{", "(struct request_callback){", None),
    # the two parallel vectors
    Call(r"\bmpi_data_\.requests_\.push_back", "vreq_push_back(&mpi_data_.requests_, {0})", None),
    Call(r"\bmpi_data_\.callbacks_\.push_back", "vcb_push_back(&mpi_data_.callbacks_, (struct mpi_callback_info){0})", None),
    Call(r"\bmpi_data_\.requests_\.resize", "vreq_resize(&mpi_data_.requests_, {0})", None),
    Call(r"\bmpi_data_\.callbacks_\.resize", "vcb_resize(&mpi_data_.callbacks_, {0})", None),
    Sub(r"\bmpi_data_\.requests_\.size\(\)", "vreq_size(&mpi_data_.requests_)", None),
    Sub(r"\bmpi_data_\.callbacks_\.size\(\)", "vcb_size(&mpi_data_.callbacks_)", None),
    Sub(r"\bmpi_data_\.requests_\.data\(\)", "vreq_data(&mpi_data_.requests_)", None),
    VecIndex(r"mpi_data_\.requests_", "vreq", None),
    VecIndex(r"mpi_data_\.callbacks_", "vcb", None),
    # the two lock-free queues
    Call(r"\bmpi_data_\.request_callback_queue_\.enqueue", "rq_enqueue(&mpi_data_.request_callback_queue_, {0})", None),
    Call(r"\bmpi_data_\.request_callback_queue_\.try_dequeue", "rq_try_dequeue(&mpi_data_.request_callback_queue_, &{0})", None),
    Sub(r"\bmpi_data_\.request_callback_queue_\.size_approx\(\)", "rq_size_approx(&mpi_data_.request_callback_queue_)", None),
    Call(r"\bmpi_data_\.ready_requests_\.enqueue", "rdq_enqueue(&mpi_data_.ready_requests_, (struct ready_callback){0})", None),
    Call(r"\bmpi_data_\.ready_requests_\.try_dequeue", "rdq_try_dequeue(&mpi_data_.ready_requests_, &{0})", None),
    Call(r"\bPIKA_INVOKE", "vx_invoke_cb({0}, {1})", None),
    Sub(r"\(std::min\)", "VX_MIN", None),
    UNINIT,
    StdArray(None),
    Guard(r"std::unique_lock\s*<\s*mutex_type\s*>\s*(\w+)\s*\(\s*mpi_data_\.polling_vector_mtx_\s*,\s*std::try_to_lock\s*\)\s*;",
          r"struct ulock \1 = ulock_try_make(&mpi_data_.polling_vector_mtx_);", r"ulock_dtor(&\1);", None),
    Guard(r"std::(?:lock_guard|unique_lock|scoped_lock)\s*(?:<[^;()]*>)?\s*(\w+)\s*\(\s*mpi_data_\.polling_vector_mtx_\s*\)\s*;",
          r"struct ulock \1 = ulock_make(&mpi_data_.polling_vector_mtx_);", r"ulock_dtor(&\1);", None),
    Sub(r"\b(\w+)\.owns_lock\(\)", r"\1.owns", None),
]


def _const(path, name, default=None):
    try:
        src = L.read_source(path)
    except LiftError:
        return default
    m = re.search(r"constexpr\s+[\w:]+\s+%s\s*=\s*([^;]+);" % name, src)
    return m.group(1).strip() if m else default


MAXPOLL = _const(POLL, "max_poll_requests", "0")

STRUCT_LIFTS = {
    "s_request_callback": Lift(POLL, r"struct request_callback\b(?=\s*\{)"),
    "s_mpi_callback_info": Lift(POLL, r"struct mpi_callback_info\b(?=\s*\{)"),
    "s_ready_callback": Lift(POLL, r"struct ready_callback\b(?=\s*\{)"),
}
F = POLL + ": pika::mpi::experimental::detail::"


def pl(**more):
    d = dict(STRUCT_LIFTS)
    d.update(more)
    return d


L_ADD_VEC = PL(POLL, r"inline void add_to_request_callback_vector\(", rules=POLL_RULES)
L_ADD_Q = PL(POLL, r"void add_to_request_callback_queue\(", rules=POLL_RULES)
L_ADD = PL(POLL, r"bool add_request_callback\(", rules=POLL_RULES)

UNITS = [
    Unit("poll.add_to_vector", "polling.c", defines=["U_ADD_VEC"], enforce="add_to_request_callback_vector",
         lifts=pl(add_vec=L_ADD_VEC), funcs=[F + "add_to_request_callback_vector"], min_obligations=10,
         doc="I: request and callback are appended exactly once each, to the SAME new slot of the two parallel vectors"),
    Unit("poll.add_to_queue", "polling.c", defines=["U_ADD_Q"], enforce="add_to_request_callback_queue",
         lifts=pl(add_vec=L_ADD_VEC, add_q=L_ADD_Q), funcs=[F + "add_to_request_callback_queue", F + "add_to_request_callback_vector"],
         min_obligations=10,
         doc="T: counted once (all_in_flight_, activity count) BEFORE being published; published exactly once (queue xor vectors)"),
    Unit("poll.add_request_callback", "polling.c", defines=["U_ADD"], enforce="add_request_callback",
         lifts=pl(add_vec=L_ADD_VEC, add_q=L_ADD_Q, add=L_ADD),
         funcs=[F + "add_request_callback"], min_obligations=10,
         doc="T: the (callback, request) pair given by the caller is stored exactly once, paired"),
    Unit("poll.poll_request", "polling.c", defines=["U_POLL_REQUEST"], enforce="poll_request",
         lifts=pl(poll_request=PL(POLL, r"bool poll_request\(", rules=POLL_RULES)),
         funcs=[F + "poll_request"], min_obligations=3, doc="F: true iff MPI_Test set the flag, one test of the given request"),
    Unit("poll.get_work_count", "polling.c", defines=["U_WORK_COUNT"], enforce="get_work_count",
         lifts=pl(get_work_count=PL(POLL, r"size_t get_work_count\(\)", rules=POLL_RULES)),
         funcs=[POLL + ": pika::mpi::experimental::get_work_count"], min_obligations=1, doc="F: == all_in_flight_"),
]

LOOP_C1 = """
__CPROVER_assigns(i, pos, g_rc_j, g_rc_x)
__CPROVER_loop_invariant(i <= size && pos == size && size == mpi_data_.requests_.size)
__CPROVER_loop_invariant(g_tomb == NOSLOT || g_tomb >= i)
"""
# E_x = value at entry of the second loop (the first loop does not modify the vectors)
LOOP_C2 = """
__CPROVER_assigns(i, pos, g_r1, g_r2, g_c1, g_c2, g_tomb, g_c_err, g_c_req, g_rc_j, g_rc_x)
__CPROVER_loop_invariant(pos <= i && i <= size + 1 && pos <= size && size == mpi_data_.requests_.size && SIZES_EQ)
__CPROVER_loop_invariant((__CPROVER_loop_entry(g_r1) == NOSLOT && __CPROVER_loop_entry(g_c1) == NOSLOT) ==> V_GONE)
__CPROVER_loop_invariant(__CPROVER_loop_entry(g_r1) != NOSLOT ==> (g_r1 == g_c1 && g_r2 == g_c2 && g_tomb == NOSLOT && g_c_req == VR && g_r1 <= __CPROVER_loop_entry(g_r1)))
__CPROVER_loop_invariant(__CPROVER_loop_entry(g_r1) != NOSLOT ==> (
    (g_r2 == NOSLOT && g_r1 == __CPROVER_loop_entry(g_r1) && (g_r1 < pos || g_r1 >= i)) ||
    (g_r1 < pos && __CPROVER_loop_entry(g_r1) < i && (g_r2 == NOSLOT || (g_r2 == __CPROVER_loop_entry(g_r1) && g_r2 >= pos)))))
__CPROVER_loop_invariant((__CPROVER_loop_entry(g_r1) == NOSLOT && __CPROVER_loop_entry(g_c1) != NOSLOT) ==> (i <= size && g_r1 == NOSLOT && g_r2 == NOSLOT && g_c2 == NOSLOT && (
    (g_c1 == __CPROVER_loop_entry(g_c1) && g_tomb == g_c1 && g_c1 >= pos && (i <= g_c1 || pos < i)) || (g_c1 == NOSLOT && g_tomb == NOSLOT && pos < i))))
"""
L_COMPACT = PL(POLL, r"void compact_vectors\(\)", rules=POLL_RULES, loops={1: LOOP_C1, 2: LOOP_C2, "count": 2})
UNITS += [
    Unit("poll.compact_vectors", "polling.c", defines=["U_COMPACT"], enforce="compact_vectors",
         lifts=pl(compact=L_COMPACT), funcs=[F + "compact_vectors"], min_obligations=40,
         doc="I (two loop contracts, one symbolic victim pair): pairs with a non-null request survive exactly once with request and "
             "callback in one common slot; pairs whose request was nulled are removed; the vectors stay parallel"),
]

LOOP_ST_DO = """
__CPROVER_assigns(event_handled, POLL_FRAME)
__CPROVER_loop_invariant(ST_LEDGER && ST_COUNTERS)
"""
LOOP_ST_DEQ = """
__CPROVER_assigns(req_callback, mpi_data_.requests_.size, mpi_data_.callbacks_.size, g_r1, g_r2, g_c1, g_c2, g_tomb, g_c_err, g_c_req, g_rc_j, g_rc_x, g_push_v, g_inq)
__CPROVER_loop_invariant(ST_LEDGER)
"""
L_POLL_ST = PL(POLL, r"polling_status poll_singlethreaded\(\)", rules=POLL_RULES, loops={1: LOOP_ST_DO, 2: LOOP_ST_DEQ, "count": 2})
UNITS += [
    Unit("poll.poll_singlethreaded", "polling.c", defines=["U_POLL_ST"], enforce="poll_singlethreaded", replace=["compact_vectors"],
         lifts=pl(add_vec=L_ADD_VEC, poll_st=L_POLL_ST), funcs=[F + "poll_singlethreaded", F + "add_to_request_callback_vector"],
         min_obligations=100,
         doc="T+I (loop contracts, one symbolic victim pair): callback invoked at most once, only after MPI_Testany reported ITS request, "
             "with MPI's code; request slot nulled; counters down by exactly one per invocation; pairs not reported are kept (queue -> "
             "vectors exactly once)"),
]

LOOP_MT_RDY = """
__CPROVER_assigns(ready_callback_, MT_RDQ_FRAME, MT_INV_FRAME)
__CPROVER_loop_invariant(MT_LEDGER && MT_COUNTERS && !mpi_data_.polling_vector_mtx_.held)
"""
LOOP_MT_DO = """
__CPROVER_assigns(event_handled, MT_VEC_FRAME, MT_MPI_FRAME, g_inready, g_ready_err, g_rq_enq_v)
__CPROVER_loop_invariant(MT_LEDGER && MT_LOCKED)
"""
LOOP_MT_DEQ = """
__CPROVER_assigns(req_callback, MT_VEC_FRAME)
__CPROVER_loop_invariant(MT_LEDGER && MT_LOCKED)
"""
LOOP_MT_CHUNK = """
__CPROVER_assigns(vsize, req_init, num_completed, event_handled, g_r1, g_r2, g_c1, g_c2, g_tomb, g_c_err, g_c_req, g_rc_j, g_rc_x, MT_MPI_FRAME, g_inready, g_ready_err, g_rq_enq_v)
__CPROVER_loop_invariant(MT_LEDGER && MT_LOCKED && req_init >= 0 && (size_t) req_init + (size_t) vsize == mpi_data_.requests_.size && g_cap_int == max_poll_requests && g_cap_status == max_poll_requests)
"""
LOOP_MT_FOR = """
__CPROVER_assigns(i, g_r1, g_r2, g_c1, g_c2, g_tomb, g_c_err, g_c_req, g_rc_j, g_rc_x, g_inready, g_ready_err, g_rq_enq_v)
__CPROVER_loop_invariant(MT_LEDGER_FOR && MT_LOCKED && 0 <= i && i <= num_completed && num_completed == g_ts_n && (size_t) req_init == g_ts_off && (size_t) req_size == g_ts_incount)
__CPROVER_loop_invariant(g_ts_off + g_ts_incount <= mpi_data_.requests_.size && (g_ts_k >= 0 ==> (g_ts_k < g_ts_n && g_ts_vidx < g_ts_incount)) && (PENDING == (g_ts_k >= i)))
__CPROVER_loop_invariant(status_valid == (status == MPI_ERR_IN_STATUS) && (g_ts_k >= 0 ==> g_rep_code == (status == MPI_ERR_IN_STATUS ? g_ts_verr : MPI_SUCCESS)))
"""
L_POLL_MT = PL(POLL, r"polling_status poll_multithreaded\(\)", rules=POLL_RULES,
               loops={1: LOOP_MT_RDY, 2: LOOP_MT_DO, 3: LOOP_MT_DEQ, 4: LOOP_MT_CHUNK, 5: LOOP_MT_FOR, 6: LOOP_MT_RDY, "count": 6})
UNITS += [
    Unit("poll.poll_multithreaded", "polling.c", defines=["U_POLL_MT", "MAX_POLL_REQUESTS=" + MAXPOLL], enforce="poll_multithreaded",
         replace=["compact_vectors"], lifts=pl(add_vec=L_ADD_VEC, poll_mt=L_POLL_MT),
         funcs=[F + "poll_multithreaded", F + "add_to_request_callback_vector"], min_obligations=200, solver=["--sat-solver", "cadical"],
         doc="M+T+I (six loop contracts, one symbolic victim pair; other pollers interfere with all_in_flight_ and the ready queue): "
             "hand-over to the ready queue at most once and only after MPI_Testsome/MPI_Testany reported ITS request, with MPI's code, "
             "request slot nulled; a ready callback is invoked exactly once by whoever dequeues it; counters down by one per invocation; "
             "vectors touched only under polling_vector_mtx_, consistent at release, lock released on every path"),
]

META = {
    "trusted_base": [],
    "assumptions": [],
    "not_decided": [],
}
