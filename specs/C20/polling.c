/* C20 units over libs/pika/async_mpi/src/mpi_polling.cpp (request registration, polling, compaction).
 * Hand written: types, ghost ledger, MPI/queue/vector stubs (c20.h), contracts, harness.  Every statement of a function
 * under contract is lifted from /repo. */
#include "vx.h"
#include "c20_mpi.h"
struct request_callback
//@LIFT s_request_callback
;
struct mpi_callback_info
//@LIFT s_mpi_callback_info
;
struct ready_callback
//@LIFT s_ready_callback
;
#include "c20.h"

struct mpi_data
{
  bool error_handler_initialized_;
  int rank_;
  int size_;
  size_t max_polling_requests;               /* std::atomic<std::size_t> (read only here) */
  uint32_t all_in_flight_;                   /* std::atomic<std::uint32_t>: accessed through atomic_u32_* only */
  uint32_t register_polling_count_;          /* PIKA_DEBUG only */
  struct rq request_callback_queue_;
  struct rdq ready_requests_;
  struct vreq requests_;
  struct vcb callbacks_;
  struct vx_mutex polling_vector_mtx_;
  bool optimizations_;
  bool single_thread_mode_;
};
static struct mpi_data mpi_data_;

#define IS_V(rc) ((rc).callback_function_ == VC)
#define PAIR_WF(rc) (((rc).callback_function_ == VC) == ((rc).request_ == VR))
#define LOCK_OK (!g_mt || mpi_data_.polling_vector_mtx_.held)
#define WIRED (g_vreq == &mpi_data_.requests_ && g_vcb == &mpi_data_.callbacks_ && g_vec_mtx == &mpi_data_.polling_vector_mtx_ && VR != MPI_REQUEST_NULL && VC != 0)
#define VEC_FRAME mpi_data_.requests_.size, mpi_data_.callbacks_.size, GV, GQ

/* ------------------------------------------------------------------------------------------------------------------ */
#ifdef U_ADD_VEC
//@FUNC
void add_to_request_callback_vector(struct request_callback req_callback)
__CPROVER_requires(WIRED && VEC_INV && LOCK_OK && PAIR_WF(req_callback) && g_push_v == 0)
__CPROVER_requires(IS_V(req_callback) ==> V_GONE)
/* both vectors grow by exactly one element ... */
__CPROVER_ensures(mpi_data_.requests_.size == __CPROVER_old(mpi_data_.requests_.size) + 1 && VEC_INV)
/* ... the pair is stored exactly once, request and callback in the SAME (new) slot, callback record initialised with MPI_SUCCESS
 * and its own request */
__CPROVER_ensures(IS_V(req_callback) ==> (V_LIVE && g_r1 == __CPROVER_old(mpi_data_.requests_.size) && g_push_v == 1 && g_c_err == MPI_SUCCESS))
/* ... and nothing else moves */
__CPROVER_ensures(!IS_V(req_callback) ==> (g_r1 == __CPROVER_old(g_r1) && g_c1 == __CPROVER_old(g_c1) && g_tomb == __CPROVER_old(g_tomb) && g_push_v == 0))
__CPROVER_assigns(VEC_FRAME)
//@LIFT add_vec
/*{}*/
#elif defined(U_ADD_Q) || defined(U_ADD) || defined(U_POLL_ST) || defined(U_POLL_MT)
/* body only (inlined into its callers; its contract is the subject of unit poll.add_to_vector) */
void add_to_request_callback_vector(struct request_callback req_callback)
//@LIFT add_vec
#endif

#ifdef U_ADD_Q
//@FUNC
void add_to_request_callback_queue(struct request_callback req_callback)
/* called by any submitting thread WITHOUT the vectors' lock: in multi-threaded mode it may only touch the lock-free queue */
__CPROVER_requires(WIRED && VEC_INV && !mpi_data_.polling_vector_mtx_.held && g_mt == !mpi_data_.single_thread_mode_)
__CPROVER_requires(PAIR_WF(req_callback) && g_push_v == 0 && g_chk_counted)
__CPROVER_requires(g_aif_inc == 0 && g_aif_dec == 0 && g_act_inc == 0 && g_act_dec == 0 && g_q_enq == 0 && g_q_enq_v == 0)
__CPROVER_requires(IS_V(req_callback) ==> (V_GONE && !g_inq))
/* counted exactly once in both counters */
__CPROVER_ensures(g_aif_inc == 1 && g_aif_dec == 0 && g_act_inc == 1 && g_act_dec == 0)
/* published exactly once: directly into the vectors in single-thread mode, otherwise into the lock-free queue */
__CPROVER_ensures(mpi_data_.single_thread_mode_ ? (g_q_enq == 0 && mpi_data_.requests_.size == __CPROVER_old(mpi_data_.requests_.size) + 1)
                                                : (g_q_enq == 1 && mpi_data_.requests_.size == __CPROVER_old(mpi_data_.requests_.size)))
__CPROVER_ensures(VEC_INV)
__CPROVER_ensures(IS_V(req_callback) ==> (mpi_data_.single_thread_mode_ ? (V_LIVE && !g_inq && g_push_v == 1) : (g_inq && g_q_enq_v == 1 && V_GONE)))
__CPROVER_ensures(!IS_V(req_callback) ==> (g_inq == __CPROVER_old(g_inq) && g_r1 == __CPROVER_old(g_r1) && g_c1 == __CPROVER_old(g_c1)))
__CPROVER_assigns(VEC_FRAME, mpi_data_.all_in_flight_, GI, GQ)
//@LIFT add_q
/*{}*/
#elif defined(U_ADD)
void add_to_request_callback_queue(struct request_callback req_callback)
//@LIFT add_q
#endif

#ifdef U_ADD
//@FUNC
bool add_request_callback(request_callback_function_type callback, MPI_Request request)
__CPROVER_requires(WIRED && VEC_INV && !mpi_data_.polling_vector_mtx_.held && g_mt == !mpi_data_.single_thread_mode_)
__CPROVER_requires(((callback == VC) == (request == VR)) && g_push_v == 0 && g_chk_counted)
__CPROVER_requires(g_aif_inc == 0 && g_aif_dec == 0 && g_act_inc == 0 && g_act_dec == 0 && g_q_enq == 0 && g_q_enq_v == 0)
__CPROVER_requires(callback == VC ==> (V_GONE && !g_inq))
/* the authors' assertion: polling must have been enabled on some pool (caller's duty) */
__CPROVER_requires(mpi_data_.register_polling_count_ != 0)
__CPROVER_ensures(__CPROVER_return_value)
__CPROVER_ensures(g_aif_inc == 1 && g_act_inc == 1 && g_aif_dec == 0 && g_act_dec == 0)
__CPROVER_ensures(VEC_INV)
/* the caller's pair is stored exactly once, callback together with its request */
__CPROVER_ensures(callback == VC ==> (mpi_data_.single_thread_mode_ ? (V_LIVE && !g_inq && g_push_v == 1) : (g_inq && g_q_enq_v == 1 && V_GONE)))
__CPROVER_ensures(callback != VC ==> (g_inq == __CPROVER_old(g_inq) && g_r1 == __CPROVER_old(g_r1) && g_c1 == __CPROVER_old(g_c1)))
__CPROVER_ensures(mpi_data_.single_thread_mode_ ? g_q_enq == 0 : g_q_enq == 1)
__CPROVER_assigns(VEC_FRAME, mpi_data_.all_in_flight_, GI, GQ)
//@LIFT add
/*{}*/
#endif

/* ------------------------------------------------------------------------------------------------------------------ */
#ifdef U_COMPACT
//@FUNC
void compact_vectors(void)
__CPROVER_requires(WIRED && VEC_INV && LOCK_OK)
/* the vectors stay parallel and do not grow */
__CPROVER_ensures(VEC_INV && mpi_data_.requests_.size <= __CPROVER_old(mpi_data_.requests_.size))
/* a pair whose request was non-null is kept, exactly once, request and callback still in one common slot (moved towards the front only) */
__CPROVER_ensures(__CPROVER_old(g_r1) != NOSLOT ==> (V_LIVE && g_r1 <= __CPROVER_old(g_r1)))
/* a pair whose request had been nulled (completed) is removed from both vectors */
__CPROVER_ensures((__CPROVER_old(g_r1) == NOSLOT && __CPROVER_old(g_c1) != NOSLOT) ==> (V_GONE && mpi_data_.requests_.size < __CPROVER_old(mpi_data_.requests_.size)))
/* nothing is invented */
__CPROVER_ensures((__CPROVER_old(g_r1) == NOSLOT && __CPROVER_old(g_c1) == NOSLOT) ==> V_GONE)
__CPROVER_assigns(mpi_data_.requests_.size, mpi_data_.callbacks_.size, GV)
//@LIFT compact
/*{}*/
#elif defined(U_POLL_ST) || defined(U_POLL_MT)
/* the pollers call compact_vectors through its contract (--replace-call-with-contract): SAME clauses as proved by unit poll.compact_vectors
 * (kept textually identical; checked by spec.py at load time) */
void compact_vectors(void)
__CPROVER_requires(WIRED && VEC_INV && LOCK_OK)
/* the vectors stay parallel and do not grow */
__CPROVER_ensures(VEC_INV && mpi_data_.requests_.size <= __CPROVER_old(mpi_data_.requests_.size))
/* a pair whose request was non-null is kept, exactly once, request and callback still in one common slot (moved towards the front only) */
__CPROVER_ensures(__CPROVER_old(g_r1) != NOSLOT ==> (V_LIVE && g_r1 <= __CPROVER_old(g_r1)))
/* a pair whose request had been nulled (completed) is removed from both vectors */
__CPROVER_ensures((__CPROVER_old(g_r1) == NOSLOT && __CPROVER_old(g_c1) != NOSLOT) ==> (V_GONE && mpi_data_.requests_.size < __CPROVER_old(mpi_data_.requests_.size)))
/* nothing is invented */
__CPROVER_ensures((__CPROVER_old(g_r1) == NOSLOT && __CPROVER_old(g_c1) == NOSLOT) ==> V_GONE)
__CPROVER_assigns(mpi_data_.requests_.size, mpi_data_.callbacks_.size, GV)
;
#endif

/* ------------------------------------------------------------------------------------------------------------------
 * the pollers.  g_w0 = where the victim pair is when the poller starts (chosen by the harness, pinned by the precondition) */
static uint32_t g_aif0;
#define W0_MATCHES ((g_w0 == W_ABSENT ==> (V_GONE && !g_inq && !g_inready)) && (g_w0 == W_INQ ==> (V_GONE && g_inq && !g_inready)) && \
                    (g_w0 == W_LIVE ==> (V_LIVE && !g_inq && !g_inready)) && (g_w0 == W_DEAD ==> (V_DEAD && !g_inq)) && \
                    (g_w0 == W_READY ==> ((V_GONE || V_DEAD) && !g_inq && g_inready)))
#define COUNTERS_ZERO (g_reported == 0 && g_inv_v == 0 && g_inv_total == 0 && g_aif_inc == 0 && g_aif_dec == 0 && g_act_inc == 0 && g_act_dec == 0 && \
                       g_q_enq == 0 && g_q_enq_v == 0 && g_rq_enq_v == 0 && g_rq_deq == 0 && g_rq_deq_v == 0 && g_push_v == 0 && !g_taken && g_order_ok)
/* victim ledger of the single-threaded poller (holds at both loop heads and at exit) */
#define ST_LEDGER (SIZES_EQ && g_inv_v <= 1 && g_reported == g_inv_v && (g_reported >= 1 ==> g_complete) && g_push_v == ((g_w0 == W_INQ && !g_inq) ? 1u : 0u) && \
   (g_inv_v == 1 ==> ((g_w0 == W_INQ || g_w0 == W_LIVE) && !g_inq && V_DEAD && g_inv_err == g_rep_code)) && \
   (g_inv_v == 0 ==> ((g_w0 == W_ABSENT ==> (V_GONE && !g_inq)) && (g_w0 == W_INQ ==> ((g_inq && V_GONE) || (!g_inq && V_LIVE))) && \
                      (g_w0 == W_LIVE ==> (!g_inq && V_LIVE)) && (g_w0 == W_DEAD ==> (!g_inq && V_DEAD)))))
#define ST_COUNTERS (g_aif_dec == g_inv_total && g_act_dec == g_inv_total && g_aif_inc == 0 && g_act_inc == 0 && g_order_ok && \
                     mpi_data_.all_in_flight_ == g_aif0 - g_inv_total)
#define POLL_FRAME mpi_data_.requests_.size, mpi_data_.callbacks_.size, GV, GQ, GM, GI, mpi_data_.all_in_flight_

#ifdef U_POLL_ST
//@FUNC
int poll_singlethreaded(void)
__CPROVER_requires(WIRED && !g_mt && !g_concurrent && g_w0 >= W_ABSENT && g_w0 <= W_DEAD && W0_MATCHES && SIZES_EQ && COUNTERS_ZERO && g_aif0 == mpi_data_.all_in_flight_)
/* a callback is invoked at most once ... */
__CPROVER_ensures(g_inv_v <= 1)
/* ... only after MPI reported ITS request complete, with the error code MPI gave; its request is no longer in requests_ (so it cannot
 * be tested or reported again) and the pair is not in the queue */
__CPROVER_ensures(g_inv_v == 1 ==> (g_reported == 1 && g_complete && g_inv_err == g_rep_code && g_r1 == NOSLOT && g_r2 == NOSLOT && !g_inq && (g_w0 == W_INQ || g_w0 == W_LIVE)))
/* nothing is invoked for a request MPI did not report; such a pair is not lost: it is still in the queue, or in the vectors with
 * request and callback in one common slot (moved from the queue to the vectors exactly once) */
__CPROVER_ensures(g_inv_v == 0 ==> (g_reported == 0 && ((g_w0 == W_INQ || g_w0 == W_LIVE) ==> ((g_inq && V_GONE && g_push_v == 0) || (!g_inq && V_LIVE)))))
__CPROVER_ensures(g_w0 == W_INQ ==> g_push_v == (g_inq ? 0 : 1))
__CPROVER_ensures((g_w0 == W_ABSENT || g_w0 == W_DEAD) ==> (g_inv_v == 0 && g_r1 == NOSLOT && !g_inq))
/* the in-flight counter and the global activity count go down by exactly one per invoked callback (activity count only after the
 * callback ran: stub obligation) */
__CPROVER_ensures(ST_COUNTERS)
/* status: idle exactly when the counter was read as zero */
__CPROVER_ensures(__CPROVER_return_value == (g_last_load == 0 ? polling_status_idle : polling_status_busy))
__CPROVER_ensures(g_last_load == mpi_data_.all_in_flight_)
__CPROVER_ensures(VEC_INV)
__CPROVER_assigns(POLL_FRAME)
//@LIFT poll_st
/*{}*/
#endif

/* ---- multi-threaded poller ------------------------------------------------------------------------------------------
 * HANDED: the victim's callback has left the vectors' custody (put on the ready queue by this call, or already there at entry) */
#define HANDED (g_rq_enq_v == 1 || g_w0 == W_READY)
#define PENDING (g_reported == 1 && g_rq_enq_v == 0)      /* reported by MPI_Testsome, not yet processed by the for loop */
#define MT_BOUNDS (SIZES_EQ && g_inv_v <= 1 && g_rq_enq_v <= 1 && g_rq_deq_v <= 1 && g_reported <= 1 && (g_reported >= 1 ==> g_complete) && \
                   (g_rq_enq_v == 1 ==> (g_reported == 1 && (g_w0 == W_INQ || g_w0 == W_LIVE))) && (g_w0 == W_READY ==> (g_reported == 0 && g_rq_enq_v == 0)) && \
                   g_push_v == ((g_w0 == W_INQ && !g_inq) ? 1u : 0u))
/* A: still in the poller's custody, not reported */
#define MT_CASE_A ((!HANDED && g_reported == 0) ==> (g_inv_v == 0 && !g_inready && !g_taken && g_rq_deq_v == 0 && \
                   (g_w0 == W_ABSENT ==> (V_GONE && !g_inq)) && (g_w0 == W_INQ ==> ((g_inq && V_GONE) || (!g_inq && V_LIVE))) && \
                   (g_w0 == W_LIVE ==> (!g_inq && V_LIVE)) && (g_w0 == W_DEAD ==> (!g_inq && (V_DEAD || V_GONE)))))
/* B: handed over -- in the ready queue, taken by another poller, or invoked by us: exactly one of the three */
#define MT_CASE_B (HANDED ==> (!g_inq && g_r1 == NOSLOT && (V_DEAD || V_GONE) && (g_inready ? 1 : 0) + (g_taken ? 1 : 0) + (int) g_inv_v == 1 && \
                   g_rq_deq_v == g_inv_v && (g_inv_v == 1 ==> g_inv_err == g_rep_code) && (g_inready ==> g_ready_err == g_rep_code)))
#define MT_LEDGER (MT_BOUNDS && MT_CASE_A && MT_CASE_B && (PENDING ==> false))
/* C: inside the Testsome for loop the victim may be reported but not yet processed */
#define MT_CASE_C (PENDING ==> (g_ts_k >= 0 && !g_inq && (V_LIVE || V_DEAD) && g_c1 == g_ts_off + g_ts_vidx && g_inv_v == 0 && !g_inready && !g_taken && g_rq_deq_v == 0 && \
                   (g_w0 == W_INQ || g_w0 == W_LIVE)))
#define MT_LEDGER_FOR (MT_BOUNDS && MT_CASE_A && MT_CASE_B && MT_CASE_C)
#define MT_COUNTERS (g_aif_dec == g_inv_total && g_act_dec == g_inv_total && g_rq_deq == g_inv_total && g_aif_inc == 0 && g_act_inc == 0 && g_order_ok)
#define MT_LOCKED (lk.owns && lk.m == &mpi_data_.polling_vector_mtx_ && mpi_data_.polling_vector_mtx_.held)
#define MT_VEC_FRAME mpi_data_.requests_.size, mpi_data_.callbacks_.size, GV, GQ
#define MT_MPI_FRAME GM
#define MT_RDQ_FRAME GR
#define MT_INV_FRAME GI, mpi_data_.all_in_flight_

#ifdef U_POLL_MT
#define max_poll_requests ((uint32_t) (MAX_POLL_REQUESTS))
//@FUNC
int poll_multithreaded(void)
__CPROVER_requires(WIRED && g_mt && g_concurrent && !mpi_data_.polling_vector_mtx_.held && !g_lock_failed)
__CPROVER_requires(g_w0 >= W_ABSENT && g_w0 <= W_READY && W0_MATCHES && SIZES_EQ && COUNTERS_ZERO && (g_w0 == W_READY ==> g_ready_err == g_rep_code))
/* case split on the configured polling size (the two cases cover the whole domain; one unit each) */
#ifdef CASE_TESTSOME
__CPROVER_requires(mpi_data_.max_polling_requests > 1)
#else
__CPROVER_requires(mpi_data_.max_polling_requests <= 1)
#endif
/* a callback is invoked at most once, and only one that this call took from the ready queue ... */
__CPROVER_ensures(g_inv_v <= 1 && g_rq_deq_v == g_inv_v)
/* ... a callback gets onto the ready queue at most once, only after MPI reported ITS request complete, with MPI's error code (stub
 * obligations of rdq_enqueue), and then its request is no longer in requests_ (it cannot be tested or reported again) */
__CPROVER_ensures(g_rq_enq_v <= 1 && (g_rq_enq_v == 1 ==> (g_reported == 1 && g_complete && g_r1 == NOSLOT && g_r2 == NOSLOT && !g_inq)))
/* exactly one fate for a handed-over callback: still queued, taken by another poller, or invoked here with MPI's code */
__CPROVER_ensures(HANDED ==> ((g_inready ? 1 : 0) + (g_taken ? 1 : 0) + (int) g_inv_v == 1 && (g_inv_v == 1 ==> g_inv_err == g_rep_code)))
/* nothing happens to a pair MPI did not report: not invoked, not lost -- still in the queue, or in the vectors with request and
 * callback in one common slot (moved from the queue to the vectors exactly once) */
__CPROVER_ensures(!HANDED ==> (g_inv_v == 0 && g_reported == 0 && !g_inready && !g_taken && ((g_w0 == W_INQ || g_w0 == W_LIVE) ==> ((g_inq && V_GONE) || (!g_inq && V_LIVE)))))
__CPROVER_ensures(g_push_v == ((g_w0 == W_INQ && !g_inq) ? 1u : 0u))
/* all_in_flight_, the activity count: one step down per invoked callback, nothing else (activity count only after the callback ran) */
__CPROVER_ensures(MT_COUNTERS)
/* the vectors' lock is released on every path (vector accesses under the lock + consistency at release: stub obligations) */
__CPROVER_ensures(!mpi_data_.polling_vector_mtx_.held)
/* busy is reported only when the counter was read non-zero; idle when it was read zero or the lock was not obtained */
__CPROVER_ensures(__CPROVER_return_value == polling_status_busy ==> g_last_load != 0)
__CPROVER_ensures(__CPROVER_return_value == polling_status_idle ==> (g_last_load == 0 || g_lock_failed))
__CPROVER_ensures(__CPROVER_return_value == polling_status_idle || __CPROVER_return_value == polling_status_busy)
__CPROVER_assigns(MT_VEC_FRAME, MT_MPI_FRAME, MT_RDQ_FRAME, MT_INV_FRAME, mpi_data_.polling_vector_mtx_.held, g_lock_failed)
//@LIFT poll_mt
/*{}*/
#endif

/* ------------------------------------------------------------------------------------------------------------------ */
#ifdef U_POLL_REQUEST
static unsigned g_test_calls;
static MPI_Request g_test_req;
static int g_test_flag;
static int vx_MPI_Test(MPI_Request *req, int *flag, MPI_Status *st)
{
  g_test_calls++;
  g_test_req = *req;
  int rc = MPI_Test(req, flag, st);
  g_test_flag = *flag;
  return rc;
}
#define MPI_Test vx_MPI_Test
//@FUNC
bool poll_request(MPI_Request req)
__CPROVER_requires(WIRED && g_test_calls == 0)
/* "complete" is claimed exactly when MPI said so, for exactly the request asked about */
__CPROVER_ensures(__CPROVER_return_value == (g_test_flag != 0))
__CPROVER_ensures(g_test_calls == 1 && g_test_req == req)
__CPROVER_ensures((req == VR && __CPROVER_return_value) ==> (g_complete && g_reported == 1))
__CPROVER_assigns(g_test_calls, g_test_req, g_test_flag, GM)
//@LIFT poll_request
/*{}*/
#undef MPI_Test
#endif

#ifdef U_WORK_COUNT
//@FUNC
size_t get_work_count(void)
__CPROVER_requires(!g_concurrent)
__CPROVER_ensures(__CPROVER_return_value == mpi_data_.all_in_flight_)
__CPROVER_assigns(GI)
//@LIFT get_work_count
/*{}*/
#endif

/* ------------------------------------------------------------------------------------------------------------------ */
static void init_ghost(void)
{
  g_vreq = &mpi_data_.requests_;
  g_vcb = &mpi_data_.callbacks_;
  g_vec_mtx = &mpi_data_.polling_vector_mtx_;
  VR = nondet_int();
  VC = nondet_int();
  g_mt = nondet_bool();
  g_concurrent = false;
  g_chk_counted = false;
  g_r1 = g_r2 = g_c1 = g_c2 = g_tomb = NOSLOT;
  g_c_err = 0; g_c_req = 0;
  g_rc_j = NOSLOT; g_rc_x = 0;
  g_inq = g_inready = g_taken = false;
  g_ready_err = 0;
  g_complete = nondet_bool();
  g_reported = 0; g_rep_code = 0;
  g_inv_v = g_inv_total = 0; g_inv_err = 0;
  g_aif_inc = g_aif_dec = g_act_inc = g_act_dec = 0;
  g_last_load = 0;
  g_q_enq = g_q_enq_v = g_rq_enq_v = g_rq_deq = g_rq_deq_v = g_push_v = 0;
  g_order_ok = true;
  g_w0 = W_ABSENT; g_lock_failed = false;
  g_ts_n = 0; g_ts_off = 0; g_ts_incount = 0; g_ts_k = -1; g_ts_verr = 0; g_ts_vidx = 0;
  g_cap_int = g_cap_status = 0;
  mpi_data_.error_handler_initialized_ = nondet_bool();
  mpi_data_.rank_ = nondet_int();
  mpi_data_.size_ = nondet_int();
  mpi_data_.max_polling_requests = nondet_size();
  mpi_data_.all_in_flight_ = nondet_u32();
  mpi_data_.register_polling_count_ = nondet_u32();
  mpi_data_.requests_.size = nondet_size();
  mpi_data_.callbacks_.size = mpi_data_.requests_.size;
  mpi_data_.polling_vector_mtx_.held = g_mt;
  mpi_data_.optimizations_ = nondet_bool();
  mpi_data_.single_thread_mode_ = nondet_bool();
}
/* put the victim into the vectors: absent / live pair / dead pair */
static void init_victim_in_vectors(bool allow_dead)
{
  size_t s = nondet_size();
  int w = nondet_int();
  if (w == 1 && s < mpi_data_.requests_.size) { g_r1 = g_c1 = s; g_c_req = VR; g_c_err = MPI_SUCCESS; }
  else if (w == 2 && allow_dead && s < mpi_data_.requests_.size) { g_c1 = g_tomb = s; g_c_req = VR; g_c_err = nondet_int(); }
}

void harness(void)
{
  init_ghost();
#if defined(U_ADD_VEC) || defined(U_ADD_Q) || defined(U_ADD)
  struct request_callback rc;
  bool victim = nondet_bool();
  rc.request_ = victim ? VR : nondet_int();
  rc.callback_function_ = victim ? VC : nondet_int();
  if (!victim) init_victim_in_vectors(true);
  if (!victim) g_inq = nondet_bool() && g_r1 == NOSLOT && g_c1 == NOSLOT;
  size_t n0 = mpi_data_.requests_.size;
#endif
#ifdef U_ADD_VEC
  add_to_request_callback_vector(rc);
  if (victim) VX_REACH("victim_stored"); else VX_REACH("other_stored");
  if (!victim && g_r1 != NOSLOT) VX_REACH("other_stored_victim_live_elsewhere");
  if (n0 == 0) VX_REACH("first_element");
#endif
#ifdef U_ADD_Q
  g_chk_counted = true;
  g_mt = !mpi_data_.single_thread_mode_;
  mpi_data_.polling_vector_mtx_.held = false;
  add_to_request_callback_queue(rc);
  if (mpi_data_.single_thread_mode_) VX_REACH("direct_to_vectors"); else VX_REACH("queued");
  if (victim && g_inq) VX_REACH("victim_queued");
  if (victim && g_r1 != NOSLOT) VX_REACH("victim_in_vectors");
#endif
#ifdef U_ADD
  g_chk_counted = true;
  g_mt = !mpi_data_.single_thread_mode_;
  mpi_data_.polling_vector_mtx_.held = false;
  bool r = add_request_callback(rc.callback_function_, rc.request_);
  if (r) VX_REACH("returned_true");
  if (victim && g_inq) VX_REACH("victim_queued");
  if (victim && g_r1 != NOSLOT) VX_REACH("victim_in_vectors");
#endif
#ifdef U_COMPACT
  init_victim_in_vectors(true);
  size_t n0 = mpi_data_.requests_.size;
  int w0 = g_r1 != NOSLOT ? 1 : (g_c1 != NOSLOT ? 2 : 0);
  size_t s0 = g_c1;
  compact_vectors();
  if (w0 == 0) VX_REACH("victim_absent");
  if (w0 == 1) VX_REACH("live_pair_kept");
  if (w0 == 1 && g_r1 < s0) VX_REACH("live_pair_moved_forward");
  if (w0 == 1 && g_r1 == s0) VX_REACH("live_pair_in_place");
  if (w0 == 2) VX_REACH("dead_pair_removed");
  if (mpi_data_.requests_.size == n0) VX_REACH("nothing_removed");
  if (mpi_data_.requests_.size == 0 && n0 > 0) VX_REACH("all_removed");
#endif
#if defined(U_POLL_ST) || defined(U_POLL_MT)
  {
    int w = nondet_int();
    size_t s = nondet_size();
    g_w0 = W_ABSENT;
    if (w == W_INQ) { g_inq = true; g_w0 = W_INQ; }
    else if (w == W_LIVE && s < mpi_data_.requests_.size) { g_r1 = g_c1 = s; g_c_req = VR; g_c_err = MPI_SUCCESS; g_w0 = W_LIVE; }
    else if (w == W_DEAD && s < mpi_data_.requests_.size) { g_c1 = g_tomb = s; g_c_req = VR; g_c_err = nondet_int(); g_w0 = W_DEAD; }
#ifdef U_POLL_MT
    else if (w == W_READY)
    {
      g_inready = true; g_w0 = W_READY; g_rep_code = nondet_int(); g_ready_err = g_rep_code; g_complete = true;
      if (nondet_bool() && s < mpi_data_.requests_.size) { g_c1 = g_tomb = s; g_c_req = VR; g_c_err = nondet_int(); }
    }
#endif
    g_aif0 = mpi_data_.all_in_flight_;
  }
#endif
#ifdef U_POLL_MT
  g_mt = true;
  g_concurrent = true;
  g_lock_failed = false;
  mpi_data_.polling_vector_mtx_.held = false;
#ifdef CASE_TESTSOME
  if (mpi_data_.max_polling_requests <= 1) mpi_data_.max_polling_requests = 2;
#else
  if (mpi_data_.max_polling_requests > 1) mpi_data_.max_polling_requests = 1;
#endif
  int r = poll_multithreaded();
  if (r == polling_status_idle) VX_REACH("idle"); else VX_REACH("busy");
  if (g_lock_failed) VX_REACH("lock_not_obtained");
  if (g_lock_failed && g_inv_total >= 1) VX_REACH("lock_not_obtained_ready_callbacks_invoked");
  if (g_inv_total >= 2) VX_REACH("two_callbacks_invoked");
  if (g_w0 == W_LIVE && g_inv_v == 1) VX_REACH("victim_reported_and_invoked_in_one_call");
  if (g_w0 == W_INQ && g_inv_v == 1) VX_REACH("victim_from_queue_reported_and_invoked");
  if (g_w0 == W_LIVE && g_rq_enq_v == 1 && g_taken) VX_REACH("victim_handed_over_taken_by_other_poller");
  if (g_w0 == W_LIVE && g_rq_enq_v == 1 && g_inready) VX_REACH("victim_handed_over_still_queued");
  if (g_w0 == W_READY && g_inv_v == 1) VX_REACH("ready_entry_invoked");
  if (g_w0 == W_READY && g_taken) VX_REACH("ready_entry_taken_by_other");
  if (g_inv_v == 1 && g_inv_err != MPI_SUCCESS) VX_REACH("victim_invoked_with_error");
  if (g_w0 == W_LIVE && !HANDED && !g_lock_failed && g_last_load != 0) VX_REACH("victim_not_complete");
  if (g_w0 == W_INQ && !HANDED && !g_inq) VX_REACH("victim_moved_to_vectors");
#ifdef CASE_TESTSOME
  if (g_ts_k >= 0) VX_REACH("victim_reported_by_testsome");
  if (mpi_data_.max_polling_requests == 2) VX_REACH("polling_size_2");
#else
  if (g_reported == 1 && g_ts_k < 0) VX_REACH("victim_reported_by_testany");
  if (mpi_data_.max_polling_requests == 0) VX_REACH("polling_size_0");
#endif
  if (g_w0 == W_DEAD) VX_REACH("dead_pair_at_entry");
#endif
#ifdef U_POLL_ST
  g_mt = false;
  mpi_data_.polling_vector_mtx_.held = false;
  int r = poll_singlethreaded();
  if (r == polling_status_idle) VX_REACH("idle"); else VX_REACH("busy");
  if (g_inv_total == 0 && g_aif0 != 0) VX_REACH("polled_nothing_complete");
  if (g_inv_total >= 2) VX_REACH("two_callbacks_invoked");
  if (g_inv_v == 1 && g_w0 == W_LIVE) VX_REACH("victim_invoked_from_vector");
  if (g_inv_v == 1 && g_w0 == W_INQ) VX_REACH("victim_moved_from_queue_and_invoked");
  if (g_inv_v == 1 && g_inv_err != MPI_SUCCESS) VX_REACH("victim_invoked_with_error");
  if (g_inv_v == 0 && g_w0 == W_INQ && !g_inq) VX_REACH("victim_moved_to_vectors_not_complete");
  if (g_inv_v == 0 && g_w0 == W_INQ && g_inq) VX_REACH("victim_left_in_queue");
  if (g_inv_v == 0 && g_w0 == W_LIVE) VX_REACH("victim_not_complete");
  if (g_w0 == W_DEAD) VX_REACH("dead_pair_at_entry");
#endif
#ifdef U_POLL_REQUEST
  g_test_calls = 0; g_test_req = 0; g_test_flag = 0;
  MPI_Request q = nondet_bool() ? VR : nondet_int();
  bool c0 = g_complete;
  bool r = poll_request(q);
  if (r) VX_REACH("complete"); else VX_REACH("not_complete");
  if (q == VR && r) VX_REACH("victim_complete");
  if (q == VR && r && !c0) VX_REACH("victim_completed_meanwhile");
#endif
#ifdef U_WORK_COUNT
  size_t n = get_work_count();
  if (n == 0) VX_REACH("zero"); else VX_REACH("nonzero");
#endif
}
