/* C20 units over mpi_polling.cpp: enabling / disabling polling (register_polling, unregister_polling, start_polling, stop_polling).
 * T contracts: callee stubs count calls and assert order predicates.  Strings (pool names) and pools are opaque tokens. */
#include "vx.h"
#include "c20_mpi.h"
struct request_callback
//@LIFT s_request_callback
;
struct mpi_callback_info
//@LIFT s_mpi_callback_info
;
struct ready_callback
//@LIFT s_ready_callback
;
#include "c20.h"

enum exception_mode
//@LIFT e_exception_mode
;
enum handler_method
//@LIFT e_handler_method
;
typedef enum handler_method handler_method;
typedef int vx_string;    /* std::string as a token: equal strings <=> equal tokens; 0 = "" */
typedef int vx_pool;      /* thread_pool_base& as a token */

struct mpi_data
{
  bool error_handler_initialized_;
  int rank_;
  int size_;
  size_t max_polling_requests;
  uint32_t all_in_flight_;
  uint32_t register_polling_count_;
  struct rq request_callback_queue_;
  struct rdq ready_requests_;
  struct vreq requests_;
  struct vcb callbacks_;
  struct vx_mutex polling_vector_mtx_;
  bool optimizations_;
  bool single_thread_mode_;
};
static struct mpi_data mpi_data_;
static bool enable_pool_;
static size_t completion_flags_;
static vx_string polling_pool_name_;
static int pika_mpi_errhandler;     /* MPI_Errhandler token, 0 = none */

/* tokens for the functions handed to the scheduler */
enum { FN_null = 0, FN_poll_singlethreaded = 1, FN_poll_multithreaded = 2, FN_get_work_count = 3 };

/* ---- ghost trace ---- */
static struct lc_ghost
{
  unsigned set_calls, clear_calls;         /* scheduler_base::set_mpi_polling_functions / clear_mpi_polling_function */
  int sched_fn, sched_wc_fn;               /* what the scheduler's hooks currently are */
  vx_pool hook_pool;                       /* pool whose scheduler was last touched */
  uint32_t load_at_set;                    /* last value read from all_in_flight_ when the hook was installed */
  unsigned reg_pool_calls, unreg_pool_calls, reg_calls;   /* detail::register_polling(pool) / unregister_polling(pool) / register_polling() */
  vx_pool reg_pool, unreg_pool;
  bool reg_locked, unreg_locked;           /* ... called while polling_vector_mtx_ was held */
  unsigned finalize_calls, seterr_calls, errfree_calls, regpool_calls;
  uint32_t load_at_finalize;
  unsigned unreg_before_finalize;
  bool threw;
  int thrown_code;
  unsigned yields;
  bool mpi_initialized;
} LG;

static void vx_yield(void) { if (LG.yields < 2) LG.yields++; }
static void vx_throw(int code) { LG.threw = true; LG.thrown_code = code; }

/* ---- environment stubs ---- */
struct sched { vx_pool pool; };
static struct sched g_sched;
static struct sched *pool_get_scheduler(vx_pool pool) { g_sched.pool = pool; return &g_sched; }
static void sched_set_mpi_polling_functions(struct sched *s, int poll_fn, int wc_fn)
{
  LG.set_calls++;
  LG.sched_fn = poll_fn;
  LG.sched_wc_fn = wc_fn;
  LG.hook_pool = s->pool;
  LG.load_at_set = g_last_load;
}
static void sched_clear_mpi_polling_function(struct sched *s)
{
  LG.clear_calls++;
  LG.sched_fn = FN_null;
  LG.sched_wc_fn = FN_null;
  LG.hook_pool = s->pool;
}
static size_t get_completion_mode(void) { return completion_flags_; }
static vx_string get_pool_name(void) { return polling_pool_name_; }
static vx_pool resource_get_thread_pool(vx_string name) { return (vx_pool) name; }     /* one pool per name */
static vx_string g_default_pool_name;
static vx_string resource_default_pool_name(void) { return g_default_pool_name; }
static bool str_empty(vx_string s) { return s == 0; }
static void register_pool(vx_string name) { LG.regpool_calls++; polling_pool_name_ = name; }   /* effect used here: get_pool_name() == name afterwards */
static bool environment_is_mpi_initialized(void) { return LG.mpi_initialized; }
static int environment_rank(void) { return nondet_int(); }
static int environment_size(void) { return nondet_int(); }
static void environment_finalize(void)
{
  LG.finalize_calls++;
  LG.load_at_finalize = g_last_load;
  LG.unreg_before_finalize = LG.unreg_pool_calls;
}
static void set_error_handler(void) { LG.seterr_calls++; pika_mpi_errhandler = 1; }
static void MPI_Errhandler_free(int *h) { LG.errfree_calls++; *h = 0; }

/* ---- lifted helpers: mode decoding ---- */
#if defined(U_REG_POOL) || defined(U_REG) || defined(U_UNREG) || defined(U_START)
handler_method get_handler_method(uint32_t flags)
//@LIFT get_handler_method
bool use_inline_request(size_t mode)
//@LIFT use_inline_request
bool use_inline_completion(size_t mode)
//@LIFT use_inline_completion
#endif
#ifdef U_REG_POOL
bool can_run_singlethreaded(size_t mode)
//@LIFT can_run_singlethreaded
#endif

#define LC_WIRED (g_vec_mtx == &mpi_data_.polling_vector_mtx_ && g_vreq == &mpi_data_.requests_ && g_vcb == &mpi_data_.callbacks_)
#define LC_ZERO (LG.set_calls == 0 && LG.clear_calls == 0 && LG.reg_pool_calls == 0 && LG.unreg_pool_calls == 0 && LG.reg_calls == 0 && \
                 LG.finalize_calls == 0 && LG.seterr_calls == 0 && LG.errfree_calls == 0 && LG.regpool_calls == 0 && !LG.threw && LG.yields == 0)

/* ------------------------------------------------------------------------------------------------------------------ */
#ifdef U_REG_POOL
//@FUNC
void register_polling_pool(vx_pool pool)
__CPROVER_requires(LC_WIRED && LC_ZERO && g_concurrent)
/* the scheduler's polling hook is installed exactly once, on the given pool's scheduler, nothing is cleared */
__CPROVER_ensures(LG.set_calls == 1 && LG.clear_calls == 0 && LG.hook_pool == pool)
/* ... only after all_in_flight_ was read as zero (no request of an earlier polling period is still in flight) */
__CPROVER_ensures(LG.load_at_set == 0)
/* single-thread mode exactly when a dedicated pool exists and requests are never issued inline (bit 0 of the mode clear);
 * the installed poller matches the mode; the work-count hook is get_work_count */
__CPROVER_ensures(mpi_data_.single_thread_mode_ == (enable_pool_ && (completion_flags_ & 1) == 0))
__CPROVER_ensures(LG.sched_fn == (mpi_data_.single_thread_mode_ ? FN_poll_singlethreaded : FN_poll_multithreaded) && LG.sched_wc_fn == FN_get_work_count)
/* the debug register count goes up by one */
__CPROVER_ensures(mpi_data_.register_polling_count_ == __CPROVER_old(mpi_data_.register_polling_count_) + 1)
__CPROVER_assigns(LG, GI, g_sched, mpi_data_.all_in_flight_, mpi_data_.register_polling_count_, mpi_data_.single_thread_mode_)
//@LIFT register_polling_pool
/*{}*/
#endif

#ifdef U_UNREG_POOL
//@FUNC
void unregister_polling_pool(vx_pool pool)
/* the authors' two assertions (PIKA_DEBUG) are the caller's duty: polling is disabled only when nothing is in flight */
__CPROVER_requires(LC_WIRED && LC_ZERO && !g_concurrent && mpi_data_.all_in_flight_ == 0 && g_q_empty)
__CPROVER_ensures(LG.clear_calls == 1 && LG.set_calls == 0 && LG.hook_pool == pool && LG.sched_fn == FN_null && LG.sched_wc_fn == FN_null)
__CPROVER_assigns(LG, GI, g_sched)
//@LIFT unregister_polling_pool
/*{}*/
#endif

#ifdef U_REG
static void register_polling_pool(vx_pool pool) { LG.reg_pool_calls++; LG.reg_pool = pool; }
//@FUNC
void register_polling(void)
__CPROVER_requires(LC_WIRED && LC_ZERO)
/* the hook is needed by every handler method except yield_while (which polls its own request): registered exactly once then, never otherwise,
 * and on the pool that carries the polling pool's name */
__CPROVER_ensures(LG.reg_pool_calls == (((completion_flags_ >> 3) & 7) != 0 ? 1u : 0u))
__CPROVER_ensures(LG.reg_pool_calls == 1 ==> LG.reg_pool == (vx_pool) polling_pool_name_)
__CPROVER_assigns(LG)
//@LIFT register_polling
/*{}*/
#endif

#ifdef U_UNREG
static void unregister_polling_pool(vx_pool pool) { LG.unreg_pool_calls++; LG.unreg_pool = pool; }
//@FUNC
void unregister_polling(void)
__CPROVER_requires(LC_WIRED && LC_ZERO)
__CPROVER_ensures(LG.unreg_pool_calls == (((completion_flags_ >> 3) & 7) != 0 ? 1u : 0u))
__CPROVER_ensures(LG.unreg_pool_calls == 1 ==> LG.unreg_pool == (vx_pool) polling_pool_name_)
__CPROVER_assigns(LG)
//@LIFT unregister_polling
/*{}*/
#endif

/* ------------------------------------------------------------------------------------------------------------------ */
#ifdef U_START
static void register_polling(void) { LG.reg_calls++; LG.reg_locked = mpi_data_.polling_vector_mtx_.held; }
//@FUNC
void start_polling(enum exception_mode errorhandler, vx_string pool_name)
__CPROVER_requires(LC_WIRED && LC_ZERO && !mpi_data_.polling_vector_mtx_.held && VEC_INV)
/* the authors' assertion: the error handler is not installed twice (polling is not started twice) */
__CPROVER_requires(!mpi_data_.error_handler_initialized_)
/* normal return: polling registered exactly once, while the vectors' lock was held (no poller runs before initialisation finished) */
__CPROVER_ensures(!LG.threw ==> (LG.reg_calls == 1 && LG.reg_locked && LG.mpi_initialized))
/* an exception (MPI not initialised / MPIX continuations requested but not available) leaves polling unregistered */
__CPROVER_ensures(LG.threw ==> LG.reg_calls == 0)
__CPROVER_ensures((!LG.mpi_initialized || ((completion_flags_ >> 3) & 7) == 4) ==> LG.threw)
/* the lock is released on every path */
__CPROVER_ensures(!mpi_data_.polling_vector_mtx_.held)
/* error handler installed exactly when requested (and we got that far) */
__CPROVER_ensures(LG.seterr_calls == ((errorhandler == install_handler && LG.mpi_initialized) ? 1u : 0u) && mpi_data_.error_handler_initialized_ == (LG.seterr_calls == 1))
/* the pool polled on is the requested one; an empty name means the MPI pool if it is enabled, else the default pool */
__CPROVER_ensures(!LG.threw ==> polling_pool_name_ == (pool_name != 0 ? pool_name : (enable_pool_ ? __CPROVER_old(polling_pool_name_) : g_default_pool_name)))
__CPROVER_assigns(LG, polling_pool_name_, pika_mpi_errhandler, mpi_data_.polling_vector_mtx_.held, mpi_data_.rank_, mpi_data_.size_, mpi_data_.error_handler_initialized_)
//@LIFT start_polling
/*{}*/
#endif

#ifdef U_STOP
static void unregister_polling_pool(vx_pool pool)
{
  /* contract of detail::unregister_polling(pool) (unit life.unregister_polling_pool): precondition = the authors' assertions */
  VX_ASSERT(mpi_data_.all_in_flight_ == 0 && g_q_empty, "unregister_polling(pool) called only when no request is queued or in flight");
  LG.unreg_pool_calls++;
  LG.unreg_pool = pool;
  LG.unreg_locked = mpi_data_.polling_vector_mtx_.held;
  LG.clear_calls++;
  LG.sched_fn = FN_null;
}
//@FUNC
void stop_polling(void)
__CPROVER_requires(LC_WIRED && LC_ZERO && !mpi_data_.polling_vector_mtx_.held && VEC_INV && !g_concurrent)
/* "stop_polling only when no request is in flight": the precondition of unregister_polling(pool) is the caller's duty */
__CPROVER_requires(mpi_data_.all_in_flight_ == 0 && g_q_empty)
__CPROVER_requires(mpi_data_.error_handler_initialized_ ==> pika_mpi_errhandler != 0)
/* the hook is cleared exactly once, under the vectors' lock (no poller is inside the polling function), on the polling pool */
__CPROVER_ensures(LG.unreg_pool_calls == 1 && LG.unreg_locked && LG.unreg_pool == (vx_pool) polling_pool_name_ && LG.sched_fn == FN_null)
/* MPI is finalised exactly once, after the hook was cleared, and only with the in-flight counter read as zero */
__CPROVER_ensures(LG.finalize_calls == 1 && LG.unreg_before_finalize == 1 && LG.load_at_finalize == 0)
/* our error handler is freed exactly when we installed one */
__CPROVER_ensures(LG.errfree_calls == (__CPROVER_old(mpi_data_.error_handler_initialized_) ? 1u : 0u) && !mpi_data_.error_handler_initialized_)
__CPROVER_ensures(__CPROVER_old(mpi_data_.error_handler_initialized_) ==> pika_mpi_errhandler == 0)
__CPROVER_ensures(!mpi_data_.polling_vector_mtx_.held)
__CPROVER_assigns(LG, GI, pika_mpi_errhandler, mpi_data_.polling_vector_mtx_.held, mpi_data_.error_handler_initialized_)
//@LIFT stop_polling
/*{}*/
#endif

/* ------------------------------------------------------------------------------------------------------------------ */
void harness(void)
{
  g_vreq = &mpi_data_.requests_;
  g_vcb = &mpi_data_.callbacks_;
  g_vec_mtx = &mpi_data_.polling_vector_mtx_;
  VR = 1; VC = 1;
  g_mt = true;
  g_concurrent = false;
  g_chk_counted = false;
  g_r1 = g_r2 = g_c1 = g_c2 = g_tomb = NOSLOT; g_c_err = 0; g_c_req = 0; g_rc_j = NOSLOT; g_rc_x = 0;
  g_inq = false; g_q_enq = g_q_enq_v = g_push_v = 0;
  g_aif_inc = g_aif_dec = g_act_inc = g_act_dec = 0; g_last_load = nondet_u32(); g_order_ok = true; g_inv_v = g_inv_total = 0; g_inv_err = 0;
  g_w0 = W_ABSENT; g_lock_failed = false;
  g_q_empty = nondet_bool();
  LG.set_calls = LG.clear_calls = LG.reg_pool_calls = LG.unreg_pool_calls = LG.reg_calls = 0;
  LG.finalize_calls = LG.seterr_calls = LG.errfree_calls = LG.regpool_calls = 0;
  LG.sched_fn = nondet_int(); LG.sched_wc_fn = nondet_int(); LG.hook_pool = 0; LG.load_at_set = 1; LG.load_at_finalize = 1;
  LG.reg_pool = LG.unreg_pool = 0; LG.reg_locked = LG.unreg_locked = false; LG.unreg_before_finalize = 0;
  LG.threw = false; LG.thrown_code = 0; LG.yields = 0; LG.mpi_initialized = nondet_bool();
  g_sched.pool = 0;
  mpi_data_.error_handler_initialized_ = nondet_bool();
  mpi_data_.rank_ = nondet_int();
  mpi_data_.size_ = nondet_int();
  mpi_data_.all_in_flight_ = nondet_u32();
  mpi_data_.register_polling_count_ = nondet_u32();
  mpi_data_.requests_.size = 0;
  mpi_data_.callbacks_.size = 0;
  mpi_data_.polling_vector_mtx_.held = false;
  mpi_data_.single_thread_mode_ = nondet_bool();
  enable_pool_ = nondet_bool();
  completion_flags_ = nondet_size();
  polling_pool_name_ = nondet_int();
  g_default_pool_name = nondet_int();
  pika_mpi_errhandler = nondet_int();
#ifdef U_REG_POOL
  g_concurrent = true;
  vx_pool p = nondet_int();
  register_polling_pool(p);
  if (mpi_data_.single_thread_mode_) VX_REACH("single_thread_mode"); else VX_REACH("multi_thread_mode");
  if (LG.yields >= 1) VX_REACH("waited_for_in_flight_requests");
  if (LG.yields == 0) VX_REACH("nothing_in_flight");
  if (mpi_data_.rank_ == 0) VX_REACH("rank0");
#endif
#ifdef U_UNREG_POOL
  vx_pool p = nondet_int();
  mpi_data_.all_in_flight_ = 0;
  g_q_empty = true;
  unregister_polling_pool(p);
  VX_REACH("cleared");
#endif
#ifdef U_REG
  register_polling();
  if (LG.reg_pool_calls == 1) VX_REACH("registered"); else VX_REACH("yield_while_mode_not_registered");
  if (completion_flags_ == 30) VX_REACH("default_mode");
#endif
#ifdef U_UNREG
  unregister_polling();
  if (LG.unreg_pool_calls == 1) VX_REACH("unregistered"); else VX_REACH("yield_while_mode_nothing_to_do");
#endif
#ifdef U_START
  mpi_data_.error_handler_initialized_ = false;
  enum exception_mode em = nondet_bool() ? install_handler : no_handler;
  vx_string nm = nondet_int();
  vx_string pn0 = polling_pool_name_;
  start_polling(em, nm);
  if (!LG.threw) VX_REACH("started");
  if (LG.threw && !LG.mpi_initialized) VX_REACH("throws_mpi_not_initialized");
  if (LG.threw && LG.mpi_initialized) VX_REACH("throws_mpix_unsupported");
  if (!LG.threw && em == install_handler) VX_REACH("handler_installed");
  if (!LG.threw && nm == 0 && enable_pool_) VX_REACH("empty_name_mpi_pool");
  if (!LG.threw && nm == 0 && !enable_pool_) VX_REACH("empty_name_default_pool");
  if (!LG.threw && LG.regpool_calls == 1) VX_REACH("pool_re_registered");
  if (!LG.threw && LG.regpool_calls == 0) VX_REACH("pool_name_unchanged");
#endif
#ifdef U_STOP
  mpi_data_.all_in_flight_ = 0;
  g_q_empty = true;
  if (mpi_data_.error_handler_initialized_ && pika_mpi_errhandler == 0) pika_mpi_errhandler = 1;
  bool eh0 = mpi_data_.error_handler_initialized_;
  stop_polling();
  VX_REACH("stopped");
  if (eh0) VX_REACH("handler_freed"); else VX_REACH("no_handler");
#endif
}
