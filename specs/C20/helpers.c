/* C20 units over mpi_helpers.hpp: set_value_error_helper, the three polling callbacks (bodies of the lambdas handed to
 * add_request_callback) and the functions that register them.  T contracts: "the receiver is signalled exactly once". */
/* lowered try/catch: entering the handler consumes the exception in flight */
#define VX_TRY_BEGIN(k) ((void) 0)
#define VX_CATCH_BEGIN(k) (vx_exc = false)
#define VX_THROW_TO(label) do { if (nondet_bool()) goto label; } while (0)
#include "vx.h"
enum handler_method
//@LIFT e_handler_method
;
#include "c20_op.h"

#ifdef U_SVEH
//@FUNC
void set_value_error_helper(int mpi_status, int receiver)
__CPROVER_requires(vx_op != 0 && receiver == vx_op->r && OG.sv == 0 && OG.se == 0 && (!OC.need_complete || OG.known_complete))
/* exactly one completion signal: set_value for MPI_SUCCESS, otherwise set_error carrying an mpi::exception with that code */
__CPROVER_ensures(OG.sv + OG.se == 1 && (OG.sv == 1) == (mpi_status == MPI_SUCCESS))
__CPROVER_ensures(OG.se == 1 ==> (OG.se_tok == EXC_mpi && OG.se_code == mpi_status))
__CPROVER_assigns(OG)
//@LIFT set_value_error_helper
/*{}*/
#elif defined(U_CB_CONT)
/* body only (inlined into the continuation callback) */
void set_value_error_helper(int mpi_status, int receiver)
//@LIFT set_value_error_helper
#endif

#ifdef U_CB_CONT
/* handler_method::continuation -- body of the callback: runs on the polling thread when MPI reported the request complete */
//@FUNC
void cb_continuation(struct op_state *op_state, int status)
__CPROVER_requires(op_state == vx_op && OG.sv == 0 && OG.se == 0 && OG.known_complete && OC.need_complete)
__CPROVER_ensures(OG.sv + OG.se == 1 && (OG.sv == 1) == (status == MPI_SUCCESS) && (OG.se == 1 ==> (OG.se_tok == EXC_mpi && OG.se_code == status)))
__CPROVER_ensures(OG.spawned == 0 && OG.notifies == 0 && OG.cb_reg == 0)
__CPROVER_assigns(OG, op_state->ts)
//@LIFT cb_continuation
/*{}*/
#endif

#if defined(U_CB_NT) || defined(U_CB_NT_TASK)
bool use_priority_boost(size_t mode)
//@LIFT use_priority_boost
#endif
#ifdef U_CB_NT
/* handler_method::new_task -- body of the callback */
//@FUNC
void cb_new_task(struct op_state *op_state, int status)
__CPROVER_requires(op_state == vx_op && OG.sv == 0 && OG.se == 0 && OG.spawned == 0 && OG.known_complete && OC.need_complete)
/* error: the receiver gets set_error(status) here and now, no task is created */
__CPROVER_ensures(status != MPI_SUCCESS ==> (OG.se == 1 && OG.sv == 0 && OG.se_tok == EXC_mpi && OG.se_code == status && OG.spawned == 0))
/* success: nothing is signalled here; exactly one task is started whose body is the set_value closure (unit help.cb.new_task.task),
 * on the default pool, boosted exactly when bit 2 of the mode is set */
__CPROVER_ensures(status == MPI_SUCCESS ==> (OG.se == 0 && OG.sv == 0 && OG.spawned == 1 && OG.spawn_fn == CLOSURE_set_value &&
                  OG.spawn_sched == (((op_state->mode_flags >> 2) & 1) ? thread_priority_boost : thread_priority_normal)))
__CPROVER_assigns(OG, op_state->ts)
//@LIFT cb_new_task
/*{}*/
#endif
#ifdef U_CB_NT_TASK
//@FUNC
void cb_new_task_task(struct op_state *op_state)
__CPROVER_requires(op_state == vx_op && OG.sv == 0 && OG.se == 0 && OG.known_complete && OC.need_complete)
__CPROVER_ensures(OG.sv == 1 && OG.se == 0)
__CPROVER_assigns(OG)
//@LIFT cb_new_task_task
/*{}*/
#endif

#ifdef U_CB_SR
/* handler_method::suspend_resume -- body of the callback: publishes status + flag under op_state.mutex, then wakes the task */
//@FUNC
void cb_suspend_resume(struct op_state *op_state, int status)
__CPROVER_requires(op_state == vx_op && OG.shared && !op_state->mutex.held && !op_state->completed && OG.notifies == 0 && OG.sv == 0 && OG.se == 0)
/* the flag and MPI's status are published (writes under the mutex: stub obligations) and were visible when the mutex was released */
__CPROVER_ensures(op_state->completed && op_state->status == status && g_completed_at_release)
/* the waiting task is woken exactly once, after the flag was published (stub obligation); the receiver is NOT signalled by the poller */
__CPROVER_ensures(OG.notifies == 1 && OG.sv == 0 && OG.se == 0 && !op_state->mutex.held)
__CPROVER_assigns(OG, op_state->ts, op_state->status, op_state->completed, op_state->mutex.held, g_completed_at_release)
//@LIFT cb_suspend_resume
/*{}*/
#endif

#if defined(U_ADD_SR) || defined(U_ADD_NT) || defined(U_ADD_CONT)
#define VX_CALLBACK(kind) (kind)
//@FUNC
void add_cb(struct op_state *op_state)
__CPROVER_requires(op_state == vx_op && OG.cb_reg == 0 && OG.sv == 0 && OG.se == 0 && !op_state->completed)
/* exactly one callback of the right kind is registered, for the operation's own request */
__CPROVER_ensures(OG.cb_reg == 1 && OG.cb_kind == ADD_KIND && OG.cb_req == op_state->request && OG.sv == 0 && OG.se == 0)
__CPROVER_assigns(OG)
//@LIFT add_cb
/*{}*/
#endif

void harness(void)
{
  struct op_state o;
  og_init(&o);
  int st = nondet_int();
#ifdef U_SVEH
  OC.need_complete = nondet_bool();
  OG.known_complete = true;
  set_value_error_helper(st, o.r);
  if (OG.sv == 1) VX_REACH("set_value"); else VX_REACH("set_error");
#endif
#ifdef U_CB_CONT
  OC.need_complete = true; OG.known_complete = true;
  cb_continuation(&o, st);
  if (OG.sv == 1) VX_REACH("set_value"); else VX_REACH("set_error");
  if (OG.ts_resets == 1) VX_REACH("stored_values_released");
#endif
#ifdef U_CB_NT
  OC.need_complete = true; OG.known_complete = true;
  cb_new_task(&o, st);
  if (OG.spawned == 1) VX_REACH("task_started"); else VX_REACH("set_error");
  if (OG.spawned == 1 && OG.spawn_sched == thread_priority_boost) VX_REACH("boosted");
  if (OG.spawned == 1 && OG.spawn_sched == thread_priority_normal) VX_REACH("normal_priority");
#endif
#ifdef U_CB_NT_TASK
  OC.need_complete = true; OG.known_complete = true;
  cb_new_task_task(&o);
  VX_REACH("set_value");
#endif
#ifdef U_CB_SR
  OG.shared = true;
  cb_suspend_resume(&o, st);
  VX_REACH("published_and_notified");
  if (o.status != MPI_SUCCESS) VX_REACH("error_status_published");
#endif
#if defined(U_ADD_SR) || defined(U_ADD_NT) || defined(U_ADD_CONT)
  add_cb(&o);
  VX_REACH("registered");
#endif
}
