/* C20 unit over transform_mpi.hpp: transform_mpi_t::tag_fallback_invoke(sender, f) -- how the completion mode shapes the sender chain.
 * T/F contract over the whole mode domain: senders / adaptors / schedulers are tokens, a chain is the list of its stages. */
#include "vx.h"
enum handler_method
//@LIFT e_handler_method
;
typedef enum handler_method handler_method;
enum { thread_priority_normal = 1, thread_priority_boost = 2 };
enum { POOL_default = 10, POOL_mpi = 20 };                 /* scheduler token = pool + priority */
enum { ST_none = 0, ST_transform_mpi = 300, ST_continues_on = 400 /* + scheduler token */ };
struct snd { int n; int st[4]; size_t tmpi_mode; int tmpi_f; };

static size_t g_completion_flags;
static bool g_pool_enabled;
static size_t get_completion_mode(void) { return g_completion_flags; }
static bool get_pool_enabled(void) { return g_pool_enabled; }
static int ex_with_priority(int pool, int prio) { return pool + prio; }
static int continues_on(int sched) { return ST_continues_on + sched; }
static struct snd vx_pipe(struct snd s, int adaptor)
{
  VX_ASSERT(s.n < 4, "sender chain model: at most four stages");
  if (s.n < 4) { s.st[s.n] = adaptor; s.n++; }
  return s;
}
static struct snd make_tmpi_sender(struct snd pred, int f, size_t mode)
{
  struct snd s = vx_pipe(pred, ST_transform_mpi);
  s.tmpi_mode = mode;
  s.tmpi_f = f;
  return s;
}

bool use_priority_boost(size_t mode)
//@LIFT use_priority_boost
bool use_inline_completion(size_t mode)
//@LIFT use_inline_completion
bool use_inline_request(size_t mode)
//@LIFT use_inline_request
int default_pool_scheduler(int p)
//@LIFT default_pool_scheduler
int mpi_pool_scheduler(int p)
//@LIFT mpi_pool_scheduler

/* variables captured by reference by the f_completion lambda */
static size_t mode;
static bool completions_inline, requests_inline;
static int p;
static int f;

struct snd f_completion(struct snd sender)
//@LIFT f_completion

#define PRIO ((g_completion_flags >> 2) & 1 ? thread_priority_boost : thread_priority_normal)
#define REQ_INLINE ((g_completion_flags & 1) != 0)
#define COMP_INLINE (((g_completion_flags >> 1) & 1) != 0)
#define R (__CPROVER_return_value)
#define K (REQ_INLINE ? 0 : 1)       /* index of the transform_mpi stage */
//@FUNC
struct snd transform_mpi_invoke(struct snd sender, int f_arg)
__CPROVER_requires(sender.n == 0 && f == f_arg)
/* the transform_mpi stage appears exactly once and carries the configured mode and the user's function */
__CPROVER_ensures(R.st[K] == ST_transform_mpi && R.tmpi_mode == g_completion_flags && R.tmpi_f == f_arg)
/* bit 0 clear: the MPI call is transferred first -- to the MPI pool if one is enabled, else to the default pool -- with the mode's priority */
__CPROVER_ensures(!REQ_INLINE ==> R.st[0] == ST_continues_on + (g_pool_enabled ? POOL_mpi : POOL_default) + PRIO)
/* bit 1 clear: the completion is transferred to the default pool afterwards; set: the chain ends with transform_mpi */
__CPROVER_ensures(R.n == K + 1 + (COMP_INLINE ? 0 : 1))
__CPROVER_ensures(!COMP_INLINE ==> R.st[K + 1] == ST_continues_on + POOL_default + PRIO)
__CPROVER_assigns(mode, completions_inline, requests_inline, p)
//@LIFT invoke
/*{}*/

void harness(void)
{
  struct snd s;
  s.n = 0; s.st[0] = s.st[1] = s.st[2] = s.st[3] = ST_none; s.tmpi_mode = 0; s.tmpi_f = 0;
  g_completion_flags = nondet_size();
  g_pool_enabled = nondet_bool();
  f = nondet_int();
  mode = 0; completions_inline = requests_inline = false; p = 0;
  struct snd r = transform_mpi_invoke(s, f);
  if (r.n == 1) VX_REACH("all_inline");
  if (r.n == 3) VX_REACH("both_transferred");
  if (r.n == 2 && r.st[0] == ST_transform_mpi) VX_REACH("completion_transferred");
  if (r.n == 2 && r.st[1] == ST_transform_mpi) VX_REACH("request_transferred");
  if (r.n >= 2 && r.st[0] == ST_continues_on + POOL_mpi + thread_priority_boost) VX_REACH("mpi_pool_boosted");
  if (r.n >= 2 && r.st[0] == ST_continues_on + POOL_default + thread_priority_normal) VX_REACH("no_mpi_pool_falls_back_to_default");
  if (g_completion_flags == 30) VX_REACH("default_mode");
}
