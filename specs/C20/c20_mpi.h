/* C20 -- MPI tokens and constants (ASSUMED environment: no mpi.h exists in this sandbox) */
#ifndef C20_MPI_H
#define C20_MPI_H
#include "vx.h"

/* ------------------------------------------------------------------------------------------------------------
 * (1) MPI: opaque tokens and constants (values are arbitrary but distinct; nothing depends on them) */
typedef int MPI_Request;                 /* opaque request handle token */
#define MPI_REQUEST_NULL 0
#define MPI_SUCCESS 0
#define MPI_ERR_OTHER 15
#define MPI_ERR_IN_STATUS 17
#define MPI_UNDEFINED (-32766)
typedef struct MPI_Status { int MPI_SOURCE; int MPI_TAG; int MPI_ERROR; } MPI_Status;
#define MPI_STATUS_IGNORE ((MPI_Status *) 0)
typedef int request_callback_function_type;   /* unique_function<void(int)> as a token; 0 = empty */

#define VX_BIG 1000000u                  /* bound on vector sizes (assumption: fewer than 10^6 outstanding requests) */
#define NOSLOT ((size_t) -1)
#define VX_MIN(a, b) ((a) < (b) ? (a) : (b))

enum polling_status { polling_status_idle = 0, polling_status_busy = 1 };

#endif
