/* C20 -- MPI adaptor: environment model, abstract containers and ghost ledger for libs/pika/async_mpi/src/mpi_polling.cpp
 *
 * NOTHING in this file is pika logic.  It contains
 *   (1) the ASSUMED contract of the MPI library (no mpi.h exists in this sandbox; MPI_* are environment stubs),
 *   (2) C types for the objects (struct bodies of request_callback / mpi_callback_info / ready_callback are LIFTED),
 *   (3) an abstraction of the two parallel std::vectors, the two moodycamel queues and the atomic counter that tracks
 *       ONE symbolic victim pair (request handle VR, callback token VC) by identity -- every other cell is
 *       unconstrained (reads return arbitrary values different from the victim's unique tokens),
 *   (4) the ghost ledger the contracts speak about.
 *
 * Victim ledger.  At any time the victim pair (VR, VC) is in exactly one of these places:
 *   ABSENT   not known to the poller
 *   INQ      in request_callback_queue_           (g_inq)
 *   LIVE(s)  requests_[s] == VR and callbacks_[s] == {VC, MPI_SUCCESS, VR}      (g_r1 == g_c1 == s)
 *   DEAD(s)  requests_[s] == MPI_REQUEST_NULL (nulled after completion), callbacks_[s] still holds the (consumed) triple
 *   READY    in ready_requests_ (multi-threaded poller only)  (g_inready)
 *   done     callback invoked (g_inv_v == 1) / taken from the ready queue by another poller (g_taken)
 */
#ifndef C20_H
#define C20_H
#include "c20_mpi.h"
/* the including template defines struct request_callback / mpi_callback_info / ready_callback from LIFTED member lists */

/* ------------------------------------------------------------------------------------------------------------
 * ghost state */
static MPI_Request VR;                           /* the victim's request handle: non-null, unique */
static request_callback_function_type VC;        /* the victim's callback token: non-empty, unique */
static bool g_mt;                                /* unit runs the multi-threaded protocol: vectors need the lock */

/* ghost state grouped into a few structs: each group is ONE assigns target (goto-instrument --dfcc checks every assignment against
 * every target of the frame; dozens of scalar targets made symbolic execution of the pollers take minutes) */
struct vx_gv {
  size_t r1; /* slots of requests_ holding VR (sorted, NOSLOT = none) */
  size_t r2; /* slots of requests_ holding VR (sorted, NOSLOT = none) */
  size_t tomb; /* slot of requests_ that holds MPI_REQUEST_NULL because VR was nulled there */
  size_t c1; /* slots of callbacks_ holding the victim triple */
  size_t c2; /* slots of callbacks_ holding the victim triple */
  int c_err; /* err_ field of the victim triple in callbacks_ */
  MPI_Request c_req; /* request_ field of the victim triple in callbacks_ */
  size_t rc_j; /* read cache of requests_: last untracked cell read ... */
  MPI_Request rc_x; /* ... and the value it had */
};
static struct vx_gv GV;
#define g_r1 (GV.r1)
#define g_r2 (GV.r2)
#define g_tomb (GV.tomb)
#define g_c1 (GV.c1)
#define g_c2 (GV.c2)
#define g_c_err (GV.c_err)
#define g_c_req (GV.c_req)
#define g_rc_j (GV.rc_j)
#define g_rc_x (GV.rc_x)
struct vx_gq {
  bool inq; /* victim pair is in request_callback_queue_ */
  unsigned q_enq; /* request_callback_queue_.enqueue calls: all / victim */
  unsigned q_enq_v; /* request_callback_queue_.enqueue calls: all / victim */
  unsigned push_v; /* victim pushes into requests_ (push_back) */
};
static struct vx_gq GQ;
#define g_inq (GQ.inq)
#define g_q_enq (GQ.q_enq)
#define g_q_enq_v (GQ.q_enq_v)
#define g_push_v (GQ.push_v)
struct vx_gm {
  bool complete; /* MPI has completed the victim's operation (monotone) */
  unsigned reported; /* number of times MPI reported VR complete to this call */
  int rep_code; /* error code MPI attached to that report */
  int ts_n; /* outcount of the last MPI_Testsome */
  size_t ts_off; 
  size_t ts_incount; 
  int ts_k; /* position of the victim in the index list of the last MPI_Testsome, -1 = not reported */
  int ts_verr; /* MPI_ERROR of the victim's status entry */
  size_t ts_vidx; /* index (relative to the slice) MPI reported for the victim */
  unsigned cap_int; /* capacities of the index / status arrays (from the lifted declarations) */
  unsigned cap_status; /* capacities of the index / status arrays (from the lifted declarations) */
};
static struct vx_gm GM;
#define g_complete (GM.complete)
#define g_reported (GM.reported)
#define g_rep_code (GM.rep_code)
#define g_ts_n (GM.ts_n)
#define g_ts_off (GM.ts_off)
#define g_ts_incount (GM.ts_incount)
#define g_ts_k (GM.ts_k)
#define g_ts_verr (GM.ts_verr)
#define g_ts_vidx (GM.ts_vidx)
#define g_cap_int (GM.cap_int)
#define g_cap_status (GM.cap_status)
struct vx_gr {
  bool inready; /* victim triple is in ready_requests_ */
  int ready_err; /* err_ of the victim triple in ready_requests_ */
  bool taken; /* another poller dequeued the victim from ready_requests_ */
  unsigned rq_enq_v; /* ready queue: victim enqueues, dequeues all / victim */
  unsigned rq_deq; /* ready queue: victim enqueues, dequeues all / victim */
  unsigned rq_deq_v; /* ready queue: victim enqueues, dequeues all / victim */
};
static struct vx_gr GR;
#define g_inready (GR.inready)
#define g_ready_err (GR.ready_err)
#define g_taken (GR.taken)
#define g_rq_enq_v (GR.rq_enq_v)
#define g_rq_deq (GR.rq_deq)
#define g_rq_deq_v (GR.rq_deq_v)
struct vx_gi {
  unsigned inv_v; /* callback invocations by this call: victim / all */
  unsigned inv_total; /* callback invocations by this call: victim / all */
  int inv_err; /* error code the victim callback was invoked with */
  unsigned aif_inc; /* RMW steps of this call on all_in_flight_ */
  unsigned aif_dec; /* RMW steps of this call on all_in_flight_ */
  unsigned act_inc; /* global activity count steps of this call */
  unsigned act_dec; /* global activity count steps of this call */
  uint32_t last_load; /* value returned by the last load of all_in_flight_ */
  bool order_ok; /* order predicates (see stubs) all held */
};
static struct vx_gi GI;
#define g_inv_v (GI.inv_v)
#define g_inv_total (GI.inv_total)
#define g_inv_err (GI.inv_err)
#define g_aif_inc (GI.aif_inc)
#define g_aif_dec (GI.aif_dec)
#define g_act_inc (GI.act_inc)
#define g_act_dec (GI.act_dec)
#define g_last_load (GI.last_load)
#define g_order_ok (GI.order_ok)

/* where the victim pair is when the function under contract starts (chosen by the harness, pinned by the precondition) */
enum { W_ABSENT = 0, W_INQ = 1, W_LIVE = 2, W_DEAD = 3, W_READY = 4 };
static int g_w0;
static bool g_lock_failed;                       /* try_lock on polling_vector_mtx_ failed */

struct vx_mutex;
static struct vx_mutex *g_vec_mtx;               /* polling_vector_mtx_ */

struct vreq { size_t size; };                    /* std::vector<MPI_Request> */
struct vcb { size_t size; };                     /* std::vector<mpi_callback_info> */
struct rq { int unused; };                       /* ConcurrentQueue<request_callback> */
struct rdq { int unused; };                      /* ConcurrentQueue<ready_callback> */
struct rptr { size_t off; };                     /* MPI_Request* into requests_ (offset only) */

static struct vreq *g_vreq;
static struct vcb *g_vcb;

#define SIZES_EQ (g_vreq->size == g_vcb->size && g_vreq->size <= VX_BIG)
#define NO_DUP (g_r2 == NOSLOT && g_c2 == NOSLOT)
#define V_GONE (g_r1 == NOSLOT && g_r2 == NOSLOT && g_c1 == NOSLOT && g_c2 == NOSLOT && g_tomb == NOSLOT)
#define V_LIVE (g_r1 != NOSLOT && g_r1 == g_c1 && g_r1 < g_vreq->size && NO_DUP && g_tomb == NOSLOT && g_c_req == VR)
#define V_DEAD (g_r1 == NOSLOT && g_c1 != NOSLOT && g_tomb == g_c1 && g_c1 < g_vreq->size && NO_DUP)
/* representation invariant of the two parallel vectors as far as the victim is concerned */
#define VEC_INV (SIZES_EQ && (V_GONE || V_LIVE || V_DEAD))

/* monitor: state protected by polling_vector_mtx_ is the pair of vectors.  The poller takes the lock once (try_lock) and
 * never re-acquires it, so the environment's step at acquisition is folded into the harness' choice of the initial state. */
#define MON_AT_RELEASE() VX_ASSERT(VEC_INV, "vectors consistent when polling_vector_mtx_ is released: equal sizes, victim pair in one slot of both")
#define MON_AT_ACQUIRE() ((void) 0)
#include "monitor.h"

static struct ulock ulock_try_make(struct vx_mutex *m)
{
  struct ulock l;
  l.m = m;
  l.owns = false;
  VX_ASSERT(!m->held, "lock discipline: try_lock on a lock this agent already holds");
  if (nondet_bool()) { mon_acquire(m); l.owns = true; }   /* try_to_lock: may fail (another poller holds it) */
  else g_lock_failed = true;
  return l;
}
#define VEC_LOCKED() VX_ASSERT(!g_mt || g_vec_mtx->held, "requests_/callbacks_ accessed while polling_vector_mtx_ is held (multi-threaded mode)")

/* order predicate of the registration units: a request is counted before pollers can see it */
static bool g_chk_counted;
static void vx_published(bool victim)
{
  if (g_chk_counted && victim)
    VX_ASSERT(g_aif_inc >= 1 && g_act_inc >= 1, "request counted (all_in_flight_ and global activity count) BEFORE it becomes visible to the pollers");
}

static void slot_add(size_t *a, size_t *b, size_t j)
{
  if (*a == j || *b == j) return;
  if (*a == NOSLOT) { *a = j; return; }
  VX_ASSERT(*b == NOSLOT, "victim entry present in more than two slots of a vector");
  if (j < *a) { *b = *a; *a = j; } else *b = j;
}
static void slot_del(size_t *a, size_t *b, size_t j)
{
  if (*a == j) { *a = *b; *b = NOSLOT; }
  else if (*b == j) *b = NOSLOT;
}

/* ---- std::vector<MPI_Request> requests_ ------------------------------------------------------------------------ */
static size_t vreq_size(struct vreq *v) { VEC_LOCKED(); return v->size; }
static MPI_Request vreq_get(struct vreq *v, size_t j)
{
  VEC_LOCKED();
  VX_ASSERT(j < v->size, "requests_[i]: index within size");
  if (j == g_r1 || j == g_r2) return VR;
  if (j == g_tomb) return MPI_REQUEST_NULL;
  /* untracked cell: arbitrary content, but two consecutive reads of the same cell agree (one-entry read cache) */
  if (j == g_rc_j && g_rc_x != VR) return g_rc_x;
  MPI_Request x = nondet_int();
  VX_ASSUME(x != VR);      /* request handles of outstanding operations are distinct: no other cell holds the victim's handle */
  g_rc_j = j;
  g_rc_x = x;
  return x;
}
static void vreq_store(struct vreq *v, size_t j, MPI_Request x)
{
  if (j == g_rc_j) g_rc_j = NOSLOT;
  bool had = (j == g_r1 || j == g_r2);
  if (x == VR) { slot_add(&g_r1, &g_r2, j); if (g_tomb == j) g_tomb = NOSLOT; }
  else
  {
    slot_del(&g_r1, &g_r2, j);
    if (x == MPI_REQUEST_NULL) { if (had) g_tomb = j; }
    else if (g_tomb == j) g_tomb = NOSLOT;
  }
}
static void vreq_set(struct vreq *v, size_t j, MPI_Request x)
{
  VEC_LOCKED();
  VX_ASSERT(j < v->size, "requests_[i] = x: index within size");
  vreq_store(v, j, x);
}
static void vreq_push_back(struct vreq *v, MPI_Request x)
{
  VEC_LOCKED();
  VX_ASSUME(v->size < VX_BIG);   /* fewer than 10^6 outstanding requests */
  v->size++;
  if (x == VR) { g_push_v++; vx_published(true); }
  vreq_store(v, v->size - 1, x);
}
static void vreq_resize(struct vreq *v, size_t n)
{
  VEC_LOCKED();
  if (g_r2 != NOSLOT && g_r2 >= n) g_r2 = NOSLOT;
  if (g_r1 != NOSLOT && g_r1 >= n) { g_r1 = g_r2; g_r2 = NOSLOT; }
  if (g_tomb != NOSLOT && g_tomb >= n) g_tomb = NOSLOT;
  g_rc_j = NOSLOT;
  v->size = n;     /* growing value-initialises the new cells; they are untracked */
}
static struct rptr vreq_data(struct vreq *v) { struct rptr p; VEC_LOCKED(); p.off = 0; return p; }
static struct rptr vreq_addr(struct vreq *v, size_t j)
{
  struct rptr p;
  VEC_LOCKED();
  VX_ASSERT(j < v->size, "&requests_[i]: index within size");
  p.off = j;
  return p;
}

/* ---- std::vector<mpi_callback_info> callbacks_ ----------------------------------------------------------------- */
static size_t vcb_size(struct vcb *v) { VEC_LOCKED(); return v->size; }
static struct mpi_callback_info vcb_get(struct vcb *v, size_t j)
{
  struct mpi_callback_info x;
  VEC_LOCKED();
  VX_ASSERT(j < v->size, "callbacks_[i]: index within size");
  if (j == g_c1 || j == g_c2) { x.cb_ = VC; x.err_ = g_c_err; x.request_ = g_c_req; return x; }
  x.cb_ = nondet_int();
  x.err_ = nondet_int();
  x.request_ = nondet_int();
  VX_ASSUME(x.cb_ != VC && x.request_ != VR);   /* callback objects are unique (unique_function is move-only) */
  return x;
}
static void vcb_store(struct vcb *v, size_t j, struct mpi_callback_info x)
{
  if (x.cb_ == VC) { slot_add(&g_c1, &g_c2, j); g_c_err = x.err_; g_c_req = x.request_; }
  else slot_del(&g_c1, &g_c2, j);
}
static void vcb_set(struct vcb *v, size_t j, struct mpi_callback_info x)
{
  VEC_LOCKED();
  VX_ASSERT(j < v->size, "callbacks_[i] = x: index within size");
  vcb_store(v, j, x);
}
static void vcb_push_back(struct vcb *v, struct mpi_callback_info x)
{
  VEC_LOCKED();
  VX_ASSUME(v->size < VX_BIG);
  v->size++;
  vcb_store(v, v->size - 1, x);
}
static void vcb_resize(struct vcb *v, size_t n)
{
  VEC_LOCKED();
  if (g_c2 != NOSLOT && g_c2 >= n) g_c2 = NOSLOT;
  if (g_c1 != NOSLOT && g_c1 >= n) { g_c1 = g_c2; g_c2 = NOSLOT; }
  v->size = n;
}

/* ---- ConcurrentQueue<request_callback> request_callback_queue_ (lock-free, any thread) ------------------------ */
static bool rq_enqueue(struct rq *q, struct request_callback x)
{
  if (g_q_enq < 2) g_q_enq++;
  if (x.callback_function_ == VC)
  {
    VX_ASSERT(x.request_ == VR, "callback enqueued together with ITS request");
    VX_ASSERT(!g_inq, "victim pair enqueued twice");
    vx_published(true);
    if (g_q_enq_v < 2) g_q_enq_v++;
    g_inq = true;
  }
  return true;
}
static bool rq_try_dequeue(struct rq *q, struct request_callback *out)
{
  if (!nondet_bool()) return false;           /* empty (or a spurious failure under contention) */
  if (g_inq && nondet_bool())
  {
    g_inq = false;
    out->request_ = VR;
    out->callback_function_ = VC;
    return true;
  }
  out->request_ = nondet_int();
  out->callback_function_ = nondet_int();
  VX_ASSUME(out->request_ != VR && out->callback_function_ != VC);   /* the victim's tokens are unique */
  return true;
}
static bool g_q_empty;   /* nothing at all is in request_callback_queue_ (life-cycle units) */
static size_t rq_size_approx(struct rq *q) { size_t n = nondet_size(); if (g_q_empty) return 0; if (g_inq) VX_ASSUME(n >= 1); return n; }

/* ---- ConcurrentQueue<ready_callback> ready_requests_ (lock-free, any poller may dequeue at any time) ---------- */
static bool rdq_enqueue(struct rdq *q, struct ready_callback x)
{
  if (x.cb_ == VC)
  {
    VX_ASSERT(g_reported >= 1, "a callback is handed to the ready queue only after MPI reported ITS request complete");
    VX_ASSERT(x.err_ == g_rep_code, "ready entry carries the error code MPI reported for that request");
    VX_ASSERT(g_rq_enq_v == 0 && !g_inready && !g_taken && g_inv_v == 0, "victim handed to the ready queue at most once");
    if (g_rq_enq_v < 2) g_rq_enq_v++;
    g_inready = true;
    g_ready_err = x.err_;
  }
  return true;
}
static bool rdq_try_dequeue(struct rdq *q, struct ready_callback *out)
{
  /* environment step: another poller may have taken the victim in the meantime */
  if (g_inready && nondet_bool()) { g_inready = false; g_taken = true; }
  if (!nondet_bool()) return false;
  g_rq_deq++;
  if (g_inready && nondet_bool())
  {
    g_inready = false;
    if (g_rq_deq_v < 2) g_rq_deq_v++;
    out->cb_ = VC;
    out->request_ = VR;
    out->err_ = g_ready_err;
    return true;
  }
  out->cb_ = nondet_int();
  out->request_ = nondet_int();
  out->err_ = nondet_int();
  VX_ASSUME(out->cb_ != VC && out->request_ != VR);
  return true;
}

/* ---- std::atomic<std::uint32_t> all_in_flight_ ------------------------------------------------------------------
 * g_concurrent: other threads may change the counter between any two of our accesses (multi-threaded protocol); our own
 * contribution is recorded in g_aif_inc / g_aif_dec. */
static bool g_concurrent;
static void aif_interfere(uint32_t *p) { if (g_concurrent && nondet_bool()) *p = nondet_u32(); }
static uint32_t atomic_u32_load(uint32_t *p) { aif_interfere(p); g_last_load = *p; return *p; }
static uint32_t atomic_u32_inc(uint32_t *p) { aif_interfere(p); g_aif_inc++; *p = *p + 1u; return *p; }
static uint32_t atomic_u32_dec(uint32_t *p) { aif_interfere(p); g_aif_dec++; *p = *p - 1u; return *p; }

/* ---- pika::threads::detail::{in,de}crement_global_activity_count (C05) ------------------------------------------- */
static void increment_global_activity_count(void) { g_act_inc++; }
static void decrement_global_activity_count(void)
{
  g_act_dec++;
  /* pika::wait() watches the activity count: it may only be released for a request whose callback has run */
  if (!(g_act_dec <= g_inv_total)) g_order_ok = false;
  VX_ASSERT(g_act_dec <= g_inv_total, "global activity count released only after the corresponding callback was invoked");
}

/* ---- PIKA_INVOKE(callback, err) ----------------------------------------------------------------------------------- */
static void vx_invoke_cb(request_callback_function_type cb, int err)
{
  g_inv_total++;
  if (cb == VC)
  {
    VX_ASSERT(g_inv_v == 0, "a callback is invoked at most once");
    VX_ASSERT(g_reported >= 1 || g_w0 == W_READY, "a callback is invoked only after MPI reported ITS request complete");
    VX_ASSERT(err == g_rep_code, "the callback receives the error code MPI reported for its request");
    if (g_inv_v < 2) g_inv_v++;
    g_inv_err = err;
  }
}

/* ------------------------------------------------------------------------------------------------------------
 * ASSUMED MPI contract (MPI-4.1 section 3.7.5): a test call reports only requests that are active (non-null) and
 * whose operation HAS completed; it reports nothing for null handles.  Not assumed: that MPI replaces the handle by
 * MPI_REQUEST_NULL (it does for non-persistent requests; pika nulls the slot itself and the proof relies on pika only).
 * Completion of the victim's operation may happen at any MPI call (environment). */
static void mpi_progress(void) { if (!g_complete && nondet_bool()) g_complete = true; }

static int MPI_Test(MPI_Request *req, int *flag, MPI_Status *st)
{
  int rc = nondet_int();
  mpi_progress();
  *flag = 0;
  if (*req == VR)
  {
    if (g_complete && nondet_bool()) { *flag = 1; g_reported++; g_rep_code = rc; if (nondet_bool()) *req = MPI_REQUEST_NULL; }
  }
  else *flag = nondet_bool() ? 1 : 0;
  return rc;
}

static int MPI_Testany(size_t count, struct rptr arr, int *index, int *flag, MPI_Status *st)
{
  int rc = nondet_int();
  int idx = nondet_int();
  mpi_progress();
  VEC_LOCKED();
  VX_ASSERT(arr.off + count <= g_vreq->size, "MPI_Testany: count does not exceed the number of requests in the vector");
  *flag = nondet_bool() ? 1 : 0;
  *index = MPI_UNDEFINED;
  if (idx != MPI_UNDEFINED && count > 0)
  {
    VX_ASSUME(idx >= 0 && (size_t) idx < count);
    size_t s = arr.off + (size_t) idx;
    VX_ASSUME(s != g_tomb);                         /* null handles are never reported */
    if (s == g_r1 || s == g_r2)
    {
      VX_ASSUME(g_complete);                        /* ... nor requests whose operation has not completed */
      if (g_reported < 2) g_reported++;
      g_rep_code = rc;
      if (nondet_bool()) vreq_store(g_vreq, s, MPI_REQUEST_NULL);   /* MPI may already null the handle */
    }
    *index = idx;
    *flag = 1;
  }
  return rc;
}

/* MPI_Testsome: outcount and the two output arrays are abstracted to accessors (std::array lowered by rule StdArray) */
struct vx_int_array { int unused; };
struct vx_status_array { int unused; };
#define VX_ARRAY_CAPACITY(kind, n) (g_cap_##kind = (n))

static int MPI_Testsome(int incount, struct rptr arr, int *outcount, struct vx_int_array *indices, struct vx_status_array *statuses)
{
  int rc = nondet_int();
  int n = nondet_int();
  mpi_progress();
  VEC_LOCKED();
  VX_ASSERT(incount >= 0 && arr.off + (size_t) incount <= g_vreq->size, "MPI_Testsome: the slice handed to MPI lies inside requests_");
  VX_ASSERT((unsigned) incount <= g_cap_int && (unsigned) incount <= g_cap_status, "MPI_Testsome: incount does not exceed the capacity of the index/status arrays");
  g_ts_k = -1;
  g_ts_off = arr.off;
  g_ts_incount = (size_t) incount;
  if (n != MPI_UNDEFINED) VX_ASSUME(n >= 0 && n <= incount);
  g_ts_n = n;
  if (n != MPI_UNDEFINED && n > 0 && g_r1 != NOSLOT && g_r1 >= arr.off && g_r1 < arr.off + (size_t) incount && g_complete && nondet_bool())
  {
    int k = nondet_int();
    VX_ASSUME(k >= 0 && k < n);
    g_ts_k = k;
    g_ts_vidx = g_r1 - arr.off;
    g_ts_verr = nondet_int();
    if (g_reported < 2) g_reported++;
    g_rep_code = (rc == MPI_ERR_IN_STATUS) ? g_ts_verr : MPI_SUCCESS;   /* statuses are meaningful only with MPI_ERR_IN_STATUS */
    if (nondet_bool()) vreq_store(g_vreq, g_r1, MPI_REQUEST_NULL);
  }
  *outcount = n;
  return rc;
}
static int vx_int_array_get(struct vx_int_array *a, size_t i)
{
  VX_ASSERT(g_ts_n != MPI_UNDEFINED && g_ts_n >= 0 && i < (size_t) g_ts_n, "indices[i] read only for i < outcount");
  if (g_ts_k >= 0 && i == (size_t) g_ts_k) return (int) g_ts_vidx;
  int x = nondet_int();
  /* every other reported index lies in the slice, is reported once, and denotes an active, completed request:
   * not the victim's (reported at position g_ts_k or not at all), not a null handle */
  VX_ASSUME(x >= 0 && (size_t) x < g_ts_incount);
  VX_ASSUME(g_ts_k < 0 || (size_t) x != g_ts_vidx);
  VX_ASSUME(g_ts_off + (size_t) x != g_r1 && g_ts_off + (size_t) x != g_r2 && g_ts_off + (size_t) x != g_tomb);
  return x;
}
static MPI_Status vx_status_array_get(struct vx_status_array *a, size_t i)
{
  MPI_Status st;
  VX_ASSERT(g_ts_n != MPI_UNDEFINED && g_ts_n >= 0 && i < (size_t) g_ts_n, "statuses[i] read only for i < outcount");
  st.MPI_SOURCE = nondet_int();
  st.MPI_TAG = nondet_int();
  st.MPI_ERROR = (g_ts_k >= 0 && i == (size_t) g_ts_k) ? g_ts_verr : nondet_int();
  return st;
}
#endif
