/* C20 -- completion-mode decoding (mpi_polling.hpp): F contracts, loop free, full domain.
 * The specification side is written from the documentation of the enumeration ("this bit ...", "3 bits control the handler method",
 * the numeric comments 1 / 2 / 4 / 56 / 0x08 .. 0x20 / 24 + 2 + 4 = 30); the enumerators themselves are LIFTED. */
#include "vx.h"
enum handler_method
//@LIFT e_handler_method
;
typedef enum handler_method handler_method;

#ifdef U_GHM
//@FUNC
handler_method get_handler_method(uint32_t flags)
/* bits 3..5 select the method, every other bit is ignored */
__CPROVER_ensures((uint32_t) __CPROVER_return_value == (((flags >> 3) & 7u) << 3))
//@LIFT get_handler_method
/*{}*/
#endif
#ifdef U_BOOST
//@FUNC
bool use_priority_boost(size_t mode)
__CPROVER_ensures(__CPROVER_return_value == (((mode >> 2) & 1) == 1))
//@LIFT use_priority_boost
/*{}*/
#endif
#ifdef U_INLINE_COMPLETION
//@FUNC
bool use_inline_completion(size_t mode)
__CPROVER_ensures(__CPROVER_return_value == (((mode >> 1) & 1) == 1))
//@LIFT use_inline_completion
/*{}*/
#endif
#ifdef U_INLINE_REQUEST
//@FUNC
bool use_inline_request(size_t mode)
__CPROVER_ensures(__CPROVER_return_value == ((mode & 1) == 1))
//@LIFT use_inline_request
/*{}*/
#endif

void harness(void)
{
#ifdef U_GHM
  /* the documented encoding of the enumeration (values are read from /repo on every run) */
  VX_ASSERT(request_inline == 1 && completion_inline == 2 && high_priority == 4 && method_mask == 56, "documented flag bits 1 / 2 / 4 and method mask 56");
  VX_ASSERT(yield_while == 0x00 && suspend_resume == 0x08 && new_task == 0x10 && continuation == 0x18 && mpix_continuation == 0x20, "documented method codes");
  VX_ASSERT(default_mode == 30, "documented default mode 24 + 2 + 4 = 30");
  uint32_t flags = nondet_u32();
  handler_method m = get_handler_method(flags);
  /* documented ranges: 00 -> 7 yield_while, 08 -> 15 suspend_resume, 16 -> 23 new_task, 24 -> 31 continuation, 32 -> 39 mpix_continuation */
  if (flags <= 7) { VX_ASSERT(m == yield_while, "0..7 is yield_while"); VX_REACH("yield_while"); }
  else if (flags <= 15) { VX_ASSERT(m == suspend_resume, "8..15 is suspend_resume"); VX_REACH("suspend_resume"); }
  else if (flags <= 23) { VX_ASSERT(m == new_task, "16..23 is new_task"); VX_REACH("new_task"); }
  else if (flags <= 31) { VX_ASSERT(m == continuation, "24..31 is continuation"); VX_REACH("continuation"); }
  else if (flags <= 39) { VX_ASSERT(m == mpix_continuation, "32..39 is mpix_continuation"); VX_REACH("mpix_continuation"); }
  else VX_REACH("flags_above_39");
  if (flags == (uint32_t) default_mode) { VX_ASSERT(m == continuation, "default mode dispatches through the continuation method"); VX_REACH("default_mode"); }
#endif
#ifdef U_BOOST
  if (use_priority_boost(nondet_size())) VX_REACH("boost"); else VX_REACH("normal");
#endif
#ifdef U_INLINE_COMPLETION
  if (use_inline_completion(nondet_size())) VX_REACH("inline"); else VX_REACH("transfer");
#endif
#ifdef U_INLINE_REQUEST
  if (use_inline_request(nondet_size())) VX_REACH("inline"); else VX_REACH("transfer");
#endif
}
