/* C20 -- transform_mpi operation state, receiver / sender-algebra / condition-variable stubs and the ghost trace for the units over
 * mpi_helpers.hpp and transform_mpi.hpp.  Nothing here is pika logic: receivers, senders, schedulers, closures, exceptions are opaque
 * tokens; stubs count calls (T contracts) and assert order predicates.  The including template defines enum handler_method (LIFTED). */
#ifndef C20_OP_H
#define C20_OP_H
#include "vx.h"
#include "c20_mpi.h"
typedef enum handler_method handler_method;
enum { thread_priority_normal = 10, thread_priority_boost = 11 };     /* opaque */
enum { EXC_none = 0, EXC_mpi = 1, EXC_other = 2 };                    /* exception_ptr tokens */
enum { CB_none = 0, CB_suspend_resume = 1, CB_new_task = 2, CB_continuation = 3 };
enum { CLOSURE_set_value = 77 };

struct cv { int unused; };
static void vx_mon_release_hook(void);
static void vx_mon_acquire_hook(void);
#define MON_AT_RELEASE() vx_mon_release_hook()
#define MON_AT_ACQUIRE() vx_mon_acquire_hook()
#include "monitor.h"

static struct op_ghost
{
  unsigned sv, se;             /* set_value / set_error on the OUTER receiver (op_state.r) */
  unsigned completions;        /* sv + se + cb_sig + mpix_reg (kept as a counter: __CPROVER_old cannot track sums) */
  int se_tok, se_code;         /* exception token / MPI code carried by set_error */
  int exc_code;                /* code of the mpi::exception object constructed last */
  unsigned cb_reg;             /* polling callbacks registered with add_request_callback / add_*_request_callback */
  unsigned cb_sig;             /* ... of a kind that signals the receiver itself (new_task, continuation) */
  int cb_kind;
  MPI_Request cb_req;
  unsigned mpix_reg;           /* register_mpix_continuation calls */
  unsigned spawned;            /* start_detached calls */
  int spawn_sched, spawn_fn, pipe_sched, pipe_fn;
  unsigned notifies, waits, yields, ts_resets, ts_emplaced, polls, f_calls;
  bool known_complete;         /* MPI has told THIS side that the request is complete (poll_request true, or the polling callback fired) */
  bool shared;                 /* op_state.completed / status are shared with a registered callback: writes need the mutex */
  int cb_status;               /* status the environment's callback stored */
  bool last_poll;
} OG;
/* configuration of the harness (never written by a function under contract) */
static struct op_cfg
{
  bool need_complete;          /* unit checks "set_value only after completion is known" */
  bool env_callback;           /* environment: a registered suspend/resume callback may fire whenever the mutex is free */
  bool on_pika_thread;
  bool f_returns_error, f_throws;
  int current_exception;
} OC;
static bool vx_exc;

struct op_state
{
  int r;                       /* outer receiver (token) */
  int f;                       /* user's MPI function (token) */
  size_t mode_flags;
  int status;
  bool completed;
  struct vx_mutex mutex;       /* pika::detail::spinlock */
  struct cv cond_var;
  MPI_Request request;
  int ts;                      /* stored predecessor values (opaque) */
};
static struct op_state *vx_op;

/* monitor: op_state.mutex protects completed / status once a suspend/resume callback is registered */
static bool g_completed_at_release;
static void vx_mon_release_hook(void) { g_completed_at_release = vx_op->completed; }
static void vx_mon_acquire_hook(void)
{
  if (OC.env_callback && OG.cb_reg >= 1 && !vx_op->completed && nondet_bool())
  {
    /* the registered polling callback ran meanwhile (poll units: only after MPI reported the request complete, exactly once);
     * its effect is the one proved for it in unit help.cb.suspend_resume: status stored, flag set, under the mutex */
    OG.cb_status = nondet_int();
    vx_op->status = OG.cb_status;
    vx_op->completed = true;
    OG.known_complete = true;
  }
}

/* ---- receiver -------------------------------------------------------------------------------------------------- */
static void ex_set_value(int r)
{
  VX_ASSERT(r == vx_op->r, "completion signal goes to the operation's own receiver");
  VX_ASSERT(OG.sv + OG.se == 0, "the receiver is signalled at most once");
  VX_ASSERT(!OC.need_complete || OG.known_complete, "set_value only after MPI reported the request complete");
  if (OG.sv < 2) OG.sv++;
  if (OG.completions < 3) OG.completions++;
}
static void ex_set_error(int r, int ep)
{
  VX_ASSERT(r == vx_op->r, "completion signal goes to the operation's own receiver");
  VX_ASSERT(OG.sv + OG.se == 0, "the receiver is signalled at most once");
  if (OG.se < 2) OG.se++;
  if (OG.completions < 3) OG.completions++;
  OG.se_tok = ep;
  OG.se_code = (ep == EXC_mpi) ? OG.exc_code : 0;
}
static int mpi_exception(int code) { OG.exc_code = code; return EXC_mpi; }
static int vx_current_exception(void) { return OC.current_exception; }

/* ---- sender algebra used by the new_task callback (contracts of schedule / then / start_detached: C03, C10) ---- */
static int default_pool_scheduler(int prio) { return prio; }
static int ex_schedule(int sched) { return sched; }
static int ex_then(int closure) { return closure; }
static int vx_pipe(int snd, int adaptor) { OG.pipe_sched = snd; OG.pipe_fn = adaptor; return 1; }
static void ex_start_detached(int snd) { if (OG.spawned < 2) OG.spawned++; OG.spawn_sched = OG.pipe_sched; OG.spawn_fn = OG.pipe_fn; }
#define VX_CLOSURE(...) CLOSURE_set_value

/* ---- shared flag / status: written through stubs so that "under the mutex" is an obligation ------------------------ */
static void op_set_completed(struct op_state *o, bool v)
{
  VX_ASSERT(!OG.shared || vx_op->mutex.held, "op_state.completed written while op_state.mutex is held");
  o->completed = v;
}
static void op_set_status(struct op_state *o, int v)
{
  VX_ASSERT(!OG.shared || vx_op->mutex.held, "op_state.status written while op_state.mutex is held");
  o->status = v;
}
static void op_state_ts_reset(struct op_state *o) { if (OG.ts_resets < 2) OG.ts_resets++; o->ts = 0; }
static void op_state_ts_emplace(struct op_state *o) { if (OG.ts_emplaced < 2) OG.ts_emplaced++; o->ts = 1; }

/* ---- pika::condition_variable as seen by a client holding the mutex (C07) --------------------------------------- */
static void cv_notify_one(struct cv *c)
{
  VX_ASSERT(vx_op->completed, "completion flag published before the waiter is notified");
  if (OG.notifies < 2) OG.notifies++;
}
static void cv_wait(struct cv *c, struct ulock *l)
{
  VX_ASSERT(vx_owns_p(l), "cond_var.wait called with op_state.mutex held");
  VX_ASSERT(!vx_op->completed, "the task blocks only while the completion flag is not set (checked under the mutex: no lost wake-up)");
  if (OG.waits < 2) OG.waits++;
  ulock_unlock(l);       /* released only inside the suspension */
  ulock_lock(l);         /* environment step at re-acquisition: the callback may have fired */
}
static void vx_yield(void) { if (OG.yields < 2) OG.yields++; }

/* ---- polling interface (contracts proved by the poll.* units) ----------------------------------------------------- */
static bool poll_request(MPI_Request req)
{
  VX_ASSERT(req == vx_op->request, "the operation polls its own request");
  if (OG.polls < 2) OG.polls++;
  OG.last_poll = nondet_bool();              /* true only if MPI_Test reported the request complete (unit poll.poll_request) */
  if (OG.last_poll) OG.known_complete = true;
  return OG.last_poll;
}
static bool add_request_callback(int callback_kind, MPI_Request req)
{
  VX_ASSERT(OG.sv + OG.se == 0, "a polling callback (which will signal the receiver) is registered only while the receiver is unsignalled");
  if (OG.cb_reg < 2) OG.cb_reg++;
  if (callback_kind != CB_suspend_resume) { if (OG.cb_sig < 2) OG.cb_sig++; if (OG.completions < 3) OG.completions++; }
  OG.cb_kind = callback_kind;
  OG.cb_req = req;
  return true;
}
static void register_mpix_continuation(MPI_Request *req, int func, struct op_state *o) { if (OG.mpix_reg < 2) OG.mpix_reg++; if (OG.completions < 3) OG.completions++; }
static int get_self_id(void) { return OC.on_pika_thread ? 1 : 0; }

static void og_init(struct op_state *o)
{
  vx_op = o;
  vx_exc = false;
  OG.sv = OG.se = 0; OG.completions = 0; OG.se_tok = 0; OG.se_code = 0; OG.exc_code = 0;
  OG.cb_reg = 0; OG.cb_sig = 0; OG.cb_kind = CB_none; OG.cb_req = 0; OG.mpix_reg = 0;
  OG.spawned = 0; OG.spawn_sched = OG.spawn_fn = OG.pipe_sched = OG.pipe_fn = 0;
  OG.notifies = OG.waits = OG.yields = OG.ts_resets = OG.ts_emplaced = OG.polls = OG.f_calls = 0;
  OG.known_complete = false; OC.need_complete = false; OG.shared = false; OC.env_callback = false; OG.cb_status = 0;
  OC.on_pika_thread = nondet_bool(); OG.last_poll = false; OC.f_returns_error = false; OC.f_throws = false;
  OC.current_exception = EXC_other;
  g_completed_at_release = false;
  vx_op->mutex.held = false;
  o->r = nondet_int(); o->f = nondet_int(); o->mode_flags = nondet_size(); o->status = MPI_SUCCESS; o->completed = false;
  o->request = nondet_int(); o->ts = 1;
}
#endif
