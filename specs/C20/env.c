/* C20 units over libs/pika/mpi_base/src/mpi_environment.cpp: MPI_Init_thread / MPI_Finalize balance. */
#include "vx.h"
#include "c20_mpi.h"

static struct env_ghost
{
  bool inited, finalized;                 /* state of the MPI library */
  unsigned init_calls, finalize_calls, initialized_calls, finalized_calls;
  int init_rc, provided;
  bool threw;
} EG;
static bool vx_exc;
static bool mpi_init_pika_;
static void vx_throw(int code) { vx_exc = true; EG.threw = true; }

/* ASSUMED MPI contract: MPI_Initialized / MPI_Finalized report the library state; MPI_Init_thread must not be called twice and
 * MPI_Finalize only between a successful init and the first finalize (obligations here) */
static int MPI_Initialized(int *flag) { int rc = nondet_int(); EG.initialized_calls++; *flag = EG.inited ? 1 : 0; return rc; }
static int MPI_Finalized(int *flag) { EG.finalized_calls++; *flag = EG.finalized ? 1 : 0; return MPI_SUCCESS; }
static int MPI_Init_thread(int *argc, char ***argv, int required, int *provided)
{
  VX_ASSERT(!EG.inited, "MPI_Init_thread is called only if MPI is not yet initialised");
  if (EG.init_calls < 2) EG.init_calls++;
  EG.init_rc = nondet_int();
  if (EG.init_rc == MPI_SUCCESS) { EG.inited = true; EG.provided = nondet_int(); *provided = EG.provided; }
  return EG.init_rc;
}
static int MPI_Finalize(void)
{
  VX_ASSERT(EG.inited && !EG.finalized, "MPI_Finalize is called only on an initialised, not yet finalised library");
  if (EG.finalize_calls < 2) EG.finalize_calls++;
  EG.finalized = true;
  return MPI_SUCCESS;
}

#ifdef U_IS_INIT
//@FUNC
bool environment_is_mpi_initialized(void)
__CPROVER_requires(!vx_exc)
/* reports the library state; a failing MPI_Initialized is turned into an exception */
__CPROVER_ensures(!vx_exc ==> __CPROVER_return_value == EG.inited)
__CPROVER_ensures(EG.init_calls == __CPROVER_old(EG.init_calls) && EG.finalize_calls == __CPROVER_old(EG.finalize_calls))
__CPROVER_assigns(EG.initialized_calls, EG.threw, vx_exc)
//@LIFT is_mpi_initialized
/*{}*/
#elif defined(U_INIT)
bool environment_is_mpi_initialized(void)
//@LIFT is_mpi_initialized
#endif

#ifdef U_INIT
//@FUNC
int environment_init(int *argc, char ***argv, int required, int minimal, int *provided)
__CPROVER_requires(!vx_exc && EG.init_calls == 0 && EG.finalize_calls == 0 && !EG.finalized && !EG.threw)
/* MPI is initialised by us exactly when it was not initialised before (never a second MPI_Init_thread) */
__CPROVER_ensures(!vx_exc ==> EG.init_calls == (__CPROVER_old(EG.inited) ? 0u : 1u))
/* "we initialised MPI" is remembered exactly when our MPI_Init_thread succeeded with a sufficient thread level */
__CPROVER_ensures(mpi_init_pika_ == (!vx_exc && !__CPROVER_old(EG.inited) && EG.init_calls == 1 && EG.init_rc == MPI_SUCCESS && EG.provided >= minimal))
__CPROVER_ensures(!vx_exc ==> (__CPROVER_return_value == MPI_SUCCESS) == EG.inited)
__CPROVER_ensures(EG.finalize_calls == 0)
__CPROVER_assigns(EG, vx_exc, mpi_init_pika_, *provided)
//@LIFT init
/*{}*/
#endif

#ifdef U_FINALIZE
static bool pika_called_init(void)
//@LIFT pika_called_init
//@FUNC
void environment_finalize(void)
__CPROVER_requires(!vx_exc && EG.finalize_calls == 0 && (mpi_init_pika_ ==> EG.inited))
/* MPI is finalised exactly when WE initialised it and nobody finalised it yet; never twice */
__CPROVER_ensures(EG.finalize_calls == ((mpi_init_pika_ && !__CPROVER_old(EG.finalized)) ? 1u : 0u))
__CPROVER_ensures(EG.finalized == (__CPROVER_old(EG.finalized) || mpi_init_pika_) && EG.init_calls == __CPROVER_old(EG.init_calls))
__CPROVER_assigns(EG)
//@LIFT finalize
/*{}*/
#endif

void harness(void)
{
  vx_exc = false;
  EG.inited = nondet_bool(); EG.finalized = false;
  EG.init_calls = EG.finalize_calls = EG.initialized_calls = EG.finalized_calls = 0;
  EG.init_rc = 0; EG.provided = 0; EG.threw = false;
  mpi_init_pika_ = nondet_bool();
#ifdef U_IS_INIT
  bool b = environment_is_mpi_initialized();
  if (vx_exc) VX_REACH("mpi_initialized_failed_throws"); else if (b) VX_REACH("initialized"); else VX_REACH("not_initialized");
#endif
#ifdef U_INIT
  int provided = nondet_int();
  bool i0 = EG.inited;
  int rc = environment_init(0, 0, nondet_int(), nondet_int(), &provided);
  if (!vx_exc && i0) VX_REACH("already_initialized_by_user");
  if (!vx_exc && !i0 && mpi_init_pika_) VX_REACH("initialized_by_pika");
  if (!vx_exc && !i0 && rc != MPI_SUCCESS) VX_REACH("init_failed");
  if (vx_exc && EG.init_calls == 1) VX_REACH("thread_level_insufficient_throws");
  if (vx_exc && EG.init_calls == 0) VX_REACH("mpi_initialized_failed_throws");
#endif
#ifdef U_FINALIZE
  EG.finalized = nondet_bool();
  if (mpi_init_pika_) EG.inited = true;
  if (EG.finalized) EG.inited = true;
  bool f0 = EG.finalized;
  environment_finalize();
  if (EG.finalize_calls == 1) VX_REACH("finalized_by_pika");
  if (!mpi_init_pika_) VX_REACH("not_ours_left_alone");
  if (mpi_init_pika_ && f0) VX_REACH("already_finalized");
#endif
}
