/* C16 -- pika::detail::prepend_options (command_line_handling.cpp): the options found in the configuration entry
 * pika.commandline.prepend_options (= ${PIKA_COMMANDLINE_OPTIONS}) are put IN FRONT of the real command line, so that for
 * composing options (--pika:ini=key=value, stored in argument order, later definition wins) and for everything program_options
 * resolves by position, the command line keeps precedence over the environment.   (written by main after seeded change C16-3
 * was missed; F contract over a sequence abstraction)
 *
 * A std::vector<std::string> is abstracted to a sequence of at most two SEGMENTS (source, length): source TOK = the tokens of the
 * options string in tokenizer order, source ARG = the caller's arguments in their order.  Appending / constructing from a range
 * are the std::vector / std::move / std::copy / back_inserter semantics on that abstraction. */
#include "vx.h"
enum { SRC_NONE = 0, SRC_TOK = 1, SRC_ARG = 2 };
struct strvec { int s0_src; size_t s0_len; int s1_src; size_t s1_len; bool moved_from; };
struct str { bool empty; size_t ntok; };   /* a std::string: only emptiness and the number of tokens the tokenizer finds in it */
static bool g_overflow;                    /* the two-segment abstraction was exceeded (never on the unchanged code) */

static bool str_empty(struct str const *s) { return s->empty; }
static void vx_nop(void) { }
/* boost::tokenizer over the options string: an empty string has no tokens */
static struct strvec tok_make(struct str const *s)
{
  struct strvec v; v.s0_src = SRC_TOK; v.s0_len = s->empty ? 0 : s->ntok; v.s1_src = SRC_NONE; v.s1_len = 0; v.moved_from = false;
  if (v.s0_len == 0) v.s0_src = SRC_NONE;
  return v;
}
static struct strvec strvec_empty(void) { struct strvec v; v.s0_src = SRC_NONE; v.s0_len = 0; v.s1_src = SRC_NONE; v.s1_len = 0; v.moved_from = false; return v; }
static void seg_push_back(struct strvec *v, int src, size_t len)
{
  if (len == 0) return;
  if (v->s0_len == 0) { v->s0_src = src; v->s0_len = len; }
  else if (v->s1_len == 0) { v->s1_src = src; v->s1_len = len; }
  else g_overflow = true;
}
static void seg_push_front(struct strvec *v, int src, size_t len)
{
  if (len == 0) return;
  if (v->s0_len == 0) { v->s0_src = src; v->s0_len = len; }
  else if (v->s1_len == 0) { v->s1_src = v->s0_src; v->s1_len = v->s0_len; v->s0_src = src; v->s0_len = len; }
  else g_overflow = true;
}
/* [first, last) of a whole container appended to / inserted in front of v (elements moved or copied: same sequence) */
static void strvec_append(struct strvec *v, struct strvec const *from)
{
  VX_ASSERT(!from->moved_from, "a moved-from vector is not read");
  seg_push_back(v, from->s0_src, from->s0_len); seg_push_back(v, from->s1_src, from->s1_len);
}
static void strvec_prepend(struct strvec *v, struct strvec const *from)
{
  VX_ASSERT(!from->moved_from, "a moved-from vector is not read");
  seg_push_front(v, from->s1_src, from->s1_len); seg_push_front(v, from->s0_src, from->s0_len);
}
static struct strvec strvec_from_range(struct strvec const *from) { struct strvec v = strvec_empty(); strvec_append(&v, from); return v; }
static struct strvec strvec_move(struct strvec *from)
{
  VX_ASSERT(!from->moved_from, "a moved-from vector is not read");
  struct strvec v = *from; *from = strvec_empty(); from->moved_from = true; return v;
}

/* expected sequence A ++ B with empty segments normalised away */
#define SEQ_IS(v, a_src, a_len, b_src, b_len) \
  ((v).s0_len == ((a_len) > 0 ? (a_len) : (b_len)) && ((v).s0_len == 0 || (v).s0_src == ((a_len) > 0 ? (a_src) : (b_src))) && \
   (v).s1_len == (((a_len) > 0 && (b_len) > 0) ? (b_len) : 0) && ((v).s1_len == 0 || (v).s1_src == (b_src)))

static size_t g_nargs, g_ntok;
//@FUNC
struct strvec prepend_options(struct strvec *args_p, struct str *options_p)
__CPROVER_requires(args_p->s0_len == g_nargs && (g_nargs == 0 || args_p->s0_src == SRC_ARG) && args_p->s1_len == 0 && !args_p->moved_from && !g_overflow)
__CPROVER_requires(g_ntok == (options_p->empty ? 0 : options_p->ntok))
/* the result is: the tokens of the options string, in order, FOLLOWED BY the original arguments, in order */
__CPROVER_ensures(!g_overflow && !__CPROVER_return_value.moved_from && SEQ_IS(__CPROVER_return_value, SRC_TOK, g_ntok, SRC_ARG, g_nargs))
__CPROVER_assigns(*args_p, g_overflow)
#define args (*args_p)       /* C++ rvalue-reference parameters */
#define options (*options_p)
//@LIFT body
#undef args
#undef options

void harness(void)
{
  struct strvec args; struct str options;
  g_nargs = nondet_size(); g_overflow = false;
  args.s0_src = g_nargs > 0 ? SRC_ARG : SRC_NONE; args.s0_len = g_nargs; args.s1_src = SRC_NONE; args.s1_len = 0; args.moved_from = false;
  options.empty = nondet_bool(); options.ntok = nondet_size();
  g_ntok = options.empty ? 0 : options.ntok;
  struct strvec r = prepend_options(&args, &options);
  if (options.empty) VX_REACH("nothing_to_prepend");
  if (!options.empty && r.s1_len > 0) VX_REACH("prepended");
}
