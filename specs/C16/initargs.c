/* C16 -- pika::detail::init_helper (init_runtime.cpp): what the application's main function (int(int, char**) flavour of
 * pika::init / pika::start) is handed as argv.  "Non-pika arguments reach the application unchanged": an argument is dropped (or,
 * for --pika:positional=<x>, replaced by <x>) only if it STARTS WITH "--pika:"; every other argument of the reconstructed command
 * line is passed on, same characters, same relative order, argv[argc] == nullptr.
 * (written by main after seeded change C16-5 was missed; I contract, symbolic number of arguments, one symbolic victim slot)
 *
 * std::vector<std::string> args: element i is an arbitrary string generated when it is first looked at ("read once"); a string is
 * abstracted to what the function asks about it: where "--pika:" first occurs, where "positional" first occurs at or after
 * offset 7, where '=' first occurs, and the identity (buffer, offset) of its character data. */
#include "vx.h"
#define NPOS ((size_t)-1)
#define NONE ((size_t)-1)
struct cptr { int buf; size_t off; };              /* a char*: 0 = nullptr */
struct str { size_t find_pika; size_t find_positional7; size_t find_eq; struct cptr data; };
struct strvec { size_t n; };
struct argvvec { size_t cap; };
struct fn { int id; };

static struct strvec g_args; static struct argvvec g_argv;
static struct str g_cur; static size_t g_cur_idx;   /* the element of args last looked at */
static size_t g_visited;                            /* elements are looked at in order, each in one iteration */
static size_t g_expected;                           /* number of elements seen so far that must reach the application */
static struct cptr g_cur_expect; static bool g_cur_should; static bool g_cur_pushed;
static size_t g_vslot; static struct cptr g_vexpect, g_vval;   /* victim slot of argv: what must be there / what is there */
static size_t g_null_at;                            /* index of the last nullptr store */
static int g_f_calls; static struct fn g_f;

/* the property: pass on iff the argument does not START with "--pika:" */
#define IS_PIKA_OPTION(s) ((s).find_pika == 0)
/* from the code: --pika:positional=<x> hands <x> to the application; --pika:positional without '=' and all other pika options: nothing */
#define IS_POSITIONAL(s)  (IS_PIKA_OPTION(s) && (s).find_positional7 == 7 && (s).find_eq != NPOS)

static struct strvec *split_unix(int cmdline) { VX_ASSERT(cmdline == 1, "the reconstructed command line is what is split"); return &g_args; }
static int get_reconstructed_cmd_line(void) { return 1; }
static size_t vec_size(struct strvec const *v) { VX_ASSERT(v == &g_args, "the argument vector"); return v->n; }
static struct argvvec *argv_make(size_t n) { VX_ASSERT(n >= g_args.n + 1 && g_args.n != NPOS, "room for every argument and the terminating nullptr"); g_argv.cap = n; return &g_argv; }
static struct str *args_at(struct strvec *v, size_t i)
{
  VX_ASSERT(v == &g_args && i < v->n, "element within the vector");
  if (i != g_cur_idx) {
    VX_ASSERT(i == g_visited, "arguments are looked at in order, none is skipped");
    g_visited = i + 1; g_cur_idx = i;
    g_cur.find_pika = nondet_size(); g_cur.find_positional7 = nondet_size(); g_cur.find_eq = nondet_size();
    g_cur.data.buf = nondet_int(); g_cur.data.off = 0;
    __CPROVER_assume(g_cur.data.buf != 0);
    __CPROVER_assume(g_cur.find_positional7 == NPOS || g_cur.find_positional7 >= 7);
    g_cur_pushed = false;
    g_cur_should = !IS_PIKA_OPTION(g_cur) || IS_POSITIONAL(g_cur);
    g_cur_expect = g_cur.data;
    if (IS_POSITIONAL(g_cur)) g_cur_expect.off = g_cur.find_eq + 1;
    if (g_cur_should) { if (g_expected == g_vslot) g_vexpect = g_cur_expect; g_expected++; }
  }
  return &g_cur;
}
static size_t str_find_pika(struct str const *s) { return s->find_pika; }                     /* s.find("--pika:") */
static size_t str_find_positional(struct str const *s, size_t from) { VX_ASSERT(from == 7, "\"positional\" is looked for right after \"--pika:\""); return s->find_positional7; }
static size_t str_find_first_of_eq(struct str const *s) { return s->find_eq; }                /* s.find_first_of('=') */
static void str_assign_substr(struct str *dst, struct str const *src, size_t from)            /* dst = src.substr(from) */
{
  struct cptr d = src->data; d.off += from;
  dst->data = d; dst->find_pika = nondet_size(); dst->find_positional7 = nondet_size(); dst->find_eq = nondet_size();
}
static struct cptr str_data(struct str const *s) { return s->data; }
static struct cptr cptr_null(void) { struct cptr p; p.buf = 0; p.off = 0; return p; }
static void argv_set(struct argvvec *a, size_t idx, struct cptr val)
{
  VX_ASSERT(a == &g_argv && idx < a->cap, "store within argv");
  if (val.buf == 0) { g_null_at = idx; }
  else {
    VX_ASSERT(g_cur_idx != NONE && g_cur_should, "only an argument that does not start with --pika: (or the value of --pika:positional=) is handed to the application");
    VX_ASSERT(!g_cur_pushed, "an argument is handed on once");
    VX_ASSERT(idx + 1 == g_expected, "arguments keep their relative order (next free slot)");
    VX_ASSERT(val.buf == g_cur_expect.buf && val.off == g_cur_expect.off, "the argument reaches the application unchanged");
    g_cur_pushed = true;
  }
  if (idx == g_vslot) g_vval = val;
}
static struct argvvec *vec_data(struct argvvec *a) { return a; }
static int f_call(struct fn const *f, int argc, struct argvvec *argv)
{
  VX_ASSERT(f == &g_f && argv == &g_argv, "the application's main function, the filtered argv");
  VX_ASSERT(g_visited == g_args.n, "every argument was looked at");
  VX_ASSERT((size_t)argc == g_expected && (g_cur_idx == NONE || g_cur_pushed == g_cur_should), "argc counts exactly the arguments that do not start with --pika: (plus --pika:positional values)");
  VX_ASSERT(g_null_at == (size_t)argc, "argv[argc] == nullptr");
  VX_ASSERT(g_vslot >= (size_t)argc || (g_vval.buf == g_vexpect.buf && g_vval.off == g_vexpect.off), "argv[k] is the k-th such argument, unchanged");
  if (g_f_calls < 2) g_f_calls++;
  return nondet_int();
}

#define LOOP_INV(i, argcount) \
  ((i) <= g_args.n && g_visited == (i) && (g_cur_idx == NONE ? (i) == 0 : g_cur_idx + 1 == (i)) && (argcount) == g_expected && \
   (g_cur_idx == NONE || g_cur_pushed == g_cur_should) && g_expected <= (i) && g_argv.cap >= g_args.n + 1 && g_f_calls == 0 && \
   (g_vslot >= g_expected || (g_vval.buf == g_vexpect.buf && g_vval.off == g_vexpect.off)))

//@FUNC
int init_helper(struct fn const *f)
__CPROVER_requires(f == &g_f && g_args.n < 0x7fffffff && g_cur_idx == NONE && g_visited == 0 && g_expected == 0 && g_f_calls == 0 && g_null_at == NONE)
__CPROVER_ensures(g_f_calls == 1)
__CPROVER_assigns(g_argv, g_cur, g_cur_idx, g_visited, g_expected, g_cur_expect, g_cur_should, g_cur_pushed, g_vexpect, g_vval, g_null_at, g_f_calls)
//@LIFT body

void harness(void)
{
  g_args.n = nondet_size(); g_argv.cap = 0; g_cur_idx = NONE; g_visited = 0; g_expected = 0; g_cur_pushed = false; g_cur_should = false;
  g_vslot = nondet_size(); g_null_at = NONE; g_f_calls = 0; g_vval = cptr_null(); g_vexpect = cptr_null(); g_cur_expect = cptr_null();
  g_cur.find_pika = 0; g_cur.find_positional7 = NPOS; g_cur.find_eq = NPOS; g_cur.data = cptr_null();
  init_helper(&g_f);
  if (g_expected > 0 && g_vslot < g_expected) VX_REACH("argument_handed_on");
  if (g_visited > g_expected) VX_REACH("pika_option_dropped");
  if (g_args.n == 0) VX_REACH("no_arguments");
}
