/* C16 unit: command_line_handling::handle_arguments (T contract) -- the step that turns the resolved values into the ini
 * entries `rtcfg_.reconfigure(ini_config_)` hands to the runtime (init_runtime.cpp reads pika.os_threads, pika.cores,
 * pika.pu_offset, pika.pu_step, pika.affinity, pika.bind, pika.ignore_process_mask back from rtcfg_).
 *
 * The resolution functions are T stubs here (each proved as its own unit): they count their calls, record the default and
 * the flags they are given and return an arbitrary resolved value.  Decided: every resolved value is asked for exactly
 * once, with the runtime-configuration entry (environment level) or the built-in literal as its default; it is stored in
 * its member; it is written exactly once under its key, after the user's own --pika:ini entries; the validity checks run
 * on the resolved values. */
#include "c16.h"
#define VX_RET

struct strvec { int unused; };
struct inivec { int unused; };
struct clh {
  struct vmap vm_;
  struct rtcfg rtcfg_;
  size_t num_threads_, num_cores_, pu_step_, pu_offset_, numa_sensitive_;
  str_t scheduler_, affinity_domain_, affinity_bind_, process_mask_;
  bool use_process_mask_;
};
static struct clh *vx_self;

enum { I_ignore_process_mask, I_process_mask, I_scheduler, I_affinity, I_bind, I_pu_step, I_pu_offset, I_numa_sensitive,
       I_os_threads, I_cores, I_high_priority_queues, I_other, N_INI };
struct ini_rec { long count; bool is_num; str_t sval; size_t nval; };
struct res_str { long calls; str_t dflt; str_t result; bool may_throw; };
struct res_num { long calls; size_t dflt; size_t result; bool may_throw; };
/* ---- all ghost state of this unit lives in ONE object, so that the frame condition has one target for it ---- */
static struct {
  struct ini_rec ini[N_INI];
  long ini_total;
  bool user_ini_late; /* the user's --pika:ini entries were appended after an entry written by handle_arguments */
  long user_ini_copied, user_ini_added;
  struct res_str r_process_mask, r_scheduler, r_affinity, r_bind;
  struct res_num r_pu_step, r_pu_offset, r_numa, r_threads, r_cores;
  bool pm_use_arg, nt_use_arg, nc_use_arg; /* the use_process_mask flags handed on */
  bool args_ok; /* every resolution function got the caller's cfgmap and vm */
  bool nt_rtcfg_ok;
  long chk_domain, chk_descr, chk_offset, chk_step;
  bool chk_on_resolved; /* every check saw the resolved value in the member it reads */
  long mask_set;
  str_t mask_set_from;
  long logging_calls;
} G;
#define g_ini G.ini
#define g_ini_total G.ini_total
#define g_user_ini_late G.user_ini_late
#define g_user_ini_copied G.user_ini_copied
#define g_user_ini_added G.user_ini_added
#define g_r_process_mask G.r_process_mask
#define g_r_scheduler G.r_scheduler
#define g_r_affinity G.r_affinity
#define g_r_bind G.r_bind
#define g_r_pu_step G.r_pu_step
#define g_r_pu_offset G.r_pu_offset
#define g_r_numa G.r_numa
#define g_r_threads G.r_threads
#define g_r_cores G.r_cores
#define g_pm_use_arg G.pm_use_arg
#define g_nt_use_arg G.nt_use_arg
#define g_nc_use_arg G.nc_use_arg
#define g_args_ok G.args_ok
#define g_nt_rtcfg_ok G.nt_rtcfg_ok
#define g_chk_domain G.chk_domain
#define g_chk_descr G.chk_descr
#define g_chk_offset G.chk_offset
#define g_chk_step G.chk_step
#define g_chk_on_resolved G.chk_on_resolved
#define g_mask_set G.mask_set
#define g_mask_set_from G.mask_set_from
#define g_logging_calls G.logging_calls

/* ---- ini_config.emplace_back("key[!]=" + value) -------------------------------------------------------------------------- */
static int ini_index(int key)
{
  switch (key)
  {
  case S_pika_d_ignore_process_mask: return I_ignore_process_mask;
  case S_pika_d_process_mask: return I_process_mask;
  case S_pika_d_scheduler: return I_scheduler;
  case S_pika_d_affinity: return I_affinity;
  case S_pika_d_bind: return I_bind;
  case S_pika_d_pu_step: return I_pu_step;
  case S_pika_d_pu_offset: return I_pu_offset;
  case S_pika_d_numa_sensitive: return I_numa_sensitive;
  case S_pika_d_os_threads: return I_os_threads;
  case S_pika_d_cores: return I_cores;
  case S_pika_d_thread_queue_d_high_priority_queues: return I_high_priority_queues;
  default: return I_other;
  }
}
static void ini_put_str(struct inivec *v, int key, bool forced, str_t val)
{
  struct ini_rec *r = &g_ini[ini_index(key)];
  if (r->count < 2) r->count++;   /* saturating: 0, 1, many */
  r->is_num = false; r->sval = val; r->nval = 0;
  g_ini_total++;
}
static void ini_put_num(struct inivec *v, int key, bool forced, size_t val)
{
  struct ini_rec *r = &g_ini[ini_index(key)];
  if (r->count < 2) r->count++;
  r->is_num = true; r->sval = S_empty; r->nval = val;
  g_ini_total++;
}
#define INI_STR(i, v) (g_ini[i].count == 1 && !g_ini[i].is_num && g_ini[i].sval == (v))
#define INI_NUM(i, v) (g_ini[i].count == 1 && g_ini[i].is_num && g_ini[i].nval == (v))

/* ---- --pika:ini handling (vector / map plumbing: opaque) ------------------------------------------------------------------ */
static struct strvec vm_as_vector_string(struct vmap *m, int key)
{
  struct strvec v; v.unused = 0;
  VX_ASSERT(vm_lookup(m, key)->present, "vm[key].as<T>() on an option that is not in the variables_map (boost::bad_any_cast)");
  return v;
}
static void vec_append_all(struct inivec *dst, struct strvec *src)
{
  if (g_ini_total != 0) g_user_ini_late = true;
  g_user_ini_copied++;
}
/* manage_config::add (contract proved by unit cfgmap.add): every key the vector defines ends up with its last definition there,
 * whether or not the map held the key before; keys the vector does not mention are untouched */
static void cfg_add(struct cfgmap *m, struct strvec *src)
{
  if (nondet_bool()) init_cfg_entry(&m->ignore_process_mask);
  if (nondet_bool()) init_cfg_entry(&m->other);
  g_user_ini_added++;
}
/* from_string<int> with default; a numeral beyond INT_MAX does not convert */
static int cfg_get_int(struct cfgmap *m, int key, int dflt)
{
  struct cfg_entry *e = cfg_lookup(m, key);
  return (CFG_USABLE_NUM(*e) && TOK_NUM(e->val) <= (size_t) INT_MAX) ? (int) TOK_NUM(e->val) : dflt;
}
static int get_entry_as_int(struct rtcfg *m, int key, int dflt)
{
  struct cfg_entry *e = rt_lookup(m, key);
  return (e->present && TOK_NUM_OK(e->val) && TOK_NUM(e->val) <= (size_t) INT_MAX) ? (int) TOK_NUM(e->val) : dflt;
}
/* contract proved by unit rtcfg.get_entry_as.size_t */
static size_t get_entry_as_size_t(struct rtcfg *m, int key, size_t dflt)
{
  struct cfg_entry *e = rt_lookup(m, key);
  return (e->present && TOK_NUM_OK(e->val)) ? TOK_NUM(e->val) : dflt;
}
#define RT_STR(field, lit) (self->rtcfg_.field.present ? self->rtcfg_.field.val : (lit))
#define RT_NUM(field, d) ((self->rtcfg_.field.present && TOK_NUM_OK(self->rtcfg_.field.val)) ? TOK_NUM(self->rtcfg_.field.val) : (size_t) (d))

/* ---- the resolution functions as T stubs ------------------------------------------------------------------------------------ */
static struct cfgmap *g_cfgmap;
static struct vmap *g_vm;
#define STUB_STR(r) do { if ((r).calls < 2) (r).calls++; (r).dflt = default_; if (cfgmap != g_cfgmap || vm != g_vm) g_args_ok = false; \
    if ((r).may_throw && nondet_bool()) { vx_callee_throw(EXC_command_line_error); return S_empty; } return (r).result; } while (0)
#define STUB_NUM(r) do { if ((r).calls < 2) (r).calls++; (r).dflt = default_; if (cfgmap != g_cfgmap || vm != g_vm) g_args_ok = false; \
    if ((r).may_throw && nondet_bool()) { vx_callee_throw(EXC_command_line_error); return 0; } return (r).result; } while (0)
static str_t handle_process_mask(struct cfgmap *cfgmap, struct vmap *vm, str_t default_, bool use) { g_pm_use_arg = use; STUB_STR(g_r_process_mask); }
static str_t handle_scheduler(struct cfgmap *cfgmap, struct vmap *vm, str_t default_) { STUB_STR(g_r_scheduler); }
static str_t handle_affinity(struct cfgmap *cfgmap, struct vmap *vm, str_t default_) { STUB_STR(g_r_affinity); }
static str_t handle_affinity_bind(struct cfgmap *cfgmap, struct vmap *vm, str_t default_) { STUB_STR(g_r_bind); }
static size_t handle_pu_step(struct cfgmap *cfgmap, struct vmap *vm, size_t default_) { STUB_NUM(g_r_pu_step); }
static size_t handle_pu_offset(struct cfgmap *cfgmap, struct vmap *vm, size_t default_) { STUB_NUM(g_r_pu_offset); }
static size_t handle_numa_sensitive(struct cfgmap *cfgmap, struct vmap *vm, size_t default_) { STUB_NUM(g_r_numa); }
static size_t handle_num_threads(struct cfgmap *cfgmap, const struct rtcfg *rtcfg, struct vmap *vm, bool use)
{
  size_t default_ = 0;
  g_nt_use_arg = use;
  g_nt_rtcfg_ok = (rtcfg == &vx_self->rtcfg_);
  STUB_NUM(g_r_threads);
}
static size_t handle_num_cores(struct cfgmap *cfgmap, struct vmap *vm, size_t num_threads, bool use)
{
  size_t default_ = num_threads;
  g_nc_use_arg = use;
  STUB_NUM(g_r_cores);
}

/* ---- validity checks (units check.*): called on the members; may throw ------------------------------------------------------ */
static void check_affinity_domain(const struct clh *self)
{
  if (g_chk_domain < 2) g_chk_domain++;
  if (g_r_affinity.calls != 1 || self->affinity_domain_ != g_r_affinity.result) g_chk_on_resolved = false;
  if (nondet_bool()) vx_callee_throw(EXC_command_line_error);
}
static void check_pu_step(const struct clh *self)
{
  if (g_chk_step < 2) g_chk_step++;
  if (g_r_pu_step.calls != 1 || self->pu_step_ != g_r_pu_step.result) g_chk_on_resolved = false;
  if (nondet_bool()) vx_callee_throw(EXC_command_line_error);
}
static void check_pu_offset(const struct clh *self)
{
  if (g_chk_offset < 2) g_chk_offset++;
  if (g_r_pu_offset.calls != 1 || self->pu_offset_ != g_r_pu_offset.result) g_chk_on_resolved = false;
  if (nondet_bool()) vx_callee_throw(EXC_command_line_error);
}
static void check_affinity_description(const struct clh *self)
{
  if (g_chk_descr < 2) g_chk_descr++;
  if (g_r_bind.calls != 1 || g_r_pu_step.calls != 1 || g_r_pu_offset.calls != 1 || g_r_affinity.calls != 1 ||
      self->pu_step_ != g_r_pu_step.result || self->pu_offset_ != g_r_pu_offset.result ||
      self->affinity_domain_ != g_r_affinity.result ||
      (g_r_bind.result != S_empty && self->affinity_bind_ != g_r_bind.result)) g_chk_on_resolved = false;
  if (nondet_bool()) vx_callee_throw(EXC_command_line_error);
}

/* ---- process mask installation --------------------------------------------------------------------------------------------- */
struct topology { int unused; };
struct mask { str_t parsed_from; };
static struct topology g_topology;
static struct topology *get_topology(void) { return &g_topology; }
/* from_string<mask_type>(s): throws bad_lexical_cast unless s is a well-formed mask (arbitrary per call site here) */
static struct mask from_string_mask_type(str_t s)
{
  struct mask m; m.parsed_from = s;
  if (nondet_bool()) vx_callee_throw(EXC_bad_lexical_cast);
  return m;
}
static void topo_set_cpubind_mask_main_thread(struct topology *t, struct mask m)
{
  if (g_mask_set < 2) g_mask_set++;
  g_mask_set_from = m.parsed_from;
}
static void update_logging_settings(struct clh *self, struct vmap *vm, struct inivec *ini_config) { g_logging_calls++; }

#define ARG_FRAME vx_exc, g_exc_kind, g_throws, g_callee_threw, G, self->num_threads_, self->num_cores_, self->pu_step_, \
    self->pu_offset_, self->numa_sensitive_, self->scheduler_, self->affinity_domain_, self->affinity_bind_, \
    self->process_mask_, self->use_process_mask_, cfgmap->ignore_process_mask, cfgmap->other
#define NO_OFFSET ((size_t) -1)
/* affinity_bind_ at the end: the resolved description, or the built-in default "balanced" if neither a binding nor a
 * pu-step / pu-offset was given */
#define BIND_DEFAULTED (g_r_bind.result == S_empty && g_r_pu_step.result == 1 && g_r_pu_offset.result == NO_OFFSET)
#define FINAL_BIND (g_r_bind.result != S_empty ? g_r_bind.result : BIND_DEFAULTED ? S_balanced : S_empty)
#define IGNORE_MASK (vm->ignore_process_mask.present || \
    ((CFG_USABLE_NUM(cfgmap->ignore_process_mask) && TOK_NUM(cfgmap->ignore_process_mask.val) <= (size_t) INT_MAX) ? TOK_NUM(cfgmap->ignore_process_mask.val) > 0 : \
     ((self->rtcfg_.ignore_process_mask.present && TOK_NUM_OK(self->rtcfg_.ignore_process_mask.val) && TOK_NUM(self->rtcfg_.ignore_process_mask.val) <= (size_t) INT_MAX) ? TOK_NUM(self->rtcfg_.ignore_process_mask.val) > 0 : false)))

//@FUNC
void handle_arguments(struct clh *self, struct cfgmap *cfgmap, struct vmap *vm, struct inivec *ini_config)
__CPROVER_requires(self == vx_self && cfgmap == g_cfgmap && vm == g_vm && !vx_exc && g_args_ok && g_chk_on_resolved && !g_user_ini_late && g_ini_total == 0)
/* every setting is resolved exactly once, through the caller's command line and configuration map */
__CPROVER_ensures(!vx_exc ==> (g_args_ok && g_nt_rtcfg_ok && g_r_process_mask.calls == 1 && g_r_scheduler.calls == 1 && g_r_affinity.calls == 1 && g_r_bind.calls == 1 && g_r_pu_step.calls == 1 && g_r_pu_offset.calls == 1 && g_r_numa.calls == 1 && g_r_threads.calls == 1 && g_r_cores.calls == 1))
/* the default handed to each resolution function is the runtime-configuration entry (environment level), else the built-in literal */
__CPROVER_ensures(!vx_exc ==> (g_r_process_mask.dflt == RT_STR(process_mask, S_empty) && g_r_scheduler.dflt == RT_STR(scheduler, S_local_m_priority_m_fifo) && g_r_affinity.dflt == RT_STR(affinity, S_pu) && g_r_bind.dflt == RT_STR(bind, S_empty)))
__CPROVER_ensures(!vx_exc ==> (g_r_pu_step.dflt == RT_NUM(pu_step, 1) && g_r_pu_offset.dflt == RT_NUM(pu_offset, NO_OFFSET) && g_r_numa.dflt == RT_NUM(numa_sensitive, 0) && g_r_cores.dflt == g_r_threads.result))
/* the process mask is used unless --pika:ignore-process-mask is given or the configuration map, else the environment level, says so */
__CPROVER_ensures(!vx_exc ==> (self->use_process_mask_ == !IGNORE_MASK && g_pm_use_arg == self->use_process_mask_ && g_nt_use_arg == self->use_process_mask_ && g_nc_use_arg == self->use_process_mask_))
/* the resolved value is the one stored ... */
__CPROVER_ensures(!vx_exc ==> (self->process_mask_ == g_r_process_mask.result && self->scheduler_ == g_r_scheduler.result && self->affinity_domain_ == g_r_affinity.result && self->affinity_bind_ == FINAL_BIND))
__CPROVER_ensures(!vx_exc ==> (self->pu_step_ == g_r_pu_step.result && self->pu_offset_ == g_r_pu_offset.result && self->numa_sensitive_ == g_r_numa.result && self->num_threads_ == g_r_threads.result && self->num_cores_ == g_r_cores.result))
/* ... and the one written, exactly once, under its key */
__CPROVER_ensures(!vx_exc ==> (INI_NUM(I_ignore_process_mask, self->use_process_mask_ ? 0 : 1) && INI_STR(I_process_mask, g_r_process_mask.result) && INI_STR(I_scheduler, g_r_scheduler.result) && INI_STR(I_affinity, g_r_affinity.result)))
__CPROVER_ensures(!vx_exc ==> (INI_NUM(I_pu_step, g_r_pu_step.result) && INI_NUM(I_pu_offset, g_r_pu_offset.result == NO_OFFSET ? 0 : g_r_pu_offset.result) && INI_NUM(I_numa_sensitive, g_r_numa.result) && INI_NUM(I_os_threads, g_r_threads.result) && INI_NUM(I_cores, g_r_cores.result)))
__CPROVER_ensures(!vx_exc ==> (FINAL_BIND == S_empty ? g_ini[I_bind].count == 0 : INI_STR(I_bind, FINAL_BIND)))
/* the user's own --pika:ini entries are copied (and added to the configuration map) before, never after, the resolved ones */
__CPROVER_ensures(!vx_exc ==> (!g_user_ini_late && g_user_ini_copied == (vm->ini.present ? 1 : 0) && g_user_ini_added == g_user_ini_copied))
/* validity checks run exactly once each, on the resolved values */
__CPROVER_ensures(!vx_exc ==> (g_chk_domain == 1 && g_chk_step == 1 && g_chk_offset == 1 && g_chk_descr == 1 && g_chk_on_resolved))
/* a non-empty process mask is parsed and installed exactly once, an empty one never */
__CPROVER_ensures(!vx_exc ==> (g_r_process_mask.result == S_empty ? g_mask_set == 0 : (g_mask_set == 1 && g_mask_set_from == g_r_process_mask.result)))
/* --pika:high-priority-threads: more queues than threads, or a scheduler without priority queues, stop start-up */
__CPROVER_ensures((!vx_exc && self->vm_.high_priority_threads.present) ==> ((self->vm_.high_priority_threads.nval == NO_OFFSET || self->vm_.high_priority_threads.nval <= g_r_threads.result) && (g_r_scheduler.result == S_local_m_priority || g_r_scheduler.result == S_abp_m_priority) && INI_NUM(I_high_priority_queues, self->vm_.high_priority_threads.nval)))
__CPROVER_ensures((!vx_exc && !self->vm_.high_priority_threads.present) ==> g_ini[I_high_priority_queues].count == 0)
/* handle_arguments itself raises an error only for such a --pika:high-priority-threads (everything else is rejected by the callees) */
__CPROVER_ensures((vx_exc && !g_callee_threw) ==> (self->vm_.high_priority_threads.present && ((self->vm_.high_priority_threads.nval != NO_OFFSET && self->vm_.high_priority_threads.nval > g_r_threads.result) || !(g_r_scheduler.result == S_local_m_priority || g_r_scheduler.result == S_abp_m_priority))))
__CPROVER_assigns(ARG_FRAME)
//@LIFT body

static void init_res_str(struct res_str *r) { r->calls = 0; r->dflt = S_empty; r->result = nondet_tok(); r->may_throw = nondet_bool(); }
static void init_res_num(struct res_num *r) { r->calls = 0; r->dflt = 0; r->result = nondet_size(); r->may_throw = nondet_bool(); }
void harness(void)
{
  struct clh c;
  struct cfgmap cm;
  struct vmap pvm;
  struct inivec iv;
  int i;
  init_tokens();
  init_cfgmap(&cm);
  init_vmap(&pvm);
  init_vmap(&c.vm_);
  init_rtcfg(&c.rtcfg_);
  c.num_threads_ = 1; c.num_cores_ = 1; c.pu_step_ = 1; c.pu_offset_ = NO_OFFSET; c.numa_sensitive_ = 0;
  c.use_process_mask_ = true;
  c.scheduler_ = S_empty; c.affinity_domain_ = S_empty; c.affinity_bind_ = S_empty; c.process_mask_ = S_empty;
  iv.unused = 0;
  vx_self = &c;
  g_cfgmap = &cm;
  /* call() invokes handle_arguments twice: with a preliminary variables_map, then with the member vm_ */
  g_vm = nondet_bool() ? &pvm : &c.vm_;
  for (i = 0; i < N_INI; i++) { g_ini[i].count = 0; g_ini[i].is_num = false; g_ini[i].sval = S_empty; g_ini[i].nval = 0; }
  g_ini_total = 0; g_user_ini_late = false; g_user_ini_copied = 0; g_user_ini_added = 0;
  init_res_str(&g_r_process_mask); init_res_str(&g_r_scheduler); init_res_str(&g_r_affinity); init_res_str(&g_r_bind);
  init_res_num(&g_r_pu_step); init_res_num(&g_r_pu_offset); init_res_num(&g_r_numa); init_res_num(&g_r_threads);
  init_res_num(&g_r_cores);
  g_pm_use_arg = false; g_nt_use_arg = false; g_nc_use_arg = false; g_args_ok = true; g_nt_rtcfg_ok = false;
  g_chk_domain = 0; g_chk_descr = 0; g_chk_offset = 0; g_chk_step = 0; g_chk_on_resolved = true;
  g_mask_set = 0; g_mask_set_from = S_empty; g_logging_calls = 0;
  handle_arguments(&c, &cm, g_vm, &iv);
  if (vx_exc) { VX_REACH("rejected"); if (!g_callee_threw) VX_REACH("rejected_high_priority_threads"); }
  else
  {
    VX_REACH("accepted");
    if (!c.use_process_mask_) VX_REACH("process_mask_ignored");
    if (c.use_process_mask_ && c.process_mask_ != S_empty) VX_REACH("explicit_process_mask_installed");
    if (g_r_bind.result != S_empty) VX_REACH("explicit_binding");
    if (c.affinity_bind_ == S_balanced && g_r_bind.result == S_empty) VX_REACH("binding_defaults_to_balanced");
    if (c.affinity_bind_ == S_empty) VX_REACH("no_binding_with_pu_step_or_offset");
    if (c.pu_offset_ != NO_OFFSET) VX_REACH("explicit_pu_offset");
    if (c.vm_.high_priority_threads.present) VX_REACH("high_priority_queues");
    if (g_vm->ini.present) VX_REACH("user_ini_entries");
  }
}
