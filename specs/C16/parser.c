/* C16 -- pika::detail::get_commandline_parser (parse_command_line.cpp): the program_options parser is put into "allow unregistered"
 * mode exactly when the error mode's BASE value is allow_unregistered, whatever modifier flags ride along (report_missing_config_file
 * is still set on the final and the late parse of a start-up; ignore_aliases is stripped by the callers).  With
 * pika.commandline.allow_unknown=1 this is what lets non-pika arguments reach the application instead of stopping start-up.
 * (written by main after seeded change C16-4 was missed; F contract, loop free, full domain) */
#include "vx.h"
enum { CEM_return_on_error = CEM_V_return_on_error, CEM_rethrow_on_error = CEM_V_rethrow_on_error, CEM_allow_unregistered = CEM_V_allow_unregistered,
       CEM_ignore_aliases = CEM_V_ignore_aliases, CEM_report_missing_config_file = CEM_V_report_missing_config_file };
#define CEM_FLAGS (CEM_ignore_aliases | CEM_report_missing_config_file)
struct parser { long allow_calls; };
static struct parser *g_p;
static struct parser *parser_allow_unregistered(struct parser *p) { VX_ASSERT(p == g_p, "the caller's parser"); if (p->allow_calls < 2) p->allow_calls++; return p; }

//@FUNC
struct parser *get_commandline_parser(struct parser *p, int mode)
__CPROVER_requires(p == g_p && p->allow_calls == 0 && (mode & CEM_ignore_aliases) == 0)
__CPROVER_requires((mode & ~CEM_FLAGS) == CEM_return_on_error || (mode & ~CEM_FLAGS) == CEM_rethrow_on_error || (mode & ~CEM_FLAGS) == CEM_allow_unregistered)
/* unregistered options are allowed iff the base mode says so -- with or without report_missing_config_file */
__CPROVER_ensures(__CPROVER_return_value == p && p->allow_calls == (((mode & ~CEM_FLAGS) == CEM_allow_unregistered) ? 1 : 0))
__CPROVER_assigns(p->allow_calls)
//@LIFT body

void harness(void)
{
  struct parser ps; ps.allow_calls = 0; g_p = &ps;
  int mode = nondet_int();
  get_commandline_parser(&ps, mode);
  if (ps.allow_calls == 1 && (mode & CEM_report_missing_config_file)) VX_REACH("allowed_with_report_missing_config_file");
  if (ps.allow_calls == 1 && !(mode & CEM_report_missing_config_file)) VX_REACH("allowed_plain");
  if (ps.allow_calls == 0) VX_REACH("strict");
}
