/* C16 -- "later ini entries override earlier ones": the ini FILES are merged into the registry in increasing precedence by
 * init_ini_data_base (runtime_configuration/src/init_ini_data.cpp): <prefix>/share/pika/pika.ini ..., ./.pika.ini, $PIKA_INI, /etc/pika.ini,
 * ~/.pika.ini, $PWD/.pika.ini, the --pika:config file.  A file that exists must be merged whatever the earlier locations produced
 * (the `result` flag only tells the caller whether ANY file was found).  This unit: the fragment from "./.pika.ini" to "$PWD/.pika.ini"
 * (five locations), T contract: every location is consulted exactly once, in this order.
 * (written by main after seeded change C16-9 was missed) */
#include "vx.h"
enum { LOC_NONE = 0, LOC_CWD = 1, LOC_PIKA_INI = 2, LOC_ETC = 3, LOC_HOME = 4, LOC_PWD = 5 };
static int g_last_loc; static unsigned g_visited; static long g_visits; static bool g_any_found; static bool g_order_ok, g_once_ok;
/* handle_ini_file / handle_ini_file_env: read the file if it exists and MERGE it into ini (later entries override); true iff it was read */
static bool handle_ini_file_loc(int loc)
{
  if (loc <= g_last_loc) g_order_ok = false;
  if (g_visited & (1u << loc)) g_once_ok = false;
  g_last_loc = loc; g_visited |= 1u << loc; if (g_visits < 8) g_visits++;
  bool found = nondet_bool();
  if (found) g_any_found = true;
  return found;
}
static bool result;                 /* the local `bool result` of init_ini_data_base (declared in front of the fragment) */
static bool g_result0;
//@FUNC
void ini_locations(void)
__CPROVER_requires(g_visited == 0 && g_visits == 0 && g_last_loc == LOC_NONE && g_order_ok && g_once_ok && !g_any_found && result == g_result0)
/* every location is consulted, once, in increasing precedence -- whatever the earlier ones returned */
__CPROVER_ensures(g_visited == ((1u << LOC_CWD) | (1u << LOC_PIKA_INI) | (1u << LOC_ETC) | (1u << LOC_HOME) | (1u << LOC_PWD)))
__CPROVER_ensures(g_order_ok && g_once_ok && g_visits == 5)
/* the flag tells whether any file was found so far */
__CPROVER_ensures(result == (g_result0 || g_any_found))
__CPROVER_assigns(result, g_last_loc, g_visited, g_visits, g_any_found, g_order_ok, g_once_ok)
{
//@LIFT body
}

void harness(void)
{
  g_last_loc = LOC_NONE; g_visited = 0; g_visits = 0; g_any_found = false; g_order_ok = g_once_ok = true;
  result = nondet_bool(); g_result0 = result;
  ini_locations();
  VX_REACH("returned");
  if (g_result0) VX_REACH("a_lower_precedence_file_was_already_loaded");
}
