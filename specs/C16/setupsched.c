/* C16 -- resource::detail::partitioner::setup_schedulers (resource_partitioner/src/detail_partitioner.cpp): the resolved value of
 * pika.scheduler (command line / environment / ini, resolved by handle_scheduler: unit handlers.*) becomes the scheduling policy the
 * pools of the RUNNING runtime are created with.  The value is matched as a PREFIX of the documented names, first match wins; for the
 * property the point is: every documented name, written out in full, selects the policy of that name ("local" is itself a prefix of
 * "local-priority-fifo", "static" of "static-priority": the order of the tests matters), a value that is a prefix of no name stops
 * start-up, and only pools without an explicitly chosen scheduler get the default.
 * (written by main after seeded change C16-6 was missed; F contract over the 8 names + I contract over a symbolic number of pools) */
#include "vx.h"
enum { SP_user_defined = -2, SP_unspecified = -1, SP_local = 0, SP_local_priority_fifo = 1, SP_local_priority_lifo = 2, SP_static_ = 3,
       SP_static_priority = 4, SP_abp_priority_fifo = 5, SP_abp_priority_lifo = 6, SP_shared_priority = 7 };
/* the documented names of --pika:scheduler, in the order of the policy enumerators */
enum { N_local = 0, N_local_priority_fifo, N_local_priority_lifo, N_static, N_static_priority, N_abp_priority_fifo, N_abp_priority_lifo, N_shared_priority, N_COUNT };
/* PREFIX_TABLE[a][b]: name a (written in full) is a prefix of name b -- computed from the names by specs/C16/spec.py */
static const bool g_prefix[N_COUNT][N_COUNT] = PREFIX_TABLE;
struct str { int exact; bool other_prefix[N_COUNT]; };   /* exact: index of the documented name the value IS, or -1 (then: arbitrary prefix relations) */
struct mutex { bool locked; };
struct partitioner { size_t npools; struct mutex mtx_; };
static struct str g_value;
static bool vx_exc;
static size_t g_v; static int g_v_policy, g_v_policy0;   /* victim pool */
static int g_default_seen; static bool g_default_seen_valid;

static struct str rtcfg_get_scheduler(struct partitioner *self) { return g_value; }
/* 0 == std::string(NAME).find(value): value is a prefix of NAME */
static bool value_is_prefix_of(struct str const *v, int name)
{
  VX_ASSERT(name >= 0 && name < N_COUNT, "a documented scheduler name");
  return v->exact >= 0 ? g_prefix[v->exact][name] : v->other_prefix[name];
}
static size_t pools_size(struct partitioner *self) { return self->npools; }
static int pool_policy_get(struct partitioner *self, size_t i) { VX_ASSERT(self->mtx_.locked && i < self->npools, "pool data read under the partitioner lock, index in range"); return i == g_v ? g_v_policy : nondet_int(); }
static void pool_policy_set(struct partitioner *self, size_t i, int p)
{
  VX_ASSERT(self->mtx_.locked && i < self->npools, "pool data written under the partitioner lock, index in range");
  g_default_seen = p; g_default_seen_valid = true;
  if (i == g_v) { VX_ASSERT(g_v_policy == SP_unspecified, "a scheduler chosen explicitly for a pool is never overridden by the default"); g_v_policy = p; }
}
static void mutex_lock(struct mutex *m) { VX_ASSERT(!m->locked, "lock of a held mutex"); m->locked = true; }
static void mutex_unlock(struct mutex *m) { m->locked = false; }
#define POLICY_OF_NAME(n) (n)     /* the names are listed in the order of the enumerators local = 0 .. shared_priority = 7 */

//@FUNC
void setup_schedulers(struct partitioner *self)
__CPROVER_requires(!vx_exc && !self->mtx_.locked && g_v_policy == g_v_policy0 && g_value.exact >= -1 && g_value.exact < N_COUNT && !g_default_seen_valid)
/* a documented name written in full selects the policy of that name */
__CPROVER_ensures((g_value.exact >= 0) ==> (!vx_exc && (g_default_seen_valid ==> g_default_seen == POLICY_OF_NAME(g_value.exact))))
__CPROVER_ensures((g_value.exact >= 0 && g_v < self->npools && g_v_policy0 == SP_unspecified) ==> g_v_policy == POLICY_OF_NAME(g_value.exact))
/* pools with an explicitly chosen scheduler keep it; a bad value stops start-up and changes nothing */
__CPROVER_ensures((g_v_policy0 != SP_unspecified || g_v >= self->npools || vx_exc) ==> g_v_policy == g_v_policy0)
__CPROVER_ensures((!vx_exc && g_v < self->npools) ==> g_v_policy != SP_unspecified)
__CPROVER_ensures(!self->mtx_.locked)
__CPROVER_assigns(vx_exc, self->mtx_.locked, g_v_policy, g_default_seen, g_default_seen_valid)
//@LIFT body

void harness(void)
{
  struct partitioner p; p.npools = nondet_size(); p.mtx_.locked = false;
  g_value.exact = nondet_int();
  for (int k = 0; k < N_COUNT; k++) g_value.other_prefix[k] = nondet_bool();
  g_v = nondet_size(); g_v_policy0 = nondet_int(); g_v_policy = g_v_policy0; vx_exc = false; g_default_seen = 0; g_default_seen_valid = false;
  __CPROVER_assume(g_value.exact >= -1 && g_value.exact < N_COUNT);
  setup_schedulers(&p);
  if (g_value.exact == N_local && g_v < p.npools && g_v_policy0 == SP_unspecified) VX_REACH("local_written_in_full");
  if (g_value.exact == N_static_priority) VX_REACH("static_priority_written_in_full");
  if (vx_exc) VX_REACH("bad_value_stops_startup");
  if (g_value.exact == -1 && !vx_exc) VX_REACH("abbreviation_accepted");
  if (g_v < p.npools && g_v_policy0 != SP_unspecified) VX_REACH("explicit_pool_scheduler_kept");
}
