/* C16 -- runtime_configuration::reconfigure(): the values the RUNNING runtime uses (the cached stack sizes handed to
 * every scheduler by thread_manager via get_stack_size()) are re-derived from the configuration AFTER the command
 * line / --pika:ini definitions have been merged into it (T-contract). */
#include "vx.h"
struct rtcfg { long small_stacksize, medium_stacksize, large_stacksize, huge_stacksize; int pika_ini_file; int cmdline_ini_defs; };
static long g_seq;                 /* ghost clock */
static long g_t_pre, g_t_prelog, g_t_post;      /* when the three ini passes ran (0 = not yet) */
static long g_n_post; static int g_post_file, g_post_defs;
static long g_calls[4], g_t_init[4], g_val[4];  /* init_{small,medium,large,huge}_stack_size: calls, time, value returned */
static void pre_initialize_ini(struct rtcfg *self) { g_t_pre = ++g_seq; }
static void pre_initialize_logging_ini(struct rtcfg *self) { g_t_prelog = ++g_seq; }
static void post_initialize_ini(struct rtcfg *self, int file, int defs) { g_t_post = ++g_seq; if (g_n_post < 2) g_n_post++; g_post_file = file; g_post_defs = defs; }
/* reads "pika.stacks.<class>_size" from the configuration as it is NOW */
static long init_stack_size(int k) { if (g_calls[k] < 2) g_calls[k]++; g_t_init[k] = ++g_seq; g_val[k] = nondet_long(); return g_val[k]; }
static long init_small_stack_size(struct rtcfg *self) { return init_stack_size(0); }
static long init_medium_stack_size(struct rtcfg *self) { return init_stack_size(1); }
static long init_large_stack_size(struct rtcfg *self) { return init_stack_size(2); }
static long init_huge_stack_size(struct rtcfg *self) { return init_stack_size(3); }
#define FRESH(k, member) (g_calls[k] == 1 && g_t_init[k] > g_t_post && self->member == g_val[k])

//@FUNC
void reconfigure(struct rtcfg *self)
__CPROVER_requires(g_seq == 0 && g_n_post == 0 && g_calls[0] == 0 && g_calls[1] == 0 && g_calls[2] == 0 && g_calls[3] == 0)
/* the command-line definitions are merged exactly once, with this object's ini file and definitions */
__CPROVER_ensures(g_n_post == 1 && g_post_file == self->pika_ini_file && g_post_defs == self->cmdline_ini_defs && g_t_pre < g_t_post && g_t_prelog < g_t_post)
/* every cached stack size is the value read from the configuration after that merge */
__CPROVER_ensures(FRESH(0, small_stacksize) && FRESH(1, medium_stacksize) && FRESH(2, large_stacksize) && FRESH(3, huge_stacksize))
__CPROVER_assigns(g_seq, g_t_pre, g_t_prelog, g_t_post, g_n_post, g_post_file, g_post_defs, __CPROVER_object_whole(g_calls), __CPROVER_object_whole(g_t_init), __CPROVER_object_whole(g_val), self->small_stacksize, self->medium_stacksize, self->large_stacksize, self->huge_stacksize)
//@LIFT body

void harness(void)
{
  struct rtcfg c;
  c.small_stacksize = nondet_long(); c.medium_stacksize = nondet_long(); c.large_stacksize = nondet_long(); c.huge_stacksize = nondet_long();
  c.pika_ini_file = nondet_int(); c.cmdline_ini_defs = nondet_int();
  g_seq = 0; g_t_pre = g_t_prelog = g_t_post = 0; g_n_post = 0; g_post_file = g_post_defs = 0;
  for (int k = 0; k < 4; k++) { g_calls[k] = 0; g_t_init[k] = 0; g_val[k] = 0; }
  reconfigure(&c);
  VX_REACH("reconfigured");
}
