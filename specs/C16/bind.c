/* C16 unit: handle_affinity_bind.  --pika:bind is a composing option (std::vector<std::string>): its command-line value is
 * the list of all occurrences joined with ';'.  Strings stay opaque: the string under construction is the token T_BUILD
 * (S_empty while nothing non-empty has been appended); which pieces were appended, in which order, is ghost state.  The
 * vector has an arbitrary length; ONE symbolic element g_v (the victim) is tracked precisely, so "every element is
 * appended exactly once, at its own position" is decided for all elements. */
#include "c16.h"
#define VX_RET 0
enum { T_BUILD = 50, T_VICTIM = 51, T_ELEM = 52, S_semicolon = 53 };

struct strvec { int unused; };
static size_t g_vec_n;          /* number of --pika:bind occurrences */
static size_t g_v;              /* the victim's index */
static bool g_v_empty;          /* the victim is the empty string */
static size_t g_cur_index;
static str_t g_cur_tok;
static bool g_cur_fetched;      /* an element has been fetched and not yet appended */
static size_t g_elems;          /* elements appended so far */
static long g_v_appended;       /* how often the victim was appended (0, 1, many) */
static size_t g_v_pos;          /* number of elements appended before the victim */
static bool g_b_ok;             /* only fetched elements were appended, each right after its fetch, in index order */
static bool g_b_nonempty;
static bool g_last_was_sep, g_sep_ok;   /* a separator is appended only after a non-empty prefix and never twice in a row */
static long g_seps;

static struct strvec vm_as_vector_string(struct vmap *m, int key)
{
  struct strvec v; v.unused = 0;
  VX_ASSERT(vm_lookup(m, key)->present, "vm[key].as<T>() on an option that is not in the variables_map (boost::bad_any_cast)");
  return v;
}
static size_t strvec_size(struct strvec *v) { return g_vec_n; }
static str_t strvec_at(struct strvec *v, size_t i)
{
  VX_ASSERT(i < g_vec_n, "vector element access inside the vector");
  g_cur_index = i;
  g_cur_fetched = true;
  g_cur_tok = (i == g_v) ? (g_v_empty ? S_empty : T_VICTIM) : (nondet_bool() ? S_empty : T_ELEM);
  return g_cur_tok;
}
static str_t str_new(void) { return S_empty; }
/* x += piece */
static str_t str_append(str_t x, str_t piece)
{
  VX_ASSERT(x == (g_b_nonempty ? T_BUILD : S_empty), "model: pieces are appended to the string under construction only");
  if (piece == S_semicolon)
  {
    if (!g_b_nonempty || g_last_was_sep) g_sep_ok = false;
    g_last_was_sep = true;
    if (g_seps < 2) g_seps++;
    g_b_nonempty = true;
  }
  else
  {
    if (!g_cur_fetched || piece != g_cur_tok || g_cur_index != g_elems) g_b_ok = false;
    if (g_cur_fetched && g_cur_index == g_v) { if (g_v_appended < 2) g_v_appended++; g_v_pos = g_elems; }
    g_elems++;
    g_cur_fetched = false;
    g_last_was_sep = false;
    if (piece != S_empty) g_b_nonempty = true;
  }
  return g_b_nonempty ? T_BUILD : S_empty;
}
#define BUILT (g_b_nonempty ? T_BUILD : S_empty)
#define BIND_FRAME g_cur_index, g_cur_tok, g_cur_fetched, g_elems, g_v_appended, g_v_pos, g_b_ok, g_b_nonempty, g_last_was_sep, g_sep_ok, g_seps

//@FUNC
str_t handle_affinity_bind(struct cfgmap *cfgmap, struct vmap *vm, str_t default_)
__CPROVER_requires(g_elems == 0 && g_v_appended == 0 && g_b_ok && !g_b_nonempty && !g_last_was_sep && g_sep_ok && g_seps == 0 && !g_cur_fetched && !vx_exc)
__CPROVER_ensures(!vx_exc)
/* command line present: the result is built from exactly the occurrences of the option, each once, in order, joined by ';' */
__CPROVER_ensures(vm->bind.present ==> (__CPROVER_return_value == BUILT && g_b_ok && g_sep_ok && !g_last_was_sep && g_elems == g_vec_n))
__CPROVER_ensures((vm->bind.present && g_v < g_vec_n) ==> (g_v_appended == 1 && g_v_pos == g_v))
/* otherwise: configuration map, else the default; nothing is built */
__CPROVER_ensures(!vm->bind.present ==> (g_elems == 0 && g_seps == 0 && __CPROVER_return_value == (CFG_USABLE_STR(cfgmap->bind) ? cfgmap->bind.val : default_)))
__CPROVER_assigns(BIND_FRAME)
//@LIFT body

void harness(void)
{
  struct cfgmap cm;
  struct vmap vm;
  init_tokens();
  init_cfgmap(&cm);
  init_vmap(&vm);
  g_vec_n = nondet_size();
  g_v = nondet_size();
  g_v_empty = nondet_bool();
  g_cur_index = 0; g_cur_tok = S_empty; g_cur_fetched = false; g_elems = 0; g_v_appended = 0; g_v_pos = 0; g_b_ok = true;
  g_b_nonempty = false; g_last_was_sep = false; g_sep_ok = true; g_seps = 0;
  str_t d = nondet_tok();
  str_t r = handle_affinity_bind(&cm, &vm, d);
  if (vm.bind.present)
  {
    VX_REACH("from_command_line");
    if (g_vec_n >= 2 && g_seps >= 1) VX_REACH("joined");
    if (g_v < g_vec_n && g_v >= 1) VX_REACH("victim_not_first");
    if (r == S_empty && g_vec_n >= 1) VX_REACH("only_empty_occurrences");
  }
  else if (CFG_USABLE_STR(cm.bind)) VX_REACH("from_config_map");
  else VX_REACH("from_default");
}
