/* C16 units: worker-thread / core count resolution (handle_num_threads, handle_num_cores) and the mask-aware defaults
 * the keywords "cores" / "all" resolve to (get_number_of_default_threads, get_number_of_default_cores). */
#include "c16.h"
#define VX_RET 0

/* the mask-aware defaults are opaque inputs here (their computation is the subject of units default_threads/default_cores) */
static size_t g_threads_masked, g_threads_all, g_cores_masked, g_cores_all;
#define DT (use_process_mask ? g_threads_masked : g_threads_all)   /* keyword "all"   */
#define DC (use_process_mask ? g_cores_masked : g_cores_all)       /* keyword "cores" */
#define MAXZ(a, b) ((a) < (b) ? (b) : (a))

#if defined(U_NUM_THREADS) || defined(U_NUM_THREADS_ZERO) || defined(U_NUM_CORES)
static size_t get_number_of_default_threads(bool use_process_mask) { return DT; }
static size_t get_number_of_default_cores(bool use_process_mask) { return DC; }
#endif

/* ---- --pika:threads / pika.os_threads / ${PIKA_THREADS:cores} ---------------------------------------------------------
 * SPECIFICATION (written from the property, evaluated on the ghost sources): a thread-count string is the keyword
 * "cores", the keyword "all" or a numeral; the level below the command line is the configuration map, else the runtime
 * configuration entry (environment / default ini); the built-in default is one thread per PU of the mask ("all"). */
#define KW_OK(t) ((t) == S_cores || (t) == S_all || TOK_NUM_OK(t))
#define KW_VAL(t) ((t) == S_cores ? DC : (t) == S_all ? DT : TOK_NUM(t))
struct nt_spec {
  bool bad_source;     /* some value that was supplied is not a thread count at all */
  bool win_ok;         /* the value that wins is a thread count */
  bool win_supplied;   /* the value that wins was supplied (command line, configuration map, runtime configuration) */
  bool win_is_numeral; /* ... and is a numeral (not a keyword) */
  size_t threads;      /* the value that wins: command line, else lower level, else the built-in default */
  size_t min;          /* pika.force_min_os_threads of the configuration map, else `threads` */
};
static struct nt_spec nt_spec(const struct cfgmap *cfgmap, const struct rtcfg *rtcfg, const struct vmap *vm, bool use_process_mask)
{
  struct nt_spec s;
  bool low_has = CFG_USABLE_STR(cfgmap->os_threads) || rtcfg->os_threads.present;
  str_t low_tok = CFG_USABLE_STR(cfgmap->os_threads) ? cfgmap->os_threads.val : rtcfg->os_threads.val;
  str_t win_tok = vm->threads.present ? vm->threads.sval : low_tok;
  s.win_supplied = vm->threads.present || low_has;
  s.bad_source = (vm->threads.present && !KW_OK(vm->threads.sval)) || (low_has && !KW_OK(low_tok));
  s.win_ok = !s.win_supplied || KW_OK(win_tok);
  s.win_is_numeral = s.win_supplied && TOK_NUM_OK(win_tok);
  s.threads = s.win_supplied ? KW_VAL(win_tok) : DT;
  s.min = CFG_USABLE_NUM(cfgmap->force_min_os_threads) ? TOK_NUM(cfgmap->force_min_os_threads.val) : s.threads;
  return s;
}
#define NT nt_spec(cfgmap, rtcfg, vm, use_process_mask)
#define NT_FRAME vx_exc, g_exc_kind, g_throws, g_fresh_used, __CPROVER_object_whole(g_num_ok), __CPROVER_object_whole(g_num)

#ifdef U_NUM_THREADS
//@FUNC
size_t handle_num_threads(struct cfgmap *cfgmap, const struct rtcfg *rtcfg, struct vmap *vm, bool use_process_mask)
__CPROVER_requires(!vx_exc && g_fresh_used == 0)
/* precedence; pika.force_min_os_threads is a lower bound on the result */
__CPROVER_ensures(!vx_exc ==> __CPROVER_return_value == MAXZ(NT.threads, NT.min))
/* an invalid count is never used */
__CPROVER_ensures(!vx_exc ==> __CPROVER_return_value >= 1)
/* invalid values stop start-up: a winning value that is no thread count, --pika:threads=0, force_min_os_threads == 0 */
__CPROVER_ensures(!NT.win_ok ==> vx_exc)
__CPROVER_ensures((vm->threads.present && !NT.bad_source && NT.threads == 0) ==> vx_exc)
__CPROVER_ensures((!NT.bad_source && NT.min == 0) ==> vx_exc)
/* no spurious start-up failure: an exception means that a supplied value is no count, or the resolved count or bound is 0 */
__CPROVER_ensures(vx_exc ==> (NT.bad_source || NT.threads == 0 || NT.min == 0))
__CPROVER_assigns(NT_FRAME)
//@LIFT body
#endif

#ifdef U_NUM_THREADS_ZERO
//@FUNC
size_t handle_num_threads(struct cfgmap *cfgmap, const struct rtcfg *rtcfg, struct vmap *vm, bool use_process_mask)
__CPROVER_requires(!vx_exc && g_fresh_used == 0)
/* "Invalid values ... stop start-up with an error rather than being ignored": a supplied thread count of 0 is invalid
 * whatever its source (command line, configuration map, environment) */
__CPROVER_ensures((!NT.bad_source && NT.win_is_numeral && NT.threads == 0) ==> vx_exc)
__CPROVER_assigns(NT_FRAME)
//@LIFT body
#endif

/* ---- --pika:cores / pika.cores: the keyword "all" or a numeral; default = the resolved number of threads ---------------- */
#define NC_OK(t) ((t) == S_all || TOK_NUM_OK(t))
#define NC_VAL(t) ((t) == S_all ? DC : TOK_NUM(t))
#ifdef U_NUM_CORES
//@FUNC
size_t handle_num_cores(struct cfgmap *cfgmap, struct vmap *vm, size_t num_threads, bool use_process_mask)
__CPROVER_requires(!vx_exc && g_fresh_used == 0)
__CPROVER_ensures(!vx_exc ==> __CPROVER_return_value == (vm->cores.present ? NC_VAL(vm->cores.sval) : (__CPROVER_old(cfgmap->cores.present) && NC_OK(__CPROVER_old(cfgmap->cores.val))) ? NC_VAL(__CPROVER_old(cfgmap->cores.val)) : num_threads))
/* a command-line value that is no core count stops start-up; nothing else does */
__CPROVER_ensures(vx_exc == (vm->cores.present && !NC_OK(vm->cores.sval)))
__CPROVER_assigns(NT_FRAME, cfgmap->cores)
//@LIFT body
#endif

/* ---- the defaults behind the keywords --------------------------------------------------------------------------------- */
#if defined(U_DEFAULT_THREADS) || defined(U_DEFAULT_CORES)
struct topology { int unused; };
enum { MASK_PROCESS = 1, MASK_CORE = 2 };
struct mask { int kind; size_t core; };   /* threads::detail::mask_type as an opaque token: "the process mask" / "mask of core i" */
static struct topology g_topology;
static size_t g_hw;                /* threads::detail::hardware_concurrency() */
static size_t g_mask_pus;          /* number of PUs in the main thread's cpu-bind mask */
static size_t g_ncores;            /* topology::get_number_of_cores() */
static size_t g_queried, g_hits;   /* cores tested against the process mask so far / of these, the ones that intersect it */
static bool g_order_ok;
static struct topology *get_topology(void) { return &g_topology; }
static size_t hardware_concurrency(void) { return g_hw; }
static struct mask topo_get_cpubind_mask_main_thread(struct topology *t) { struct mask m; m.kind = MASK_PROCESS; m.core = 0; return m; }
static size_t topo_get_number_of_cores(struct topology *t) { return g_ncores; }
static struct mask topo_init_core_affinity_mask_from_core(struct topology *t, size_t c) { struct mask m; m.kind = MASK_CORE; m.core = c; return m; }
static size_t mask_count(struct mask m)
{
  VX_ASSERT(m.kind == MASK_PROCESS, "count() applied to the process mask");
  return g_mask_pus;
}
/* bit_and(core_mask, proc_mask): does core `core_mask.core` have a PU inside the process mask?  (arbitrary per core) */
static bool mask_bit_and(struct mask a, struct mask b)
{
  VX_ASSERT(a.kind == MASK_CORE && b.kind == MASK_PROCESS, "a core's mask is intersected with the process mask");
  if (a.core != g_queried || a.core >= g_ncores) g_order_ok = false;   /* each existing core exactly once, in order */
  g_queried++;
  bool in = nondet_bool();
  if (in) g_hits++;
  return in;
}
#endif

#ifdef U_DEFAULT_THREADS
//@FUNC
size_t get_number_of_default_threads(bool use_process_mask)
/* mask-aware default: the PUs of the process mask, or all PUs of the machine if the mask is ignored */
__CPROVER_ensures(__CPROVER_return_value == (use_process_mask ? g_mask_pus : g_hw))
//@LIFT body
#endif

#ifdef U_DEFAULT_CORES
//@FUNC
size_t get_number_of_default_cores(bool use_process_mask)
__CPROVER_requires(g_queried == 0 && g_hits == 0 && g_order_ok)
/* mask-aware default: the number of cores that have a PU in the process mask, or all cores if the mask is ignored */
__CPROVER_ensures(!use_process_mask ==> (__CPROVER_return_value == g_ncores && g_queried == 0))
__CPROVER_ensures(use_process_mask ==> (__CPROVER_return_value == g_hits && g_queried == g_ncores && g_order_ok))
__CPROVER_assigns(g_queried, g_hits, g_order_ok)
//@LIFT body
#endif

void harness(void)
{
  init_tokens();
  bool use = nondet_bool();
#if defined(U_NUM_THREADS) || defined(U_NUM_THREADS_ZERO) || defined(U_NUM_CORES)
  struct cfgmap cm;
  struct rtcfg rt;
  struct vmap vm;
  init_cfgmap(&cm);
  init_rtcfg(&rt);
  init_vmap(&vm);
  g_threads_masked = nondet_size();
  g_threads_all = nondet_size();
  g_cores_masked = nondet_size();
  g_cores_all = nondet_size();
#endif
#if defined(U_NUM_THREADS) || defined(U_NUM_THREADS_ZERO)
  size_t r = handle_num_threads(&cm, &rt, &vm, use);
  if (vx_exc)
  {
    VX_REACH("rejected");
    if (g_exc_kind == EXC_bad_lexical_cast) VX_REACH("rejected_not_a_number");
    if (vm.threads.present && TOK_NUM_OK(vm.threads.sval) && TOK_NUM(vm.threads.sval) == 0) VX_REACH("rejected_threads_0");
    if (CFG_USABLE_NUM(cm.force_min_os_threads) && TOK_NUM(cm.force_min_os_threads.val) == 0) VX_REACH("rejected_force_min_0");
  }
  else
  {
    if (vm.threads.present && vm.threads.sval == S_cores) VX_REACH("command_line_cores");
    if (vm.threads.present && vm.threads.sval == S_all) VX_REACH("command_line_all");
    if (vm.threads.present && TOK_NUM_OK(vm.threads.sval) && CFG_USABLE_STR(cm.os_threads) && r != TOK_NUM(cm.os_threads.val)) VX_REACH("command_line_beats_config");
    if (!vm.threads.present && CFG_USABLE_NUM(cm.os_threads) && rt.os_threads.present && rt.os_threads.val != cm.os_threads.val) VX_REACH("config_beats_environment");
    if (!vm.threads.present && CFG_USABLE_STR(cm.os_threads) && cm.os_threads.val == S_cores) VX_REACH("config_cores");
    if (!vm.threads.present && !CFG_USABLE_STR(cm.os_threads) && rt.os_threads.present) VX_REACH("from_environment");
    if (!vm.threads.present && !CFG_USABLE_STR(cm.os_threads) && !rt.os_threads.present) VX_REACH("from_builtin_default");
    if (CFG_USABLE_NUM(cm.force_min_os_threads) && r == TOK_NUM(cm.force_min_os_threads.val) && vm.threads.present && TOK_NUM_OK(vm.threads.sval) && TOK_NUM(vm.threads.sval) < r) VX_REACH("raised_to_force_min");
  }
#endif
#ifdef U_NUM_CORES
  size_t nt = nondet_size();
  struct cfg_entry c0 = cm.cores;
  size_t r = handle_num_cores(&cm, &vm, nt, use);
  if (vx_exc) VX_REACH("rejected");
  else
  {
    if (vm.cores.present && vm.cores.sval == S_all) VX_REACH("command_line_all");
    if (vm.cores.present && TOK_NUM_OK(vm.cores.sval) && c0.present && NC_OK(c0.val)) VX_REACH("command_line_beats_config");
    if (!vm.cores.present && c0.present && c0.val == S_all) VX_REACH("config_all");
    if (!vm.cores.present && c0.present && TOK_NUM_OK(c0.val)) VX_REACH("config_number");
    if (!vm.cores.present && !c0.present && r == nt) VX_REACH("default_is_num_threads");
  }
#endif
#if defined(U_DEFAULT_THREADS) || defined(U_DEFAULT_CORES)
  g_hw = nondet_size();
  g_mask_pus = nondet_size();
  g_ncores = nondet_size();
  g_queried = 0;
  g_hits = 0;
  g_order_ok = true;
#endif
#ifdef U_DEFAULT_THREADS
  size_t r = get_number_of_default_threads(use);
  if (use) VX_REACH("process_mask"); else VX_REACH("whole_machine");
#endif
#ifdef U_DEFAULT_CORES
  size_t r = get_number_of_default_cores(use);
  if (use) { VX_REACH("process_mask"); if (r < g_ncores) VX_REACH("mask_excludes_a_core"); if (r >= 2) VX_REACH("two_cores_in_mask"); }
  else VX_REACH("whole_machine");
#endif
}
