/* C16 units: the two accessors the resolution functions read their lower-priority sources with.  Their contracts are
 * exactly the stubs cfg_get_<T> (c16.h) and get_entry_as_size_t (arguments.c) the other units are checked against. */
#include "c16.h"

/* std::map<std::string, std::string> as the ghost map: find(key) yields the entry or end() */
typedef struct cfg_entry *map_iter;
struct manage_config { struct cfgmap config_; };
static map_iter map_find(struct cfgmap *m, int key)
{
  struct cfg_entry *e = cfg_lookup(m, key);
  return e->present ? e : NULL;
}
static map_iter map_end(struct cfgmap *m) { return NULL; }
static int nondet_key(void)
{
  int k = nondet_int();
  if (k < S_pika_d_os_threads || k > S_pika_d_ignore_process_mask + 3) k = S_pika_d_os_threads;
  return k;
}

#ifdef U_GET_VALUE
/* template parameter T of manage_config::get_value<T> */
#ifdef T_IS_SIZE_T
typedef size_t T;
#define T_USABLE(e) CFG_USABLE_NUM(e)
#define T_VALUE(e) TOK_NUM((e).val)
#define T_NONDET nondet_size
#define from_string_dflt_T from_string_dflt_size_t
#else
typedef str_t T;
#define T_USABLE(e) CFG_USABLE_STR(e)
#define T_VALUE(e) ((e).val)
#define T_NONDET nondet_tok
#define from_string_dflt_T from_string_dflt_string
#endif
#define ENTRY (*cfg_lookup((struct cfgmap *) &self->config_, key))
//@FUNC
T manage_config_get_value(const struct manage_config *self, int key, T dflt)
/* the value stored under the key if it converts to T, else the default: never an error */
__CPROVER_ensures(!vx_exc)
__CPROVER_ensures(__CPROVER_return_value == (T_USABLE(ENTRY) ? T_VALUE(ENTRY) : dflt))
//@LIFT body
#endif

#ifdef U_GET_ENTRY_AS
typedef size_t DestType;
#define RTENTRY (*rt_lookup((struct rtcfg *) config, key))
//@FUNC
size_t get_entry_as_size_t(const struct rtcfg *config, int key, size_t dflt)
__CPROVER_ensures(!vx_exc)
__CPROVER_ensures(__CPROVER_return_value == ((RTENTRY.present && TOK_NUM_OK(RTENTRY.val)) ? TOK_NUM(RTENTRY.val) : dflt))
//@LIFT body
#endif

void harness(void)
{
  init_tokens();
  int key = nondet_key();
#ifdef U_GET_VALUE
  struct manage_config mc;
  init_cfgmap(&mc.config_);
  T d = T_NONDET();
  T r = manage_config_get_value(&mc, key, d);
  struct cfg_entry *e = cfg_lookup(&mc.config_, key);
  if (!e->present) VX_REACH("absent_gives_default");
  else if (T_USABLE(*e)) { VX_REACH("present_gives_value"); if (r != d) VX_REACH("value_differs_from_default"); }
  else VX_REACH("present_but_not_convertible_gives_default");
#endif
#ifdef U_GET_ENTRY_AS
  struct rtcfg rt;
  init_rtcfg(&rt);
  size_t d = nondet_size();
  size_t r = get_entry_as_size_t(&rt, key, d);
  struct cfg_entry *e = rt_lookup(&rt, key);
  if (!e->present) VX_REACH("absent_gives_default");
  else if (e->val == S_empty) VX_REACH("empty_gives_default");
  else if (TOK_NUM_OK(e->val)) { VX_REACH("present_gives_value"); if (r != d) VX_REACH("value_differs_from_default"); }
  else VX_REACH("present_but_not_convertible_gives_default");
#endif
}
