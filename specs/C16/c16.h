/* C16 -- configuration precedence: ghost state and environment stubs shared by all units.
 *
 * std::string is an OPAQUE TOKEN (str_t = small int).  Character contents are never modelled; what a string "means" is
 * carried by ghost tables indexed by the token:
 *   g_num_ok[t] / g_num[t]   "t is a well-formed size_t numeral" / its value   (what std::stoul + check_only_whitespace decide)
 * Distinguished tokens stand for the keywords the code compares with (S_empty, S_cores, S_all, S_pu, ...); they are not
 * numerals.  Every string literal of the lifted text is rewritten BY SPELLING to S_<literal> (rule StrLit in spec.py), so a
 * changed key or keyword in /repo becomes a different token (and a failed obligation), never a silent pass.
 *
 * The three sources of a setting:
 *   struct vmap     parsed command line      vm.count(k), vm[k].as<T>()            ghost: option present? / value
 *   struct cfgmap   detail::manage_config    cfgmap.get_value<T>(k, dflt)          ghost: key present? / value token
 *   struct rtcfg    runtime_configuration    rtcfg.get_entry(k, dflt)              ghost: entry present? / value token
 * (cfgmap: --pika:ini and init_params entries; rtcfg: default ini with ${PIKA_...:default} placeholders, i.e. the
 *  environment-derived / built-in level.)                                                                          */
#ifndef C16_H
#define C16_H
#include "vx.h"

typedef int str_t;

/* ---- value tokens --------------------------------------------------------------------------------------------- */
enum {
  S_empty = 0,          /* ""        */
  S_cores = 1,          /* "cores"   */
  S_all = 2,            /* "all"     */
  S_pu = 3,             /* "pu"      */
  S_balanced = 4,       /* "balanced" */
  S_none = 5,           /* "none"    */
  S_core = 6, S_socket = 7, S_machine = 8,
  S_local_m_priority = 9, S_abp_m_priority = 10, S_local_m_priority_m_fifo = 11,
  T_USER0 = 12,         /* T_USER0 .. T_USER0+3: arbitrary user supplied strings (numerals or not) */
  T_FRESH0 = 16,        /* T_FRESH0, T_FRESH0+1: results of std::to_string(n) */
  NTOK = 18
};
#define N_FRESH 2

/* ---- key tokens (never used as values) ------------------------------------------------------------------------- */
enum {
  S_pika_d_os_threads = 100, S_pika_d_force_min_os_threads, S_pika_d_cores, S_pika_d_process_mask, S_pika_d_scheduler,
  S_pika_d_affinity, S_pika_d_bind, S_pika_d_pu_step, S_pika_d_pu_offset, S_pika_d_numa_sensitive,
  S_pika_d_ignore_process_mask, S_pika_d_thread_queue_d_high_priority_queues,
  S_pika_c_threads = 200, S_pika_c_cores, S_pika_c_process_m_mask, S_pika_c_scheduler, S_pika_c_affinity, S_pika_c_bind,
  S_pika_c_pu_m_step, S_pika_c_pu_m_offset, S_pika_c_numa_m_sensitive, S_pika_c_ignore_m_process_m_mask,
  S_pika_c_high_m_priority_m_threads, S_pika_c_ini, S_pika_c_debug_m_clp
};
/* a string literal the model has no name for is lifted as the number 1000000 + crc(literal): a token that is none of the above */

static bool g_num_ok[NTOK];
static size_t g_num[NTOK];
static int g_fresh_used;
#define TOK_VALID(t) ((t) >= 0 && (t) < NTOK)
#define TOK_NUM_OK(t) (TOK_VALID(t) && g_num_ok[(t)])
#define TOK_NUM(t) (TOK_VALID(t) ? g_num[(t)] : (size_t) 0)

/* ---- exceptions: `throw E(...)` is lowered to "record in ghost state and leave the function" ------------------------ */
enum { EXC_none = 0, EXC_command_line_error = 1, EXC_bad_lexical_cast = 2, EXC_bad_any_cast = 3 };
static bool vx_exc;
static int g_exc_kind;
static long g_throws;
static void vx_throw(int kind) { vx_exc = true; g_exc_kind = kind; g_throws++; }   /* a `throw` of the lifted text, or of a library stub */
static bool g_callee_threw;           /* the exception in flight was raised by a callee stub of a T unit, not by the lifted text itself */
static void vx_callee_throw(int kind) { vx_exc = true; g_exc_kind = kind; g_callee_threw = true; }

/* ---- the three sources ------------------------------------------------------------------------------------------------ */
struct cfg_entry { bool present; str_t val; };
struct cfgmap {
  struct cfg_entry os_threads, force_min_os_threads, cores, process_mask, scheduler, affinity, bind, pu_step, pu_offset,
      numa_sensitive, ignore_process_mask, other;
};
struct rtcfg { struct cfg_entry os_threads, process_mask, scheduler, affinity, bind, pu_step, pu_offset, numa_sensitive,
      ignore_process_mask, other; };
struct vm_entry { bool present; str_t sval; size_t nval; };
struct vmap {
  struct vm_entry threads, cores, process_mask, scheduler, affinity, bind, pu_step, pu_offset, numa_sensitive,
      ignore_process_mask, high_priority_threads, ini, debug_clp, other;
};

static struct cfg_entry *cfg_lookup(struct cfgmap *m, int key)
{
  switch (key)
  {
  case S_pika_d_os_threads: return &m->os_threads;
  case S_pika_d_force_min_os_threads: return &m->force_min_os_threads;
  case S_pika_d_cores: return &m->cores;
  case S_pika_d_process_mask: return &m->process_mask;
  case S_pika_d_scheduler: return &m->scheduler;
  case S_pika_d_affinity: return &m->affinity;
  case S_pika_d_bind: return &m->bind;
  case S_pika_d_pu_step: return &m->pu_step;
  case S_pika_d_pu_offset: return &m->pu_offset;
  case S_pika_d_numa_sensitive: return &m->numa_sensitive;
  case S_pika_d_ignore_process_mask: return &m->ignore_process_mask;
  default: return &m->other;   /* any other key: an unrelated entry with arbitrary contents */
  }
}
static struct cfg_entry *rt_lookup(struct rtcfg *m, int key)
{
  switch (key)
  {
  case S_pika_d_os_threads: return &m->os_threads;
  case S_pika_d_process_mask: return &m->process_mask;
  case S_pika_d_scheduler: return &m->scheduler;
  case S_pika_d_affinity: return &m->affinity;
  case S_pika_d_bind: return &m->bind;
  case S_pika_d_pu_step: return &m->pu_step;
  case S_pika_d_pu_offset: return &m->pu_offset;
  case S_pika_d_numa_sensitive: return &m->numa_sensitive;
  case S_pika_d_ignore_process_mask: return &m->ignore_process_mask;
  default: return &m->other;
  }
}
static struct vm_entry *vm_lookup(struct vmap *m, int key)
{
  switch (key)
  {
  case S_pika_c_threads: return &m->threads;
  case S_pika_c_cores: return &m->cores;
  case S_pika_c_process_m_mask: return &m->process_mask;
  case S_pika_c_scheduler: return &m->scheduler;
  case S_pika_c_affinity: return &m->affinity;
  case S_pika_c_bind: return &m->bind;
  case S_pika_c_pu_m_step: return &m->pu_step;
  case S_pika_c_pu_m_offset: return &m->pu_offset;
  case S_pika_c_numa_m_sensitive: return &m->numa_sensitive;
  case S_pika_c_ignore_m_process_m_mask: return &m->ignore_process_mask;
  case S_pika_c_high_m_priority_m_threads: return &m->high_priority_threads;
  case S_pika_c_ini: return &m->ini;
  case S_pika_c_debug_m_clp: return &m->debug_clp;
  default: return &m->other;
  }
}

/* "the configuration map holds a value of the requested type for this key": present, and the text converts.
 * manage_config::get_value<T> is `from_string<T>(value, dflt)`: a value that does not convert is treated as absent
 * (proved on the real text by unit cfgmap.get_value.*); for T = std::string the conversion is operator>> and fails
 * exactly on the empty string. */
#define CFG_USABLE_STR(e) ((e).present && (e).val != S_empty)
#define CFG_USABLE_NUM(e) ((e).present && TOK_NUM_OK((e).val))

/* ---- std / pika library stubs (trusted; see META) ----------------------------------------------------------------- */
/* pika::detail::from_string<std::size_t>(s): the numeral's value, or throws bad_lexical_cast */
static size_t from_string_size_t(str_t s)
{
  if (!TOK_NUM_OK(s)) { vx_throw(EXC_bad_lexical_cast); return 0; }
  return TOK_NUM(s);
}
/* pika::detail::from_string<T>(s, dflt): never throws */
static size_t from_string_dflt_size_t(str_t s, size_t dflt) { return TOK_NUM_OK(s) ? TOK_NUM(s) : dflt; }
static str_t from_string_dflt_string(str_t s, str_t dflt) { return s != S_empty ? s : dflt; }
/* std::to_string(n): a fresh string whose numeral value is n (and which is none of the keywords) */
static str_t to_string_size_t(size_t n)
{
  VX_ASSERT(g_fresh_used < N_FRESH, "model limit: more std::to_string results than fresh tokens (not a pika obligation)");
  str_t t = T_FRESH0 + g_fresh_used;
  g_fresh_used++;
  g_num_ok[t] = true;
  g_num[t] = n;
  return t;
}
static size_t std_max_size_t(size_t a, size_t b) { return a < b ? b : a; }
static size_t std_min_size_t(size_t a, size_t b) { return b < a ? b : a; }
static bool str_is_empty(str_t s) { return s == S_empty; }

/* detail::manage_config::get_value<T>(key, dflt) -- contract proved by units cfgmap.get_value.* */
static str_t cfg_get_string(struct cfgmap *m, int key, str_t dflt)
{
  struct cfg_entry *e = cfg_lookup(m, key);
  return CFG_USABLE_STR(*e) ? e->val : dflt;
}
static size_t cfg_get_size_t(struct cfgmap *m, int key, size_t dflt)
{
  struct cfg_entry *e = cfg_lookup(m, key);
  return CFG_USABLE_NUM(*e) ? TOK_NUM(e->val) : dflt;
}
/* cfgmap.config_[key] = value */
static void cfg_set(struct cfgmap *m, int key, str_t v)
{
  struct cfg_entry *e = cfg_lookup(m, key);
  e->present = true;
  e->val = v;
}
/* util::section::get_entry(key, dflt): the entry if it exists, else dflt */
static str_t rtcfg_get_entry(const struct rtcfg *m, int key, str_t dflt)
{
  struct cfg_entry *e = rt_lookup((struct rtcfg *) m, key);
  return e->present ? e->val : dflt;
}
/* program_options::variables_map */
static size_t vm_count(struct vmap *m, int key) { return vm_lookup(m, key)->present ? 1 : 0; }
static str_t vm_as_string(struct vmap *m, int key)
{
  struct vm_entry *e = vm_lookup(m, key);
  VX_ASSERT(e->present, "vm[key].as<T>() on an option that is not in the variables_map (boost::bad_any_cast)");
  return e->sval;
}
static size_t vm_as_size_t(struct vmap *m, int key)
{
  struct vm_entry *e = vm_lookup(m, key);
  VX_ASSERT(e->present, "vm[key].as<T>() on an option that is not in the variables_map (boost::bad_any_cast)");
  return e->nval;
}

/* ---- harness helpers: every ghost object gets an explicit arbitrary value ------------------------------------------ */
static str_t nondet_tok(void)
{
  /* harness input domain: keywords and user strings (fresh tokens are only produced by to_string) */
  int t = nondet_int();
  if (t < 0 || t >= T_FRESH0) t = S_empty;
  return t;
}
static void init_tokens(void)
{
  int i;
  for (i = 0; i < NTOK; i++) { g_num_ok[i] = false; g_num[i] = 0; }
  for (i = T_USER0; i < T_FRESH0; i++) { g_num_ok[i] = nondet_bool(); g_num[i] = nondet_size(); }
  g_fresh_used = 0;
  vx_exc = false;
  g_exc_kind = EXC_none;
  g_throws = 0;
  g_callee_threw = false;
}
static void init_cfg_entry(struct cfg_entry *e) { e->present = nondet_bool(); e->val = nondet_tok(); }
static void init_vm_entry(struct vm_entry *e) { e->present = nondet_bool(); e->sval = nondet_tok(); e->nval = nondet_size(); }
static void init_cfgmap(struct cfgmap *m)
{
  init_cfg_entry(&m->os_threads); init_cfg_entry(&m->force_min_os_threads); init_cfg_entry(&m->cores);
  init_cfg_entry(&m->process_mask); init_cfg_entry(&m->scheduler); init_cfg_entry(&m->affinity); init_cfg_entry(&m->bind);
  init_cfg_entry(&m->pu_step); init_cfg_entry(&m->pu_offset); init_cfg_entry(&m->numa_sensitive);
  init_cfg_entry(&m->ignore_process_mask); init_cfg_entry(&m->other);
}
static void init_rtcfg(struct rtcfg *m)
{
  init_cfg_entry(&m->os_threads); init_cfg_entry(&m->process_mask); init_cfg_entry(&m->scheduler);
  init_cfg_entry(&m->affinity); init_cfg_entry(&m->bind); init_cfg_entry(&m->pu_step); init_cfg_entry(&m->pu_offset);
  init_cfg_entry(&m->numa_sensitive); init_cfg_entry(&m->ignore_process_mask); init_cfg_entry(&m->other);
}
static void init_vmap(struct vmap *m)
{
  init_vm_entry(&m->threads); init_vm_entry(&m->cores); init_vm_entry(&m->process_mask); init_vm_entry(&m->scheduler);
  init_vm_entry(&m->affinity); init_vm_entry(&m->bind); init_vm_entry(&m->pu_step); init_vm_entry(&m->pu_offset);
  init_vm_entry(&m->numa_sensitive); init_vm_entry(&m->ignore_process_mask); init_vm_entry(&m->high_priority_threads);
  init_vm_entry(&m->ini); init_vm_entry(&m->debug_clp); init_vm_entry(&m->other);
}
#endif
