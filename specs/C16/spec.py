import os
import re
import zlib

from vx.lift import Lift, Sub, Call, Members, Guard, DropStmt, Rule, LiftError, match_close, split_args
from vx.run import Unit

CLH = "libs/pika/command_line_handling/src/command_line_handling.cpp"
MC = "libs/pika/util/include/pika/util/manage_config.hpp"
GEA = "libs/pika/util/include/pika/util/get_entry_as.hpp"

_HERE = os.path.dirname(os.path.abspath(__file__)) if "__file__" in globals() else "/verif/specs/C16"
_KNOWN_TOKENS = set(re.findall(r"\bS_\w+\b", open(os.path.join(_HERE, "c16.h")).read()))


# ---- local rules (purely syntactic) ------------------------------------------------------------------------------------

class StrLit(Rule):
    """every string literal -> the opaque token that is named after its spelling: "pika.os_threads" -> S_pika_d_os_threads,
    "pika:pu-step" -> S_pika_c_pu_m_step, "" -> S_empty ('.' -> _d_, ':' -> _c_, '-' -> _m_).  A literal the header has no
    name for becomes the number 1000000 + crc: a token different from every named one, so an edited key/keyword in /repo shows up
    as a failed obligation and not as a compile error."""

    def __init__(self, n=None):
        self.n = n

    @staticmethod
    def name(lit):
        if lit == "":
            return "S_empty"
        if lit == ";":
            return "S_semicolon"
        s = lit.replace(".", "_d_").replace(":", "_c_").replace("-", "_m_")
        if re.fullmatch(r"\w+", s) and ("S_" + s) in _KNOWN_TOKENS:
            return "S_" + s
        return "%d" % (1000000 + zlib.crc32(lit.encode()) % 100000)    # a bare number: survives every later spelling rule

    def apply(self, text):
        k = [0]

        def rep(m):
            k[0] += 1
            return self.name(m.group(1))

        text = re.sub(r'"((?:[^"\\\n]|\\.)*)"', rep, text)
        self.check(k[0], "StrLit")
        return text


class DropBlock(Rule):
    """delete `<head> { ... }` (balanced): used only for the --pika:debug-clp dump to std::cerr"""

    def __init__(self, head, n=1):
        self.head, self.n = head, n

    def apply(self, text):
        k = 0
        while True:
            m = re.search(self.head + r"\s*\{", text, re.S)
            if not m:
                break
            cl = match_close(text, m.end() - 1, "{", "}")
            text = text[: m.start()] + text[cl + 1 :]
            k += 1
        self.check(k, "DropBlock(/%s/)" % self.head)
        return text


# `throw pika::detail::command_line_error("text" "more text");`  ->  record the exception in ghost state, leave the function
THROW = Sub(r'\bthrow\s+(?:\w+::)*(\w+)\s*\(\s*(?:"(?:[^"\\]|\\.)*"\s*)+\)\s*;', r"{ vx_throw(EXC_\1); return VX_RET; }", None)
# `x = pika::detail::from_string<T>(s);` (the throwing overload): call the stub, leave the function if it threw
FROM_STRING = Sub(r"\b(\w+)\s*=\s*pika::detail::from_string<\s*(?:std::)?(\w+)\s*>\(([^;]*)\)\s*;",
                  r"{ \1 = from_string_\2(\3); if (vx_exc) return VX_RET; }", None)
SPELLING = [
    DropStmt(r"\bPIKA_LOG", None),
    THROW,
    StrLit(None),
    FROM_STRING,
    Call(r"\bcfgmap\.get_value<\s*(?:std::)?(\w+)\s*>", "cfg_get_{h1}(cfgmap, {args})", None),
    Sub(r"\bcfgmap\.config_\[([^\]]+)\]\s*=\s*([^;]+);", r"cfg_set(cfgmap, \1, \2);", None),
    Call(r"\bvm\.count", "vm_count(vm, {args})", None),
    Sub(r"\bvm\[([^\]]+)\]\.as<\s*(?:std::)?(\w+)\s*>\(\)", r"vm_as_\2(vm, \1)", None),
    Call(r"\brtcfg\.get_entry", "rtcfg_get_entry(rtcfg, {args})", None),
    Call(r"\bstd::to_string", "to_string_size_t({args})", None),
    Sub(r"\(std::(max|min)\)", r"std_\1_size_t", None),
    Sub(r"\b(\w+)\.empty\(\)", r"str_is_empty(\1)", None),
    Sub(r"\bstd::string\s+(\w+)\(([^()]*)\);", r"str_t \1 = \2;", None),       # direct initialisation
    Sub(r"\bstd::string\b", "str_t", None),
    Sub(r"\bdetail::(?=handle_|get_number)", "", None),
]


def handler(unit, define, func, locate, enforce=None, doc="", min_obligations=2, extra=()):
    return Unit(unit, "handlers.c", defines=[define], enforce=enforce or func,
                lifts={"body": Lift(CLH, locate, rules=list(extra) + SPELLING)},
                funcs=[CLH + ": pika::detail::" + func], min_obligations=min_obligations, doc=doc)


PRECEDENCE = ("F: result == command-line value if the option is in the variables_map, else the configuration-map value if the "
              "map holds a usable one, else the default handed in; never throws")
UNITS = [
    handler("scheduler", "U_SCHEDULER", "handle_scheduler", r"std::string handle_scheduler\(", doc=PRECEDENCE),
    handler("affinity", "U_AFFINITY", "handle_affinity", r"std::string handle_affinity\(", doc=PRECEDENCE),
    handler("process_mask", "U_PROCESS_MASK", "handle_process_mask", r"std::string handle_process_mask\(", doc=PRECEDENCE),
    handler("pu_step", "U_PU_STEP", "handle_pu_step", r"std::size_t handle_pu_step\(", doc=PRECEDENCE),
    handler("pu_offset", "U_PU_OFFSET", "handle_pu_offset", r"std::size_t handle_pu_offset\(", doc=PRECEDENCE),
    handler("numa_sensitive", "U_NUMA_SENSITIVE", "handle_numa_sensitive", r"std::size_t handle_numa_sensitive\(",
            doc="F: precedence as above; a command-line value > 2 throws command_line_error; nothing else throws"),
    handler("numa_sensitive.range", "U_NUMA_SENSITIVE_RANGE", "handle_numa_sensitive", r"std::size_t handle_numa_sensitive\(",
            doc="F: whatever the source, a resolved value > 2 is rejected (never returned)"),
]


# ---- thread / core counts ------------------------------------------------------------------------------------------------
def threads_unit(unit, define, func, locate, doc, extra=(), loops=None, min_obligations=2):
    return Unit(unit, "threads.c", defines=[define], enforce=func,
                lifts={"body": Lift(CLH, locate, rules=list(extra) + SPELLING, loops=loops)},
                funcs=[CLH + ": pika::detail::" + func], min_obligations=min_obligations, doc=doc)


TOPOLOGY = [
    Sub(r"\bthreads::detail::topology\s*&\s*(\w+)\s*=", r"struct topology *\1 =", 1),
    Call(r"\btop\.(\w+)", lambda args, env: "topo_%s(top%s)" % (env["h1"], "".join(", " + a for a in args)), "+"),
    Sub(r"\bthreads::detail::mask_type\b", "struct mask", None),
    Sub(r"\bthreads::detail::(count|bit_and)\b", r"mask_\1", None),
    Sub(r"\bthreads::detail::", "", None),
]
LOOP_CORES = """
__CPROVER_assigns(num_core, num_cores_proc_mask, g_queried, g_hits, g_order_ok)
__CPROVER_loop_invariant(num_core <= num_cores && g_queried == num_core && g_hits == num_cores_proc_mask && g_hits <= g_queried && g_order_ok)
__CPROVER_decreases(num_cores - num_core)
"""
UNITS += [
    threads_unit("num_threads", "U_NUM_THREADS", "handle_num_threads", r"std::size_t handle_num_threads\(", min_obligations=20,
                 doc="F: thread count = --pika:threads if given, else pika.os_threads of the configuration map, else the runtime "
                     "configuration entry (${PIKA_THREADS:cores}), else one per PU; 'cores'/'all' resolve to the mask-aware "
                     "defaults; pika.force_min_os_threads is a lower bound; a value that is no count, --pika:threads=0 and "
                     "force_min_os_threads=0 throw; the result is never 0; no exception without an invalid supplied value"),
    threads_unit("num_threads.zero_rejected", "U_NUM_THREADS_ZERO", "handle_num_threads", r"std::size_t handle_num_threads\(",
                 doc="F: a resolved thread count of 0 is rejected whatever its source"),
    threads_unit("num_cores", "U_NUM_CORES", "handle_num_cores", r"std::size_t handle_num_cores\(", min_obligations=10,
                 doc="F: core count = --pika:cores if given, else pika.cores of the configuration map, else the number of "
                     "threads; 'all' resolves to the mask-aware number of cores; a command-line value that is no count throws, "
                     "nothing else does"),
    threads_unit("default_threads", "U_DEFAULT_THREADS", "get_number_of_default_threads",
                 r"std::size_t get_number_of_default_threads\(", extra=TOPOLOGY,
                 doc="F: PUs of the process mask if the mask is used, else hardware_concurrency()"),
    threads_unit("default_cores", "U_DEFAULT_CORES", "get_number_of_default_cores",
                 r"std::size_t get_number_of_default_cores\(", extra=TOPOLOGY, loops={1: LOOP_CORES, "count": 1},
                 min_obligations=10,
                 doc="T + loop contract: all cores if the mask is ignored; else every core 0..n-1 is tested against the process "
                     "mask exactly once, in order, and the result is the number of tests that succeeded"),
]


# ---- the accessors of the two lower-priority sources ---------------------------------------------------------------------
GV_RULES = [
    Sub(r"\bmap_type::const_iterator\b", "map_iter", None),
    Call(r"\bconfig_\.(find|end)", lambda args, env: "map_%s(&self->config_%s)" % (env["h1"], "".join(", " + a for a in args)), "+"),
    Sub(r"\(\*(\w+)\)\.second\b", r"\1->val", None),
    Sub(r"\b(?:pika::)?detail::from_string<\s*(?:T|DestType)\s*>", "from_string_dflt_T", None),
    Sub(r"\b(T|DestType)\(\)", r"((\1) 0)", None),      # value-initialisation
]
UNITS += [
    Unit("cfgmap.get_value." + t, "getvalue.c", defines=["U_GET_VALUE"] + d, enforce="manage_config_get_value",
         lifts={"body": Lift(MC, r"T get_value\(std::string const& key, T dflt = T\(\)\) const", rules=GV_RULES)},
         funcs=[MC + ": pika::detail::manage_config::get_value<%s>" % ct],
         doc="F: the stored value if the key is present and its text converts to T, else dflt; never throws (= stub cfg_get_%s)" % t)
    for (t, d, ct) in [("size_t", ["T_IS_SIZE_T"], "std::size_t"), ("string", [], "std::string")]
]
UNITS += [
    Unit("rtcfg.get_entry_as.size_t", "getvalue.c", defines=["U_GET_ENTRY_AS", "from_string_dflt_T=from_string_dflt_size_t"],
         enforce="get_entry_as_size_t",
         lifts={"body": Lift(GEA, r"DestType get_entry_as\(Config const& config, std::string const& key, DestType const& dflt\)",
                             which=0, expect=2, rules=GV_RULES[3:] + [
                                 StrLit(None),
                                 Sub(r"\bstd::string\s+const\s*&\s*(\w+)\s*=", r"str_t \1 =", 1),
                                 Call(r"\bconfig\.get_entry", "rtcfg_get_entry(config, {args})", 1),
                                 Sub(r"\b(\w+)\.empty\(\)", r"str_is_empty(\1)", None)])},
         funcs=[GEA + ": pika::detail::get_entry_as<std::size_t>"],
         doc="F: the entry's value if it exists, is not empty and converts, else dflt; never throws"),
]


# ---- handle_arguments: resolved value -> member -> ini entry ------------------------------------------------------------------
class IniEmplace(Rule):
    """`ini_config.emplace_back("key[!]=" + E)` -> ini_put_str(ini_config, KEY, forced, E); with E = std::to_string(N) ->
    ini_put_num(ini_config, KEY, forced, N); a literal value "key=123" -> ini_put_num(..., 123).  Key and value are captured,
    nothing about which key belongs to which value is encoded here."""

    def __init__(self, n="+"):
        self.n = n
        self.call = Call(r"\bini_config\.emplace_back", self.rep, None)
        self.k = 0

    def rep(self, args, env):
        self.k += 1
        m = re.fullmatch(r'"([\w.]+?)(!?)=([^"]*)"\s*(?:\+\s*(.+))?', args[0].strip(), re.S)
        if not m or len(args) != 1:
            raise LiftError("IniEmplace: unrecognised argument %r" % (args,))
        key, forced, lit, expr = m.group(1), "true" if m.group(2) else "false", m.group(3), m.group(4)
        if expr is not None:
            if lit:
                raise LiftError("IniEmplace: literal value and expression in %r" % args[0])
            mt = re.fullmatch(r"std::to_string\((.*)\)", expr.strip(), re.S)
            if mt:
                return "ini_put_num(ini_config, %s, %s, %s)" % (StrLit.name(key), forced, mt.group(1))
            return "ini_put_str(ini_config, %s, %s, %s)" % (StrLit.name(key), forced, expr.strip())
        if re.fullmatch(r"\d+", lit):
            return "ini_put_num(ini_config, %s, %s, %s)" % (StrLit.name(key), forced, lit)
        return "ini_put_str(ini_config, %s, %s, %s)" % (StrLit.name(key), forced, StrLit.name(lit))

    def apply(self, text):
        self.k = 0
        text = self.call.apply(text)
        self.check(self.k, "IniEmplace")
        return text


class MayThrow(Rule):
    """a statement that contains a call of a callee that may throw gets `if (vx_exc) return VX_RET;` appended (the
    statement must stand directly in a block, so that appending a second statement does not change the control flow)"""

    def __init__(self, head, n=None):
        self.head, self.n = head, n

    def apply(self, text):
        from vx.lift import _stmt_end
        k, pos = 0, 0
        rx = re.compile(self.head)
        while True:
            m = rx.search(text, pos)
            if not m:
                break
            j = m.start() - 1
            depth = 0
            while j >= 0:
                c = text[j]
                if c in ")]":
                    depth += 1
                elif c in "([":
                    depth -= 1
                elif c in ";{}" and depth == 0:
                    break
                j -= 1
            if depth != 0:
                raise LiftError("MayThrow(/%s/): call inside a condition or argument list of a compound statement" % self.head)
            head_text = text[j + 1 : m.start()]
            if re.search(r"\b(if|else|for|while|do|return)\b", head_text):
                raise LiftError("MayThrow(/%s/): statement is not a plain expression/declaration statement" % self.head)
            end = _stmt_end(text, m.start())
            ins = " if (vx_exc) return VX_RET;"
            text = text[: end + 1] + ins + text[end + 1 :]
            pos = end + 1 + len(ins)
            k += 1
        self.check(k, "MayThrow(/%s/)" % self.head)
        return text


def member_call(name):
    """`name();` (member function of the same object) -> `name(self);` + leave if it threw"""
    return Sub(r"(?<![\w.>:])%s\(\);" % name, "{ %s(self); if (vx_exc) return VX_RET; }" % name, None)


ARG_MEMBERS = ["use_process_mask_", "process_mask_", "scheduler_", "affinity_domain_", "affinity_bind_", "pu_step_", "pu_offset_",
               "numa_sensitive_", "num_threads_", "num_cores_"]
ARG_RULES = [
    DropStmt(r"\bPIKA_LOG", None),
    DropBlock(r"\bif\s*\(\s*debug_clp\s*\)", None),
    THROW,
    IniEmplace(None),
    StrLit(None),
    # --pika:ini plumbing
    Sub(r"\bstd::vector<std::string>\s+(\w+)\s*=\s*vm\[([^\]]+)\]\.as<\s*std::vector<std::string>\s*>\(\);",
        r"struct strvec \1 = vm_as_vector_string(vm, \2);", None),
    Sub(r"\bstd::copy\((\w+)\.begin\(\),\s*\1\.end\(\),\s*std::back_inserter\((\w+)\)\);", r"vec_append_all(\2, &\1);", None),
    Sub(r"\bcfgmap\.add\((\w+)\);", r"cfg_add(cfgmap, &\1);", None),
    # process mask installation
    Sub(r"(?<![\w:])from_string<\s*(?:\w+::)*(\w+)\s*>\(", r"from_string_\1(", None),
    MayThrow(r"\bfrom_string_mask_type\(", None),
    Sub(r"\bthreads::detail::get_topology\(\)\.(\w+)\(", r"topo_\1(get_topology(), ", None),
    # callees: resolution functions (may throw), checks (member functions, may throw)
    MayThrow(r"\bdetail::handle_\w+\(|(?<![\w:])handle_process_mask\(", None),
    Sub(r"\bdetail::(?=handle_)", "", None),
    member_call("check_affinity_domain"), member_call("check_pu_step"), member_call("check_pu_offset"),
    member_call("check_affinity_description"),
    Sub(r"\bupdate_logging_settings\(", "update_logging_settings(self, ", None),
    # the three sources
    Call(r"\brtcfg_\.get_entry", "rtcfg_get_entry(&self->rtcfg_, {args})", None),
    Call(r"\b(?:pika::)?(?:detail::)?get_entry_as<\s*(?:std::)?(\w+)\s*>", "get_entry_as_{h1}({args})", None),
    Sub(r"(?<![\w.>&])rtcfg_\b", "&self->rtcfg_", None),
    Call(r"\bvm_\.count", "vm_count(&self->vm_, {args})", None),
    Sub(r"\bvm_\[([^\]]+)\]\.as<\s*(?:std::)?(\w+)\s*>\(\)", r"vm_as_\2(&self->vm_, \1)", None),
    Sub(r"\bstd::size_t\((-?\w+)\)", r"((size_t) (\1))", None),
] + SPELLING[3:] + [Members(ARG_MEMBERS)]
from vx.lift import Auto
UNITS += [
    Unit("handle_arguments", "arguments.c", enforce="handle_arguments",
         lifts={"body": Lift(CLH, r"void command_line_handling::handle_arguments\(", rules=ARG_RULES, post=[Auto(None)])},
         funcs=[CLH + ": pika::detail::command_line_handling::handle_arguments"], min_obligations=60,
         doc="T: every setting is resolved exactly once (resolution functions as counting stubs) with the runtime-configuration "
             "entry or the built-in literal as default; the resolved value is stored in its member and written exactly once "
             "under its ini key, after the user's --pika:ini entries; use_process_mask_ = !(--pika:ignore-process-mask or "
             "config map or environment level > 0); validity checks run once each on the resolved values; a non-empty "
             "process mask is installed once; --pika:high-priority-threads beyond the thread count or with a scheduler "
             "without priority queues throws"),
]


# ---- validity checks on the resolved values ---------------------------------------------------------------------------------------
CHK_RULES = [
    Sub(r"\bstd::size_t\((-?\w+)\)", r"((size_t) (\1))", None),
    Sub(r"\b(?:pika::)?threads::detail::hardware_concurrency\b", "hardware_concurrency", None),
] + SPELLING[:3] + [
    Sub(r"\bstd::string\(([^()]+)\)\.find\(([^()]+)\)", r"str_find(\1, \2)", None),
] + SPELLING[3:] + [Members(["pu_step_", "pu_offset_", "affinity_domain_", "affinity_bind_"],
                            optional=["pu_step_", "pu_offset_", "affinity_domain_", "affinity_bind_"])]


def check_unit(name, define, func, doc):
    return Unit("check." + name, "checks.c", defines=[define], enforce=func,
                lifts={"body": Lift(CLH, r"void command_line_handling::%s\(\) const" % func, rules=CHK_RULES)},
                funcs=[CLH + ": pika::detail::command_line_handling::" + func], min_obligations=3, doc=doc)


UNITS += [
    check_unit("pu_offset", "U_CHECK_PU_OFFSET", "check_pu_offset",
               "F: throws exactly if an offset was given and is not smaller than the number of processing units"),
    check_unit("pu_step", "U_CHECK_PU_STEP", "check_pu_step",
               "F: on a machine with more than one PU a step of 0 or >= #PUs throws; a valid step never throws"),
    check_unit("affinity_description", "U_CHECK_AFFINITY_DESCRIPTION", "check_affinity_description",
               "F: throws exactly if a binding description is combined with a pu-step != 1, a pu-offset != 0 or an affinity domain != pu"),
    check_unit("affinity_domain", "U_CHECK_AFFINITY_DOMAIN", "check_affinity_domain",
               "F: throws exactly if the domain is not a leading abbreviation of pu, core, socket or machine ('is a prefix of' is "
               "an opaque predicate on tokens)"),
]


# ---- handle_affinity_bind ------------------------------------------------------------------------------------------------------
class RangeForStr(Rule):
    """`for (std::string const& s : v) {` -> `for (size_t vx_itK = 0; vx_itK != strvec_size(&v); ++vx_itK) { str_t s = strvec_at(&v, vx_itK);`"""

    def __init__(self, n=None):
        self.n = n

    def apply(self, text):
        k = [0]

        def rep(m):
            k[0] += 1
            it = "vx_it%d" % k[0]
            return "for (size_t %s = 0; %s != strvec_size(&%s); ++%s) { str_t %s = strvec_at(&%s, %s);" % (
                it, it, m.group(2), it, m.group(1), m.group(2), it)

        text = re.sub(r"\bfor\s*\(\s*(?:const\s+)?std::string(?:\s+const)?\s*&\s*(\w+)\s*:\s*(\w+)\s*\)\s*\{", rep, text)
        self.check(k[0], "RangeForStr")
        return text


LOOP_BIND = """
__CPROVER_assigns(vx_it1, affinity_desc, BIND_FRAME)
__CPROVER_loop_invariant(vx_it1 <= g_vec_n && g_elems == vx_it1 && g_b_ok && g_sep_ok && !g_cur_fetched && !g_last_was_sep && affinity_desc == BUILT)
__CPROVER_loop_invariant(g_v < vx_it1 ? (g_v_appended == 1 && g_v_pos == g_v) : g_v_appended == 0)
__CPROVER_loop_invariant(vx_it1 == 0 ==> (g_seps == 0 && !g_b_nonempty))
"""
BIND_RULES = [
    RangeForStr(None),
    Sub(r"\bstd::vector<std::string>\s+(\w+)\s*=\s*vm\[([^\]]+)\]\.as<\s*std::vector<std::string>\s*>\(\);",
        r"struct strvec \1 = vm_as_vector_string(vm, \2);", None),
    Sub(r"\bstd::string\s+(\w+);", r"str_t \1 = str_new();", None),
]
APPEND = Sub(r"\b(\w+)\s*\+=\s*([^;]+);", r"\1 = str_append(\1, \2);", None)
UNITS += [
    Unit("affinity_bind", "bind.c", enforce="handle_affinity_bind",
         lifts={"body": Lift(CLH, r"std::string handle_affinity_bind\(", rules=BIND_RULES + SPELLING + [APPEND],
                             loops={1: LOOP_BIND, "count": 1})},
         funcs=[CLH + ": pika::detail::handle_affinity_bind"], min_obligations=20,
         doc="F/T + loop contract: if --pika:bind is given the result is built from every occurrence exactly once, in order, "
             "separated by ';' (vector of arbitrary length, one symbolic victim element), and neither the configuration map "
             "nor the default contributes; otherwise configuration-map value, else default"),
]

META = {
    "explanation":
        "C16 is decided for the resolution layer of command_line_handling.cpp only.  std::string values are opaque tokens "
        "(equality with the keywords the code compares with; 'is a numeral / its value' and 'is a prefix of' are opaque, fixed "
        "per-token facts).  The three sources of a setting are ghost objects: variables_map (parsed command line), "
        "manage_config (--pika:ini / init_params entries), runtime_configuration (default ini with ${PIKA_...:default} "
        "placeholders = environment level).  Units: scheduler, affinity, process_mask, pu_step, pu_offset, numa_sensitive, "
        "affinity_bind, num_threads, num_cores (F: result == command line, else configuration map, else the default handed in; "
        "the stated invalid values throw; no exception without an invalid supplied value), default_threads / default_cores "
        "(what 'all' / 'cores' resolve to: mask-aware), cfgmap.get_value.* / rtcfg.get_entry_as.size_t (the accessors of the two "
        "lower sources, whose contracts are the stubs the other units use), check.* (range / combination checks on the resolved "
        "values), handle_arguments (T: each setting resolved once with the environment-level entry or the built-in literal as "
        "default, stored in its member, written exactly once under its ini key after the user's --pika:ini entries, checks run on "
        "the resolved values).  "
        "EXPECTED FAILURES on the pinned tree (genuine findings, see report): numa_sensitive.range (handle_numa_sensitive "
        "validates only the command-line value: pika.numa_sensitive / PIKA_NUMA_SENSITIVE > 2 is accepted and used) and "
        "num_threads.zero_rejected (handle_num_threads tests `threads == 0` only inside the --pika:threads branch: pika.os_threads=0 "
        "or PIKA_THREADS=0 together with pika.force_min_os_threads >= 1 is silently replaced by the minimum).  "
        "specs/C16/candidate_repair.patch is the minimal repair of both (syntax-checked with vx/cxxcheck.sh); "
        "`specs/C16/mutfix.sh NONE NONE NONE` shows all units proved on the repaired scratch tree.",
    "trusted_base": [
        "specs/C16/c16.h token model of std::string: a string is an int token; equality of tokens = equality of strings for the "
        "distinguished keywords (\"\", cores, all, pu, core, socket, machine, balanced, none, local-priority, abp-priority, "
        "local-priority-fifo) and for option/ini keys; user strings are 4 arbitrary tokens distinct from all keywords; every "
        "string literal of the lifted text is mapped to its token by spelling (rule StrLit), unknown literals to a fresh number",
        "specs/C16/c16.h g_num_ok / g_num: whether a token is a size_t numeral and its value are arbitrary but fixed per user "
        "token; keywords and \"\" are not numerals; from_string_size_t (throwing overload: bad_lexical_cast) and "
        "from_string_dflt_size_t / cfg_get_size_t (overload with default) consult the same table, i.e. std::stoul + "
        "check_only_whitespace are a function of the string only",
        "specs/C16/c16.h from_string_dflt_string: from_string<std::string>(v, dflt) is operator>> on a stringstream with "
        "failbit exceptions: fails exactly on the empty (or all-blank) string; a value token stands for the first blank-delimited "
        "word of the stored text",
        "specs/C16/c16.h to_string_size_t: std::to_string(n) yields a fresh string that is none of the keywords and whose numeral "
        "value is n (two fresh tokens per call under verification; exhausting them is reported as a model-limit obligation)",
        "specs/C16/c16.h vm_count / vm_as_string / vm_as_size_t: program_options::variables_map as 'option present?' + value; "
        "as<T>() on an absent option is an obligation (boost::bad_any_cast); the value was converted by program_options at parse time",
        "specs/C16/c16.h rtcfg_get_entry: util::section::get_entry(key, dflt) = the (already expanded) entry if it exists, else dflt",
        "specs/C16/c16.h cfg_set: `cfgmap.config_[key] = v` (std::map::operator[] assignment)",
        "specs/C16/c16.h vx_throw + rules THROW / FROM_STRING / MayThrow / member_call in spec.py: `throw E(\"...\")` is lowered to "
        "'record the exception in ghost state and leave the function'; a call of a callee that may throw is followed by "
        "`if (vx_exc) return`; the functions under contract contain no try/catch and no RAII objects with observable destructors",
        "specs/C16/threads.c get_topology / topo_* / mask_count / mask_bit_and / hardware_concurrency: the topology is opaque; "
        "count(process mask), hardware_concurrency(), get_number_of_cores() are arbitrary numbers; bit_and(core mask, process mask) "
        "is an arbitrary bit per core (counted in ghost state, asked once per core in index order)",
        "specs/C16/getvalue.c map_find / map_end: std::map::find / end over the ghost map",
        "specs/C16/checks.c str_find: std::string(LIT).find(s) == 0 <=> s is a prefix of LIT: true for \"\" and for s == LIT, an "
        "arbitrary fixed bit for user tokens, false for the model's other keywords",
        "specs/C16/arguments.c T stubs handle_* / check_* / from_string_mask_type / topo_set_cpubind_mask_main_thread / "
        "update_logging_settings / vec_append_all / cfg_add / cfg_get_int / get_entry_as_int / get_entry_as_size_t / ini_put_*: "
        "callees count their calls, record their arguments and return arbitrary values (each resolution function and check may "
        "throw); manage_config::add (contract proved by cfgmap.add) may (re)define any key; `ini_config.emplace_back(\"key[!]=\" "
        "+ value)` is recorded per key (rule IniEmplace captures key and value expression)",
        "specs/C16/bind.c strvec_* / str_new / str_append: std::vector<std::string> of arbitrary length with one symbolic victim "
        "element; operator+= on the string under construction records the piece appended",
        "std::max / std::min on size_t (std_max_size_t / std_min_size_t)",
    ],
    "assumptions": [
        "a configuration-map value that does not convert to the requested type is treated by manage_config::get_value<T> as if the "
        "key were absent (from_string with default; proved: cfgmap.get_value.*), likewise get_entry_as for the runtime "
        "configuration: precedence is therefore stated over USABLE configuration-map values (present and convertible); that "
        "`--pika:ini=pika.pu_step=abc` or PIKA_PU_STEP=abc is silently ignored is by the letter of the property an invalid value "
        "that is ignored -- recorded here, not turned into an obligation, because the keyword handling of pika.os_threads / "
        "pika.cores relies on exactly this behaviour",
        "handle_num_cores has no environment level: its default is the resolved thread count (the ${PIKA_CORES:all} entry of the "
        "default ini is overwritten by the pika.cores=<n> entry handle_arguments writes and is never read by the resolution)",
        "the mask-aware defaults (count of the process mask, hardware concurrency, number of cores) are opaque inputs; "
        "num_threads / num_cores make no assumption about them (a default of 0 is rejected like a supplied 0)",
        "check.affinity_domain: leading abbreviations of pu/core/socket/machine, including the empty string, are accepted by "
        "design of the `0 == std::string(lit).find(value)` idiom; the contract follows the code's notion of 'one of'",
    ],
    "not_decided": [
        "program_options parsing (parse_command_line.cpp): option syntax, value conversion, --pika:N:option node prefixes, response "
        "files, aliases, --pika:config files; rejection of unknown --pika: options; pass-through of non-pika arguments to the "
        "application (unregistered options, store_unregistered_options / reconstruct_command_line)",
        "PIKA_COMMANDLINE_OPTIONS / pika.commandline.prepend_options: prepend_options (boost::tokenizer) and the resulting "
        "'later occurrence wins' order inside program_options",
        "environment placeholders ${PIKA_...:default} of the default ini and their expansion (runtime_configuration.cpp, ini.cpp "
        "section::expand); the ini parser; section::get_entry itself",
        "command_line_handling::call: preprocess_config_settings (std::stable_partition of --pika: entries out of ini_config_), the "
        "two-pass scheme (preliminary variables_map, rtcfg_.reconfigure, second parse), manage_config construction / add "
        "(first occurrence of a key wins: std::map::insert), store_command_line, handle_help_options, handle_attach_debugger, "
        "update_logging_settings",
        "that the RUNNING runtime uses the resolved values: rtcfg_.reconfigure(ini_config_) (later ini entry overrides earlier, "
        "'key!=' forced entries), init_runtime.cpp reading pika.os_threads etc. back, resource partitioner, thread_manager, "
        "stack sizes and every other ini entry not resolved by a handle_* function -- decided only up to the ini_config vector "
        "and the members of command_line_handling",
        "character contents of strings: numeral syntax (std::stoul accepts a leading '-', leading blanks), hexadecimal process "
        "masks (from_string<mask_type>), the text of bind descriptions (parse_affinity_options: C15), error message texts",
        "macOS (__APPLE__) branches and PIKA_HAVE_MAX_CPU_COUNT / PIKA_HAVE_MPI branches: inactive in the shipped configuration",
    ],
}


# ---- the cached values the running runtime uses (added after seeded change C16-1 was missed) ----------------------
RC = "libs/pika/runtime_configuration/src/runtime_configuration.cpp"
UNITS.append(Unit("rtcfg.reconfigure", "reconf.c", enforce="reconfigure",
                  lifts={"body": Lift(RC, r"void runtime_configuration::reconfigure\(\)", rules=[
                      Call(r"\b(pre_initialize_ini|pre_initialize_logging_ini)(?!\s*\(\s*self\b)", "{h1}(self)", None),
                      Call(r"\bpost_initialize_ini(?!\s*\(\s*self\b)", "post_initialize_ini(self, self->{0}, self->{1})", None),
                      Call(r"\b(init_(?:small|medium|large|huge)_stack_size)(?!\s*\(\s*self\b)", "{h1}(self)", None),
                      Sub(r"(?<![\w>.])(small|medium|large|huge)_stacksize\b", r"self->\1_stacksize", None),
                  ])},
                  funcs=[RC + ": runtime_configuration::reconfigure"], min_obligations=5,
                  doc="the stack sizes cached for the running runtime are re-read from the configuration after the command-line / --pika:ini definitions were merged"))


# ---- prepend_options (added by main after seeded change C16-3 was missed): environment options go IN FRONT of the command line ----
VEC = r"std::vector<std::string>"
UNITS.append(Unit("cmdline.prepend_options", "prepend.c", enforce="prepend_options", lifts={"body": Lift(CLH,
    r"std::vector<std::string> prepend_options\(std::vector<std::string>&& args, std::string&& options\)", rules=[
        Sub(r"\busing \w+ = boost::tokenizer<[^;]*;", "", None),
        Sub(r"\bboost::escaped_list_separator<char> \w+\([^;]*\);", "", None),
        Sub(r"\b(?:tokenizer|boost::tokenizer<[^;]*?>>?) (\w+)\((\w+)(?:, \w+)?\);", r"struct strvec \1 = tok_make(&\2);", None),
        Sub(r"\b(\w+)\.empty\(\)", r"str_empty(&\1)", None),
        Sub(VEC + r" (\w+)\((\w+)\.begin\(\), \2\.end\(\)\);", r"struct strvec \1 = strvec_from_range(&\2);", None),
        Sub(VEC + r" (\w+)\(std::move\((\w+)\)\);", r"struct strvec \1 = strvec_move(&\2);", None),
        Sub(VEC + r" (\w+)(?:\((\w+)\)| = (\w+));", lambda m: "struct strvec %s = strvec_from_range(&%s);" % (m.group(1), m.group(2) or m.group(3)), None),
        Sub(VEC + r" (\w+);", r"struct strvec \1 = strvec_empty();", None),
        Sub(r"std::(?:move|copy)\((\w+)\.begin\(\), \1\.end\(\), std::back_inserter\((\w+)\)\);", r"strvec_append(&\2, &\1);", None),
        Sub(r"\b(\w+)\.insert\(\1\.end\(\), (?:std::make_move_iterator\()?(\w+)\.begin\(\)\)?, (?:std::make_move_iterator\()?\2\.end\(\)\)?\);", r"strvec_append(&\1, &\2);", None),
        Sub(r"\b(\w+)\.insert\(\1\.begin\(\), (?:std::make_move_iterator\()?(\w+)\.begin\(\)\)?, (?:std::make_move_iterator\()?\2\.end\(\)\)?\);", r"strvec_prepend(&\1, &\2);", None),
        Sub(r"\b\w+\.reserve\([^;]*\);", "vx_nop();", None),
        Sub(r"\breturn std::move\((\w+)\);", r"return strvec_move(&\1);", None),
    ])}, funcs=[CLH + ": pika::detail::prepend_options"], min_obligations=5,
    doc="result == tokens(options) ++ args: what comes from pika.commandline.prepend_options / PIKA_COMMANDLINE_OPTIONS precedes the real "
        "command line, so the command line wins for position-resolved and composing options"))


# ---- manage_config::add (added by main): later definitions of a key win, so the command line beats the prepended environment ----
MCCPP = "libs/pika/util/src/manage_config.cpp"
LOOP_MCADD = ("__CPROVER_assigns(vx_it, self->has_k, self->val_k, g_seen_k, g_last_k_val, g_cur)\n"
              "__CPROVER_loop_invariant(vx_it <= cfg->size && (g_seen_k ==> (self->has_k && self->val_k == g_last_k_val)) && "
              "(!g_seen_k ==> (self->has_k == vx_has0 && self->val_k == vx_val0)))")
UNITS.append(Unit("cfgmap.add", "mcadd.c", enforce="manage_config_add", lifts={"body": Lift(MCCPP,
    r"void manage_config::add\(std::vector<std::string> const& cfg\)", rules=[
        Sub(r"^\{", "{ bool vx_has0 = self->has_k; int vx_val0 = self->val_k;", 1),
        Sub(r"for \(std::string const& (\w+) : (\w+)\)\s*\{",
            r"for (size_t vx_it = 0; vx_it != \2->size; ++vx_it) { struct entry const *\1 = cfg_at(\2, vx_it);", None),
        # the same loop written with iterators: for (auto it = cfg.begin(); it != cfg.end(); ++it) { std::string const& s = *it;
        Sub(r"for \((?:auto|std::vector<std::string>::const_iterator) (\w+) = (\w+)\.c?begin\(\); \1 != \2\.c?end\(\); \+\+\1\)\s*\{\s*std::string const& (\w+) = \*\1;",
            r"for (size_t vx_it = 0; vx_it != \2->size; ++vx_it) { struct entry const *\3 = cfg_at(\2, vx_it);", None),
        Sub(r"std::string::size_type (\w+) = (\w+)\.find_first_of\('='\);", r"size_t \1 = str_find_eq(\2);", None),
        Sub(r"std::string (\w+)\(trim_whitespace\((\w+)\.substr\(0, (\w+)\)\)\);", r"struct sstr \1 = trim_key(str_key_part(\2, \3));", None),
        Sub(r"std::string (\w+)\(trim_whitespace\((\w+)\.substr\((\w+) \+ 1\)\)\);", r"int \1 = trim_val(str_value_part(\2, \3 + 1));", None),
        Sub(r"(\w+)\[\1\.size\(\) - 1\] == '!'", r"sstr_last_is_bang(&\1)", None),
        Sub(r"(\w+)\.erase\(\1\.size\(\) - 1\);", r"sstr_drop_last(&\1);", None),
        Sub(r"\bconfig_\.insert\(map_type::value_type\((\w+), (\w+)\)\);", r"map_insert(self, \1, \2);", None),
        Sub(r"\bconfig_\.insert_or_assign\((\w+), (\w+)\);", r"map_assign(self, \1, \2);", None),
        Sub(r"\bconfig_\[(\w+)\] = (\w+);", r"map_assign(self, \1, \2);", None),
    ], loops={1: LOOP_MCADD, "count": 1})}, funcs=[MCCPP + ": pika::detail::manage_config::add"], min_obligations=5,
    doc="I: after add(cfg) every key defined in cfg holds its LAST definition (argument order: environment first, command line later)"))


# ---- get_commandline_parser (added by main after seeded change C16-4 was missed) ----
PCL = "libs/pika/command_line_handling/src/parse_command_line.cpp"
PCL_HPP = "libs/pika/command_line_handling/include/pika/command_line_handling/parse_command_line.hpp"
def _cem_defines():
    import re as _re
    from vx.lift import read_source as _rs
    try:
        src = _rs(PCL_HPP)
    except LiftError:
        return []
    m = _re.search(r"enum class commandline_error_mode\s*\{([^}]*)\}", src)
    out, nxt = [], 0
    for item in (m.group(1) if m else "").split(","):
        mm = _re.match(r"\s*(\w+)\s*(?:=\s*(\w+))?\s*$", item)
        if not mm:
            continue
        v = int(mm.group(2), 0) if mm.group(2) else nxt
        nxt = v + 1
        out.append("CEM_V_%s=%d" % (mm.group(1), v))
    return out
UNITS.append(Unit("cmdline.get_commandline_parser", "parser.c", defines=_cem_defines(), enforce="get_commandline_parser",
    lifts={"body": Lift(PCL, r"get_commandline_parser\(\s*pika::program_options::basic_command_line_parser<char>& p, commandline_error_mode mode\)", rules=[
        Sub(r"\bcommandline_error_mode::(\w+)", r"CEM_\1", None),
        Sub(r"\b(\w+)\.allow_unregistered\(\)", r"parser_allow_unregistered(\1)", None),
        Call(r"\bcontains_error_mode", "((({0}) & ({1})) == ({1}))", None)])},
    funcs=[PCL + ": pika::detail::get_commandline_parser"], min_obligations=4,
    doc="F: allow_unregistered() iff the base error mode is allow_unregistered, for every combination with report_missing_config_file"))


# ---- init_helper (added by main after seeded change C16-5 was missed): which arguments the application's main(argc, argv) sees ----
IRT = "libs/pika/init_runtime/src/init_runtime.cpp"
LOOP_INITARGS = ("__CPROVER_assigns(i, argcount, g_cur, g_cur_idx, g_visited, g_expected, g_cur_expect, g_cur_should, g_cur_pushed, g_vexpect, g_vval, g_null_at)\n"
                 "__CPROVER_loop_invariant(LOOP_INV(i, argcount))")
UNITS.append(Unit("init.init_helper", "initargs.c", enforce="init_helper", lifts={"body": Lift(IRT,
    r"int init_helper\(pika::program_options::variables_map&[^,]*,\s*pika::util::detail::function<int\(int, char\*\*\)> const& f\)", rules=[
        Sub(r"std::string (\w+)\(pika::detail::get_config_entry\(\"pika\.reconstructed_cmd_line\", \"\"\)\);", r"int \1 = get_reconstructed_cmd_line();", 1),
        Sub(r"\busing namespace pika::program_options;", "", None),
        Sub(r"std::vector<std::string> (\w+) = split_unix\((\w+)\);", r"struct strvec *\1 = split_unix(\2);", 1),
        Sub(r"std::vector<char\*> (\w+)\(([^;]+)\);", r"struct argvvec *\1 = argv_make(\2);", 1),
        Sub(r"\b(\w+)\.size\(\)", r"vec_size(\1)", None),
        Sub(r"\b(\w+)\[(\w+)\](?=\.| = \1\[)", r"(*args_at(\1, \2))", None),
        Sub(r"(\(\*args_at\(\w+, \w+\)\)) = (\(\*args_at\(\w+, \w+\)\))\.substr\(([^;]*)\);", r"str_assign_substr(&\1, &\2, \3);", None),
        Sub(r"(\(\*args_at\(\w+, \w+\)\))\.find\(\"--pika:\"\)", r"str_find_pika(&\1)", None),
        Sub(r"(\(\*args_at\(\w+, \w+\)\))\.find\(\"positional\", (\w+)\)", r"str_find_positional(&\1, \2)", None),
        Sub(r"std::string::size_type (\w+) = (\(\*args_at\(\w+, \w+\)\))\.find_first_of\('='\);", r"size_t \1 = str_find_first_of_eq(&\2);", None),
        Sub(r"const_cast<char\*>\((\(\*args_at\(\w+, \w+\)\))\.data\(\)\)", r"str_data(&\1)", None),
        Sub(r"\b(\w+)\[([^\]]+)\] = (str_data\([^;]*\)|nullptr);", lambda m: "argv_set(%s, %s, %s);" % (m.group(1), m.group(2), "cptr_null()" if m.group(3) == "nullptr" else m.group(3)), None),
        Sub(r"\bstd::string::npos\b", "NPOS", None),
        Sub(r"\breturn f\(([^;]*), (\w+)\.data\(\)\);", r"return f_call(f, \1, vec_data(\2));", 1),
    ], loops={1: LOOP_INITARGS, "count": 1})}, funcs=[IRT + ": pika::detail::init_helper"], min_obligations=8,
    doc="I: main(argc, argv) of the application receives exactly the arguments that do not START with --pika: (and the values of "
        "--pika:positional=), unchanged and in order, argv[argc] == nullptr"))


# ---- partitioner::setup_schedulers (added by main after seeded change C16-6 was missed): resolved pika.scheduler -> policy of the running pools ----
DP_CPP = "libs/pika/resource_partitioner/src/detail_partitioner.cpp"
_SCHED_NAMES = ["local", "local-priority-fifo", "local-priority-lifo", "static", "static-priority", "abp-priority-fifo", "abp-priority-lifo", "shared-priority"]
_PREFIX_TABLE = "{" + ",".join("{" + ",".join("1" if b.startswith(a) else "0" for b in _SCHED_NAMES) + "}" for a in _SCHED_NAMES) + "}"
def _name_id(m):
    if m.group(1) not in _SCHED_NAMES:
        raise LiftError("setup_schedulers tests an undocumented scheduler name %r" % m.group(1))
    return "value_is_prefix_of(&%s, N_%s)" % (m.group(2), m.group(1).replace("-", "_"))
LOOP_SETUPSCHED = ("__CPROVER_assigns(i, g_v_policy, g_default_seen, g_default_seen_valid)\n"
                   "__CPROVER_loop_invariant(i <= npools && self->mtx_.locked && (g_default_seen_valid ==> g_default_seen == default_scheduler) && "
                   "g_v_policy == ((g_v < i && g_v_policy0 == SP_unspecified) ? default_scheduler : g_v_policy0))")
UNITS.append(Unit("rp.setup_schedulers", "setupsched.c", defines=["PREFIX_TABLE=" + _PREFIX_TABLE], enforce="setup_schedulers", lifts={"body": Lift(DP_CPP,
    r"void partitioner::setup_schedulers\(\)", rules=[
        Sub(r"\bscheduling_policy (\w+);", r"int \1 = SP_unspecified;", 1),
        Sub(r"std::string (\w+) = rtcfg_\.get_entry\(\"pika\.scheduler\", std::string\(\)\);", r"struct str \1 = rtcfg_get_scheduler(self);", 1),
        Sub(r"0 == std::string\(\"([\w-]+)\"\)\.find\((\w+)\)", _name_id, "+"),
        Sub(r"\bscheduling_policy::(\w+)", r"SP_\1", None),
        Sub(r"\bthrow pika::detail::command_line_error\((?:[^;\"]|\"(?:[^\"\\]|\\.)*\")*\);", "{ vx_exc = true; return; }", None),
        Guard(r"std::(?:lock_guard|unique_lock|scoped_lock)\s*(?:<[^;()]*>)?\s*\w+\s*\(\s*(\w+)\s*\)\s*;", r"mutex_lock(&self->\1);", r"mutex_unlock(&self->\1);", 1),
        Sub(r"\binitial_thread_pools_\.size\(\)", "pools_size(self)", None),
        Sub(r"\binitial_thread_pools_\[(\w+)\]\.scheduling_policy_ = (\w+);", r"pool_policy_set(self, \1, \2);", None),
        Sub(r"\binitial_thread_pools_\[(\w+)\]\.scheduling_policy_", r"pool_policy_get(self, \1)", None),
        Sub(r"(?<![\w.>:])unspecified\b", "SP_unspecified", None),
    ], loops={1: LOOP_SETUPSCHED, "count": 1})}, funcs=[DP_CPP + ": resource::detail::partitioner::setup_schedulers"], min_obligations=10,
    doc="F+I: each documented scheduler name written in full selects the policy of that name; a value that matches no name stops start-up; "
        "only pools without an explicit scheduler get the default (symbolic number of pools)"))


# ---- the process mask string -> CPU mask conversion (added by main after seeded change C16-8 was missed) ------------------------------------
CPU_MASK_HPP = "libs/pika/topology/include/pika/topology/cpu_mask.hpp"
UNITS.append(Unit("mask.from_string.to_mask", "hexmask.c", enforce="to_mask",
                  lifts={"body": Lift(CPU_MASK_HPP, r"constexpr auto const to_mask = \[\]\(unsigned char const c\)", rules=[
                      Sub(r"\bstd::tolower\(", "vx_tolower(", None),
                      Call(r"\bthrow std::out_of_range", "{ vx_exc = true; return 0; }", None, stmt=True)])},
                  funcs=[CPU_MASK_HPP + ": from_string_impl<mask_type>::call (lambda to_mask: one hexadecimal digit -> its four bits)"],
                  min_obligations=3,
                  doc="F: every hexadecimal digit, in either case, yields exactly its value; every other character is rejected (all 256 characters)"))
META["trusted_base"] = list(META.get("trusted_base", [])) + ["specs/C16/hexmask.c vx_tolower: std::tolower in the \"C\" locale; `throw std::out_of_range(...)` -> flag + return"]
META["not_decided"] = list(META.get("not_decided", [])) + ["the accumulation loop of from_string_impl<mask_type>::call (resize / shift / or on the bitset type) and the 0x prefix checks"]


# ---- the ini files are merged in increasing precedence, each one that exists (added by main after seeded change C16-9 was missed) ----------
INI_DATA_CPP = "libs/pika/runtime_configuration/src/init_ini_data.cpp"
UNITS.append(Unit("ini.locations", "inifiles.c", enforce="ini_locations",
                  lifts={"body": Lift(INI_DATA_CPP, r"std::string cwd = std::filesystem::current_path\(\)", fragment_end=r";(?=\s*if \(!pika_ini_file\.empty\(\)\))", rules=[
                      Sub(r"std::string cwd = std::filesystem::current_path\(\)\.string\(\) \+ \"/\.pika\.ini\";", "", 1),
                      Sub(r"\bhandle_ini_file\(ini, cwd\)", "handle_ini_file_loc(LOC_CWD)", None),
                      Sub(r"\bhandle_ini_file\(ini, \"/etc/pika\.ini\"\)", "handle_ini_file_loc(LOC_ETC)", None),
                      Sub(r"\bhandle_ini_file_env\(ini, \"PIKA_INI\"\)", "handle_ini_file_loc(LOC_PIKA_INI)", None),
                      Sub(r"\bhandle_ini_file_env\(ini, \"HOME\", \"\.pika\.ini\"\)", "handle_ini_file_loc(LOC_HOME)", None),
                      Sub(r"\bhandle_ini_file_env\(ini, \"PWD\", \"\.pika\.ini\"\)", "handle_ini_file_loc(LOC_PWD)", None)])},
                  funcs=[INI_DATA_CPP + ": pika::util::init_ini_data_base (fragment: ./.pika.ini, $PIKA_INI, /etc/pika.ini, ~/.pika.ini, $PWD/.pika.ini)"],
                  min_obligations=5,
                  doc="T: every ini-file location is consulted exactly once, in increasing precedence, whatever the earlier locations returned"))
META["not_decided"] = list(META.get("not_decided", [])) + ["init_ini_data_base: the master ini path loop in front of the fragment and the --pika:config file after it; the merge itself (ini.cpp)"]
