import os
import re
import zlib

from vx.lift import Lift, Sub, Call, Members, Guard, DropStmt, Rule, LiftError, match_close, split_args
from vx.run import Unit

CLH = "libs/pika/command_line_handling/src/command_line_handling.cpp"
MC = "libs/pika/util/include/pika/util/manage_config.hpp"
GEA = "libs/pika/util/include/pika/util/get_entry_as.hpp"

_HERE = os.path.dirname(os.path.abspath(__file__)) if "__file__" in globals() else "/verif/specs/C16"
_KNOWN_TOKENS = set(re.findall(r"\bS_\w+\b", open(os.path.join(_HERE, "c16.h")).read()))


# ---- local rules (purely syntactic) ------------------------------------------------------------------------------------

class StrLit(Rule):
    """every string literal -> the opaque token that is named after its spelling: "pika.os_threads" -> S_pika_d_os_threads,
    "pika:pu-step" -> S_pika_c_pu_m_step, "" -> S_empty ('.' -> _d_, ':' -> _c_, '-' -> _m_).  A literal the header has no
    name for becomes VX_UNKNOWN_STR(<crc>): a token different from every named one, so an edited key/keyword in /repo shows up
    as a failed obligation and not as a compile error."""

    def __init__(self, n=None):
        self.n = n

    @staticmethod
    def name(lit):
        if lit == "":
            return "S_empty"
        s = lit.replace(".", "_d_").replace(":", "_c_").replace("-", "_m_")
        if re.fullmatch(r"\w+", s) and ("S_" + s) in _KNOWN_TOKENS:
            return "S_" + s
        return "VX_UNKNOWN_STR(%d)" % (zlib.crc32(lit.encode()) % 100000)

    def apply(self, text):
        k = [0]

        def rep(m):
            k[0] += 1
            return self.name(m.group(1))

        text = re.sub(r'"((?:[^"\\\n]|\\.)*)"', rep, text)
        self.check(k[0], "StrLit")
        return text


class DropBlock(Rule):
    """delete `<head> { ... }` (balanced): used only for the --pika:debug-clp dump to std::cerr"""

    def __init__(self, head, n=1):
        self.head, self.n = head, n

    def apply(self, text):
        k = 0
        while True:
            m = re.search(self.head + r"\s*\{", text, re.S)
            if not m:
                break
            cl = match_close(text, m.end() - 1, "{", "}")
            text = text[: m.start()] + text[cl + 1 :]
            k += 1
        self.check(k, "DropBlock(/%s/)" % self.head)
        return text


# `throw pika::detail::command_line_error("text" "more text");`  ->  record the exception in ghost state, leave the function
THROW = Sub(r'\bthrow\s+(?:\w+::)*(\w+)\s*\(\s*(?:"(?:[^"\\]|\\.)*"\s*)+\)\s*;', r"{ vx_throw(EXC_\1); return VX_RET; }", None)
# `x = pika::detail::from_string<T>(s);` (the throwing overload): call the stub, leave the function if it threw
FROM_STRING = Sub(r"\b(\w+)\s*=\s*pika::detail::from_string<\s*(?:std::)?(\w+)\s*>\(([^;]*)\)\s*;",
                  r"{ \1 = from_string_\2(\3); if (vx_exc) return VX_RET; }", None)
SPELLING = [
    DropStmt(r"\bPIKA_LOG", None),
    THROW,
    StrLit(None),
    FROM_STRING,
    Call(r"\bcfgmap\.get_value<\s*(?:std::)?(\w+)\s*>", "cfg_get_{h1}(cfgmap, {args})", None),
    Sub(r"\bcfgmap\.config_\[([^\]]+)\]\s*=\s*([^;]+);", r"cfg_set(cfgmap, \1, \2);", None),
    Call(r"\bvm\.count", "vm_count(vm, {args})", None),
    Sub(r"\bvm\[([^\]]+)\]\.as<\s*(?:std::)?(\w+)\s*>\(\)", r"vm_as_\2(vm, \1)", None),
    Call(r"\brtcfg\.get_entry", "rtcfg_get_entry(rtcfg, {args})", None),
    Call(r"\bstd::to_string", "to_string_size_t({args})", None),
    Sub(r"\(std::(max|min)\)", r"std_\1_size_t", None),
    Sub(r"\b(\w+)\.empty\(\)", r"str_is_empty(\1)", None),
    Sub(r"\bstd::string\b", "str_t", None),
    Sub(r"\bdetail::(?=handle_|get_number)", "", None),
]


def handler(unit, define, func, locate, enforce=None, doc="", min_obligations=2, extra=()):
    return Unit(unit, "handlers.c", defines=[define], enforce=enforce or func,
                lifts={"body": Lift(CLH, locate, rules=list(extra) + SPELLING)},
                funcs=[CLH + ": pika::detail::" + func], min_obligations=min_obligations, doc=doc)


PRECEDENCE = ("F: result == command-line value if the option is in the variables_map, else the configuration-map value if the "
              "map holds a usable one, else the default handed in; never throws")
UNITS = [
    handler("scheduler", "U_SCHEDULER", "handle_scheduler", r"std::string handle_scheduler\(", doc=PRECEDENCE),
    handler("affinity", "U_AFFINITY", "handle_affinity", r"std::string handle_affinity\(", doc=PRECEDENCE),
    handler("process_mask", "U_PROCESS_MASK", "handle_process_mask", r"std::string handle_process_mask\(", doc=PRECEDENCE),
    handler("pu_step", "U_PU_STEP", "handle_pu_step", r"std::size_t handle_pu_step\(", doc=PRECEDENCE),
    handler("pu_offset", "U_PU_OFFSET", "handle_pu_offset", r"std::size_t handle_pu_offset\(", doc=PRECEDENCE),
    handler("numa_sensitive", "U_NUMA_SENSITIVE", "handle_numa_sensitive", r"std::size_t handle_numa_sensitive\(",
            doc="F: precedence as above; a command-line value > 2 throws command_line_error; nothing else throws"),
    handler("numa_sensitive.range", "U_NUMA_SENSITIVE_RANGE", "handle_numa_sensitive", r"std::size_t handle_numa_sensitive\(",
            doc="F: whatever the source, a resolved value > 2 is rejected (never returned)"),
]


# ---- thread / core counts ------------------------------------------------------------------------------------------------
def threads_unit(unit, define, func, locate, doc, extra=(), loops=None, min_obligations=2):
    return Unit(unit, "threads.c", defines=[define], enforce=func,
                lifts={"body": Lift(CLH, locate, rules=list(extra) + SPELLING, loops=loops)},
                funcs=[CLH + ": pika::detail::" + func], min_obligations=min_obligations, doc=doc)


TOPOLOGY = [
    Sub(r"\bthreads::detail::topology\s*&\s*(\w+)\s*=", r"struct topology *\1 =", 1),
    Call(r"\btop\.(\w+)", lambda args, env: "topo_%s(top%s)" % (env["h1"], "".join(", " + a for a in args)), "+"),
    Sub(r"\bthreads::detail::mask_type\b", "struct mask", None),
    Sub(r"\bthreads::detail::(count|bit_and)\b", r"mask_\1", None),
    Sub(r"\bthreads::detail::", "", None),
]
LOOP_CORES = """
__CPROVER_assigns(num_core, num_cores_proc_mask, g_queried, g_hits, g_order_ok)
__CPROVER_loop_invariant(num_core <= num_cores && g_queried == num_core && g_hits == num_cores_proc_mask && g_hits <= g_queried && g_order_ok)
__CPROVER_decreases(num_cores - num_core)
"""
UNITS += [
    threads_unit("num_threads", "U_NUM_THREADS", "handle_num_threads", r"std::size_t handle_num_threads\(", min_obligations=20,
                 doc="F: thread count = --pika:threads if given, else pika.os_threads of the configuration map, else the runtime "
                     "configuration entry (${PIKA_THREADS:cores}), else one per PU; 'cores'/'all' resolve to the mask-aware "
                     "defaults; pika.force_min_os_threads is a lower bound; a value that is no count, --pika:threads=0 and "
                     "force_min_os_threads=0 throw; the result is never 0; no exception without an invalid supplied value"),
    threads_unit("num_threads.zero_rejected", "U_NUM_THREADS_ZERO", "handle_num_threads", r"std::size_t handle_num_threads\(",
                 doc="F: a resolved thread count of 0 is rejected whatever its source"),
    threads_unit("num_cores", "U_NUM_CORES", "handle_num_cores", r"std::size_t handle_num_cores\(", min_obligations=10,
                 doc="F: core count = --pika:cores if given, else pika.cores of the configuration map, else the number of "
                     "threads; 'all' resolves to the mask-aware number of cores; a command-line value that is no count throws, "
                     "nothing else does"),
    threads_unit("default_threads", "U_DEFAULT_THREADS", "get_number_of_default_threads",
                 r"std::size_t get_number_of_default_threads\(", extra=TOPOLOGY,
                 doc="F: PUs of the process mask if the mask is used, else hardware_concurrency()"),
    threads_unit("default_cores", "U_DEFAULT_CORES", "get_number_of_default_cores",
                 r"std::size_t get_number_of_default_cores\(", extra=TOPOLOGY, loops={1: LOOP_CORES, "count": 1},
                 min_obligations=10,
                 doc="T + loop contract: all cores if the mask is ignored; else every core 0..n-1 is tested against the process "
                     "mask exactly once, in order, and the result is the number of tests that succeeded"),
]


# ---- the accessors of the two lower-priority sources ---------------------------------------------------------------------
GV_RULES = [
    Sub(r"\bmap_type::const_iterator\b", "map_iter", None),
    Call(r"\bconfig_\.(find|end)", lambda args, env: "map_%s(&self->config_%s)" % (env["h1"], "".join(", " + a for a in args)), "+"),
    Sub(r"\(\*(\w+)\)\.second\b", r"\1->val", None),
    Sub(r"\b(?:pika::)?detail::from_string<\s*(?:T|DestType)\s*>", "from_string_dflt_T", "+"),
]
UNITS += [
    Unit("cfgmap.get_value." + t, "getvalue.c", defines=["U_GET_VALUE"] + d, enforce="manage_config_get_value",
         lifts={"body": Lift(MC, r"T get_value\(std::string const& key, T dflt = T\(\)\) const", rules=GV_RULES)},
         funcs=[MC + ": pika::detail::manage_config::get_value<%s>" % ct],
         doc="F: the stored value if the key is present and its text converts to T, else dflt; never throws (= stub cfg_get_%s)" % t)
    for (t, d, ct) in [("size_t", ["T_IS_SIZE_T"], "std::size_t"), ("string", [], "std::string")]
]
UNITS += [
    Unit("rtcfg.get_entry_as.size_t", "getvalue.c", defines=["U_GET_ENTRY_AS", "from_string_dflt_T=from_string_dflt_size_t"],
         enforce="get_entry_as_size_t",
         lifts={"body": Lift(GEA, r"DestType get_entry_as\(Config const& config, std::string const& key, DestType const& dflt\)",
                             which=0, expect=2, rules=GV_RULES[3:] + [
                                 StrLit(None),
                                 Sub(r"\bstd::string\s+const\s*&\s*(\w+)\s*=", r"str_t \1 =", 1),
                                 Call(r"\bconfig\.get_entry", "rtcfg_get_entry(config, {args})", 1),
                                 Sub(r"\b(\w+)\.empty\(\)", r"str_is_empty(\1)", None)])},
         funcs=[GEA + ": pika::detail::get_entry_as<std::size_t>"],
         doc="F: the entry's value if it exists, is not empty and converts, else dflt; never throws"),
]


# ---- handle_arguments: resolved value -> member -> ini entry ------------------------------------------------------------------
class IniEmplace(Rule):
    """`ini_config.emplace_back("key[!]=" + E)` -> ini_put_str(ini_config, KEY, forced, E); with E = std::to_string(N) ->
    ini_put_num(ini_config, KEY, forced, N); a literal value "key=123" -> ini_put_num(..., 123).  Key and value are captured,
    nothing about which key belongs to which value is encoded here."""

    def __init__(self, n="+"):
        self.n = n
        self.call = Call(r"\bini_config\.emplace_back", self.rep, None)
        self.k = 0

    def rep(self, args, env):
        self.k += 1
        m = re.fullmatch(r'"([\w.]+?)(!?)=([^"]*)"\s*(?:\+\s*(.+))?', args[0].strip(), re.S)
        if not m or len(args) != 1:
            raise LiftError("IniEmplace: unrecognised argument %r" % (args,))
        key, forced, lit, expr = m.group(1), "true" if m.group(2) else "false", m.group(3), m.group(4)
        if expr is not None:
            if lit:
                raise LiftError("IniEmplace: literal value and expression in %r" % args[0])
            mt = re.fullmatch(r"std::to_string\((.*)\)", expr.strip(), re.S)
            if mt:
                return "ini_put_num(ini_config, %s, %s, %s)" % (StrLit.name(key), forced, mt.group(1))
            return "ini_put_str(ini_config, %s, %s, %s)" % (StrLit.name(key), forced, expr.strip())
        if re.fullmatch(r"\d+", lit):
            return "ini_put_num(ini_config, %s, %s, %s)" % (StrLit.name(key), forced, lit)
        return "ini_put_str(ini_config, %s, %s, %s)" % (StrLit.name(key), forced, StrLit.name(lit))

    def apply(self, text):
        self.k = 0
        text = self.call.apply(text)
        self.check(self.k, "IniEmplace")
        return text


class MayThrow(Rule):
    """a statement that contains a call of a callee that may throw gets `if (vx_exc) return VX_RET;` appended (the
    statement must stand directly in a block, so that appending a second statement does not change the control flow)"""

    def __init__(self, head, n=None):
        self.head, self.n = head, n

    def apply(self, text):
        from vx.lift import _stmt_end
        k, pos = 0, 0
        rx = re.compile(self.head)
        while True:
            m = rx.search(text, pos)
            if not m:
                break
            j = m.start() - 1
            depth = 0
            while j >= 0:
                c = text[j]
                if c in ")]":
                    depth += 1
                elif c in "([":
                    depth -= 1
                elif c in ";{}" and depth == 0:
                    break
                j -= 1
            if depth != 0:
                raise LiftError("MayThrow(/%s/): call inside a condition or argument list of a compound statement" % self.head)
            head_text = text[j + 1 : m.start()]
            if re.search(r"\b(if|else|for|while|do|return)\b", head_text):
                raise LiftError("MayThrow(/%s/): statement is not a plain expression/declaration statement" % self.head)
            end = _stmt_end(text, m.start())
            ins = " if (vx_exc) return VX_RET;"
            text = text[: end + 1] + ins + text[end + 1 :]
            pos = end + 1 + len(ins)
            k += 1
        self.check(k, "MayThrow(/%s/)" % self.head)
        return text


def member_call(name):
    """`name();` (member function of the same object) -> `name(self);` + leave if it threw"""
    return Sub(r"(?<![\w.>:])%s\(\);" % name, "{ %s(self); if (vx_exc) return VX_RET; }" % name, 1)


ARG_MEMBERS = ["use_process_mask_", "process_mask_", "scheduler_", "affinity_domain_", "affinity_bind_", "pu_step_", "pu_offset_",
               "numa_sensitive_", "num_threads_", "num_cores_"]
ARG_RULES = [
    DropStmt(r"\bPIKA_LOG", None),
    DropBlock(r"\bif\s*\(\s*debug_clp\s*\)", 1),
    THROW,
    IniEmplace("+"),
    StrLit(None),
    # --pika:ini plumbing
    Sub(r"\bstd::vector<std::string>\s+(\w+)\s*=\s*vm\[([^\]]+)\]\.as<\s*std::vector<std::string>\s*>\(\);",
        r"struct strvec \1 = vm_as_vector_string(vm, \2);", 1),
    Sub(r"\bstd::copy\((\w+)\.begin\(\),\s*\1\.end\(\),\s*std::back_inserter\((\w+)\)\);", r"vec_append_all(\2, &\1);", 1),
    Sub(r"\bcfgmap\.add\((\w+)\);", r"cfg_add(cfgmap, &\1);", 1),
    # process mask installation
    Sub(r"(?<![\w:])from_string<\s*(?:\w+::)*(\w+)\s*>\(", r"from_string_\1(", 1),
    MayThrow(r"\bfrom_string_mask_type\(", 1),
    Sub(r"\bthreads::detail::get_topology\(\)\.(\w+)\(", r"topo_\1(get_topology(), ", 1),
    # callees: resolution functions (may throw), checks (member functions, may throw)
    MayThrow(r"\bdetail::handle_\w+\(|(?<![\w:])handle_process_mask\(", 9),
    Sub(r"\bdetail::(?=handle_)", "", None),
    member_call("check_affinity_domain"), member_call("check_pu_step"), member_call("check_pu_offset"),
    member_call("check_affinity_description"),
    Sub(r"\bupdate_logging_settings\(", "update_logging_settings(self, ", 1),
    # the three sources
    Call(r"\brtcfg_\.get_entry", "rtcfg_get_entry(&self->rtcfg_, {args})", None),
    Call(r"\b(?:pika::)?(?:detail::)?get_entry_as<\s*(?:std::)?(\w+)\s*>", "get_entry_as_{h1}({args})", None),
    Sub(r"(?<![\w.>&])rtcfg_\b", "&self->rtcfg_", None),
    Call(r"\bvm_\.count", "vm_count(&self->vm_, {args})", None),
    Sub(r"\bvm_\[([^\]]+)\]\.as<\s*(?:std::)?(\w+)\s*>\(\)", r"vm_as_\2(&self->vm_, \1)", None),
    Sub(r"\bstd::size_t\((-?\w+)\)", r"((size_t) (\1))", None),
] + SPELLING[3:] + [Members(ARG_MEMBERS)]
from vx.lift import Auto
UNITS += [
    Unit("handle_arguments", "arguments.c", enforce="handle_arguments",
         lifts={"body": Lift(CLH, r"void command_line_handling::handle_arguments\(", rules=ARG_RULES, post=[Auto(1)])},
         funcs=[CLH + ": pika::detail::command_line_handling::handle_arguments"], min_obligations=60,
         doc="T: every setting is resolved exactly once (resolution functions as counting stubs) with the runtime-configuration "
             "entry or the built-in literal as default; the resolved value is stored in its member and written exactly once "
             "under its ini key, after the user's --pika:ini entries; use_process_mask_ = !(--pika:ignore-process-mask or "
             "config map or environment level > 0); validity checks run once each on the resolved values; a non-empty "
             "process mask is installed once; --pika:high-priority-threads beyond the thread count or with a scheduler "
             "without priority queues throws"),
]

META = {
    "explanation": "",
    "trusted_base": [],
    "assumptions": [],
    "not_decided": [],
}
