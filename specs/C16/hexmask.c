/* C16 / C15 -- the resolved process mask string ("0x...", from --pika:process-mask / PIKA_PROCESS_MASK / pika.process_mask) becomes the
 * CPU mask handed to topology::set_cpubind_mask_main_thread: from_string_impl<mask_type>::call (topology/cpu_mask.hpp).  This unit: the
 * digit conversion (the lambda to_mask), for ALL 256 values of the character: a hexadecimal digit in either case yields its value
 * (and nothing else: the caller ORs it into the mask, any other bit selects PUs the user did not name), anything else is rejected.
 * F contract, loop free, full domain.  (written by main after seeded change C16-8 was missed) */
#include "vx.h"
static bool vx_exc;
/* std::tolower(int) in the "C" locale (pika never calls setlocale) */
static int vx_tolower(int c) { return (c >= 'A' && c <= 'Z') ? c + ('a' - 'A') : c; }
#define IS_DEC(c) ((c) >= '0' && (c) <= '9')
#define IS_LOW(c) ((c) >= 'a' && (c) <= 'f')
#define IS_UPP(c) ((c) >= 'A' && (c) <= 'F')
#define IS_HEX(c) (IS_DEC(c) || IS_LOW(c) || IS_UPP(c))
#define HEX_VAL(c) (IS_DEC(c) ? (c) - '0' : IS_LOW(c) ? (c) - 'a' + 10 : (c) - 'A' + 10)
//@FUNC
int to_mask(unsigned char c)
__CPROVER_requires(!vx_exc)
__CPROVER_ensures(IS_HEX(c) ? (!vx_exc && __CPROVER_return_value == HEX_VAL(c)) : vx_exc)
__CPROVER_assigns(vx_exc)
//@LIFT body

void harness(void)
{
  unsigned char c = nondet_u8();
  vx_exc = false;
  int v = to_mask(c);
  if (IS_DEC(c)) VX_REACH("decimal_digit"); if (IS_LOW(c)) VX_REACH("lower_case_digit"); if (IS_UPP(c)) VX_REACH("upper_case_digit");
  if (vx_exc) VX_REACH("rejected");
}
