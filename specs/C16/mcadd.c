/* C16 -- pika::detail::manage_config::add (util/src/manage_config.cpp): "--pika:ini=key=value" entries enter the configuration
 * map in ARGUMENT ORDER.  The options of PIKA_COMMANDLINE_OPTIONS are prepended to the real command line (unit
 * cmdline.prepend_options), so an entry given on the command line comes LATER than an entry for the same key from the environment:
 * for the command line to keep precedence the later entry has to win (as it does in the ini registry, section::parse).
 * (written by main; I contract with one symbolic victim key) */
#include "vx.h"
struct sstr { int id; bool bang; };          /* a key string: identity token + "ends in '!'" */
struct entry { int key_id; bool key_bang; int value; };
struct manage_config { bool has_k; int val_k; };   /* config_ restricted to the victim key g_K; other keys are not tracked */
struct cfgvec { size_t size; };
static int g_K;                 /* the victim key */
static bool g_seen_k; static int g_last_k_val;   /* among the entries read so far: one had key g_K; the value of the LAST such entry */
static struct entry g_cur;

/* for (std::string const& s : cfg): entry i (arbitrary, read once) */
static struct entry const *cfg_at(struct cfgvec const *v, size_t i)
{
  VX_ASSERT(i < v->size, "range-for element within the vector");
  g_cur.key_id = nondet_int(); g_cur.key_bang = nondet_bool(); g_cur.value = nondet_int();
  if (g_cur.key_id == g_K) { g_seen_k = true; g_last_k_val = g_cur.value; }
  return &g_cur;
}
static size_t str_find_eq(struct entry const *s) { size_t p = nondet_size(); return p; }           /* s.find_first_of('=') */
static struct sstr str_key_part(struct entry const *s, size_t p) { struct sstr k; k.id = s->key_id; k.bang = s->key_bang; return k; }   /* s.substr(0, p) */
static int str_value_part(struct entry const *s, size_t from) { return s->value; }                 /* s.substr(p + 1) */
static struct sstr trim_key(struct sstr k) { return k; }                                           /* trim_whitespace */
static int trim_val(int v) { return v; }
static bool sstr_last_is_bang(struct sstr const *k) { return k->bang; }                            /* key[key.size() - 1] == '!' */
static void sstr_drop_last(struct sstr *k) { VX_ASSERT(k->bang, "only a trailing '!' is erased from a key"); k->bang = false; }
/* std::map<std::string, std::string> */
static void map_insert(struct manage_config *m, struct sstr k, int v)      /* insert(value_type): no effect if the key exists */
{ VX_ASSERT(!k.bang, "keys are stored without the trailing '!'"); if (k.id == g_K && !m->has_k) { m->has_k = true; m->val_k = v; } }
static void map_assign(struct manage_config *m, struct sstr k, int v)      /* operator[] = / insert_or_assign */
{ VX_ASSERT(!k.bang, "keys are stored without the trailing '!'"); if (k.id == g_K) { m->has_k = true; m->val_k = v; } }

//@FUNC
void manage_config_add(struct manage_config *self, struct cfgvec const *cfg)
__CPROVER_requires(!g_seen_k)
/* after add(cfg): a key defined in cfg has the value of its LAST definition in cfg (later = closer to the real command line),
 * whatever the map held before; a key not mentioned keeps what it had */
__CPROVER_ensures(g_seen_k ==> (self->has_k && self->val_k == g_last_k_val))
__CPROVER_ensures(!g_seen_k ==> (self->has_k == __CPROVER_old(self->has_k) && self->val_k == __CPROVER_old(self->val_k)))
__CPROVER_assigns(self->has_k, self->val_k, g_seen_k, g_last_k_val, g_cur)
//@LIFT body

void harness(void)
{
  struct manage_config m; struct cfgvec v;
  g_K = nondet_int(); g_seen_k = false; g_last_k_val = 0; g_cur.key_id = 0; g_cur.key_bang = false; g_cur.value = 0;
  m.has_k = nondet_bool(); m.val_k = nondet_int();
  v.size = nondet_size();
  bool had = m.has_k;
  manage_config_add(&m, &v);
  if (g_seen_k && had) VX_REACH("key_redefined");
  if (g_seen_k && !had) VX_REACH("key_defined");
  if (!g_seen_k) VX_REACH("key_not_mentioned");
}
