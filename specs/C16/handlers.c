/* C16 units: the resolution functions of command_line_handling.cpp (F contracts over the three sources).
 *
 * Specification (property C16): result == command-line value if the option is on the command line, else the
 * configuration-map value if the map holds one, else the default handed in (environment-derived / built-in);
 * an invalid value is answered by an exception, never used and never silently replaced. */
#include "c16.h"
#define VX_RET 0

/* resolved value, written once per setting straight from the property sentence */
#define RESOLVE_STR(vme, cfe, dflt) ((vme).present ? (vme).sval : CFG_USABLE_STR(cfe) ? (cfe).val : (dflt))
#define RESOLVE_NUM(vme, cfe, dflt) ((vme).present ? (vme).nval : CFG_USABLE_NUM(cfe) ? TOK_NUM((cfe).val) : (dflt))

#ifdef U_SCHEDULER
//@FUNC
str_t handle_scheduler(struct cfgmap *cfgmap, struct vmap *vm, str_t default_)
__CPROVER_requires(!vx_exc)
__CPROVER_ensures(!vx_exc)
__CPROVER_ensures(__CPROVER_return_value == RESOLVE_STR(vm->scheduler, cfgmap->scheduler, default_))
//@LIFT body
#endif

#ifdef U_AFFINITY
//@FUNC
str_t handle_affinity(struct cfgmap *cfgmap, struct vmap *vm, str_t default_)
__CPROVER_requires(!vx_exc)
__CPROVER_ensures(!vx_exc)
__CPROVER_ensures(__CPROVER_return_value == RESOLVE_STR(vm->affinity, cfgmap->affinity, default_))
//@LIFT body
#endif

#ifdef U_PROCESS_MASK
//@FUNC
str_t handle_process_mask(struct cfgmap *cfgmap, struct vmap *vm, str_t default_, bool use_process_mask)
__CPROVER_requires(!vx_exc)
__CPROVER_ensures(!vx_exc)
__CPROVER_ensures(__CPROVER_return_value == RESOLVE_STR(vm->process_mask, cfgmap->process_mask, default_))
//@LIFT body
#endif

#ifdef U_PU_STEP
//@FUNC
size_t handle_pu_step(struct cfgmap *cfgmap, struct vmap *vm, size_t default_)
__CPROVER_requires(!vx_exc)
__CPROVER_ensures(!vx_exc)
__CPROVER_ensures(__CPROVER_return_value == RESOLVE_NUM(vm->pu_step, cfgmap->pu_step, default_))
//@LIFT body
#endif

#ifdef U_PU_OFFSET
//@FUNC
size_t handle_pu_offset(struct cfgmap *cfgmap, struct vmap *vm, size_t default_)
__CPROVER_requires(!vx_exc)
__CPROVER_ensures(!vx_exc)
__CPROVER_ensures(__CPROVER_return_value == RESOLVE_NUM(vm->pu_offset, cfgmap->pu_offset, default_))
//@LIFT body
#endif

#define NUMA_R RESOLVE_NUM(vm->numa_sensitive, cfgmap->numa_sensitive, default_)
#ifdef U_NUMA_SENSITIVE
//@FUNC
size_t handle_numa_sensitive(struct cfgmap *cfgmap, struct vmap *vm, size_t default_)
__CPROVER_requires(!vx_exc)
/* precedence */
__CPROVER_ensures(!vx_exc ==> __CPROVER_return_value == NUMA_R)
/* an invalid command-line value is rejected ... */
__CPROVER_ensures((vm->numa_sensitive.present && vm->numa_sensitive.nval > 2) ==> vx_exc)
/* ... and nothing else is (no spurious start-up failure) */
__CPROVER_ensures(vx_exc ==> (g_exc_kind == EXC_command_line_error && NUMA_R > 2))
__CPROVER_assigns(vx_exc, g_exc_kind, g_throws)
//@LIFT body
#endif

#ifdef U_NUMA_SENSITIVE_RANGE
//@FUNC
size_t handle_numa_sensitive(struct cfgmap *cfgmap, struct vmap *vm, size_t default_)
__CPROVER_requires(!vx_exc)
/* "Invalid values ... stop start-up with an error rather than being ignored": the allowed values are 0, 1, 2 whatever
 * the source of the value */
__CPROVER_ensures(NUMA_R > 2 ==> vx_exc)
__CPROVER_ensures(!vx_exc ==> __CPROVER_return_value <= 2)
__CPROVER_assigns(vx_exc, g_exc_kind, g_throws)
//@LIFT body
#endif

void harness(void)
{
  struct cfgmap cm;
  struct vmap vm;
  init_tokens();
  init_cfgmap(&cm);
  init_vmap(&vm);
#if defined(U_SCHEDULER) || defined(U_AFFINITY) || defined(U_PROCESS_MASK)
  str_t d = nondet_tok();
#ifdef U_SCHEDULER
  struct vm_entry *v = &vm.scheduler; struct cfg_entry *c = &cm.scheduler;
  str_t r = handle_scheduler(&cm, &vm, d);
#endif
#ifdef U_AFFINITY
  struct vm_entry *v = &vm.affinity; struct cfg_entry *c = &cm.affinity;
  str_t r = handle_affinity(&cm, &vm, d);
#endif
#ifdef U_PROCESS_MASK
  struct vm_entry *v = &vm.process_mask; struct cfg_entry *c = &cm.process_mask;
  str_t r = handle_process_mask(&cm, &vm, d, nondet_bool());
#endif
  if (v->present) { VX_REACH("from_command_line"); if (c->present && c->val != v->sval && r == v->sval) VX_REACH("command_line_beats_config"); }
  else if (CFG_USABLE_STR(*c)) { VX_REACH("from_config_map"); if (r != d) VX_REACH("config_beats_default"); }
  else VX_REACH("from_default");
#endif
#if defined(U_PU_STEP) || defined(U_PU_OFFSET) || defined(U_NUMA_SENSITIVE) || defined(U_NUMA_SENSITIVE_RANGE)
  size_t d = nondet_size();
#ifdef U_PU_STEP
  struct vm_entry *v = &vm.pu_step; struct cfg_entry *c = &cm.pu_step;
  size_t r = handle_pu_step(&cm, &vm, d);
#endif
#ifdef U_PU_OFFSET
  struct vm_entry *v = &vm.pu_offset; struct cfg_entry *c = &cm.pu_offset;
  size_t r = handle_pu_offset(&cm, &vm, d);
#endif
#if defined(U_NUMA_SENSITIVE) || defined(U_NUMA_SENSITIVE_RANGE)
  struct vm_entry *v = &vm.numa_sensitive; struct cfg_entry *c = &cm.numa_sensitive;
  size_t r = handle_numa_sensitive(&cm, &vm, d);
  if (vx_exc) VX_REACH("rejected");
#endif
  if (!vx_exc)
  {
    if (v->present) { VX_REACH("from_command_line"); if (CFG_USABLE_NUM(*c) && TOK_NUM(c->val) != v->nval && r == v->nval) VX_REACH("command_line_beats_config"); }
    else if (CFG_USABLE_NUM(*c)) { VX_REACH("from_config_map"); if (r != d) VX_REACH("config_beats_default"); }
    else VX_REACH("from_default");
  }
#endif
}
