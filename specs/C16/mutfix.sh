#!/bin/bash
# specs/C16/mutfix.sh <repo-relative file> <python-regex> <replacement> [check args]
# Development aid, same contract as tools/mut.sh, but the scratch copy of /repo/libs FIRST receives the candidate repair of
# the two C16 findings (specs/C16/candidate_repair.patch: range check of pika.numa_sensitive for every source; thread
# count 0 rejected for every source), so that the red units numa_sensitive.range / num_threads.zero_rejected can be seen
# green and mutants can be judged against a green baseline.  Pass NONE NONE NONE to run the repaired tree unmutated.
# Never touches /repo.
f=$1; pat=$2; rep=$3; shift 3
S=$(mktemp -d /tmp/vxmut.XXXXXX)
trap 'rm -rf "$S"' EXIT
cp -r /repo/libs "$S/libs"; ln -s /repo/_build "$S/_build"
(cd "$S" && patch -s -p1 < /verif/specs/C16/candidate_repair.patch) || { echo "REPAIR DID NOT APPLY"; exit 9; }
if [ "$f" != "NONE" ]; then
python3 - "$S/$f" "$pat" "$rep" <<'PY' || { echo "MUTATION DID NOT APPLY (regex must match exactly once)"; exit 9; }
import re,sys
f,pat,rep=sys.argv[1:4]
s=open(f).read()
n=len(re.findall(pat,s,flags=re.S))
if n!=1: print("matches:",n); sys.exit(1)
t=re.sub(pat,rep,s,count=1,flags=re.S)
if t==s: sys.exit(1)
open(f,'w').write(t)
PY
fi
cd /verif && VX_REPO=$S VX_OUTDIR=$S/out VX_EVIDENCE_DIR=$S/ev VX_JOBS=${VX_JOBS:-4} ./check C16 "$@" | grep -E "FAILED|VIOLATION|UNDECIDED|undecided|KNOWN" | cut -c1-330
echo "exit=${PIPESTATUS[0]}"
