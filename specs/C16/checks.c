/* C16 units: the validity checks handle_arguments runs on the resolved values ("invalid values stop start-up with an
 * error rather than being ignored"), and handle_affinity_bind. */
#include "c16.h"
#define VX_RET

struct clh { size_t pu_step_, pu_offset_; str_t affinity_domain_, affinity_bind_; };
static size_t g_hw;     /* threads::detail::hardware_concurrency(): number of processing units (opaque input) */
static size_t hardware_concurrency(void) { return g_hw; }
#define NO_OFFSET ((size_t) -1)    /* "no --pika:pu-offset given" */
#define CHK_FRAME vx_exc, g_exc_kind, g_throws

#ifdef U_CHECK_PU_OFFSET
//@FUNC
void check_pu_offset(const struct clh *self)
__CPROVER_requires(!vx_exc)
/* an offset that is not smaller than the number of processing units is rejected; every other one is accepted */
__CPROVER_ensures(vx_exc == (self->pu_offset_ != NO_OFFSET && self->pu_offset_ >= g_hw))
__CPROVER_assigns(CHK_FRAME)
//@LIFT body
#endif

#ifdef U_CHECK_PU_STEP
//@FUNC
void check_pu_step(const struct clh *self)
__CPROVER_requires(!vx_exc)
/* "value must be non-zero and smaller than number of available processing units" (a machine with one PU has no choice) */
__CPROVER_ensures((!vx_exc && g_hw > 1) ==> (self->pu_step_ >= 1 && self->pu_step_ < g_hw))
__CPROVER_ensures(vx_exc ==> (self->pu_step_ == 0 || self->pu_step_ >= g_hw))
__CPROVER_assigns(CHK_FRAME)
//@LIFT body
#endif

#ifdef U_CHECK_AFFINITY_DESCRIPTION
#define PLAIN (self->pu_step_ == 1 && (self->pu_offset_ == NO_OFFSET || self->pu_offset_ == 0) && self->affinity_domain_ == S_pu)
//@FUNC
void check_affinity_description(const struct clh *self)
__CPROVER_requires(!vx_exc)
/* "--pika:bind should not be used with --pika:pu-step, --pika:pu-offset, or --pika:affinity" */
__CPROVER_ensures(vx_exc == (self->affinity_bind_ != S_empty && !PLAIN))
__CPROVER_assigns(CHK_FRAME)
//@LIFT body
#endif

#ifdef U_CHECK_AFFINITY_DOMAIN
/* std::string(LITERAL).find(s) == 0  <=>  s is a prefix of LITERAL.  Opaque: for a user string the answer is an arbitrary
 * but fixed bit per literal; for the model's keywords it is the fact about their spelling. */
static bool g_prefix_of[4][NTOK];
static int hay_index(str_t hay) { return hay == S_pu ? 0 : hay == S_core ? 1 : hay == S_socket ? 2 : hay == S_machine ? 3 : -1; }
static size_t str_find(str_t hay, str_t needle)
{
  int h = hay_index(hay);
  if (needle == S_empty) return 0;                      /* the empty string is found at position 0 of every string */
  if (needle == hay) return 0;
  if (h >= 0 && needle >= T_USER0 && needle < T_FRESH0) return g_prefix_of[h][needle] ? 0 : (size_t) -1;
  return (size_t) -1;                                     /* no other keyword of the model is a prefix of pu/core/socket/machine */
}
#define ABBREVIATES(d, lit) (str_find(lit, d) == 0)
//@FUNC
void check_affinity_domain(const struct clh *self)
__CPROVER_requires(!vx_exc)
/* "value must be one of: pu, core, socket, or machine" (leading abbreviations are accepted) */
__CPROVER_ensures(vx_exc == !(self->affinity_domain_ == S_pu || ABBREVIATES(self->affinity_domain_, S_pu) || ABBREVIATES(self->affinity_domain_, S_core) || ABBREVIATES(self->affinity_domain_, S_socket) || ABBREVIATES(self->affinity_domain_, S_machine)))
__CPROVER_assigns(CHK_FRAME)
//@LIFT body
#endif

void harness(void)
{
  struct clh c;
  init_tokens();
  g_hw = nondet_size();
  c.pu_step_ = nondet_size();
  c.pu_offset_ = nondet_size();
  c.affinity_domain_ = nondet_tok();
  c.affinity_bind_ = nondet_tok();
#ifdef U_CHECK_PU_OFFSET
  check_pu_offset(&c);
  if (vx_exc) VX_REACH("rejected"); else { VX_REACH("accepted"); if (c.pu_offset_ == NO_OFFSET) VX_REACH("not_given"); if (c.pu_offset_ + 1 == g_hw) VX_REACH("last_pu"); }
#endif
#ifdef U_CHECK_PU_STEP
  check_pu_step(&c);
  if (vx_exc) { VX_REACH("rejected"); if (c.pu_step_ == 0) VX_REACH("rejected_zero"); }
  else { VX_REACH("accepted"); if (g_hw <= 1) VX_REACH("single_pu_machine"); if (c.pu_step_ + 1 == g_hw && g_hw > 2) VX_REACH("largest_step"); }
#endif
#ifdef U_CHECK_AFFINITY_DESCRIPTION
  check_affinity_description(&c);
  if (vx_exc) VX_REACH("rejected");
  else { VX_REACH("accepted"); if (c.affinity_bind_ == S_empty) VX_REACH("no_binding"); else VX_REACH("binding_alone"); }
#endif
#ifdef U_CHECK_AFFINITY_DOMAIN
  int i, j;
  for (i = 0; i < 4; i++) for (j = 0; j < NTOK; j++) g_prefix_of[i][j] = nondet_bool();
  check_affinity_domain(&c);
  if (vx_exc) VX_REACH("rejected");
  else { VX_REACH("accepted"); if (c.affinity_domain_ == S_core) VX_REACH("core"); if (c.affinity_domain_ >= T_USER0) VX_REACH("abbreviation"); if (c.affinity_domain_ == S_empty) VX_REACH("empty_string_accepted"); }
#endif
}
