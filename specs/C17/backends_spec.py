# C17 (addition) -- queue back-end adapters (schedulers/lockfree_queue_backends.hpp) over a SEQUENTIAL stub of the underlying
# container, and the not yet lifted members of contiguous_index_queue (range constructor, queue constructors, copy operations).
# Defines BACKENDS_UNITS / BACKENDS_META / BACKENDS_STATIC; merged into specs/C17/spec.py by the maintainer
#   exec(open(".../backends_spec.py").read()); UNITS += BACKENDS_UNITS
# Templates: backends_seq.h (container stub = trusted sequence contract, ghost victims, what the names promise),
#            backends_seq.c (ctor / push / pop / empty contracts + order lemmas), backends_ciq.c (index queue constructors).
import re as _bk_re
from vx.lift import Lift as _BkLift, Sub as _BkSub, Call as _BkCall, Rule as _BkRule, LiftError as _BkLiftError
from vx.lift import locate as _bk_locate, match_close as _bk_match_close, split_args as _bk_split_args
from vx.lift import resolve_pp as _bk_resolve_pp, apply_rules as _bk_apply_rules, splice_loops as _bk_splice_loops
from vx.lift import GENERIC_RULES as _BK_GENERIC
from vx.run import Unit as _BkUnit
from vx import census as _bk_census

BK_SRC = "libs/pika/schedulers/include/pika/schedulers/lockfree_queue_backends.hpp"
BK_CIQ = "libs/pika/concurrency/include/pika/concurrency/detail/contiguous_index_queue.hpp"


class BkCtorLift(_BkLift):
    """A constructor `Name(params) [: m1(args), m2{args}] { BODY }`.  The mem-initialiser list becomes statements in front of
    the lifted BODY, in the order written: for a member listed in `members` the (ctor, default) templates are used
    (`{args}` = the initialiser's argument text, untouched; an empty argument list selects the default template); listed
    members that the list does not mention get their default template appended (C++ default-initialises them); any other
    initialiser name is an extraction failure.  Unit rules run on the result.  (Variant of CtorLift of specs/C07, C01.)"""

    def __init__(self, src, locate, members, order=None, **kw):
        _BkLift.__init__(self, src, locate, **kw)
        self.members = dict(members)
        self.order = list(order or members)

    def run(self):
        body, line, header = _bk_locate(self.src, self.locate, self.which, self.expect, ctor=True)
        op = header.index("(")
        rest = header[_bk_match_close(header, op) + 1:].strip()
        rest = _bk_re.sub(r"^noexcept\b", "", rest).strip()
        stmts, seen = [], []
        if rest:
            if not rest.startswith(":"):
                raise _BkLiftError("BkCtorLift: unexpected text between parameter list and body: %r" % rest[:40])
            for item in _bk_split_args(rest[1:]):
                m = _bk_re.match(r"^(\w+)\s*([({])(.*)[)}]$", item.strip(), _bk_re.S)
                if not m or m.group(1) not in self.members:
                    raise _BkLiftError("BkCtorLift: initialiser %r is not a listed member" % item.strip()[:40])
                name, args = m.group(1), m.group(3).strip()
                ctor, dflt = self.members[name]
                stmts.append(dflt if args == "" else ctor.replace("{args}", args))
                seen.append(name)
        for name in self.order:
            if name not in seen:
                stmts.append(self.members[name][1])
        text = "{ " + " ".join(stmts) + " " + body.strip()[1:]
        text = _bk_resolve_pp(text)
        text = _bk_apply_rules(text, self.rules)
        if self.generic:
            text = _bk_apply_rules(text, _BK_GENERIC)
        text = _bk_apply_rules(text, self.post)
        text, nloops = _bk_splice_loops(text, self.loops)
        return {"text": text, "line": line, "file": self.src, "raw": header + body, "nloops": nloops, "header": header}


# C++ spelling -> C spelling of the container calls (operands captured, never spelled)
BK_RULES = [
    _BkCall(r"\bqueue_\.(push_left|push_right|enqueue|try_enqueue)", "c_{h1}(&self->queue_, {0})", None),
    _BkCall(r"\bqueue_\.(pop_left|pop_right|try_dequeue)", "c_{h1}(&self->queue_, &{0})", None),
    _BkCall(r"\bqueue_\.(empty|size_approx)", "c_{h1}(&self->queue_)", None),
]
BK_PUSH_COPY = r"bool push\(const_reference val, bool\s*(?:other_end)?\s*= false\)"
BK_PUSH_MOVE = r"bool push\(rvalue_reference val, bool\s*(?:other_end)?\s*= false\)"
BK_POP = r"bool pop\(reference val, bool\s*(?:steal)?\s*= true\)"
BK_EMPTY = r"bool empty\(\)"
BK_OVF = ["--conversion-check", "--unsigned-overflow-check"]

BACKENDS_UNITS = []
for _bk_idx, _bk in enumerate(["fifo", "lifo", "abp_fifo", "abp_lifo"]):
    _bk_D = ["B_" + _bk.upper()]
    _bk_cls = "lockfree_%s_backend" % _bk

    def _bk_lift(pat, _i=_bk_idx):
        return _BkLift(BK_SRC, pat, which=_i, expect=4, rules=BK_RULES)

    BACKENDS_UNITS.append(_BkUnit(
        "backends.%s.ctor" % _bk, "../C17/backends_seq.c", defines=_bk_D + ["U_CTOR"], enforce="ctor",
        lifts={"body": BkCtorLift(BK_SRC, _bk_cls + r"(?=\s*\()", {"queue_": ("c_construct(&self->queue_, {args});",
                                                                             "c_construct_default(&self->queue_);")},
                                  rules=[_BkCall(r"\bstd::size_t", "((size_t)({args}))", None)])},
        funcs=[BK_SRC + ": %s::%s (constructor)" % (_bk_cls, _bk_cls)], extra_flags=BK_OVF, min_obligations=8,
        doc="the container is constructed exactly once with the requested initial capacity, empty; nothing pushed or popped"))
    for _bk_form, _bk_pat in [("push_copy", BK_PUSH_COPY), ("push_move", BK_PUSH_MOVE)]:
        BACKENDS_UNITS.append(_BkUnit(
            "backends.%s.%s.seq" % (_bk, _bk_form), "../C17/backends_seq.c", defines=_bk_D + ["U_PUSH"], enforce="push",
            lifts={"body": _bk_lift(_bk_pat)}, funcs=[BK_SRC + ": %s::push" % _bk_cls], extra_flags=BK_OVF, min_obligations=20,
            doc="value handed to the container exactly once at an end; success => sequence grown by exactly this element; "
                "failure => unchanged; other elements undisturbed"))
    BACKENDS_UNITS.append(_BkUnit(
        "backends.%s.pop.seq" % _bk, "../C17/backends_seq.c", defines=_bk_D + ["U_POP"], enforce="pop",
        lifts={"body": _bk_lift(BK_POP)}, funcs=[BK_SRC + ": %s::pop" % _bk_cls], extra_flags=BK_OVF, min_obligations=25,
        solver=["--sat-solver", "cadical"],   # MiniSat2 hangs on this instance when the lifted pop uses END_HI only (each goal alone: 0.4 s)
        doc="one container pop; succeeds iff non-empty; popped value passed through unchanged; popped element gone, the others "
            "stay; failed pop leaves the sequence alone"))
    BACKENDS_UNITS.append(_BkUnit(
        "backends.%s.empty.seq" % _bk, "../C17/backends_seq.c", defines=_bk_D + ["U_EMPTY"], enforce="empty",
        lifts={"body": _bk_lift(BK_EMPTY)}, funcs=[BK_SRC + ": %s::empty" % _bk_cls], extra_flags=BK_OVF, min_obligations=6,
        doc="empty() <=> the quiescent sequence has no element; pushes and pops nothing"))
    for _bk_lem, _bk_def, _bk_doc in [
            ("order", "U_ORDER", "push x, push y, two pops by the owner or by a thief: the order is what the back end's name promises "
                                 "(FIFO oldest first, LIFO newest first, ABP thief at the opposite end), values unchanged, nothing twice"),
            ("other_end", "U_OTHER_END", "push x, push z with other_end: the owner never takes z before x; an ABP thief takes z"),
            ("drain", "U_DRAIN", "empty() and pop agree; pop on empty invents nothing; one element in => the same element out once, "
                                 "then empty, and not handed out again to the other kind of consumer")]:
        BACKENDS_UNITS.append(_BkUnit(
            "backends.%s.lemma.%s" % (_bk, _bk_lem), "../C17/backends_seq.c", defines=_bk_D + [_bk_def], kind="lemma", enforce=None,
            lifts={"push_copy": _bk_lift(BK_PUSH_COPY), "push_move": _bk_lift(BK_PUSH_MOVE), "pop": _bk_lift(BK_POP),
                   "empty": _bk_lift(BK_EMPTY)},
            funcs=[BK_SRC + ": %s::push (both overloads), pop, empty" % _bk_cls], extra_flags=BK_OVF, min_obligations=8, doc=_bk_doc))

BACKENDS_META = {
    "trusted_base": [
        "specs/C17/backends_seq.h seq_push/seq_pop/c_empty/c_size_approx/c_construct: the container behind a back end (Michael's "
        "deque; moodycamel ConcurrentQueue for lockfree_fifo) is replaced by its ASSUMED single-threaded sequence contract: push at "
        "an end appends there or fails without effect; pop at an end fails iff the sequence is empty (out parameter untouched), else "
        "removes and returns that end's element; enqueue = append at the tail, try_dequeue = remove at the head, size_approx exact "
        "when quiescent; no VX_ASSUME is used (anonymous elements get nondeterministic values)",
        "specs/C17/backends_seq.h OWNER_NEWEST/THIEF_NEWEST/IS_ABP: what the back ends' names promise, written by hand from the "
        "names and the ABP reference, not from the code; other_end == true is read as 'schedule last' (schedule_thread_last)",
    ],
    "assumptions": [
        "back-end order lemmas are single-threaded (quiescent container), as in the property's last sentence; the concurrent "
        "behaviour is that of the container (deque.* units / unverified ConcurrentQueue)",
        "copy vs. move of the payload is not distinguished (std::move is dropped by the lifter): lockfree_abp_lifo_backend's two push "
        "overloads have their std::move the wrong way round (copy overload moves a const&, move overload copies), which costs a "
        "copy but is invisible to token identity",
    ],
    "not_decided": [
        "schedulers/queue_helpers.hpp: contains only dump_suspended_threads (deadlock-detection logging, compiled to `return false` "
        "in this configuration); no element-moving logic, nothing to put under contract",
    ],
}
BACKENDS_STATIC = []


# ---- contiguous_index_queue: range constructors, queue constructors, copy operations -----------------------------------
class BkNsdmiLift(_BkLift):
    """`struct S { T a = e1; T b = e2; ... S() = default; ... }`  ->  `{ self->a = e1; self->b = e2; }`: what the defaulted default
    constructor does (default member initialisers as assignments, in declaration order).  A data member without initialiser,
    or a default constructor that is not `= default`, is an extraction failure."""

    def __init__(self, src, locate, ctor_name, **kw):
        _BkLift.__init__(self, src, locate, **kw)
        self.ctor_name = ctor_name

    def run(self):
        body, line, header = _bk_locate(self.src, self.locate, self.which, self.expect)
        if not _bk_re.search(r"\b%s\(\)\s*=\s*default\s*;" % _bk_re.escape(self.ctor_name), body):
            raise _BkLiftError("BkNsdmiLift: `%s() = default;` not found" % self.ctor_name)
        # member declarations at depth 1 only: blank out nested blocks and parenthesised groups first
        flat, depth = [], 0
        for ch in body[1:-1]:
            if ch in "{(":
                depth += 1
            elif ch in "})":
                depth -= 1
            elif depth == 0:
                flat.append(ch)
        stmts = []
        for decl in "".join(flat).split(";"):
            decl = decl.strip()
            m = _bk_re.fullmatch(r"(?:[\w:]+(?:<[^<>]*>)?)\s+(\w+)(?:\s*=\s*(.+))?", decl, _bk_re.S)
            if not m or decl.startswith(("using", "return", "static", "typedef", "friend")):
                continue
            if m.group(2) is None:
                raise _BkLiftError("BkNsdmiLift: member '%s' has no default member initialiser" % m.group(1))
            stmts.append("self->%s = %s;" % (m.group(1), m.group(2).strip()))
        if not stmts:
            raise _BkLiftError("BkNsdmiLift: no data member found")
        text = "{ " + " ".join(stmts) + " }"
        text = _bk_apply_rules(text, self.rules)
        text = _bk_apply_rules(text, _BK_GENERIC)
        return {"text": text, "line": line, "file": self.src, "raw": body, "nloops": 0, "header": header}


_BK_RANGE_MEMBERS = {"first": ("self->first = {args};", "self->first = 0;"), "last": ("self->last = {args};", "self->last = 0;")}
_BK_QUEUE_MEMBERS = {
    "initial_range": ("self->initial_range = {args};", "range_default(&self->initial_range);"),
    # cache_line_data<std::atomic<range>>{}: data_() value-initialises the atomic, which (C++20, the build's standard)
    # value-initialises the range
    "current_range": ("atomic_store(&self->current_range, {args});", "range_default(&self->current_range);"),
}
_BK_COPY_RULES = [
    _BkCall(r"\bother\.current_range\.data_\.load", "atomic_load(&other->current_range)", None),
    _BkSub(r"\bother\.", "other->", None),
    # `current_range.data_ = x;` (the pinned operator= writes `current_range = x;`, which is ill-formed C++ when instantiated --
    # see BACKENDS_META -- and means the same store)
    _BkSub(r"(?<![\w.>])current_range(?:\.data_)?\s*=(?!=)\s*([^;]+);", r"atomic_store(&self->current_range, \1);", None),
    _BkSub(r"(?<![\w.>])initial_range\s*=(?!=)", "self->initial_range =", None),
    _BkSub(r"\breturn\s+\*this\s*;", "return self;", None),
]


def _bk_ciq_lifts(extra):
    d = {
        "range_nsdmi": BkNsdmiLift(BK_CIQ, r"struct range(?=\s*\{)", "range"),
        "range_ctor": BkCtorLift(BK_CIQ, r"(?<![\w<])range(?=\(T first, T last\))", _BK_RANGE_MEMBERS, order=[]),
    }
    d.update(extra)
    return d


_BK_RESET = _BkLift(BK_CIQ, r"constexpr void reset\(T first, T last\)", rules=[
    _BkSub(r"initial_range = \{([^,;{}]+),([^,;{}]+)\};", r"self->initial_range.first = \1; self->initial_range.last = \2;", 1),
    _BkSub(r"current_range\.data_ = \{([^,;{}]+),([^,;{}]+)\};", r"self->current_range.first = \1; self->current_range.last = \2;", 1)])

for (_bk_tn, _bk_tt, _bk_nd) in [("u32", "uint32_t", "nondet_u32"), ("i32", "int32_t", "nondet_i32")]:
    _bk_D = ["T_TYPE=" + _bk_tt, "T_NONDET=" + _bk_nd]
    _bk_cq = BK_CIQ + ": contiguous_index_queue<%s>::" % _bk_tt
    BACKENDS_UNITS += [
        _BkUnit("backends.ciq.range_ctor." + _bk_tn, "../C17/backends_ciq.c", defines=_bk_D + ["U_RANGE_CTOR"], enforce="range_ctor",
                lifts=_bk_ciq_lifts({}), funcs=[_bk_cq + "range::range(T, T)"], extra_flags=BK_OVF, min_obligations=4,
                doc="range(first, last): the arguments become the bounds, in this order"),
        _BkUnit("backends.ciq.range_default." + _bk_tn, "../C17/backends_ciq.c", defines=_bk_D + ["U_RANGE_DEFAULT"], enforce="range_default",
                lifts=_bk_ciq_lifts({}), funcs=[_bk_cq + "range::range() = default (default member initialisers)"], extra_flags=BK_OVF,
                min_obligations=4, doc="a default constructed range holds no index"),
        _BkUnit("backends.ciq.ctor_default." + _bk_tn, "../C17/backends_ciq.c", defines=_bk_D + ["U_CTOR_DEFAULT"], enforce="ctor_default",
                lifts=_bk_ciq_lifts({"body": BkCtorLift(BK_CIQ, r"(?<![\w<])contiguous_index_queue(?=\(\) noexcept)", _BK_QUEUE_MEMBERS)}),
                funcs=[_bk_cq + "contiguous_index_queue()"], extra_flags=BK_OVF, min_obligations=6,
                doc="a default constructed queue is empty"),
        _BkUnit("backends.ciq.ctor_range." + _bk_tn, "../C17/backends_ciq.c", defines=_bk_D + ["U_CTOR_RANGE"], enforce="ctor_range",
                lifts=_bk_ciq_lifts({"reset": _BK_RESET,
                                     "body": BkCtorLift(BK_CIQ, r"(?<![\w<])contiguous_index_queue(?=\(T first, T last\))", _BK_QUEUE_MEMBERS,
                                                        rules=[_BkCall(r"(?<![\w.>])reset(?!\s*\(\s*self\b)", "reset(self, {0}, {1})", None)])}),
                funcs=[_bk_cq + "contiguous_index_queue(T, T), reset"], extra_flags=BK_OVF, min_obligations=6,
                doc="queue(first, last) holds exactly [first, last)"),
        _BkUnit("backends.ciq.copy_ctor." + _bk_tn, "../C17/backends_ciq.c", defines=_bk_D + ["U_COPY_CTOR"], enforce="copy_ctor",
                lifts=_bk_ciq_lifts({"body": BkCtorLift(BK_CIQ, r"(?<![\w<])contiguous_index_queue(?=\(contiguous_index_queue<T> const& other\))",
                                                        _BK_QUEUE_MEMBERS, rules=_BK_COPY_RULES)}),
                funcs=[_bk_cq + "contiguous_index_queue(contiguous_index_queue const&)"], extra_flags=BK_OVF, min_obligations=10,
                doc="the copy holds the interval returned by ONE atomic read of the source (a sub-interval of what the source held: "
                    "nothing invented); the source is not written"),
        _BkUnit("backends.ciq.copy_assign." + _bk_tn, "../C17/backends_ciq.c", defines=_bk_D + ["U_COPY_ASSIGN"], enforce="copy_assign",
                lifts=_bk_ciq_lifts({"body": _BkLift(BK_CIQ, r"constexpr contiguous_index_queue& operator=\(contiguous_index_queue const& other\)",
                                                     rules=_BK_COPY_RULES)}),
                funcs=[_bk_cq + "operator=(contiguous_index_queue const&)"], extra_flags=BK_OVF, min_obligations=10,
                doc="as the copy constructor; returns *this.  NOTE: the pinned text of this member is ill-formed when instantiated"),
    ]

BACKENDS_META["trusted_base"] += [
    "specs/C17/backends_ciq.c interfere/atomic_load: as specs/C17/ciq.c (std::atomic<range> = one indivisible word; before the load the "
    "environment may shrink the source's interval: VX_ASSUME(RELY), the rely proved as the guarantee of pop_left/pop_right); "
    "atomic_store: std::atomic<range>::operator=(range) as a plain store (the header makes the caller exclude concurrent users "
    "of the queue being written)",
    "cache_line_data<std::atomic<range>>{} value-initialises the range (C++20 std::atomic default constructor; the build uses C++20)",
]
BACKENDS_META["assumptions"] += [
    "contiguous_index_queue::operator= (contiguous_index_queue.hpp:110) is ill-formed C++ when instantiated (`current_range = <range>`: "
    "no viable operator= of cache_line_data<std::atomic<range>>; g++ -fsyntax-only confirms; never instantiated in pika, repair: "
    "`current_range.data_ = ...`).  The unit backends.ciq.copy_assign checks the evidently intended store and accepts both spellings.",
]
BACKENDS_STATIC += [
    # A-CLOSED for the copy units: current_range is read/written only in reset / constructors / copy operations / pop_* / empty
    _bk_census.sites("contiguous_index_queue.current_range accesses (backends_spec)", [BK_CIQ], r"\bcurrent_range\b(?!;|\{)", 10),
]
