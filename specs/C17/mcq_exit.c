/* C17 -- ConcurrentQueue::implicit_producer_thread_exited (concurrentqueue.hpp): when a thread that pushed to a lockfree_fifo queue
 * exits, its <thread id -> producer> entry must be removed from EVERY hash table of the chain before the producer is marked
 * recyclable.  A stale entry makes a later thread that is given the same id (glibc reuses ids) find a producer that another thread
 * has recycled in the meantime: two threads enqueue on one single-producer sub-queue and an element is lost.
 * The tables use open addressing with linear probing from hash(id); an entry is never preceded by an empty slot on its probe path.
 * (written by main after seeded change C17-6 was missed; I contract: symbolic chain, per table symbolic capacity / position of the
 * entry; loop contracts on both loops) */
#include "vx.h"
typedef uint64_t thread_id_t;
#define INVALID_ID ((thread_id_t)0)
#define INVALID_ID2 ((thread_id_t)1)
#define IS_POW2(c) ((c) != 0 && ((c) & ((c) - 1)) == 0)
struct hash { size_t capacity; };
struct producer { bool inactive; };
static struct hash g_h;              /* the table being probed (every table of the chain in turn) */
static thread_id_t g_id; static size_t g_hashed;
static bool g_present; static size_t g_vd;   /* this table holds an entry for g_id, g_vd probes away from its home slot */
static bool g_cleared; static size_t g_probes; static bool g_chain_done; static long g_tables;

static void table_fresh(void)
{
  g_h.capacity = nondet_size(); g_present = nondet_bool(); g_vd = nondet_size(); g_cleared = false; g_probes = 0;
  VX_ASSUME(IS_POW2(g_h.capacity) && g_h.capacity <= ((size_t)1 << 32) && g_vd < g_h.capacity);
  if (g_tables < 2) g_tables++;
}
static void table_finished(void) { VX_ASSERT(!g_present || g_cleared, "the exiting thread's entry is removed from EVERY hash table of the chain"); }
static struct hash *hash_head(void) { table_fresh(); return &g_h; }
static struct hash *hash_prev(struct hash *h)
{
  VX_ASSERT(h == &g_h, "the chain is followed from the current table");
  table_finished();
  if (nondet_bool()) { g_chain_done = true; return NULL; }
  table_fresh(); return &g_h;
}
static thread_id_t my_thread_id(void) { return g_id; }
static size_t hash_thread_id(thread_id_t id) { VX_ASSERT(id == g_id, "hash of the exiting thread's id"); return g_hashed; }
/* hash->entries[index].key.compare_exchange_strong(expected, desired) */
static bool entry_key_cas(struct hash *h, size_t index, thread_id_t *expected, thread_id_t desired)
{
  VX_ASSERT(h == &g_h && index < h->capacity, "probe within the table");
  VX_ASSERT(*expected == g_id, "the compare-exchange only ever looks for the exiting thread's OWN id (anything else could wipe another thread's entry, and skips its own)");
  VX_ASSERT(desired == INVALID_ID2, "a removed entry is marked as a tombstone, not as empty (later entries on the probe path stay reachable)");
  size_t mask = h->capacity - 1, dist = (index - (g_hashed & mask)) & mask;
  VX_ASSERT(dist == (g_probes & mask), "linear probing from the home slot");
  g_probes++;
  thread_id_t key;
  if (g_present && dist == g_vd && g_probes - 1 == g_vd) key = g_id;
  else { key = nondet_ulong(); VX_ASSUME(key != g_id); if (g_present && g_probes - 1 < g_vd) VX_ASSUME(key != INVALID_ID); }
  if (!g_present && g_probes >= h->capacity) VX_ASSUME(key == INVALID_ID);   /* a table is never full (it is grown at half load): an empty slot ends every probe path */
  if (key == *expected) { if (key == g_id) g_cleared = true; return true; }
  *expected = key;
  return false;
}
static void producer_inactive_store(struct producer *p, bool v)
{
  VX_ASSERT(g_chain_done, "the producer is marked recyclable only after the whole chain was walked");
  p->inactive = v;
}

//@FUNC
void implicit_producer_thread_exited(struct producer *producer)
__CPROVER_requires(!g_chain_done && g_id != INVALID_ID && g_id != INVALID_ID2 && !producer->inactive && g_tables == 0)
__CPROVER_ensures(producer->inactive && g_chain_done)
__CPROVER_assigns(g_h, g_present, g_vd, g_cleared, g_probes, g_chain_done, g_tables, producer->inactive)
//@LIFT body

void harness(void)
{
  struct producer p; p.inactive = false;
  g_id = nondet_ulong(); g_hashed = nondet_size(); g_chain_done = false; g_tables = 0; g_present = false; g_vd = 0; g_cleared = false; g_probes = 0; g_h.capacity = 1;
  implicit_producer_thread_exited(&p);
  if (g_tables >= 2) VX_REACH("several_tables");
  if (g_present && g_cleared && g_vd > 0) VX_REACH("entry_found_after_a_collision");
  if (!g_present) VX_REACH("last_table_without_entry");
}
