# C17 (addition) -- Michael's CAS-based lock-free deque, pika/concurrency/deque.hpp.
# Defines DEQUE_UNITS / DEQUE_META; merged into specs/C17/spec.py by the maintainer (UNITS += DEQUE_UNITS, META lists extended).
# Templates: deque.c (step contracts + bounded sequential stand-in), deque_lemma.c (lemma harness), deque.h (types, transitions, invariants).
from vx.lift import Lift, Sub, Call
from vx.run import Unit



class Call0(Call):
    """Call with n=None but WITHOUT the fixed-point re-scan of vx.lift.Call (the replacement contains the head again:
    callee -> same-named C function with an explicit `self`).  Copied from specs/C19/spec.py."""

    def __init__(self, head, template, stmt=False):
        Call.__init__(self, head, template, None, stmt)

    def apply(self, text):
        self._nested = True
        return Call.apply(self, text)


DQ = "libs/pika/concurrency/include/pika/concurrency/deque.hpp"

# ---- C++ spelling -> C spelling; every rule captures its operands (no operand of the algorithm is spelled in a pattern) ----
_LINK = r"((?:\w+\.)*\w+->(?:left|right))"      # a node link expression such as lrs.left->right / prev.ptr->left / n->right


def _tptr(args, env):                             # node_pointer(p) / node_pointer(p, tag): the tag defaults to 0
    return "mk_tptr(%s, %s)" % (args[0], args[1] if len(args) > 1 else "0")


DQ_RULES = [
    Sub(r"\.get_(left|right)_ptr\(\)", r".\1", None),
    Sub(r"\.get_left_tag\(\)", ".ltag", None),
    Sub(r"\.get_right_tag\(\)", ".rtag", None),
    Sub(r"\.get_ptr\(\)", ".ptr", None),
    Sub(r"\.get_tag\(\)", ".tag", None),
    Call(r"\banchor_\.lrs", "anchor_load(self)", None),
    Call(r"\banchor_\.cas", "anchor_cas(self, &{0}, {1})", None),
    Sub(r"\banchor_ != (\w+)", r"anchor_ne(self, &\1)", None),
    Call(r"\banchor_pair (\w+)", "struct pair {h1} = mk_pair({args})", None),     # anchor_pair x(a, b, c, d);
    Sub(r"\banchor_pair (\w+) =", r"struct pair \1 =", None),
    Call(r"\banchor_pair", "mk_pair({args})", None),
    Sub(r"\bnode_pointer (\w+) =", r"struct tptr \1 =", None),
    Call(r"\bnode_pointer", _tptr, None),
    Call(_LINK + r"\.load", "node_load(self, &{h1})", None),
    Call(_LINK + r"\.store", "node_store(self, &{h1}, {0})", None),
    Call(_LINK + r"\.compare_exchange_strong", "node_cas(self, &{h1}, &{0}, {1})", None),
    Sub(r"\bnode\s*\*\s*(const\s+)?(\w+)\s*=", r"struct node *\1\2 =", None),
    Call0(r"\balloc_node", "alloc_node(self, {0}, {1}, {2}, 0, 0)"),     # default arguments ltag = 0, rtag = 0 spelled out
    Call0(r"\bdealloc_node", "dealloc_node(self, {0})"),
    # `stabilize_x(v); return <literal>;` -- v is dead after the call, so the reference argument is lowered copy-in into a
    # temporary declared at the call (CBMC's dfcc rejects any write to a loop-body local from a loop-exit block, even a
    # legal one).  Every other call shape gets the plain by-address lowering below.
    Sub(r"\bstabilize(_left|_right)?\((\w+)\);(\s*return\s+(?:true|false)\s*;)",
        r"{ struct pair vx_ref = \2; stabilize\1(self, &vx_ref); }\3", None),
    Call0(r"\bstabilize(_left|_right)?(?=\((?!self,))", "stabilize{h1}(self, &{0})"),
    Sub(r"\br = ", "*r = ", None),                                               # T& r  ->  T *r
]


def _lift(pat, loops=None, **kw):
    return Lift(DQ, pat, rules=DQ_RULES, loops=loops, **kw)


DEALLOC = Lift(DQ, r"void dealloc_node\(node\* n\)", rules=[
    Sub(r"\b(\w+)->~node\(\);", r"node_destroy(\1);", 1),
    Call(r"\bpool_\.deallocate", "pool_deallocate(self, {0})", 1)])

LOOP_GHOSTS = ("lin, lin_old, lin_new, g_lin_lr, g_lin_rl, g_lin_nr, g_lin_nl, g_lin_ldata, g_lin_rdata, g_lin_owndata, g_nsteps, g_step_old, g_step_new, "
               "g_last_read, g_obs, g_inward_seen, g_bl_idx, g_bl_left, g_bl_seen, g_validated, g_own")

LOOP_POP = """
__CPROVER_assigns(*r, g_q.anchor_, POOL_OBJECTS, g_retired, g_retired_node, %s)
__CPROVER_loop_invariant(!lin && g_retired == 0 && g_own == NULL)
__CPROVER_loop_invariant(A_OK(g_q.anchor_))
__CPROVER_loop_invariant(POOL_OK && GHOSTS_OK)
__CPROVER_loop_invariant(ENDS_OK(g_q.anchor_))
""" % LOOP_GHOSTS
LOOP_PUSH = """
__CPROVER_assigns(g_q.anchor_, POOL_OBJECTS, g_own_ll, g_own_lr, %s)
__CPROVER_loop_invariant(!lin && g_allocs == 1 && g_own == n && INPOOL(n) && g_own_data == data && OWN_INTACT)
__CPROVER_loop_invariant(A_OK(g_q.anchor_))
__CPROVER_loop_invariant(POOL_OK && GHOSTS_OK)
__CPROVER_loop_invariant(ENDS_OK(g_q.anchor_))
__CPROVER_loop_invariant(NOREF(g_q.anchor_, n))
""" % LOOP_GHOSTS


def deque_lifts(contracts=True):
    """all functions are lifted into every unit (one template, no inactive blocks); contracts=False: no loop contracts
    (bounded units unwind the loops instead)"""
    lp = {1: LOOP_POP, "count": 1} if contracts else {"count": 1}
    lq = {1: LOOP_PUSH, "count": 1} if contracts else {"count": 1}
    return {
        "dealloc_node": DEALLOC,
        "stabilize_left": _lift(r"void stabilize_left\(anchor_pair& lrs\)", loops={"count": 0}),
        "stabilize_right": _lift(r"void stabilize_right\(anchor_pair& lrs\)", loops={"count": 0}),
        "stabilize": _lift(r"void stabilize\(anchor_pair& lrs\)", loops={"count": 0}),
        "pop_left": _lift(r"bool pop_left\(T& r\)", loops=lp),
        "pop_right": _lift(r"bool pop_right\(T& r\)", loops=lp),
        "push_left": _lift(r"bool push_left\(T data\)", loops=lq),
        "push_right": _lift(r"bool push_right\(T data\)", loops=lq),
        "empty": _lift(r"bool empty\(\) const", loops={"count": 0}),
    }


_F = DQ + ": deque::"

DEQUE_UNITS = [
    Unit("deque.pop_left", "deque.c", defines=["U_POP_LEFT"], enforce="pop_left", replace=["stabilize"],
         lifts=deque_lifts(), min_obligations=60,
         funcs=[_F + "pop_left, stabilize, stabilize_left, stabilize_right, dealloc_node"],
         doc="every successful anchor CAS of pop_left is a helping stabilize step or THE pop step, taken only from a stable anchor"),
    Unit("deque.pop_right", "deque.c", defines=["U_POP_RIGHT"], enforce="pop_right", replace=["stabilize"],
         lifts=deque_lifts(), min_obligations=60,
         funcs=[_F + "pop_right, stabilize, stabilize_left, stabilize_right, dealloc_node"]),
    Unit("deque.push_left", "deque.c", defines=["U_PUSH_LEFT"], enforce="push_left", replace=["stabilize", "stabilize_left"],
         lifts=deque_lifts(), min_obligations=60,
         funcs=[_F + "push_left, stabilize, stabilize_left, stabilize_right"]),
    Unit("deque.push_right", "deque.c", defines=["U_PUSH_RIGHT"], enforce="push_right", replace=["stabilize", "stabilize_right"],
         lifts=deque_lifts(), min_obligations=60,
         funcs=[_F + "push_right, stabilize, stabilize_left, stabilize_right"]),
    Unit("deque.stabilize_left", "deque.c", defines=["U_STABILIZE_LEFT"], enforce="stabilize_left",
         lifts=deque_lifts(), loop_contracts=False, min_obligations=30, funcs=[_F + "stabilize_left"]),
    Unit("deque.stabilize_right", "deque.c", defines=["U_STABILIZE_RIGHT"], enforce="stabilize_right",
         lifts=deque_lifts(), loop_contracts=False, min_obligations=30, funcs=[_F + "stabilize_right"]),
    Unit("deque.stabilize", "deque.c", defines=["U_STABILIZE"], enforce="stabilize",
         lifts=deque_lifts(), loop_contracts=False, min_obligations=30, funcs=[_F + "stabilize"]),
    Unit("deque.empty", "deque.c", defines=["U_EMPTY"], enforce="empty",
         lifts=deque_lifts(), loop_contracts=False, funcs=[_F + "empty"]),
]

DEQUE_UNITS += [
    Unit("deque.lemma.steps", "deque_lemma.c", kind="lemma", loop_contracts=False, min_obligations=15, no_replay=True,
         funcs=[],
         doc="over all heaps of <= 4 nodes: FINV => S_OK; each transition asserted in deque.c (pop_left/right, push_left/right, "
             "node-level back-link write, stabilizing step) keeps the full representation invariant and has the stated effect "
             "on the abstract sequence; every anchor step changes the word (guarantee within rely)"),
]

_OPS = ["push_left", "push_right", "pop_left", "pop_right"]
for _k in range(16):
    _a, _b = _OPS[_k & 3], _OPS[_k >> 2]
    DEQUE_UNITS.append(
        Unit("deque.seq.b4.%s.%s" % (_a, _b), "deque.c", defines=["U_SEQ", "SEQ_FIRST2=%du" % _k], kind="bounded", unwind=2,
             loop_contracts=False, no_replay=True, object_bits=11,
             extra_flags=["--unwindset", "harness.0:17,run_sequence.0:5,run_sequence.1:5"],
             lifts=deque_lifts(contracts=False),
             funcs=[_F + "push_left, push_right, pop_left, pop_right, stabilize, stabilize_left, stabilize_right, dealloc_node, empty"],
             doc="BOUNDED, single thread, no interference: the 16 operation sequences of length 4 that start with %s; %s (their prefixes "
                 "are the shorter sequences), each followed by a drain from the left and by a drain from the right; array-backed LIFO "
                 "freelist of 4 nodes; checked against an array model: per-end order, nothing invented, pop on non-empty succeeds, "
                 "drained => empty" % (_a, _b)))

# ---- node-link ABA tag across recycling: A-ABA-node as an obligation on alloc_node and the link stores of push_* ----
ALLOC_RULES = [
    Sub(r"\bnode\* (\w+) =", r"struct node *\1 =", 1),
    Call(r"\bpool_\.allocate", "pool_allocate(self)", 1),
    Sub(r"\bthrow std::bad_alloc\(\);", "return vx_throw_bad_alloc();", 1),
    Call(r"\bnew \((\w+)\) node", "node_construct({h1}, {0}, {1}, {2}, {3}, {4})", 1),
    Call(_LINK + r"\.load", "node_load(self, &{h1})", None),
    Sub(r"\.get_tag\(\)", ".tag", None),
    Sub(r"\.get_ptr\(\)", ".ptr", None),
]
STORE_RULES = [
    Sub(r"\.get_(left|right)_ptr\(\)", r".\1", None),
    Sub(r"\.get_left_tag\(\)", ".ltag", None),
    Sub(r"\.get_right_tag\(\)", ".rtag", None),
    Sub(r"\.get_ptr\(\)", ".ptr", None),
    Sub(r"\.get_tag\(\)", ".tag", None),
    Call(r"\bnode_pointer", _tptr, "+"),
    Call(_LINK + r"\.load", "node_load(self, &{h1})", None),
    Call(_LINK + r"\.store", "node_store(self, &{h1}, {0})", 1),
]
DEQUE_UNITS.append(
    Unit("deque.alloc.link_tags", "deque_alloc.c", kind="proof", loop_contracts=False, min_obligations=8,
         lifts={
             "alloc_copy": Lift(DQ, r"node\* alloc_node\(node\* lptr, node\* rptr, T const& v", rules=ALLOC_RULES, loops={"count": 0}),
             "alloc_move": Lift(DQ, r"node\* alloc_node\(node\* lptr, node\* rptr, T&& v", rules=ALLOC_RULES, loops={"count": 0}),
             "store_right_link": Lift(DQ, r"\bn->right\.store\(", fragment_end=r";", rules=STORE_RULES),
             "store_left_link": Lift(DQ, r"\bn->left\.store\(", fragment_end=r";", rules=STORE_RULES),
         },
         funcs=[_F + "alloc_node (both overloads), push_left: n->right.store(...), push_right: n->left.store(...)"],
         doc="A-ABA-node as an obligation: the link words alloc_node and push_left/push_right give a recycled node continue the "
             "tag of the word the cell's link held before (+1), so no (ptr, tag) word can reappear in a link; "
             "-DKF_NODES_NOT_RECYCLED = the freelist only hands out never-used cells"))

DEQUE_META = {
    "trusted_base": [
        "specs/C17/deque.c anchor_load/anchor_ne/anchor_cas: deque_anchor (std::atomic<tagged_ptr_pair>) modelled as the unpacked record "
        "{left, right, status, tag} with an indivisible load / compare / 128-bit compare_exchange_strong (packing proved by tpp.*); "
        "node_load/node_cas/node_store: std::atomic<tagged_ptr<node>> modelled as {ptr, 16-bit tag}, indivisible",
        "specs/C17/deque.c interfere() = the RELY, run before every shared access: (a) the anchor moved on: anchor and every link of every "
        "pool node are arbitrary within the ends-only representation invariant S_OK (justified by deque.lemma.steps: every step keeps the "
        "full invariant, which implies S_OK), restricted by A-ABA, A-ABA-node, A-OWN; (b) the anchor stayed: the only node-level write by "
        "another thread is the back-link fix of stabilize (links of nodes outside the chain are not tracked)",
        "A-ABA (VX_ASSUME in interfere): the anchor never comes back to the 128-bit word this call last observed (ABA tag sufficient)",
        "A-ABA-node (VX_ASSUME in interfere): once an unstable anchor this call observed has moved on, the back link this call read as "
        "missing no longer holds the stale (ptr, tag) word it read (follows from the asserted guarantee 'stabilize only after the back "
        "link is in place' plus: every write of a link word continues the link's tag -- node_cas stub of deque.c for stabilize, unit "
        "deque.alloc.link_tags for alloc_node and the link stores of push_left/push_right; that unit FAILS on deque.hpp as written "
        "(known finding C17-deque-aba: tags reset when a node is recycled) -- plus no wrap-around of the 16-bit tag)",
        "A-OWN (VX_ASSUME in alloc_node / interfere): pool_.allocate() returns a node that is referenced by neither the anchor nor any "
        "node link, and nobody else reads or writes it until the caller's publishing CAS (freelist correctness)",
        "A-TYPESTABLE: node storage is a pool of 4 cells that stay valid memory for the whole call (caching freelist never returns memory "
        "to the allocator while the deque lives); payload fields are written only when a node is constructed; pool_.deallocate() makes "
        "the payload of the retired node arbitrary (immediate reuse)",
        "alloc_node is a stub (allocation never fails; std::bad_alloc propagating out of push before any shared access is not modelled); "
        "deque_node destructor call is a no-op stub",
        "reference parameter `anchor_pair& lrs` of stabilize* lowered to a pointer (`#define lrs (*lrs_ref)` around the three bodies); the "
        "call shape `stabilize_x(v); return <literal>;` is lowered copy-in (v is dead afterwards) because CBMC's dfcc rejects writes to a "
        "loop-body local from a loop-exit block",
        "deque.pop_*/push_*: calls to stabilize / stabilize_left / stabilize_right replaced by their contracts (proved by units "
        "deque.stabilize, deque.stabilize_left, deque.stabilize_right)",
    ],
    "assumptions": [
        "A-ABA, A-ABA-node, A-OWN, A-TYPESTABLE as listed under trusted_base (deque units only)",
        "deque.lemma.steps quantifies over all heaps of at most 4 nodes; the extension to longer chains is the list-segment framing "
        "argument (no step touches a node other than the two end nodes, their inward neighbours and the caller's new node): paper",
        "A-CLOSED(deque): anchor_ and node links are written only by push_left/push_right/pop_left/pop_right/stabilize_left/stabilize_right "
        "and the node constructor (census of deque.hpp by reading; the destructor is documented not thread-safe and only calls pop_left)",
    ],
    "not_decided": [
        "Michael's deque, protocol level: linearizability of the whole deque under arbitrary concurrency (that the per-step guarantees, "
        "under the stated rely, compose into 'every element put in is taken out at most once / exactly once after a drain') is NOT proved; "
        "decided are only the step contracts (each successful CAS of each function is one of Michael's transitions, taken from the right "
        "state, with the right node retired once), the invariant-preservation lemmas on heaps of <= 4 nodes, and a bounded sequential stand-in",
        "ABA-tag sufficiency: the 16-bit anchor tag and the 16-bit node-link tags are ASSUMED sufficient (A-ABA, A-ABA-node); wrap-around "
        "after 2^16 steps is not analysed.  OBSERVED (native scripted interleaving on the real header: findings/C17-deque-aba/run.sh; "
        "as an obligation: unit deque.alloc.link_tags, which fails on the current tree and proves with findings/C17-deque-aba/repair.diff): "
        "A-ABA-node does NOT hold for deque.hpp as written -- alloc_node placement-news a recycled node with link tags 0 and "
        "push_left/push_right store node_pointer(ptr) with tag 0, so a stabilize_right/left paused before its node-level CAS can succeed "
        "on the recycled neighbour (same (ptr, tag) word again), corrupting an interior link: one element lost, another delivered "
        "twice.  The step contracts hold regardless (each step is still a Michael transition); the defect lives exactly in the part "
        "listed here as not decided",
        "freelist reuse / memory reclamation: caching_freelist / static_freelist (freelist.hpp) are not under contract; that a node handed to "
        "dealloc_node is not still being read by a slow thread (which then sees recycled contents), and that allocate() never returns a node "
        "still reachable, are assumed (A-OWN, A-TYPESTABLE); a stale node-level CAS landing in a recycled node is excluded only by A-ABA-node",
        "memory orders: all atomics are treated as sequentially consistent (the relaxed anchor loads, acquire link loads and the default "
        "seq_cst stores/CASes of deque.hpp are not distinguished)",
        "progress (lock-freedom), the destructor, is_lock_free, the copy-push overload set of alloc_node, and the static_freelist variant",
    ],
}
