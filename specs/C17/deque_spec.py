# C17 (addition) -- Michael's CAS-based lock-free deque, pika/concurrency/deque.hpp.
# Defines DEQUE_UNITS / DEQUE_META; merged into specs/C17/spec.py by the maintainer (UNITS += DEQUE_UNITS, META lists extended).
from vx.lift import Lift, Sub, Call
from vx.run import Unit



class Call0(Call):
    """Call with n=None but WITHOUT the fixed-point re-scan of vx.lift.Call (the replacement contains the head again:
    callee -> same-named C function with an explicit `self`).  Copied from specs/C19/spec.py."""

    def __init__(self, head, template, stmt=False):
        Call.__init__(self, head, template, None, stmt)

    def apply(self, text):
        self._nested = True
        return Call.apply(self, text)


DQ = "libs/pika/concurrency/include/pika/concurrency/deque.hpp"

# ---- C++ spelling -> C spelling; every rule captures its operands (no operand of the algorithm is spelled in a pattern) ----
_LINK = r"((?:\w+\.)*\w+->(?:left|right))"      # a node link expression such as lrs.left->right / prev.ptr->left / n->right


def _tptr(args, env):                             # node_pointer(p) / node_pointer(p, tag): the tag defaults to 0
    return "mk_tptr(%s, %s)" % (args[0], args[1] if len(args) > 1 else "0")


DQ_RULES = [
    Sub(r"\.get_(left|right)_ptr\(\)", r".\1", None),
    Sub(r"\.get_left_tag\(\)", ".ltag", None),
    Sub(r"\.get_right_tag\(\)", ".rtag", None),
    Sub(r"\.get_ptr\(\)", ".ptr", None),
    Sub(r"\.get_tag\(\)", ".tag", None),
    Call(r"\banchor_\.lrs", "anchor_load(self)", None),
    Call(r"\banchor_\.cas", "anchor_cas(self, &{0}, {1})", None),
    Sub(r"\banchor_ != (\w+)", r"anchor_ne(self, &\1)", None),
    Call(r"\banchor_pair (\w+)", "struct pair {h1} = mk_pair({args})", None),     # anchor_pair x(a, b, c, d);
    Sub(r"\banchor_pair (\w+) =", r"struct pair \1 =", None),
    Call(r"\banchor_pair", "mk_pair({args})", None),
    Sub(r"\bnode_pointer (\w+) =", r"struct tptr \1 =", None),
    Call(r"\bnode_pointer", _tptr, None),
    Call(_LINK + r"\.load", "node_load(self, &{h1})", None),
    Call(_LINK + r"\.store", "node_store(self, &{h1}, {0})", None),
    Call(_LINK + r"\.compare_exchange_strong", "node_cas(self, &{h1}, &{0}, {1})", None),
    Sub(r"\bnode\* (\w+) =", r"struct node *\1 =", None),
    Call0(r"\balloc_node", "alloc_node(self, {0}, {1}, {2}, 0, 0)"),     # default arguments ltag = 0, rtag = 0 spelled out
    Call0(r"\bdealloc_node", "dealloc_node(self, {0})"),
    # `stabilize_x(v); return <literal>;` -- v is dead after the call, so the reference argument is lowered copy-in into a
    # temporary declared at the call (CBMC's dfcc rejects any write to a loop-body local from a loop-exit block, even a
    # legal one).  Every other call shape gets the plain by-address lowering below.
    Sub(r"\bstabilize(_left|_right)?\((\w+)\);(\s*return\s+(?:true|false)\s*;)",
        r"{ struct pair vx_ref = \2; stabilize\1(self, &vx_ref); }\3", None),
    Call0(r"\bstabilize(_left|_right)?(?=\((?!self,))", "stabilize{h1}(self, &{0})"),
    Sub(r"\br = ", "*r = ", None),                                               # T& r  ->  T *r
]


def _lift(pat, loops=None, **kw):
    return Lift(DQ, pat, rules=DQ_RULES, loops=loops, **kw)


DEALLOC = Lift(DQ, r"void dealloc_node\(node\* n\)", rules=[
    Sub(r"\b(\w+)->~node\(\);", r"node_destroy(\1);", 1),
    Call(r"\bpool_\.deallocate", "pool_deallocate(self, {0})", 1)])

LOOP_GHOSTS = ("lin, lin_old, lin_new, g_lin_lr, g_lin_rl, g_lin_nr, g_lin_nl, g_lin_ldata, g_lin_rdata, g_lin_owndata, g_nsteps, g_step_old, g_step_new, "
               "g_last_read, g_obs, g_inward_seen, g_bl_idx, g_bl_left, g_bl_seen, g_validated, g_own")

LOOP_POP = """
__CPROVER_assigns(*r, g_q.anchor_, POOL_OBJECTS, g_retired, g_retired_node, %s)
__CPROVER_loop_invariant(!lin && g_retired == 0 && g_own == NULL)
__CPROVER_loop_invariant(A_OK(g_q.anchor_))
__CPROVER_loop_invariant(POOL_OK && GHOSTS_OK)
__CPROVER_loop_invariant(ENDS_OK(g_q.anchor_))
""" % LOOP_GHOSTS
LOOP_PUSH = """
__CPROVER_assigns(g_q.anchor_, POOL_OBJECTS, g_own_ll, g_own_lr, %s)
__CPROVER_loop_invariant(!lin && g_allocs == 1 && g_own == n && INPOOL(n) && g_own_data == data && OWN_INTACT)
__CPROVER_loop_invariant(A_OK(g_q.anchor_))
__CPROVER_loop_invariant(POOL_OK && GHOSTS_OK)
__CPROVER_loop_invariant(ENDS_OK(g_q.anchor_))
__CPROVER_loop_invariant(NOREF(g_q.anchor_, n))
""" % LOOP_GHOSTS


def deque_lifts(loops_pop=None, loops_push=None, which=()):
    d = {
        "dealloc_node": DEALLOC,
        "stabilize_left": _lift(r"void stabilize_left\(anchor_pair& lrs\)"),
        "stabilize_right": _lift(r"void stabilize_right\(anchor_pair& lrs\)"),
        "stabilize": _lift(r"void stabilize\(anchor_pair& lrs\)"),
    }
    if "pop_left" in which:
        d["pop_left"] = _lift(r"bool pop_left\(T& r\)", loops=loops_pop)
    if "pop_right" in which:
        d["pop_right"] = _lift(r"bool pop_right\(T& r\)", loops=loops_pop)
    if "push_left" in which:
        d["push_left"] = _lift(r"bool push_left\(T data\)", loops=loops_push)
    if "push_right" in which:
        d["push_right"] = _lift(r"bool push_right\(T data\)", loops=loops_push)
    if "empty" in which:
        d["empty"] = _lift(r"bool empty\(\) const")
    return d


_POP = {1: LOOP_POP, "count": 1}
_PUSH = {1: LOOP_PUSH, "count": 1}
_F = DQ + ": deque::"

DEQUE_UNITS = [
    Unit("deque.pop_left", "deque.c", defines=["U_POP_LEFT"], enforce="pop_left", replace=["stabilize"],
         lifts=deque_lifts(loops_pop=_POP, which=["pop_left"]), min_obligations=60,
         funcs=[_F + "pop_left, stabilize, stabilize_left, stabilize_right, dealloc_node"],
         doc="every successful anchor CAS of pop_left is a helping stabilize step or THE pop step, taken only from a stable anchor"),
    Unit("deque.pop_right", "deque.c", defines=["U_POP_RIGHT"], enforce="pop_right", replace=["stabilize"],
         lifts=deque_lifts(loops_pop=_POP, which=["pop_right"]), min_obligations=60,
         funcs=[_F + "pop_right, stabilize, stabilize_left, stabilize_right, dealloc_node"]),
    Unit("deque.push_left", "deque.c", defines=["U_PUSH_LEFT"], enforce="push_left", replace=["stabilize", "stabilize_left"],
         lifts=deque_lifts(loops_push=_PUSH, which=["push_left"]), min_obligations=60,
         funcs=[_F + "push_left, stabilize, stabilize_left, stabilize_right"]),
    Unit("deque.push_right", "deque.c", defines=["U_PUSH_RIGHT"], enforce="push_right", replace=["stabilize", "stabilize_right"],
         lifts=deque_lifts(loops_push=_PUSH, which=["push_right"]), min_obligations=60,
         funcs=[_F + "push_right, stabilize, stabilize_left, stabilize_right"]),
    Unit("deque.stabilize_left", "deque.c", defines=["U_STABILIZE_LEFT"], enforce="stabilize_left",
         lifts=deque_lifts(), min_obligations=30, funcs=[_F + "stabilize_left"]),
    Unit("deque.stabilize_right", "deque.c", defines=["U_STABILIZE_RIGHT"], enforce="stabilize_right",
         lifts=deque_lifts(), min_obligations=30, funcs=[_F + "stabilize_right"]),
    Unit("deque.stabilize", "deque.c", defines=["U_STABILIZE"], enforce="stabilize",
         lifts=deque_lifts(), min_obligations=30, funcs=[_F + "stabilize"]),
    Unit("deque.empty", "deque.c", defines=["U_EMPTY"], enforce="empty",
         lifts=deque_lifts(which=["empty"]), funcs=[_F + "empty"]),
]

DEQUE_UNITS += [
    Unit("deque.lemma.steps", "deque_lemma.c", kind="lemma", loop_contracts=False, min_obligations=15, no_replay=True,
         funcs=[],
         doc="over all heaps of <= 4 nodes: FINV => S_OK; each transition asserted in deque.c (pop_left/right, push_left/right, "
             "node-level back-link write, stabilizing step) keeps the full representation invariant and has the stated effect "
             "on the abstract sequence; every anchor step changes the word (guarantee within rely)"),
]

DEQUE_UNITS += [
    Unit("deque.seq.b4", "deque.c", defines=["U_SEQ"], kind="bounded", unwind=2, loop_contracts=False, no_replay=True,
         extra_flags=["--unwindset", "harness.0:257,run_sequence.0:5,run_sequence.1:5"],
         lifts=deque_lifts(which=["pop_left", "pop_right", "push_left", "push_right", "empty"]),
         funcs=[_F + "push_left, push_right, pop_left, pop_right, stabilize, stabilize_left, stabilize_right, dealloc_node, empty"],
         doc="BOUNDED, single thread, no interference: all operation sequences of length <= 4 plus drain, array-backed LIFO freelist of "
             "4 nodes, against an array model: per-end order, nothing invented, pop on non-empty succeeds, drained => empty"),
]

DEQUE_META = {
    "trusted_base": [],
    "assumptions": [],
    "not_decided": [],
}
