# C17 (addition) -- moodycamel ConcurrentQueue (pika/concurrency/concurrentqueue.hpp, vendored; backs lockfree_fifo_backend):
# the IMPLICIT producer path that pika uses (enqueue(item) / try_dequeue(item) without tokens).
# Defines MCQ_UNITS / MCQ_META / MCQ_STATIC; merged into specs/C17/spec.py by the maintainer (UNITS += MCQ_UNITS).
# Templates: mcq.h (index words, ghost state, invariant, transitions), mcq_dequeue.c, mcq_enqueue.c, mcq_try_dequeue.c, mcq_lemma.c.
import re as _mcq_re

from vx.lift import Lift, Sub, Call, DropStmt, Rule, LiftError, match_close, split_args, TryCatch
from vx.run import Unit
from vx import census as _mcq_census

MCQ = "libs/pika/concurrency/include/pika/concurrency/concurrentqueue.hpp"


class McqCall0(Call):
    """Call with n=None but WITHOUT the fixed-point re-scan of vx.lift.Call (the replacement contains the head again).
    Copied from specs/C19/spec.py (Call0)."""

    def __init__(self, head, template, stmt=False):
        Call.__init__(self, head, template, None, stmt)

    def apply(self, text):
        self._nested = True
        return Call.apply(self, text)


class McqRefVar(Rule):
    """C++ reference local `T& x = E;` -> `CT *vx_ref_x = &(E);`, every later use of x inside the enclosing block ->
    `(*vx_ref_x)`.  Copied from specs/C19/spec.py (RefVar)."""

    def __init__(self, type_pat, ctype, n=None):
        self.type_pat, self.ctype, self.n = type_pat, ctype, n

    def apply(self, text):
        from vx.lift import _blocks
        k = 0
        rx = _mcq_re.compile(r"(?:%s)\s*(?:const\s*)?&\s*(\w+)\s*=\s*([^;]+);" % self.type_pat, _mcq_re.S)
        while True:
            m = rx.search(text)
            if not m:
                break
            k += 1
            name, expr = m.group(1), m.group(2).strip()
            encl = [b for b in _blocks(text) if b[0] < m.start() and b[1] > m.start()]
            stop = max(encl, key=lambda b: b[0])[1] if encl else len(text)
            tail = _mcq_re.sub(r"(?<![\w.>])%s\b" % _mcq_re.escape(name), "(*vx_ref_%s)" % name, text[m.end():stop])
            text = text[:m.start()] + "%s *vx_ref_%s = &(%s);" % (self.ctype, name, expr) + tail + text[stop:]
        self.check(k, "McqRefVar(%s)" % self.type_pat)
        return text


class _McqSpan:
    def __init__(self, a, b):
        self.a, self.b = a, b

    def start(self):
        return self.a

    def end(self):
        return self.b


class McqLocalDtorStruct(Rule):
    """RAII lowering of a function-local guard class defined at its point of use:
        struct Name { T1 m1; ...; ~Name() { BODY } } var = { e1, ... };
    -> one local per member, initialised from e_i (`__typeof__(e_i) vx_var_mi = e_i;`), and BODY (members renamed to those
    locals) inserted at every exit of the enclosing scope (vx.lift's guard lowering).  Purely structural."""

    def __init__(self, n=None):
        self.n = n

    def apply(self, text):
        from vx.lift import _lower_one_guard
        k = 0
        while True:
            m = _mcq_re.search(r"\bstruct\s+(\w+)\s*\{", text)
            if not m:
                break
            name = m.group(1)
            op = m.end() - 1
            cl = match_close(text, op, "{", "}")
            body = text[op + 1:cl]
            mv = _mcq_re.match(r"\s*(\w+)\s*=\s*\{([^{}]*)\}\s*;", text[cl + 1:])
            md = _mcq_re.search(r"~%s\s*\(\s*\)\s*\{" % _mcq_re.escape(name), body)
            if not mv or not md:
                raise LiftError("McqLocalDtorStruct: struct %s is not a guard declared at its point of use" % name)
            dop = md.end() - 1
            dcl = match_close(body, dop, "{", "}")
            dtor = body[dop + 1:dcl]
            members = _mcq_re.findall(r"(\w+)\s*;", body[:md.start()] + body[dcl + 1:])
            inits = split_args(mv.group(2))
            if len(members) != len(inits) or not members:
                raise LiftError("McqLocalDtorStruct: %d members, %d initialisers" % (len(members), len(inits)))
            k += 1
            pre = "vx_%s_" % mv.group(1)
            ctor = " ".join("__typeof__(%s) %s%s = %s;" % (e, pre, nm, e) for nm, e in zip(members, inits))
            for nm in members:
                dtor = _mcq_re.sub(r"(?<![\w.>])%s\b" % _mcq_re.escape(nm), pre + nm, dtor)
            text = _lower_one_guard(text, _McqSpan(m.start(), cl + 1 + mv.end()), ctor, "{ " + dtor + " }")
        self.check(k, "McqLocalDtorStruct")
        return text


# ---- C++ spelling -> C spelling; every rule captures its operands ----------------------------------------------------
MCQ_WORDS = [
    # BlockIndexEntry::value (std::atomic<Block*>) first, so that the bare-member rules below do not see `value.load`
    Call(r"\b(\w+)->value\.load", "entry_load({h1})", None),
    Call(r"\b(\w+)->value\.store", "entry_store({h1}, {0})", None),
    # the index words of ProducerBase: std::atomic<index_t> members, with or without `this->`
    Call(r"(?<![\w>.])(?:this->)?(\w+)\.load", "idx_load(self, W_{h1})", None),
    Call(r"(?<![\w>.])(?:this->)?(\w+)\.fetch_add", "idx_fetch_add(self, W_{h1}, {0})", None),
    Call(r"(?<![\w>.])(?:this->)?(\w+)\.store", "idx_store(self, W_{h1}, {0})", None),
    Sub(r"\bdetail::circular_less_than\s*(?:<\s*index_t\s*>)?", "circular_less_than", None),
    Sub(r"\(detail::likely\)", "", None),
    Sub(r"\bstd::atomic_thread_fence\b", "mcq_fence", None),
]
MCQ_SLOTS = [
    Sub(r"\(\*(\w+)\)\[([^\]\[]+)\]", r"block_slot(\1, \2)", None),                       # (*block)[index]  (Block::operator[])
    Sub(r"(\bblock_slot\([^()]*\))->~T\(\)", r"elem_destroy(\1)", None),
    Sub(r"\b(\w+)\.~T\(\)", r"elem_destroy(&\1)", None),
]
MCQ_CLT = Lift(MCQ, r"static inline bool circular_less_than\(T a, T b\)", rules=[
    DropStmt(r"\bstatic_assert", None), Sub(r"\bT\b", "index_t", "+")])

DEQ_RULES = [
    McqLocalDtorStruct(None),
    Call(r"\bMOODYCAMEL_NOEXCEPT_ASSIGN", "MCQ_NOEXCEPT_ASSIGN", None),
] + MCQ_SLOTS + [
    McqRefVar("auto", "elem_t", None),
    McqCall0(r"\bget_block_index_entry_for_index(?!\s*\(\s*self\b)", "get_block_index_entry_for_index(self, {0})"),
    Call(r"\b(\w+)->ConcurrentQueue::Block::template\s+set_empty\s*<\s*implicit_context\s*>", "block_set_empty({h1}, {0})", None),
    Call(r"(?<![\w>.])((?:this->)?\w+)->add_block_to_free_list", "add_block_to_free_list({h1}, {0})", None),
] + MCQ_WORDS + [
    Sub(r"\belement\b", "(*element)", "+"),
    Sub(r"\bthis->", "self->", None),
]

_F = MCQ + ": "
MCQ_UNITS = [
    Unit("mcq.circular_less_than", "../C17/mcq_dequeue.c", defines=["U_CLT"], enforce="clt_unit", lifts={"clt": MCQ_CLT},
         funcs=[_F + "detail::circular_less_than<index_t>"], min_obligations=1,
         doc="F: the lifted function equals 'b is ahead of a by 1 .. 2^63-1 modulo 2^64' on all pairs of 64-bit words"),
    Unit("mcq.dequeue", "../C17/mcq_dequeue.c", defines=["U_DEQUEUE"], enforce="dequeue",
         lifts={"clt": MCQ_CLT,
                "dequeue": Lift(MCQ, r"bool dequeue\(U& element\)", which=2, expect=3, rules=DEQ_RULES, loops={"count": 0})},
         funcs=[_F + "ConcurrentQueue::ImplicitProducer::dequeue, detail::circular_less_than"], min_obligations=40, solver=["--sat-solver", "cadical"],
         doc="S/T on tailIndex/headIndex/dequeueOptimisticCount/dequeueOvercommit with interference before every atomic access"),
    Unit("mcq.size_approx", "../C17/mcq_dequeue.c", defines=["U_SIZE_APPROX"], enforce="size_approx",
         lifts={"clt": MCQ_CLT,
                "size_approx": Lift(MCQ, r"inline size_t size_approx\(\) const(?=\s*\{\s*auto tail)", rules=MCQ_WORDS, loops={"count": 0})},
         funcs=[_F + "ConcurrentQueue::ProducerBase::size_approx"], min_obligations=5),
]

MCQ_META = {"trusted_base": [], "assumptions": [], "not_decided": []}
MCQ_STATIC = []
