# C17 (addition) -- moodycamel ConcurrentQueue (pika/concurrency/concurrentqueue.hpp, vendored; backs lockfree_fifo_backend):
# the IMPLICIT producer path that pika uses (enqueue(item) / try_dequeue(item) without tokens).
# Defines MCQ_UNITS / MCQ_META / MCQ_STATIC; merged into specs/C17/spec.py by the maintainer (UNITS += MCQ_UNITS).
# Templates: mcq.h (index words, ghost state, invariant, transitions), mcq_dequeue.c, mcq_enqueue.c, mcq_try_dequeue.c, mcq_lemma.c.
import re as _mcq_re

from vx.lift import Lift, Sub, Call, DropStmt, Rule, LiftError, match_close, split_args, TryCatch
from vx.run import Unit
from vx import census as _mcq_census

MCQ = "libs/pika/concurrency/include/pika/concurrency/concurrentqueue.hpp"
MCQ_IMPLICIT = r"struct ImplicitProducer : public ProducerBase"


class McqCall0(Call):
    """Call with n=None but WITHOUT the fixed-point re-scan of vx.lift.Call (the replacement contains the head again).
    Copied from specs/C19/spec.py (Call0)."""

    def __init__(self, head, template, stmt=False):
        Call.__init__(self, head, template, None, stmt)

    def apply(self, text):
        self._nested = True
        return Call.apply(self, text)


class McqRefVar(Rule):
    """C++ reference local `T& x = E;` -> `CT *vx_ref_x = &(E);`, every later use of x inside the enclosing block ->
    `(*vx_ref_x)`.  Copied from specs/C19/spec.py (RefVar)."""

    def __init__(self, type_pat, ctype, n=None):
        self.type_pat, self.ctype, self.n = type_pat, ctype, n

    def apply(self, text):
        from vx.lift import _blocks
        k = 0
        rx = _mcq_re.compile(r"(?:%s)\s*(?:const\s*)?&\s*(\w+)\s*=\s*([^;]+);" % self.type_pat, _mcq_re.S)
        while True:
            m = rx.search(text)
            if not m:
                break
            k += 1
            name, expr = m.group(1), m.group(2).strip()
            encl = [b for b in _blocks(text) if b[0] < m.start() and b[1] > m.start()]
            stop = max(encl, key=lambda b: b[0])[1] if encl else len(text)
            tail = _mcq_re.sub(r"(?<![\w.>])%s\b" % _mcq_re.escape(name), "(*vx_ref_%s)" % name, text[m.end():stop])
            text = text[:m.start()] + "%s *vx_ref_%s = &(%s);" % (self.ctype, name, expr) + tail + text[stop:]
        self.check(k, "McqRefVar(%s)" % self.type_pat)
        return text


class _McqSpan:
    def __init__(self, a, b):
        self.a, self.b = a, b

    def start(self):
        return self.a

    def end(self):
        return self.b


class McqLocalDtorStruct(Rule):
    """RAII lowering of a function-local guard class defined at its point of use:
        struct Name { T1 m1; ...; ~Name() { BODY } } var = { e1, ... };
    -> one local per member, initialised from e_i (`__typeof__(e_i) vx_var_mi = e_i;`), and BODY (members renamed to those
    locals) inserted at every exit of the enclosing scope (vx.lift's guard lowering).  Purely structural."""

    def __init__(self, n=None):
        self.n = n

    def apply(self, text):
        from vx.lift import _lower_one_guard
        k = 0
        while True:
            m = _mcq_re.search(r"\bstruct\s+(\w+)\s*\{", text)
            if not m:
                break
            name = m.group(1)
            op = m.end() - 1
            cl = match_close(text, op, "{", "}")
            body = text[op + 1:cl]
            mv = _mcq_re.match(r"\s*(\w+)\s*=\s*\{([^{}]*)\}\s*;", text[cl + 1:])
            md = _mcq_re.search(r"~%s\s*\(\s*\)\s*\{" % _mcq_re.escape(name), body)
            if not mv or not md:
                raise LiftError("McqLocalDtorStruct: struct %s is not a guard declared at its point of use" % name)
            dop = md.end() - 1
            dcl = match_close(body, dop, "{", "}")
            dtor = body[dop + 1:dcl]
            members = _mcq_re.findall(r"(\w+)\s*;", body[:md.start()] + body[dcl + 1:])
            inits = split_args(mv.group(2))
            if len(members) != len(inits) or not members:
                raise LiftError("McqLocalDtorStruct: %d members, %d initialisers" % (len(members), len(inits)))
            k += 1
            pre = "vx_%s_" % mv.group(1)
            ctor = " ".join("__typeof__(%s) %s%s = %s;" % (e, pre, nm, e) for nm, e in zip(members, inits))
            for nm in members:
                dtor = _mcq_re.sub(r"(?<![\w.>])%s\b" % _mcq_re.escape(nm), pre + nm, dtor)
            text = _lower_one_guard(text, _McqSpan(m.start(), cl + 1 + mv.end()), ctor, "{ " + dtor + " }")
        self.check(k, "McqLocalDtorStruct")
        return text



class McqTryCatch(Rule):
    """`try { A } catch (...) { B }`  ->  `{ { A' } vx_try_end_k: ; if (vx_exc) { vx_catch(); B } }` where A' is A with every
    VX_PROPAGATE (emitted after may-throw calls) turned into a jump to the handler (single catch-all clause; the pattern of
    specs/C13 TryCatchMulti)."""

    def __init__(self, n=None):
        self.n = n

    def apply(self, text):
        k = 0
        while True:
            m = _mcq_re.search(r"\btry\s*\{", text)
            if not m:
                break
            k += 1
            op = m.end() - 1
            cl = match_close(text, op, "{", "}")
            mc = _mcq_re.match(r"\s*catch\s*\(\s*\.\.\.\s*\)\s*\{", text[cl + 1:])
            if not mc:
                raise LiftError("McqTryCatch: try without catch (...)")
            cop = cl + 1 + mc.end() - 1
            ccl = match_close(text, cop, "{", "}")
            A = text[op + 1:cl].replace("VX_PROPAGATE", "goto vx_try_end_%d" % k)
            B = text[cop + 1:ccl]
            text = text[:m.start()] + "{ { %s } vx_try_end_%d: ; if (vx_exc) { vx_catch(); %s } }" % (A, k, B) + text[ccl + 1:]
        self.check(k, "McqTryCatch")
        return text



class McqCanonLocals(Rule):
    """loop contracts have to name locals of the lifted text; a refactoring that merely renames a local must not make the
    unit undecided.  Each (regex, canonical) pair finds a local by the SHAPE of its declaration (group 1 = its name) and
    renames it to the canonical name used in the contracts; a shape that is not found is left alone."""

    def __init__(self, pairs):
        self.pairs, self.n = pairs, None

    def apply(self, text):
        for pat, canon in self.pairs:
            names = set(_mcq_re.findall(pat, text))
            if len(names) == 1:
                nm = names.pop()
                if nm != canon and not _mcq_re.search(r"\b%s\b" % canon, text):
                    text = _mcq_re.sub(r"(?<![\w.>])%s\b" % _mcq_re.escape(nm), canon, text)
        return text



class McqScopedLift(Lift):
    """Lift whose locator is evaluated inside the body of one class only (`scope` = regex matching the class head, e.g.
    `struct ImplicitProducer : public ProducerBase`): the same member signature occurs in several classes of the header."""

    def __init__(self, src, scope, locate_pat, **kw):
        Lift.__init__(self, src, locate_pat, **kw)
        self.scope = scope

    def run(self):
        from vx.lift import read_source
        src = read_source(self.src)
        ms = list(_mcq_re.finditer(self.scope, src, _mcq_re.S))
        if len(ms) != 1:
            raise LiftError("scope /%s/ matched %d times in %s" % (self.scope, len(ms), self.src))
        op = src.index("{", ms[0].end())
        cl = match_close(src, op, "{", "}")
        allm = list(_mcq_re.finditer(self.locate, src, _mcq_re.S))
        inside = [i for i, m in enumerate(allm) if op < m.start() < cl]
        if len(inside) != 1:
            raise LiftError("locator /%s/ matched %d times inside scope /%s/" % (self.locate, len(inside), self.scope))
        self.which, self.expect = inside[0], len(allm)
        return Lift.run(self)


# ---- C++ spelling -> C spelling; every rule captures its operands ----------------------------------------------------
MCQ_WORDS = [
    # BlockIndexEntry::value (std::atomic<Block*>) first, so that the bare-member rules below do not see `value.load`
    Call(r"\b(\w+)->value\.load", "entry_load({h1})", None),
    Call(r"\b(\w+)->value\.store", "entry_store({h1}, {0})", None),
    # the index words of ProducerBase: std::atomic<index_t> members, with or without `this->`
    Call(r"(?<![\w>.])(?:this->)?(\w+)\.load", "idx_load(self, W_{h1})", None),
    Call(r"(?<![\w>.])(?:this->)?(\w+)\.fetch_add", "idx_fetch_add(self, W_{h1}, {0})", None),
    Call(r"(?<![\w>.])(?:this->)?(\w+)\.store", "idx_store(self, W_{h1}, {0})", None),
    Sub(r"\bdetail::circular_less_than\s*(?:<\s*index_t\s*>)?", "circular_less_than", None),
    Sub(r"\(detail::likely\)", "", None),
    Sub(r"\bstd::atomic_thread_fence\b", "mcq_fence", None),
]
MCQ_SLOTS = [
    Sub(r"\(\*((?:this->)?\w+)\)\[([^\]\[]+)\]", r"block_slot(\1, \2)", None),           # (*block)[index]  (Block::operator[])
    Sub(r"(\bblock_slot\([^()]*\))->~T\(\)", r"elem_destroy(\1)", None),
    Sub(r"\b(\w+)\.~T\(\)", r"elem_destroy(&\1)", None),
]
MCQ_CLT = Lift(MCQ, r"static inline bool circular_less_than\(T a, T b\)", rules=[
    DropStmt(r"\bstatic_assert", None), Sub(r"\bT\b", "index_t", "+")])

MCQ_DEQ_RULES = [
    McqLocalDtorStruct(None),
    Call(r"\bMOODYCAMEL_NOEXCEPT_ASSIGN", "MCQ_NOEXCEPT_ASSIGN", None),
] + MCQ_SLOTS + [
    McqRefVar("auto", "elem_t", None),
    McqCall0(r"\bget_block_index_entry_for_index(?!\s*\(\s*self\b)", "get_block_index_entry_for_index(self, {0})"),
    Call(r"\b(\w+)->ConcurrentQueue::Block::template\s+set_empty\s*<\s*implicit_context\s*>", "block_set_empty({h1}, {0})", None),
    Call(r"(?<![\w>.])((?:this->)?\w+)->add_block_to_free_list", "add_block_to_free_list({h1}, {0})", None),
] + MCQ_WORDS + [
    Sub(r"\belement\b", "(*element)", "+"),
    Sub(r"\bthis->", "self->", None),
]

def mcq_dequeue_lifts():
    return {"clt": MCQ_CLT,
            "dequeue": McqScopedLift(MCQ, MCQ_IMPLICIT, r"bool dequeue\(U& element\)", rules=MCQ_DEQ_RULES, loops={"count": 0})}


def _mcq_traits():
    """BLOCK_SIZE / MAX_SUBQUEUE_SIZE of ConcurrentQueueDefaultTraits (pika instantiates ConcurrentQueue<T> with the default
    traits) become -D parameters of the enqueue template: an edit of the constants comes along"""
    from vx.lift import read_source
    try:
        src = read_source(MCQ)
    except LiftError:
        return []
    out = []
    for nm in ("BLOCK_SIZE", "MAX_SUBQUEUE_SIZE"):
        m = _mcq_re.search(r"static size_t const %s\s*=\s*([^;]+);" % nm, src)
        if m:
            v = m.group(1).strip().replace("detail::const_numeric_max<size_t>::value", "SIZE_MAX")
            out.append("TRAITS_%s=(%s)" % (nm, v))
    return out


MCQ_ENQ_RULES = [
    Call(r"\bMOODYCAMEL_NOEXCEPT_CTOR", "MCQ_NOEXCEPT_CTOR", None),
    Sub(r"\bMOODYCAMEL_CONSTEXPR_IF\b", "if", None),
    Sub(r"\bMOODYCAMEL_TRY\b", "try", None),
    Sub(r"\bMOODYCAMEL_CATCH\b", "catch", None),
    Sub(r"\bMOODYCAMEL_RETHROW\s*;", "{ vx_rethrow(); VX_PROPAGATE; }", None),
] + MCQ_SLOTS + [
    # placement new of the payload: may throw
    Sub(r"\bnew\s*\((block_slot\([^()]*\))\)\s*T\s*\(\s*std::forward<U>\((\w+)\)\s*\)\s*;",
        r"{ elem_construct(\1, \2); if (vx_exc) VX_PROPAGATE; }", "+"),
    McqTryCatch(None),
    Sub(r"\bVX_PROPAGATE\b", "return false", None),
    Call(r"\bassert", "MCQ_ASSERT({args})", None),
    Sub(r"\bBlockIndexEntry\s*\*\s*(\w+)\s*;", r"struct bientry *\1;", None),
    Call(r"\binsert_block_index_entry\s*<\s*allocMode\s*>", "insert_block_index_entry(self, &{0}, {1})", None),   # BlockIndexEntry*& out-parameter
    Call(r"\bthis->parent->ConcurrentQueue::template\s+requisition_block\s*<\s*allocMode\s*>", "requisition_block(this->parent)", None),
    Call(r"\b(\w+)->ConcurrentQueue::Block::template\s+reset_empty\s*<\s*implicit_context\s*>", "block_reset_empty({h1})", None),
    McqCall0(r"\brewind_block_index_tail(?!\s*\(\s*self\b)", "rewind_block_index_tail(self)"),
    Call(r"(?<![\w>.])((?:this->)?\w+)->add_block_to_free_list", "add_block_to_free_list({h1}, {0})", None),
    Sub(r"\bdetail::const_numeric_max<size_t>::value", "SIZE_MAX", None),
] + MCQ_WORDS + [
    Sub(r"\bthis->", "self->", None),
]

# ---- ConcurrentQueue::try_dequeue: producers as handles into a stub list; callee contracts as stubs ----
MCQ_TD_RULES = [
    Sub(r"\bnullptr\b", "PROD_NULL", None),
    Sub(r"\bProducerBase\s*\*\s*(\w+)\s*=", r"prod_h \1 =", None),
    Call(r"(?<![\w>.])producerListTail\.load", "producer_list_tail_load(self)", None),
    Call(r"\b(\w+)->next_prod", "prod_next({h1})", None),
    Call(r"\b(\w+)->size_approx", "prod_size_approx({h1})", None),
    Call(r"\b(\w+)->dequeue", "prod_dequeue({h1}, {0})", None),
    Sub(r"\(detail::likely\)", "", None),
]
MCQ_TD_BASE = list(MCQ_TD_RULES)
MCQ_TD_RULES = MCQ_TD_BASE + [
    McqCanonLocals([
        (r"\bprod_h\s+(\w+)\s*=\s*PROD_NULL\s*;", "best"),                                # the one producer handle declared outside the loops
        (r"\bfor\s*\(\s*auto\s+(\w+)\s*=\s*producer_list_tail_load", "ptr"),            # the cursor of both loops
        (r"(?:\+\+\s*(\w+)\s*;)", "nonEmptyCount"),                                     # the one counter that is incremented
        (r"\bsize_t\s+(?!nonEmptyCount\b)(\w+)\s*=\s*0\s*;", "bestSize"),                # the other size_t local
    ]),
]
MCQ_TD_LOOP_SCAN = """
__CPROVER_assigns(ptr, nonEmptyCount, best, bestSize, X)
__CPROVER_loop_invariant((ptr == PROD_NULL || VALID(ptr)) && nonEmptyCount <= 3)
__CPROVER_loop_invariant((nonEmptyCount > 0 ==> VALID(best)) && (nonEmptyCount == 0 ==> bestSize == 0))
__CPROVER_loop_invariant((nonEmptyCount > 0) == X.saw_nonempty)
__CPROVER_loop_invariant(X.attempts == 0 && X.successes == 0 && X.v_attempts == 0 && X.winner == PROD_NULL)
__CPROVER_loop_invariant((nonEmptyCount > 0 && best == K.v) ==> X.v_seen_nonempty)
__CPROVER_loop_invariant((MCQ_QUIESCENT && VALID(K.v) && K.vsize > 0 && K.v < POS(ptr)) ==> nonEmptyCount > 0)
"""
MCQ_TD_LOOP_TRY = """
__CPROVER_assigns(ptr, X, *item)
__CPROVER_loop_invariant(ptr == PROD_NULL || VALID(ptr))
__CPROVER_loop_invariant(X.successes == 0 && X.winner == PROD_NULL && X.attempts >= 1 && X.v_attempts >= 0)
__CPROVER_loop_invariant(*item == __CPROVER_loop_entry(*item) && X.saw_nonempty == __CPROVER_loop_entry(X.saw_nonempty))
__CPROVER_loop_invariant((VALID(K.v) && (K.v < POS(ptr) || K.v == best)) ==> X.v_attempts >= 1)
__CPROVER_loop_invariant((MCQ_QUIESCENT && VALID(K.v) && K.vsize > 0) ==> X.v_attempts == 0)
"""


MCQ_TD_LOOP_SUM = """
__CPROVER_assigns(ptr, size, X, g_sum)
__CPROVER_loop_invariant((ptr == PROD_NULL || VALID(ptr)) && size == g_sum && g_sum <= ((size_t) 1 << 60))
__CPROVER_loop_invariant(X.v_attempts == ((VALID(K.v) && K.v < POS(ptr)) ? 1 : 0))
__CPROVER_loop_invariant((MCQ_QUIESCENT && VALID(K.v) && K.v < POS(ptr)) ==> g_sum >= K.vsize)
"""
MCQ_FWD_RULES = [
    Sub(r"\bMOODYCAMEL_CONSTEXPR_IF\b", "if", None),
    Call(r"\binner_enqueue\s*<\s*(\w+)\s*>", "inner_enqueue(self, {h1}, {0})", None),
    Call(r"(?<![\w>.])get_or_add_implicit_producer(?!\s*\(\s*self\b)", "get_or_add_implicit_producer(self)", None),
    Call(r"\b(\w+)->ConcurrentQueue::ImplicitProducer::template\s+enqueue\s*<\s*(\w+)\s*>", "prod_enqueue({h1}, {h2}, {0})", None),
    Call(r"\bstd::forward\s*<\s*U\s*>", "({0})", None),
    Sub(r"\bnullptr\b", "PROD_NULL", None),
]


def _mcq_hash_size():
    from vx.lift import read_source
    try:
        m = _mcq_re.search(r"static size_t const INITIAL_IMPLICIT_PRODUCER_HASH_SIZE\s*=\s*([^;]+);", read_source(MCQ))
    except LiftError:
        m = None
    return ["TRAITS_INITIAL_IMPLICIT_PRODUCER_HASH_SIZE=(%s)" % m.group(1).strip()] if m else []


def mcq_td_lifts():
    return {"try_dequeue": Lift(MCQ, r"bool try_dequeue\(U& item\)", rules=MCQ_TD_RULES,
                                loops={1: MCQ_TD_LOOP_SCAN, 2: MCQ_TD_LOOP_TRY, "count": 2})}


def mcq_size_lifts():
    return {"clt": MCQ_CLT,
            "size_approx": McqScopedLift(MCQ, r"struct ProducerBase : public detail::ConcurrentQueueProducerTypelessBase",
                                         r"inline size_t size_approx\(\) const", rules=MCQ_WORDS, loops={"count": 0})}


_MCQ_F = MCQ + ": "
MCQ_UNITS = [
    Unit("mcq.circular_less_than", "../C17/mcq_dequeue.c", defines=["U_CLT"], enforce="clt_unit", lifts={"clt": MCQ_CLT},
         funcs=[_MCQ_F + "detail::circular_less_than<index_t>"], min_obligations=1,
         doc="F: the lifted function equals 'b is ahead of a by 1 .. 2^63-1 modulo 2^64' on all pairs of 64-bit words"),
    Unit("mcq.dequeue", "../C17/mcq_dequeue.c", defines=["U_DEQUEUE"], enforce="dequeue", lifts=mcq_dequeue_lifts(),
         funcs=[_MCQ_F + "ConcurrentQueue::ImplicitProducer::dequeue, detail::circular_less_than"], min_obligations=150,
         solver=["--sat-solver", "cadical"],
         doc="S/T on tailIndex/headIndex/dequeueOptimisticCount/dequeueOvercommit with interference before every atomic access"),
    Unit("mcq.dequeue.quiescent", "../C17/mcq_dequeue.c", defines=["U_DEQUEUE", "MCQ_QUIESCENT=1"], enforce="dequeue",
         lifts=mcq_dequeue_lifts(), funcs=[_MCQ_F + "ConcurrentQueue::ImplicitProducer::dequeue, detail::circular_less_than"],
         min_obligations=150, solver=["--sat-solver", "cadical"],
         doc="same contract, no other thread running: a dequeue on a non-empty sub-queue succeeds and takes the element at head"),
    Unit("mcq.size_approx", "../C17/mcq_dequeue.c", defines=["U_SIZE_APPROX"], enforce="size_approx", lifts=mcq_size_lifts(),
         funcs=[_MCQ_F + "ConcurrentQueue::ProducerBase::size_approx"], min_obligations=30,
         doc="never more than tail(read) - head(at entry); 0 when head has caught up"),
    Unit("mcq.size_approx.quiescent", "../C17/mcq_dequeue.c", defines=["U_SIZE_APPROX", "MCQ_QUIESCENT=1"], enforce="size_approx",
         lifts=mcq_size_lifts(), funcs=[_MCQ_F + "ConcurrentQueue::ProducerBase::size_approx"], min_obligations=30,
         doc="no other thread running: exactly tail - head"),
    Unit("mcq.enqueue", "../C17/mcq_enqueue.c", defines=_mcq_traits(), enforce="enqueue",
         lifts={"clt": MCQ_CLT,
                "enqueue": McqScopedLift(MCQ, MCQ_IMPLICIT, r"inline bool enqueue\(U&& element\)", rules=MCQ_ENQ_RULES, loops={"count": 0})},
         funcs=[_MCQ_F + "ConcurrentQueue::ImplicitProducer::enqueue<allocMode, U>"], min_obligations=60,
         doc="T: the element is constructed in the slot at index tail exactly once, BEFORE tailIndex := tail + 1 is published (once); "
             "on failure or an exception from T's constructor nothing is published and the block/index entry are given back"),
    Unit("mcq.try_dequeue", "../C17/mcq_try_dequeue.c", defines=["U_TRY_DEQUEUE"], enforce="try_dequeue", lifts=mcq_td_lifts(),
         funcs=[_MCQ_F + "ConcurrentQueue::try_dequeue(U&)"], min_obligations=60,
         doc="T: tries producers until one dequeue succeeds; true iff one did (exactly one); the element reference is passed through; "
             "false with a producer that looked non-empty only after every producer was tried"),
    Unit("mcq.try_dequeue.quiescent", "../C17/mcq_try_dequeue.c", defines=["U_TRY_DEQUEUE", "MCQ_QUIESCENT=1"], enforce="try_dequeue", lifts=mcq_td_lifts(),
         funcs=[_MCQ_F + "ConcurrentQueue::try_dequeue(U&)"], min_obligations=60,
         doc="no other thread running: if some producer of the list is non-empty the call succeeds"),
    Unit("mcq.lemma.steps", "../C17/mcq_lemma.c", kind="lemma", loop_contracts=False, no_replay=True, funcs=[], min_obligations=10,
         solver=["--sat-solver", "cadical"],
         doc="rely of mcq.dequeue justified: every transition (ticket / claim / register by another consumer, publish by the producer), "
             "performed with the MCQ_DO_* macros the atomic stubs use, keeps MCQ_INV and the observer's per-thread invariant; "
             "hypotheses: inclusions between the ticket sets the ghost counts stand for (PAIR), A-BOUNDED margins"),
    Unit("mcq.queue_size_approx", "../C17/mcq_try_dequeue.c", defines=["U_SIZE_SUM", "MCQ_QUIESCENT=1"], enforce="size_approx",
         lifts={"size_sum": Lift(MCQ, r"(?<!inline )size_t size_approx\(\) const",
                                 rules=MCQ_TD_BASE + [McqCanonLocals([(r"\bsize_t\s+(\w+)\s*=\s*0\s*;", "size"),
                                                                   (r"\bfor\s*\(\s*auto\s+(\w+)\s*=\s*producer_list_tail_load", "ptr")])],
                                 loops={1: MCQ_TD_LOOP_SUM, "count": 1})},
         funcs=[_MCQ_F + "ConcurrentQueue::size_approx"], min_obligations=30,
         doc="sum of the producers' size_approx, each producer asked once; quiescent: a non-empty producer => result > 0 "
             "(lockfree_fifo_backend::empty() is size_approx() == 0)"),
    Unit("mcq.enqueue_forwarders", "../C17/mcq_try_dequeue.c", defines=["U_INNER_ENQUEUE"] + _mcq_hash_size(), enforce="inner_enqueue",
         lifts={"inner_enqueue": Lift(MCQ, r"inline bool inner_enqueue\(U&& element\)", rules=MCQ_FWD_RULES, loops={"count": 0}),
                "enqueue_copy": Lift(MCQ, r"inline bool enqueue\(T const& item\)", rules=MCQ_FWD_RULES, loops={"count": 0}),
                "enqueue_move": Lift(MCQ, r"inline bool enqueue\(T&& item\)", rules=MCQ_FWD_RULES, loops={"count": 0})},
         funcs=[_MCQ_F + "ConcurrentQueue::enqueue(T const&), enqueue(T&&), inner_enqueue<canAlloc>(U&&)"], min_obligations=10,
         doc="T: one lookup of the calling thread's implicit producer, one enqueue<CanAlloc> on it with the item; false iff no producer or that enqueue failed"),
]

MCQ_META = {
    "trusted_base": [
        "specs/C17/mcq_dequeue.c idx_load/idx_fetch_add, mcq_enqueue.c idx_load/idx_store: the std::atomic<index_t> members tailIndex, headIndex, "
        "dequeueOptimisticCount, dequeueOvercommit of ProducerBase modelled as indivisible 64-bit words (A-SC: memory orders dropped; "
        "std::atomic_thread_fence is a no-op stub); each stub runs the environment first, performs the access, does the ghost bookkeeping of "
        "the step (MCQ_DO_* of mcq.h) and asserts the guarantee",
        "specs/C17/mcq_dequeue.c mcq_interfere() = the RELY of a consumer (VX_ASSUME): headIndex and dequeueOvercommit grow by less than 2^60 "
        "during one call (A-BOUNDED), tailIndex is never behind a value read from it, MCQ_INV (C - O == H + U; H + Ub <= T; Ub <= U; "
        "T - H < 2^60) and this thread's MCQ_ME (while undecided and above every claimed ticket: t - o == H + Ubm + D, Ub <= Ubm < U; otherwise "
        "Ub >= 1) hold again; the ghost counts U, Ub, Ubm, D are existential.  Justified by unit mcq.lemma.steps (every transition of another "
        "thread keeps them) whose own hypotheses are the set inclusions PAIR between the ghost counts of two threads and A-BOUNDED margins",
        "specs/C17/mcq_enqueue.c mcq_interfere() = the RELY of the producer (VX_ASSUME dH <= T - H): only consumers advance headIndex and "
        "never past tailIndex (guarantee asserted in mcq.dequeue: 'the claimed index lies before tail'); nobody else writes tailIndex "
        "(one implicit producer per thread: get_or_add_implicit_producer hashes the thread id -- that function is NOT under contract)",
        "block index / blocks / block free list are STUBS over one symbolic victim slot: get_block_index_entry_for_index, "
        "BlockIndexEntry::value load/store, Block::operator[], Block::set_empty<implicit_context>, Block::reset_empty<implicit_context>, "
        "insert_block_index_entry, rewind_block_index_tail, requisition_block, add_block_to_free_list, ~T / placement new of T; the stubs "
        "count calls and assert the order of the steps (slot read before destroyed, destroyed before marked empty, index entry cleared "
        "before the block is recycled; new block reset, element constructed and index entry set before tail is published).  Rely on "
        "slots: a slot at a claimed index is not written by anybody else until its claimer marks it empty",
        "mcq_try_dequeue.c: the producer list is a stub (handles 0..n-1 in list order, n symbolic < 10^6); ProducerBase::size_approx / dequeue are "
        "contract stubs (any result; for ONE symbolic victim producer in the quiescent instances: true size / succeeds iff non-empty -- the "
        "contracts proved by mcq.size_approx.quiescent and mcq.dequeue.quiescent); ProducerBase::dequeue's isExplicit dispatch is not lifted; "
        "VX_ASSUME in prod_size_approx_sum: all sizes together < 2^60 (A-BOUNDED, no wrap-around of the sum)",
        "payload T is an opaque int token; MOODYCAMEL_NOEXCEPT_ASSIGN / MOODYCAMEL_NOEXCEPT_CTOR are nondeterministic configuration bits "
        "(both branches verified); an exception from T's constructor is the flag vx_exc + early return; an exception from T's move "
        "assignment inside dequeue (Guard path) is not modelled",
        "local guard class `struct Guard {...} guard = {...}` of dequeue lowered to locals + destructor body at scope exit "
        "(McqLocalDtorStruct in mcq_spec.py); `auto& el` lowered to a pointer (McqRefVar); try/catch(...) lowered by McqTryCatch",
    ],
    "assumptions": [
        "A-BOUNDED (mcq units): fewer than 2^60 elements in a sub-queue, fewer than 2^60 consumers in flight, fewer than 2^60 steps of other "
        "threads while one call runs (circular_less_than itself is only meaningful for distances < 2^63); the absolute values of the four "
        "index words are arbitrary and wrap modulo 2^64",
        "A-CLOSED(mcq): for an implicit producer the four index words are written only by ImplicitProducer::enqueue / dequeue (under contract) "
        "and enqueue_bulk / dequeue_bulk (NOT under contract; pika never calls the bulk or token API: static facts 'mcq: pika uses only "
        "enqueue/try_dequeue/size_approx' and the write-site census of concurrentqueue.hpp)",
        "PAIR (hypothesis of mcq.lemma.steps): the ghost counts are cardinalities of ticket sets; for two undecided tickets x < y: "
        "{undecided below x} + {x} is contained in {undecided below y}, a claimed ticket above y is above x, and x, y are distinct members of "
        "the undecided set (of the Ub set when both are below the largest claimed ticket) -- set facts, not machine checked",
    ],
    "not_decided": [
        "moodycamel ConcurrentQueue beyond the implicit single-element path: ExplicitProducer (tokens), enqueue_bulk / dequeue_bulk / try_dequeue_bulk, "
        "consumer tokens and the rotation heuristic, get_or_add_implicit_producer and the implicit-producer hash (incl. its resizing and thread-exit "
        "recycling of producers), block index growth (new_block_index, insert_block_index_entry), the block pool / lock-free block free list "
        "(requisition_block, add_block_to_free_list, FreeList), Block::set_empty / reset_empty flag handling, destructors",
        "that a block is not recycled while a slow consumer still reads a slot of it is assumed at the stub level (slot rely above); the "
        "emptiness-flag protocol of Block that implements it is not under contract",
        "FIFO order per producer in single-threaded use follows from 'claims hand out head, head+1, ...' (mcq.dequeue.quiescent: the claimed index "
        "is head) and 'enqueue stores at tail' (mcq.enqueue); order ACROSS producers is not promised by try_dequeue (it picks the producer that "
        "looks fullest) and is not checked",
        "memory orders (relaxed/acquire/release and the acquire fence in dequeue): all atomics are sequentially consistent here (A-SC)",
        "linearizability of the whole queue under arbitrary concurrency: decided are the step contracts, the invariant-preservation lemma over "
        "two symbolic threads, and the quiescent behaviour; the induction over the interleaved history is the paper argument of DESIGN 3.4",
    ],
}
MCQ_USERS = ["libs/pika/schedulers/include/pika/schedulers/lockfree_queue_backends.hpp", "libs/pika/async_cuda/src/cuda_event_callback.cpp",
             "libs/pika/async_mpi/src/mpi_polling.cpp"]
MCQ_STATIC = [
    _mcq_census.sites("mcq: pika uses only enqueue/try_dequeue/size_approx of ConcurrentQueue (no bulk, no tokens)", MCQ_USERS,
                      r"\b(enqueue_bulk|try_enqueue\w*|try_dequeue_\w+|ProducerToken|ConsumerToken|producer_token_t|consumer_token_t)\b", 0),
    _mcq_census.sites("mcq: tailIndex write sites (2 x enqueue + enqueue_bulk, explicit and implicit)", [MCQ],
                      r"\btailIndex\.(fetch_add|fetch_sub|store|exchange|compare_exchange\w*)", 6),
    _mcq_census.sites("mcq: headIndex write sites (dequeue + dequeue_bulk, explicit and implicit)", [MCQ],
                      r"\bheadIndex\.(fetch_add|fetch_sub|store|exchange|compare_exchange\w*)", 4),
    _mcq_census.sites("mcq: dequeueOptimisticCount write sites", [MCQ],
                      r"\bdequeueOptimisticCount\.(fetch_add|fetch_sub|store|exchange|compare_exchange\w*)", 4),
    _mcq_census.sites("mcq: dequeueOvercommit write sites", [MCQ],
                      r"\bdequeueOvercommit\.(fetch_add|fetch_sub|store|exchange|compare_exchange\w*)", 6),
]


# ---- ImplicitProducer::new_block_index (added by main after seeded change C17-5 was missed): growth of the circular block index ----
MCQ_IDX_LOOP_COPY = """
__CPROVER_assigns(i, prevPos, g_ws_written, g_v_places, g_v_slot)
__CPROVER_loop_invariant(i < g_prevcap && prevPos == ((prevTail + i) & (g_prevcap - 1)))
__CPROVER_loop_invariant(g_ws_written == (g_ws < i) && g_f_places == 0)
__CPROVER_loop_invariant((i > g_prevcap - 1 - g_d) ? (g_v_places == 1 && g_v_slot == g_prevcap - 1 - g_d) : g_v_places == 0)
"""
MCQ_IDX_LOOP_FRESH = """
__CPROVER_assigns(i, g_ws_written, g_f_places, g_f_slot, g_fentry, g_fother)
__CPROVER_loop_invariant(i <= entryCount && g_ws_written == (g_ws < prevCapacity + i))
__CPROVER_loop_invariant((i > g_fj) ? (g_f_places == 1 && g_f_slot == prevCapacity + g_fj && g_fentry.constructed && g_fentry.key == INVALID_BLOCK_BASE) : (g_f_places == 0 && !g_fentry.constructed))
"""
MCQ_UNITS.append(Unit("mcq.new_block_index", "../C17/mcq_index.c", enforce="new_block_index", lifts={"body": Lift(MCQ, r"bool new_block_index\(\)", rules=[
    Sub(r"\bauto (\w+) = blockIndex\.load\([^)]*\);", r"struct bih *\1 = self->blockIndex;", 1),
    Sub(r"\bauto (entryCount|prevTail|prevPos)\b", r"size_t \1", None),
    Sub(r"\bauto raw = static_cast<char\*>\(\(Traits::malloc\)\(", "char *raw = (char*)(vx_index_malloc(", 1),
    Sub(r"\bstd::alignment_of<([\w*]+)>::value", r"_Alignof(\1)", None),
    Sub(r"\bauto (\w+) = new \(raw\) BlockIndexHeader;", r"struct bih *\1 = header_construct(raw);", 1),
    Sub(r"\bauto (\w+) = reinterpret_cast<BlockIndexEntry\*>\(\s*detail::align_for<BlockIndexEntry>\(raw \+ ([^;]*?)\)\);", r"struct ents *\1 = entries_place(raw, \2);", 1),
    Sub(r"\bauto (\w+) =\s*reinterpret_cast<BlockIndexEntry\*\*>\(detail::align_for<BlockIndexEntry\*>\(\s*reinterpret_cast<char\*>\((\w+)\) \+ ([^;]*?)\)\);",
        r"struct idx *\1 = index_place(\2, \3);", 1),
    Sub(r"(\w+)->tail\.load\([^)]*\)", r"\1->tail", None),
    Sub(r"(\w+)->tail\.store\(\s*([^;]*?), std::memory_order_\w+\);", r"\1->tail = \2;", None),
    Sub(r"\bstd::copy\((\w+)->index, \1->index \+ (\w+), (\w+)\);", r"index_copy(\3, \1->index, \2);", None),
    Sub(r"\bnew \((\w+) \+ (\w+)\) BlockIndexEntry;", r"entry_construct(\1, \2);", None),
    Sub(r"\b(\w+)\[(\w+)\]\.key\.store\((\w+), std::memory_order_\w+\);", r"entry_key_store(\1, \2, \3);", None),
    Sub(r"(?<![\w>])index\[([^\]]+)\] = ([^;]+);", r"index_set(index, \1, \2);", None),
    Sub(r"(\w+)->index\[(\w+)\]", r"index_get(\1->index, \2)", None),
    Sub(r"\bentries \+ (\w+)", r"entry_at(entries, \1)", None),
    Sub(r"\bblockIndex\.store\((\w+), std::memory_order_\w+\);", r"blockindex_publish(self, \1);", 1),
    Call(r"\bassert", "VX_PIKA_ASSERT({args})", None),
    Members(["nextBlockIndexCapacity"]),
], loops={"by_pattern": [(r"do\b", MCQ_IDX_LOOP_COPY, False), (r"for\s*\(\s*size_t i = 0; i != entryCount", MCQ_IDX_LOOP_FRESH, True)]})},
    funcs=[MCQ + ": ConcurrentQueue::ImplicitProducer::new_block_index"], min_obligations=20, solver=["--sat-solver", "cadical"],
    doc="I: growing the circular block index keeps every carried-over entry at the same distance behind the tail (what the lookup "
        "arithmetic relies on), puts each fresh entry in one slot after the tail, initialises every slot once, publishes a complete "
        "header; nothing changes when the allocation fails (symbolic power-of-two capacities)"))


# ---- ConcurrentQueue::implicit_producer_thread_exited (added by main after seeded change C17-6 was missed) ----
MCQ_EXIT_OUTER = """
__CPROVER_assigns(hash, probedKey, g_h, g_present, g_vd, g_cleared, g_probes, g_chain_done, g_tables)
__CPROVER_loop_invariant((hash == NULL && g_chain_done) || (hash == &g_h && !g_chain_done && g_probes == 0 && !g_cleared && IS_POW2(g_h.capacity) && g_h.capacity <= ((size_t)1 << 32) && g_vd < g_h.capacity))
__CPROVER_loop_invariant(g_tables >= 1 && g_tables <= 2)
"""
MCQ_EXIT_INNER = """
__CPROVER_assigns(index, probedKey, g_cleared, g_probes)
__CPROVER_loop_invariant((index & (g_h.capacity - 1)) == ((hashedId + g_probes) & (g_h.capacity - 1)) && g_probes <= g_h.capacity)
__CPROVER_loop_invariant(g_present ==> (g_probes <= g_vd && !g_cleared))
"""
MCQ_UNITS.append(Unit("mcq.thread_exited", "../C17/mcq_exit.c", enforce="implicit_producer_thread_exited", lifts={"body": Lift(MCQ,
    r"void implicit_producer_thread_exited\(ImplicitProducer\* producer\)", rules=[
        Sub(r"\bauto (\w+) = implicitProducerHash\.load\([^)]*\);", r"struct hash *\1 = hash_head();", 1),
        Call(r"\bassert", "VX_PIKA_ASSERT({args})", None),
        Sub(r"\bauto (\w+) = detail::thread_id\(\);", r"thread_id_t \1 = my_thread_id();", 1),
        Sub(r"\bauto (\w+) = detail::hash_thread_id\((\w+)\);", r"size_t \1 = hash_thread_id(\2);", 1),
        Sub(r"\bdetail::thread_id_t\b", "thread_id_t", None),
        Sub(r"\bauto (\w+) = hashedId;", r"size_t \1 = hashedId;", None),
        Sub(r"\b(\w+) = \1->prev\b", r"\1 = hash_prev(\1)", None),
        Sub(r"\b(\w+)->entries\[(\w+)\]\.key\.compare_exchange_strong\(\s*(\w+),\s*detail::(invalid_thread_id2?),[^()]*\)",
            lambda m: "entry_key_cas(%s, %s, &%s, %s)" % (m.group(1), m.group(2), m.group(3), "INVALID_ID2" if m.group(4).endswith("2") else "INVALID_ID"), None),
        Sub(r"\bdetail::\s*invalid_thread_id2\b", "INVALID_ID2", None),
        Sub(r"\bdetail::\s*invalid_thread_id\b", "INVALID_ID", None),
        Sub(r"\b(\w+)->inactive\.store\((\w+), std::memory_order_\w+\);", r"producer_inactive_store(\1, \2);", 1),
    ], loops={"by_pattern": [(r"for\s*\(\s*;\s*hash\b", MCQ_EXIT_OUTER, True), (r"do\b", MCQ_EXIT_INNER, True)]})},
    funcs=[MCQ + ": ConcurrentQueue::implicit_producer_thread_exited"], min_obligations=20, solver=["--sat-solver", "cadical"],
    doc="I: the exiting thread's <id -> producer> entry is turned into a tombstone in EVERY hash table of the chain (linear probing "
        "from its home slot, any collision distance) before the producer is marked recyclable; the CAS only ever targets the thread's own id"))


# ---- the two users of the block index (added by main together with mcq.new_block_index) ----
MCQ_IDX2_RULES = [
    Sub(r"\btypename std::make_signed<index_t>::type\b", "int64_t", None),
    Sub(r"\bblockIndex\.load\([^)]*\)", "self->blockIndex", None),
    Sub(r"->tail\.load\([^)]*\)", "->tail", None),
    Sub(r"((?:\(\*\w+\))|\b\w+)->index\[(\w+)\]", r"index_entry(\1, \2)", None),
    Sub(r"->key\.load\([^)]*\)", "->key", None),
    Sub(r"->value\.load\([^)]*\)\s*!=\s*nullptr", "->value_nonnull", None),
    Sub(r"->value\.load\([^)]*\)\s*==\s*nullptr", "->value_nonnull == false", None),
    Call(r"\bassert", "VX_PIKA_ASSERT({args})", None),
]
MCQ_UNITS.append(Unit("mcq.block_index_lookup", "../C17/mcq_index2.c", defines=["U_LOOKUP"] + _mcq_traits(), enforce="get_block_index_index_for_index",
    lifts={"body": Lift(MCQ, r"inline size_t get_block_index_index_for_index\(\s*index_t index, BlockIndexHeader\*& localBlockIndex\) const", rules=[
        Sub(r"\blocalBlockIndex\b", "(*localBlockIndex)", None),
        Sub(r"\bauto (tail|offset|idx)\b", r"size_t \1", None), Sub(r"\bauto (tailBase)\b", r"index_t \1", None),
    ] + MCQ_IDX2_RULES)},
    funcs=[MCQ + ": ConcurrentQueue::ImplicitProducer::get_block_index_index_for_index"], min_obligations=8, solver=["--sat-solver", "cadical"],
    doc="F: given the ring invariant key == tailBase - d * BLOCK_SIZE the lookup arithmetic returns exactly the slot d behind the tail "
        "(all capacities, wrap-around of slots and of the 64-bit element index included)"))
for _am in ("CanAlloc", "CannotAlloc"):
    MCQ_UNITS.append(Unit("mcq.insert_block_index_entry." + _am, "../C17/mcq_index2.c", defines=["U_INSERT", "ALLOC_MODE=" + _am] + (["CAN_ALLOC=1"] if _am == "CanAlloc" else []) + _mcq_traits(),
        enforce="insert_block_index_entry",
        lifts={"body": Lift(MCQ, r"insert_block_index_entry\(BlockIndexEntry\*& idxEntry, index_t blockStartIndex\)", rules=[
            Sub(r"\bMOODYCAMEL_CONSTEXPR_IF\b", "if", None),
            Sub(r"\bauto (\w+) = blockIndex\.load\([^)]*\);", r"struct bih *\1 = self->blockIndex;", 1),
            Sub(r"\bidxEntry\b", "(*idxEntry)", None),
            Sub(r"\(\*idxEntry\)->key\.store\((\w+), std::memory_order_\w+\);", r"entry_key_store((*idxEntry), \1);", None),
            Sub(r"\b(\w+)->tail\.store\((\w+), std::memory_order_\w+\);", r"tail_store(\1, \2);", None),
            Sub(r"(?<![\w>.])new_block_index\(\)", "new_block_index(self)", None),
        ] + MCQ_IDX2_RULES)},
        funcs=[MCQ + ": ConcurrentQueue::ImplicitProducer::insert_block_index_entry<%s>" % _am], min_obligations=20, solver=["--sat-solver", "cadical"],
        doc="T: only the free entry after the tail of the current index is taken (an entry in use is never overwritten; a full index is "
            "grown once or the call fails), the key is written before the new tail is published, entries in use keep their place"))
