/* C17 -- ConcurrentQueue::ImplicitProducer::dequeue(U& element): S/T contract on the four index words (mcq.h).
 * Every atomic access of the lifted body goes through idx_load / idx_fetch_add; before each one the environment (other
 * consumers, the producer) may run (mcq_interfere = havoc under the rely of mcq.h).  The stubs record a ghost sequence
 * number per access, perform the ghost bookkeeping of the step (mcq.h transitions) and ASSERT the guarantee: the step keeps
 * MCQ_INV and establishes / keeps this thread's own invariant.  Block index, blocks and the block free list are stubs over
 * ONE symbolic victim slot (index g_vidx holds g_vval); the element type is an opaque token. */
#include "mcq.h"

struct cq { int unused; };                               /* ConcurrentQueue (parent) */
struct block { int unused; };                            /* ConcurrentQueue::Block */
struct bientry { struct block *value; };                 /* ImplicitProducer::BlockIndexEntry */
struct prod { struct cq *parent; };                      /* ImplicitProducer : ProducerBase (index words live in G) */
enum { W_tailIndex, W_headIndex, W_dequeueOptimisticCount, W_dequeueOvercommit };

static struct mcq_shared G;
static struct mcq_thread me;
static struct mcq_ghost
{
  struct mcq_shared G0;            /* the shared words at entry */
  bool quiescent;                  /* harness mode: no other thread runs during the call */
  bool interfered;
  long seq, seq_o, seq_ticket, seq_tail, seq_claim;     /* ghost clock of this call's atomic accesses */
  long tickets, claims, registers; /* T-contract counters */
  index_t claimed, T_at_claim;     /* the index claimed and the tail at that moment */
  bool cfg_noexcept_assign;        /* MOODYCAMEL_NOEXCEPT_ASSIGN(T, T&&, ...) of the instantiation */
  index_t vidx;                    /* the victim slot's index */
  long entry_lookups, destroyed, set_empty, entry_cleared, freed;
  bool set_empty_result;
} X;
static elem_t g_vslot, g_oslot;    /* the victim slot and "any other slot" */
static struct cq g_parent;
static struct block g_block;
static struct bientry g_entry;

/* ---- environment: any number of steps of other threads (rely, mcq.h).  VX_ASSUME justified by unit mcq.lemma.steps: every
 * transition of another thread keeps MCQ_INV and this thread's MCQ_ME, head and overcommit only grow; the 2^60 bounds are
 * A-BOUNDED (fewer than 2^60 steps of other threads while one call runs) ---- */
#ifndef MCQ_QUIESCENT
#define MCQ_QUIESCENT 0              /* unit instance parameter: 1 = no other thread runs during the call */
#endif
static void mcq_interfere(void)
{
#if MCQ_QUIESCENT
  return;
#else
  {
    /* no `if (nondet)` around the havoc: the rely is reflexive (zero increments, same counts), so "nothing happened" is one
     * of the havocked states; X.interfered records whether anything did happen.
     * the new state is built from nondeterministic increments and counts (same set of states as "havoc, then assume the
     * rely", but in a form the SAT back end propagates instead of searching) */
    struct mcq_shared n;
    struct mcq_thread m2 = me;
    index_t dH = nondet_u64(), dO = nondet_u64(), sz = nondet_u64();
    n.U = nondet_u64(); n.Ub = nondet_u64();
    VX_ASSUME(dH < MCQ_BIG && dO < MCQ_BIG && sz < MCQ_BIG && n.U < MCQ_BIG && n.Ub <= n.U && n.Ub <= sz);
    n.H = G.H + dH; n.O = G.O + dO;
    n.T = n.H + sz;                            /* I1/I2: T - H = sz */
    n.C = n.O + n.H + n.U;                     /* I0 */
    if (me.phase == PH_UNDECIDED)
    {
      m2.above = me.above && nondet_bool();    /* once a larger ticket has claimed, it stays that way */
      m2.Ubm = nondet_u64();
      m2.D = (index_t) ((index_t) (me.t - me.o) - n.H - m2.Ubm);
    }
    VX_ASSUME((index_t) (n.H - X.G0.H) < MCQ_BIG);
    VX_ASSUME(MCQ_INV(n));
    VX_ASSUME(MCQ_ME(n, m2));
    if (n.T != G.T || n.H != G.H || n.C != G.C || n.O != G.O) X.interfered = true;
    G = n; me = m2;
  }
#endif
}

static index_t idx_load(struct prod *self, int w)
{
  mcq_interfere();
  X.seq++;
  if (w == W_tailIndex) { me.tail = G.T; me.tail_valid = true; X.seq_tail = X.seq; return G.T; }
  if (w == W_dequeueOvercommit)
  {
    /* the ghost o is the value the ticket's accounting is based on: fixed once the ticket is taken */
    if (me.phase == PH_IDLE) { me.o = G.O; me.o_valid = true; X.seq_o = X.seq; }
    return G.O;
  }
  if (w == W_dequeueOptimisticCount) return G.C;
  return G.H;
}

static index_t idx_fetch_add(struct prod *self, int w, index_t k)
{
  mcq_interfere();
  X.seq++;
  if (w == W_dequeueOptimisticCount)
  {
    VX_ASSERT(me.phase == PH_IDLE, "at most one ticket per call");
    VX_ASSERT(me.o_valid && X.seq_o < X.seq, "order: dequeueOvercommit was read before the ticket was taken");
    index_t t = G.C;
    MCQ_DO_TICKET(G, me, k);
    X.tickets++; X.seq_ticket = X.seq;
    VX_ASSERT(MCQ_INV(G), "guarantee: taking a ticket keeps C - O == H + U (a ticket is exactly one unit)");
    VX_ASSERT(MCQ_ME_UNDECIDED(G, me), "guarantee: the new ticket is accounted for (t - o == H + Ubm + D)");
    return t;
  }
  if (w == W_headIndex)
  {
    VX_ASSERT(me.phase == PH_UNDECIDED, "headIndex is advanced only by the holder of an undecided ticket, at most once per call");
    VX_ASSERT(me.tail_valid && X.seq_tail > X.seq_ticket, "order: tailIndex was (re)read after the ticket was taken");
    index_t idx = G.H;
    VX_ASSERT(CLT_SPEC(idx, G.T), "the claimed index lies before tail (never an index at or beyond tail)");
    MCQ_DO_CLAIM(G, me, k);
    X.claims++; X.seq_claim = X.seq; X.claimed = idx; X.T_at_claim = G.T;
    VX_ASSERT(G.H == (index_t) (idx + 1), "guarantee: a claim consumes exactly one index (no other consumer can get the same one, none is skipped)");
    VX_ASSERT(MCQ_INV(G), "guarantee: the claim keeps H + Ub <= T (successful dequeues never exceed tail) and C - O == H + U");
    return idx;
  }
  if (w == W_dequeueOvercommit)
  {
    VX_ASSERT(me.phase == PH_UNDECIDED, "dequeueOvercommit is incremented only by the holder of an undecided ticket, at most once per call");
    index_t o = G.O;
    MCQ_DO_REGISTER(G, me, k);
    X.registers++;
    VX_ASSERT(MCQ_INV(G), "guarantee: registering the overcommit keeps C - O == H + U (exactly one unit per failed ticket)");
    return o;
  }
  VX_ASSERT(0, "a consumer never writes tailIndex");
  return 0;
}
static void mcq_fence(void) { }

/* ---- block index / block / free list: stubs over the victim slot.  Rely: the slot at an index this call has claimed is
 * not written by anybody else until this call marks it empty (the producer writes slots at indices >= T only; a block is
 * recycled only after all its slots were marked empty) ---- */
static struct bientry *get_block_index_entry_for_index(struct prod *self, index_t index)
{
  VX_ASSERT(me.phase == PH_CLAIMED && index == X.claimed, "block index looked up for the claimed index only");
  X.entry_lookups++;
  g_entry.value = &g_block;
  return &g_entry;
}
static struct block *entry_load(struct bientry *e) { return e->value; }
static elem_t *block_slot(struct block *b, index_t index)
{
  VX_ASSERT(me.phase == PH_CLAIMED && index == X.claimed, "a slot is accessed at the claimed index only");
  VX_ASSERT(b == &g_block, "slot accessed in the block the index entry names");
  return index == X.vidx ? &g_vslot : &g_oslot;
}
static void elem_destroy(elem_t *p)
{
  VX_ASSERT(me.phase == PH_CLAIMED && p == (X.claimed == X.vidx ? &g_vslot : &g_oslot), "only the element at the claimed index is destroyed");
  VX_ASSERT(X.destroyed == 0, "the element is destroyed once");
  X.destroyed++;
  *p = nondet_int();              /* a destroyed object has no value any more */
}
static bool block_set_empty(struct block *b, index_t index)
{
  VX_ASSERT(me.phase == PH_CLAIMED && index == X.claimed && b == &g_block, "only the claimed slot is marked empty");
  VX_ASSERT(X.destroyed == 1, "the slot is marked empty after the element was moved out and destroyed");
  VX_ASSERT(X.set_empty == 0, "the slot is marked empty once");
  X.set_empty++;
  X.set_empty_result = nondet_bool();     /* true: that was the last occupied slot of the block */
  return X.set_empty_result;
}
static void entry_store(struct bientry *e, struct block *v)
{
  VX_ASSERT(X.set_empty == 1 && X.set_empty_result && e == &g_entry && v == NULL, "the index entry is cleared only for a block that became empty");
  X.entry_cleared++;
  e->value = v;
}
static void add_block_to_free_list(struct cq *parent, struct block *b)
{
  VX_ASSERT(X.set_empty == 1 && X.set_empty_result && b == &g_block && parent == &g_parent, "only a block that became empty goes to the free list");
  VX_ASSERT(X.entry_cleared == 1 && X.freed == 0, "the block is recycled once, after its index entry was cleared");
  X.freed++;
}
#define MCQ_NOEXCEPT_ASSIGN (X.cfg_noexcept_assign)

/* ---- lifted ---- */
static bool circular_less_than(index_t a, index_t b)
//@LIFT clt

#ifdef U_CLT
//@FUNC
bool clt_unit(index_t a, index_t b)
__CPROVER_ensures(__CPROVER_return_value == CLT_SPEC(a, b))
{
  return circular_less_than(a, b);
}
void harness(void)
{
  if (clt_unit(nondet_u64(), nondet_u64())) VX_REACH("less"); else VX_REACH("not_less");
}
#endif

#ifdef U_SIZE_APPROX
/* ProducerBase::size_approx: tail is read before head; both only grow */
//@FUNC
size_t size_approx(struct prod *self)
__CPROVER_requires(MCQ_INV(G) && MCQ_ME(G, me) && me.phase == PH_IDLE && !me.o_valid && !me.tail_valid)
__CPROVER_requires(X.G0.T == G.T && X.G0.H == G.H && X.G0.C == G.C && X.G0.O == G.O)
/* never more than what is there when the call returns plus what was claimed meanwhile: result <= tail_read - head_at_entry */
__CPROVER_ensures(__CPROVER_return_value <= (index_t) (me.tail - __CPROVER_old(G.H)))
/* quiescent: exactly the number of elements */
__CPROVER_ensures(X.quiescent ==> __CPROVER_return_value == (index_t) (__CPROVER_old(G.T) - __CPROVER_old(G.H)))
__CPROVER_ensures(MCQ_INV(G))
__CPROVER_assigns(G, me, X)
//@LIFT size_approx
void harness(void)
{
  struct prod p; p.parent = &g_parent;
  G.T = nondet_u64(); G.H = nondet_u64(); G.C = nondet_u64(); G.O = nondet_u64(); G.U = nondet_u64(); G.Ub = nondet_u64();
  me.phase = PH_IDLE; me.t = 0; me.o = 0; me.o_valid = false; me.tail = 0; me.tail_valid = false; me.above = false; me.Ubm = 0; me.D = 0;
  X.quiescent = MCQ_QUIESCENT; X.interfered = false; X.seq = 0; X.seq_o = 0; X.seq_ticket = 0; X.seq_tail = 0; X.seq_claim = 0;
  X.tickets = 0; X.claims = 0; X.registers = 0;
  X.G0 = G;
  size_t r = size_approx(&p);
  if (r == 0) VX_REACH("zero"); else VX_REACH("positive");
#if !MCQ_QUIESCENT
  if (r == 0 && X.interfered) VX_REACH("zero_after_interference");
#endif
}
#endif

#ifdef U_DEQUEUE
//@FUNC
bool dequeue(struct prod *self, elem_t *element)
__CPROVER_requires(MCQ_INV(G) && MCQ_ME(G, me) && me.phase == PH_IDLE && !me.o_valid && !me.tail_valid)
__CPROVER_requires(X.G0.T == G.T && X.G0.H == G.H && X.G0.C == G.C && X.G0.O == G.O)
__CPROVER_requires(X.seq == 0 && X.seq_o == 0 && X.seq_ticket == 0 && X.seq_tail == 0 && X.seq_claim == 0 && !X.interfered)
__CPROVER_requires(X.tickets == 0 && X.claims == 0 && X.registers == 0 && X.entry_lookups == 0 && X.destroyed == 0 && X.set_empty == 0 && X.entry_cleared == 0 && X.freed == 0)
__CPROVER_requires(self->parent == &g_parent)
__CPROVER_requires(X.quiescent ==> G.U == 0)
/* success: exactly one index claimed, nothing registered; the index lies before the tail of that moment and not before the
 * head at entry; the element returned is the one stored at that index, which is then destroyed and its slot released once */
__CPROVER_ensures(__CPROVER_return_value ==> (X.claims == 1 && X.registers == 0 && X.tickets == 1 && me.phase == PH_CLAIMED))
__CPROVER_ensures(__CPROVER_return_value ==> (CLT_SPEC(X.claimed, X.T_at_claim) && (index_t) (X.claimed - __CPROVER_old(G.H)) < MCQ_BIG))
__CPROVER_ensures((__CPROVER_return_value && X.claimed == X.vidx) ==> *element == __CPROVER_old(g_vslot))
__CPROVER_ensures(__CPROVER_return_value ==> (X.destroyed == 1 && X.set_empty == 1 && X.freed == (X.set_empty_result ? 1 : 0) && X.entry_cleared == X.freed))
/* failure: nothing claimed, no slot touched, element untouched; a ticket that was taken is given back exactly once */
__CPROVER_ensures(!__CPROVER_return_value ==> (X.claims == 0 && X.registers == X.tickets && X.tickets <= 1 && *element == __CPROVER_old(*element)))
__CPROVER_ensures(!__CPROVER_return_value ==> (X.entry_lookups == 0 && X.destroyed == 0 && X.set_empty == 0 && X.freed == 0 && g_vslot == __CPROVER_old(g_vslot)))
__CPROVER_ensures(!__CPROVER_return_value ==> (me.phase == PH_IDLE || me.phase == PH_REGISTERED))
/* with ticket t, overcommit o read before the ticket and tail read after it: success iff t - o <circ tail */
__CPROVER_ensures(X.tickets == 1 ==> (X.seq_o < X.seq_ticket && X.seq_ticket < X.seq_tail && __CPROVER_return_value == CLT_SPEC((index_t) (me.t - me.o), me.tail)))
/* a pop on a non-empty quiescent sub-queue succeeds (and takes the element at the head) */
__CPROVER_ensures((X.quiescent && CLT_SPEC(__CPROVER_old(G.H), __CPROVER_old(G.T))) ==> (__CPROVER_return_value && X.claimed == __CPROVER_old(G.H)))
__CPROVER_ensures(MCQ_INV(G))
__CPROVER_assigns(G, me, X, *element, g_vslot, g_oslot, g_entry)
//@LIFT dequeue

void harness(void)
{
  struct prod p; p.parent = &g_parent;
  elem_t out = nondet_int();
  G.T = nondet_u64(); G.H = nondet_u64(); G.C = nondet_u64(); G.O = nondet_u64(); G.U = nondet_u64(); G.Ub = nondet_u64();
  me.phase = PH_IDLE; me.t = 0; me.o = 0; me.o_valid = false; me.tail = 0; me.tail_valid = false; me.above = false; me.Ubm = 0; me.D = 0;
  X.quiescent = MCQ_QUIESCENT; X.interfered = false; X.seq = 0; X.seq_o = 0; X.seq_ticket = 0; X.seq_tail = 0; X.seq_claim = 0;
  X.tickets = 0; X.claims = 0; X.registers = 0; X.claimed = 0; X.T_at_claim = 0;
  X.cfg_noexcept_assign = nondet_bool(); X.vidx = nondet_u64();
  X.entry_lookups = 0; X.destroyed = 0; X.set_empty = 0; X.entry_cleared = 0; X.freed = 0; X.set_empty_result = false;
  g_vslot = nondet_int(); g_oslot = nondet_int(); g_entry.value = NULL;
  X.G0 = G;
  index_t h0 = G.H;
  bool r = dequeue(&p, &out);
  if (r) VX_REACH("dequeued"); else VX_REACH("nothing");
  if (r && X.claimed == X.vidx) VX_REACH("victim_slot");
  if (r && X.cfg_noexcept_assign) VX_REACH("noexcept_path");
  if (r && !X.cfg_noexcept_assign) VX_REACH("guard_path");
  if (r && X.freed == 1) VX_REACH("block_released");
  if (!r && X.tickets == 0) VX_REACH("looked_empty_no_ticket");
#if MCQ_QUIESCENT
  if (r && X.claimed == h0) VX_REACH("dequeued_quiescent");
#else
  if (r && X.interfered) VX_REACH("dequeued_after_interference");
  if (r && X.claimed != h0) VX_REACH("claimed_a_later_index");
  if (!r && X.registers == 1) VX_REACH("overcommitted");
  if (r && !me.above) VX_REACH("claimed_below_a_larger_ticket");
  if (r && me.above) VX_REACH("claimed_as_largest_ticket");
#endif
}
#endif
