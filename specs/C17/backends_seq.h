/* C17 (addition) -- queue back-end adapters over a SEQUENTIAL stub of the underlying container.
 *
 * Trusted environment: the container behind a back end (Michael's deque for lifo / abp_fifo / abp_lifo, moodycamel's
 * ConcurrentQueue for fifo) is replaced by its assumed single-threaded sequence contract:
 *   - the container is a finite sequence; its elements occupy the positions lo .. hi-1 of an integer line;
 *   - push at an end appends one element at that end (or fails -- allocation -- and changes nothing);
 *   - pop at an end fails iff the sequence is empty (then it does not touch the out parameter), otherwise it removes the
 *     element at that end and stores its value in the out parameter;
 *   - ConcurrentQueue: enqueue appends at the tail, try_dequeue removes at the head, size_approx is exact when quiescent;
 *   - empty() <=> no element.
 * The sequence is not stored: two symbolic victims X and Y (ghost slots, chosen by the harness through g_track) carry
 * identity, value and push/pop counters; every other element is anonymous (its value is nondeterministic when popped).
 * Which end pika calls "left" is irrelevant here: deque "left" is mapped to END_LO, "right" to END_HI, the queue's tail to
 * END_HI and its head to END_LO.  No statement of pika is modelled in this file. */
#ifndef BACKENDS_SEQ_H
#define BACKENDS_SEQ_H
#include "vx.h"
typedef int T;
enum { END_NONE = 0, END_LO = 1, END_HI = 2 };
enum { WHO_ANON = 0, WHO_X = 1, WHO_Y = 2 };
typedef int pos_t;                  /* a position on the integer line (|pos| < SEQ_BIG) */
#define nondet_pos nondet_int
struct container { pos_t lo, hi; bool constructed; };
struct backend { struct container queue_; };
struct elem { bool in; pos_t pos; T value; long pushes, pops; };

#define SEQ_BIG (1 << 28)
#define C_WF(c) ((c)->lo <= (c)->hi && (c)->lo > -SEQ_BIG && (c)->hi < SEQ_BIG)
#define C_SIZE(c) ((c)->hi - (c)->lo)
#define E_WF(e, c) (!(e).in || ((c)->lo <= (e).pos && (e).pos < (c)->hi))

/* ghost: victims, call trace */
static struct elem g_x, g_y;
static int g_track;                 /* slot that receives the next successfully pushed element (WHO_X / WHO_Y / WHO_ANON) */
static long g_push_calls, g_pop_calls, g_query_calls, g_ctor_calls;
static T g_handed;                  /* value handed to the container by the last push */
static int g_push_end, g_pop_end;   /* end used by the last push / pop */
static bool g_result;               /* result of the last container push / pop / empty */
static int g_last_who;              /* identity of the element removed by the last successful pop */
static T g_last_val;                /* ... and its value */
static pos_t g_last_pos;
static bool g_ctor_default;         /* the container was default constructed (its own default capacity) */
static size_t g_ctor_size;          /* capacity argument of the container constructor */

#define SAT_INC(x) do { if ((x) < 1000) (x)++; } while (0)

static void seq_ghost_init(void)
{
  g_x.in = false; g_x.pos = 0; g_x.value = 0; g_x.pushes = 0; g_x.pops = 0;
  g_y.in = false; g_y.pos = 0; g_y.value = 0; g_y.pushes = 0; g_y.pops = 0;
  g_track = WHO_ANON;
  g_push_calls = 0; g_pop_calls = 0; g_query_calls = 0; g_ctor_calls = 0;
  g_handed = 0; g_push_end = END_NONE; g_pop_end = END_NONE; g_result = false;
  g_last_who = WHO_ANON; g_last_val = 0; g_last_pos = 0;
  g_ctor_default = false; g_ctor_size = 0;
}

static bool seq_push(struct container *c, T v, int end)
{
  SAT_INC(g_push_calls);
  g_handed = v;
  g_push_end = end;
  g_result = nondet_bool();         /* a push may fail (allocation); the sequence is then unchanged */
  if (!g_result) return false;
  pos_t p;
  if (end == END_LO) { p = c->lo - 1; c->lo = p; } else { p = c->hi; c->hi = p + 1; }
  if (g_track == WHO_X) { g_x.in = true; g_x.pos = p; g_x.value = v; SAT_INC(g_x.pushes); }
  else if (g_track == WHO_Y) { g_y.in = true; g_y.pos = p; g_y.value = v; SAT_INC(g_y.pushes); }
  g_track = WHO_ANON;
  return true;
}

static bool seq_pop(struct container *c, T *out, int end)
{
  SAT_INC(g_pop_calls);
  g_pop_end = end;
  if (c->lo == c->hi) { g_result = false; return false; }   /* fails iff empty; out parameter untouched */
  pos_t p;
  if (end == END_LO) { p = c->lo; c->lo = p + 1; } else { p = c->hi - 1; c->hi = p; }
  T v;
  if (g_x.in && g_x.pos == p) { v = g_x.value; g_x.in = false; SAT_INC(g_x.pops); g_last_who = WHO_X; }
  else if (g_y.in && g_y.pos == p) { v = g_y.value; g_y.in = false; SAT_INC(g_y.pops); g_last_who = WHO_Y; }
  else { v = nondet_int(); g_last_who = WHO_ANON; }          /* an anonymous element */
  *out = v;
  g_last_val = v;
  g_last_pos = p;
  g_result = true;
  return true;
}

/* Michael's deque */
static bool c_push_left(struct container *c, T v) { return seq_push(c, v, END_LO); }
static bool c_push_right(struct container *c, T v) { return seq_push(c, v, END_HI); }
static bool c_pop_left(struct container *c, T *v) { return seq_pop(c, v, END_LO); }
static bool c_pop_right(struct container *c, T *v) { return seq_pop(c, v, END_HI); }
static bool c_empty(struct container *c) { SAT_INC(g_query_calls); g_result = (c->lo == c->hi); return g_result; }
/* moodycamel ConcurrentQueue, single threaded */
static bool c_enqueue(struct container *c, T v) { return seq_push(c, v, END_HI); }
static bool c_try_enqueue(struct container *c, T v) { if (nondet_bool()) return false; /* pre-allocated blocks used up */ return seq_push(c, v, END_HI); }
static bool c_try_dequeue(struct container *c, T *v) { return seq_pop(c, v, END_LO); }
static size_t c_size_approx(struct container *c) { SAT_INC(g_query_calls); return (size_t) (c->hi - c->lo); }
/* container constructors: container_type(std::size_t) and container_type() */
static void c_construct(struct container *c, size_t n)
{ SAT_INC(g_ctor_calls); g_ctor_default = false; g_ctor_size = n; c->lo = 0; c->hi = 0; c->constructed = true; }
static void c_construct_default(struct container *c)
{ SAT_INC(g_ctor_calls); g_ctor_default = true; g_ctor_size = 0; c->lo = 0; c->hi = 0; c->constructed = true; }

/* what the NAME of a back end promises (not taken from the code):
 *   fifo      every consumer takes the oldest element
 *   lifo      every consumer takes the newest element
 *   abp_fifo  the owner takes the oldest element; a thief works on the opposite end (the newest)
 *   abp_lifo  the owner takes the newest element; a thief works on the opposite end (the oldest)
 * other_end == true (schedule_thread_last): the element is queued behind everything the OWNER will take, i.e. at the end
 * opposite to the owner's; for the FIFO kinds that is where every push goes anyway. */
#if defined(B_FIFO)
#define OWNER_NEWEST 0
#define THIEF_NEWEST 0
#define IS_ABP 0
#elif defined(B_LIFO)
#define OWNER_NEWEST 1
#define THIEF_NEWEST 1
#define IS_ABP 0
#elif defined(B_ABP_FIFO)
#define OWNER_NEWEST 0
#define THIEF_NEWEST 1
#define IS_ABP 1
#elif defined(B_ABP_LIFO)
#define OWNER_NEWEST 1
#define THIEF_NEWEST 0
#define IS_ABP 1
#endif
#endif
