/* C17 -- ConcurrentQueue::ImplicitProducer: the two users of the circular block index that mcq.new_block_index grows.
 *   get_block_index_index_for_index(index): a consumer locates the entry of the block that holds element `index` purely by arithmetic
 *     relative to the TAIL slot: slot (tail + (blockBase(index) - tailBase) / BLOCK_SIZE) & (capacity - 1).
 *   insert_block_index_entry<allocMode>(idxEntry, blockStartIndex): the producer takes the slot after the tail for a new block -- only if
 *     that entry is free (never used, or its block was released), growing the index otherwise (CanAlloc) -- writes the key and THEN
 *     publishes the new tail.
 * Ring invariant tying the two together (victim entry, distance d behind the tail):  key(victim) == tailBase - d * BLOCK_SIZE.
 * (written by main; F / T contracts, loop free, symbolic power-of-two capacity, one symbolic victim entry) */
#include "vx.h"
typedef uint64_t index_t;
#ifndef TRAITS_BLOCK_SIZE
#define TRAITS_BLOCK_SIZE 32
#endif
#define BLOCK_SIZE ((index_t)(TRAITS_BLOCK_SIZE))
#define INVALID_BLOCK_BASE ((index_t)1)
#define IS_POW2(c) ((c) != 0 && ((c) & ((c) - 1)) == 0)
struct bie { index_t key; bool value_nonnull; };
struct bih { size_t capacity; size_t tail; };
struct prod { struct bih *blockIndex; };
static struct bih g_hdr, g_hdr_new;
static struct bie g_tail_e, g_v_e, g_o_e, g_next_e, g_fresh_e;
static size_t g_d;                 /* the victim entry sits g_d slots behind the tail of g_hdr */
static bool g_grown, g_grow_fails; static long g_grow_calls, g_key_stores, g_tail_stores; static index_t g_bsi;
#define MASK(h) ((h)->capacity - 1)

#ifdef U_LOOKUP
/* localBlockIndex->index[slot] */
static struct bie *index_entry(struct bih *h, size_t slot)
{
  VX_ASSERT(h == &g_hdr && slot < h->capacity, "slot within the index");
  if (slot == ((h->tail - g_d) & MASK(h))) return &g_v_e;      /* (g_d == 0: the victim IS the tail entry) */
  if (slot == h->tail) return &g_tail_e;
  g_o_e.key = nondet_ulong(); g_o_e.value_nonnull = nondet_bool();
  return &g_o_e;
}
//@FUNC
size_t get_block_index_index_for_index(struct prod const *self, index_t index, struct bih **localBlockIndex)
__CPROVER_requires(self->blockIndex == &g_hdr && IS_POW2(g_hdr.capacity) && g_hdr.capacity <= ((size_t)1 << 40) && g_hdr.tail < g_hdr.capacity && g_d < g_hdr.capacity)
/* ring invariant for the victim; keys are block aligned; the tail entry is in use */
__CPROVER_requires((g_tail_e.key & (BLOCK_SIZE - 1)) == 0 && g_tail_e.key != INVALID_BLOCK_BASE && g_v_e.value_nonnull)
__CPROVER_requires(g_v_e.key == (index_t)(g_tail_e.key - (index_t)g_d * BLOCK_SIZE) && (g_d != 0 || (g_v_e.key == g_tail_e.key)))
/* the element asked for lives in the victim's block */
__CPROVER_requires((index & ~(BLOCK_SIZE - 1)) == g_v_e.key)
__CPROVER_ensures(__CPROVER_return_value == ((g_hdr.tail - g_d) & MASK(&g_hdr)) && *localBlockIndex == &g_hdr)
__CPROVER_assigns(*localBlockIndex, g_o_e)
//@LIFT body
#endif

#ifdef U_INSERT
enum { CanAlloc = 0, CannotAlloc = 1 };
#ifndef ALLOC_MODE
#define ALLOC_MODE CanAlloc
#endif
#define allocMode ALLOC_MODE
static bool g_next_free;           /* the entry after the tail is free: never used (invalid key) or its block was released (null value) */
static struct bie *index_entry(struct bih *h, size_t slot)
{
  VX_ASSERT((h == &g_hdr || (g_grown && h == &g_hdr_new)) && slot < h->capacity, "slot within the current index");
  if (h == &g_hdr)
  {
    if (slot == ((h->tail + 1) & MASK(h)) && g_tail_stores == 0) return (g_d == h->capacity - 1) ? &g_v_e : &g_next_e;   /* a full ring: the oldest entry follows the tail */
    if (slot == ((h->tail - g_d - (size_t)g_tail_stores) & MASK(h))) return &g_v_e;
    if (slot == h->tail && g_tail_stores == 1) return &g_next_e;
  }
  else
  {
    /* contract of new_block_index (unit mcq.new_block_index): distances behind the tail are kept, fresh entries follow the tail */
    if (slot == ((h->tail + 1) & MASK(h)) && g_tail_stores == 0) return &g_fresh_e;
    if (slot == ((h->tail - g_d - (size_t)g_tail_stores) & MASK(h))) return &g_v_e;
    if (slot == h->tail && g_tail_stores == 1) return &g_fresh_e;
  }
  g_o_e.key = nondet_ulong(); g_o_e.value_nonnull = nondet_bool();
  return &g_o_e;
}
static void entry_key_store(struct bie *e, index_t k)
{
  VX_ASSERT(e != &g_v_e && e != &g_o_e && e != &g_tail_e, "an entry that is in use is never overwritten");
  VX_ASSERT((e == &g_next_e && g_next_free && !g_grown) || (e == &g_fresh_e && g_grown), "only the free entry after the tail of the CURRENT index is taken");
  VX_ASSERT(g_tail_stores == 0, "the key is written before the new tail is published");
  e->key = k; if (g_key_stores < 2) g_key_stores++;
}
static void tail_store(struct bih *h, size_t v)
{
  VX_ASSERT(h == (g_grown ? &g_hdr_new : &g_hdr) && v == ((h->tail + 1) & MASK(h)), "the tail of the current index advances by one slot");
  VX_ASSERT(g_key_stores == 1 && index_entry(h, v)->key == g_bsi, "the new tail is published only after its entry carries the block's base index");
  h->tail = v; if (g_tail_stores < 2) g_tail_stores++;
}
/* contract stub of new_block_index (unit mcq.new_block_index) */
static bool new_block_index(struct prod *self)
{
  VX_ASSERT(g_grow_calls == 0 && g_key_stores == 0 && g_tail_stores == 0, "the index is grown at most once, before anything is written");
  g_grow_calls++;
  if (g_grow_fails) return false;
  g_hdr_new.capacity = 2 * g_hdr.capacity; g_hdr_new.tail = g_hdr.capacity - 1; g_grown = true; self->blockIndex = &g_hdr_new;
  g_fresh_e.key = INVALID_BLOCK_BASE; g_fresh_e.value_nonnull = false;
  return true;
}
#define CUR (g_grown ? &g_hdr_new : &g_hdr)
//@FUNC
bool insert_block_index_entry(struct prod *self, struct bie **idxEntry, index_t blockStartIndex)
__CPROVER_requires((self->blockIndex == NULL || self->blockIndex == &g_hdr) && IS_POW2(g_hdr.capacity) && g_hdr.capacity <= ((size_t)1 << 40) && g_hdr.tail < g_hdr.capacity && g_d < g_hdr.capacity)
__CPROVER_requires(!g_grown && g_grow_calls == 0 && g_key_stores == 0 && g_tail_stores == 0 && g_bsi == blockStartIndex && blockStartIndex != INVALID_BLOCK_BASE)
/* the victim is in use; the entry after the tail is free or not (if the ring is full the victim itself follows the tail) */
__CPROVER_requires(g_v_e.key != INVALID_BLOCK_BASE && g_v_e.value_nonnull && g_next_free == (g_next_e.key == INVALID_BLOCK_BASE || !g_next_e.value_nonnull) && (g_d != g_hdr.capacity - 1 || !g_next_free))
__CPROVER_ensures(__CPROVER_return_value == (g_tail_stores == 1) && g_key_stores == g_tail_stores)
/* success: the entry handed back is the one at the (new) tail of the current index and carries the block's base; the victim is
 * untouched and one slot further behind the tail (new_block_index kept its distance, the tail moved by one) */
__CPROVER_ensures(__CPROVER_return_value ==> (*idxEntry == index_entry(CUR, CUR->tail) && (*idxEntry)->key == blockStartIndex && self->blockIndex == CUR))
__CPROVER_ensures(g_v_e.key == __CPROVER_old(g_v_e.key) && g_v_e.value_nonnull)
/* failure: no index (constructor failed), or no free entry and growing is not allowed / failed; the tail did not move */
__CPROVER_ensures(!__CPROVER_return_value ==> (self->blockIndex == NULL || (!g_next_free && (ALLOC_MODE == CannotAlloc || g_grow_fails))))
__CPROVER_ensures(g_grow_calls == ((self->blockIndex != NULL && !g_next_free && ALLOC_MODE == CanAlloc) ? 1 : 0) || self->blockIndex == &g_hdr_new)
__CPROVER_assigns(*idxEntry, self->blockIndex, g_hdr.tail, g_hdr_new, g_next_e.key, g_fresh_e, g_o_e, g_grown, g_grow_calls, g_key_stores, g_tail_stores)
//@LIFT body
#endif

void harness(void)
{
  struct prod p; p.blockIndex = &g_hdr;
  g_hdr.capacity = nondet_size(); g_hdr.tail = nondet_size(); g_d = nondet_size();
  g_tail_e.key = nondet_ulong(); g_tail_e.value_nonnull = true; g_v_e.key = nondet_ulong(); g_v_e.value_nonnull = true; g_o_e.key = 0; g_o_e.value_nonnull = false;
  g_grown = false; g_grow_calls = 0; g_key_stores = 0; g_tail_stores = 0; g_grow_fails = nondet_bool(); g_hdr_new.capacity = 0; g_hdr_new.tail = 0;
#ifdef U_LOOKUP
  struct bih *lbi = NULL; index_t index = nondet_ulong();
  size_t r = get_block_index_index_for_index(&p, index, &lbi);
  if (g_d > 0 && g_hdr.tail < g_d) VX_REACH("victim_found_across_the_wrap_around");
  if (g_d == 0) VX_REACH("tail_block");
  if (g_v_e.key > g_tail_e.key) VX_REACH("index_wrapped_around_2_64");
#endif
#ifdef U_INSERT
  g_next_e.key = nondet_ulong(); g_next_e.value_nonnull = nondet_bool(); g_next_free = (g_next_e.key == INVALID_BLOCK_BASE || !g_next_e.value_nonnull);
  g_fresh_e.key = 0; g_fresh_e.value_nonnull = false;
  if (nondet_bool()) p.blockIndex = NULL;
  g_bsi = nondet_ulong();
  struct bie *out = NULL;
  bool r = insert_block_index_entry(&p, &out, g_bsi);
  if (r && !g_grown) VX_REACH("free_entry_taken");
#ifdef CAN_ALLOC
  if (r && g_grown) VX_REACH("index_grown");
#endif
  if (!r && p.blockIndex != NULL) VX_REACH("refused_index_full");
  if (!r && p.blockIndex == NULL) VX_REACH("no_index");
#endif
}
