/* C17 -- contiguous_index_queue<T>: S-contracts (rely/guarantee on one atomic word) */
#include "vx.h"
typedef T_TYPE T;
#define nondet_T T_NONDET
struct range { T first; T last; };
struct ciq { struct range initial_range; struct range current_range; /* cache_line_data<std::atomic<range>> */ };
struct opt { bool has; T value; };
static struct opt opt_none(void) { struct opt o; o.has = false; o.value = 0; return o; }
static struct opt opt_some(T v) { struct opt o; o.has = true; o.value = v; return o; }

/* invariant of the word, rely (what other threads may do) and guarantee (what a step of ours may do) */
#define WINV(r) ((r).first <= (r).last)
#define RELY(o, n) (WINV(n) && (n).first >= (o).first && (n).last <= (o).last)   /* the interval only shrinks */
#define REQ(a, b) ((a).first == (b).first && (a).last == (b).last)

/* linearisation ghost: the one successful atomic step of the call under verification */
static bool lin;
static struct range lin_old, lin_new, g_last_read;
static long g_steps;

static void interfere(struct range *p)
{
  if (nondet_bool())
  {
    struct range n;
    n.first = nondet_T();
    n.last = nondet_T();
    VX_ASSUME(RELY(*p, n));
    *p = n;
  }
}
/* std::atomic<range>::load */
static struct range atomic_load(struct range *p)
{
  interfere(p);
  g_last_read = *p;
  return *p;
}
/* std::atomic<range>::compare_exchange_weak (may fail spuriously) */
static bool atomic_cas_weak(struct range *p, struct range *expected, struct range desired)
{
  interfere(p);
  if (REQ(*p, *expected) && nondet_bool())
  {
    VX_ASSERT(!lin, "at most one successful atomic step per call");
    lin_old = *p;
    *p = desired;
    lin_new = desired;
    lin = true;
    /* guarantee: our own step is admissible interference for everybody else, and keeps the invariant */
    VX_ASSERT(RELY(lin_old, lin_new), "guarantee: a successful step only shrinks the interval and keeps first <= last");
    return true;
  }
  *expected = *p;
  g_last_read = *p;
  return false;
}

/* ---- range member functions (lifted) ---- */
struct range range_increment_first(struct range *self)
//@LIFT increment_first
struct range range_decrement_last(struct range *self)
//@LIFT decrement_last
bool range_empty(struct range *self)
//@LIFT range_empty

static bool range_empty_v(struct range r) { return range_empty(&r); }

#ifdef U_POP_LEFT
//@FUNC
struct opt pop_left(struct ciq *self)
__CPROVER_requires(WINV(self->current_range) && !lin)
/* an index is handed out only by a successful step from a non-empty interval, and it is exactly the element
 * that step removed: lin_old \ lin_new == { result } (=> never invented, never handed out twice) */
__CPROVER_ensures(__CPROVER_return_value.has ==> (lin && lin_old.first < lin_old.last && __CPROVER_return_value.value == lin_old.first && lin_new.first == lin_old.first + 1 && lin_new.last == lin_old.last))
/* nullopt only after reading an empty interval, and without having changed the word */
__CPROVER_ensures(!__CPROVER_return_value.has ==> (!lin && g_last_read.first >= g_last_read.last))
__CPROVER_ensures(WINV(self->current_range))
__CPROVER_assigns(self->current_range, lin, lin_old, lin_new, g_last_read)
//@LIFT body
#endif

#ifdef U_POP_RIGHT
//@FUNC
struct opt pop_right(struct ciq *self)
__CPROVER_requires(WINV(self->current_range) && !lin)
__CPROVER_ensures(__CPROVER_return_value.has ==> (lin && lin_old.first < lin_old.last && __CPROVER_return_value.value == lin_old.last - 1 && lin_new.first == lin_old.first && lin_new.last == lin_old.last - 1))
__CPROVER_ensures(!__CPROVER_return_value.has ==> (!lin && g_last_read.first >= g_last_read.last))
__CPROVER_ensures(WINV(self->current_range))
__CPROVER_assigns(self->current_range, lin, lin_old, lin_new, g_last_read)
//@LIFT body
#endif

#ifdef U_EMPTY
//@FUNC
bool empty(struct ciq *self)
__CPROVER_requires(WINV(self->current_range))
__CPROVER_ensures(__CPROVER_return_value == (g_last_read.first >= g_last_read.last))
__CPROVER_assigns(self->current_range, g_last_read)
//@LIFT body
#endif

#ifdef U_RESET
//@FUNC
void reset(struct ciq *self, T first, T last)
__CPROVER_requires(first <= last)
__CPROVER_ensures(self->current_range.first == first && self->current_range.last == last && self->initial_range.first == first && self->initial_range.last == last)
__CPROVER_assigns(self->current_range, self->initial_range)
//@LIFT body
#endif

void harness(void)
{
  struct ciq q;
  q.current_range.first = nondet_T();
  q.current_range.last = nondet_T();
  lin = false;
#if defined(U_POP_LEFT) || defined(U_POP_RIGHT)
  struct range before = q.current_range;
#ifdef U_POP_LEFT
  struct opt r = pop_left(&q);
#else
  struct opt r = pop_right(&q);
#endif
  if (r.has) VX_REACH("popped"); else VX_REACH("empty");
  if (r.has && !REQ(lin_old, before)) VX_REACH("popped_after_interference");
#endif
#ifdef U_EMPTY
  if (empty(&q)) VX_REACH("is_empty"); else VX_REACH("not_empty");
#endif
#ifdef U_RESET
  reset(&q, nondet_T(), nondet_T());
  VX_REACH("reset");
#endif
}
