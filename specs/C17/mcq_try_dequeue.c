/* C17 -- ConcurrentQueue::try_dequeue(U& item): the producer-selection loop (T-contract over the callee contracts).
 * The producer list is a stub: producers are the handles 0 .. n-1 in list order (producerListTail -> 0, next_prod(h) = h+1,
 * end = PROD_NULL); n is symbolic.  size_approx / dequeue of a producer are contract stubs (units mcq.size_approx,
 * mcq.dequeue, mcq.dequeue.quiescent): size_approx returns any value, dequeue any result -- except for ONE symbolic victim
 * producer K.v when no other thread runs (MCQ_QUIESCENT): then its size_approx is its true size K.vsize and its dequeue
 * succeeds iff K.vsize > 0. */
#include "vx.h"
typedef int elem_t;
typedef long prod_h;                          /* ProducerBase* as a handle into the producer list */
#define PROD_NULL ((prod_h) -1)
#ifndef MCQ_QUIESCENT
#define MCQ_QUIESCENT 0
#endif
struct cq { int unused; };

static struct mcq_td_cfg
{
  prod_h n;                                   /* length of the producer list */
  prod_h v; size_t vsize;                     /* the victim producer and (quiescent) its size */
  elem_t *item;                               /* the caller's element reference */
} K;                                          /* never written during the call */
static struct mcq_td_ghost
{
  long size_calls, attempts, successes, v_attempts;
  bool saw_nonempty;                          /* some size_approx call returned > 0 */
  bool v_seen_nonempty;                       /* size_approx(victim) returned > 0 */
  prod_h winner;                              /* the producer whose dequeue succeeded */
} X;

#define VALID(h) ((h) >= 0 && (h) < K.n)
#define POS(h) ((h) == PROD_NULL ? K.n : (h))  /* how many producers a scan has passed when its cursor is h */

static prod_h producer_list_tail_load(struct cq *self) { return K.n > 0 ? 0 : PROD_NULL; }
static prod_h prod_next(prod_h h)
{
  VX_ASSERT(VALID(h), "next_prod() on a producer of the list");
  return h + 1 < K.n ? h + 1 : PROD_NULL;
}
static size_t prod_size_approx(prod_h h)
{
  VX_ASSERT(VALID(h), "size_approx() on a producer of the list");
  VX_ASSERT(X.attempts == 0, "scoring happens before the first dequeue attempt");
  if (X.size_calls < 1000) X.size_calls++;
  size_t s = nondet_size();
  if (MCQ_QUIESCENT && h == K.v) s = K.vsize;
  if (s > 0) X.saw_nonempty = true;
  if (s > 0 && h == K.v) X.v_seen_nonempty = true;
  return s;
}
static bool prod_dequeue(prod_h h, elem_t *out)
{
  VX_ASSERT(VALID(h), "dequeue() on a producer of the list (never on a null producer)");
  VX_ASSERT(out == K.item, "the caller's element reference is passed through unchanged");
  VX_ASSERT(X.successes == 0, "no further dequeue attempt after one succeeded");
  VX_ASSERT(X.attempts > 0 || h != K.v || X.v_seen_nonempty, "the first attempt goes to a producer whose size_approx was positive");
  if (X.attempts < 1000) X.attempts++;
  if (h == K.v && X.v_attempts < 1000) X.v_attempts++;
  bool r = nondet_bool();
  if (MCQ_QUIESCENT && h == K.v) r = (K.vsize > 0);
  if (r) { X.successes++; X.winner = h; *out = nondet_int(); }
  return r;
}

#ifdef U_TRY_DEQUEUE
//@FUNC
bool try_dequeue(struct cq *self, elem_t *item)
__CPROVER_requires(K.n >= 0 && K.n < 1000000 && K.item == item && X.size_calls == 0 && X.attempts == 0 && X.successes == 0 && X.v_attempts == 0 && !X.saw_nonempty && !X.v_seen_nonempty && X.winner == PROD_NULL)
/* true iff exactly one producer's dequeue succeeded (and it was the last call made) */
__CPROVER_ensures(__CPROVER_return_value == (X.successes == 1) && X.successes <= 1)
__CPROVER_ensures(__CPROVER_return_value ==> VALID(X.winner))
/* false: nothing was taken, the caller's element is untouched; and if any producer looked non-empty, every producer was tried */
__CPROVER_ensures(!__CPROVER_return_value ==> *item == __CPROVER_old(*item))
__CPROVER_ensures((!__CPROVER_return_value && X.saw_nonempty && VALID(K.v)) ==> X.v_attempts >= 1)
/* a pop on a non-empty quiescent container succeeds */
__CPROVER_ensures((MCQ_QUIESCENT && VALID(K.v) && K.vsize > 0) ==> __CPROVER_return_value)
__CPROVER_assigns(X, *item)
//@LIFT try_dequeue

void harness(void)
{
  struct cq q; elem_t out = nondet_int();
  K.n = nondet_long(); K.v = nondet_long(); K.vsize = nondet_size(); K.item = &out;
  X.size_calls = 0; X.attempts = 0; X.successes = 0; X.v_attempts = 0; X.saw_nonempty = false; X.v_seen_nonempty = false; X.winner = PROD_NULL;
  bool r = try_dequeue(&q, &out);
  if (r) VX_REACH("dequeued"); else VX_REACH("nothing");
  if (r && X.attempts == 1) VX_REACH("first_choice");
  if (r && X.attempts > 1) VX_REACH("after_trying_others");
  if (!r && X.attempts == 0) VX_REACH("all_looked_empty");
  if (!r && X.attempts > 1) VX_REACH("all_tried_none_succeeded");
  if (r && X.winner == K.v) VX_REACH("victim_won");
  if (K.n == 0) VX_REACH("no_producers");
}
#endif

#ifdef U_SIZE_SUM
/* ConcurrentQueue::size_approx(): the sum of the producers' size_approx (lockfree_fifo_backend::empty() tests it against 0).
 * A-BOUNDED in the stub: the sizes of all producers together stay below 2^60 (no wrap-around of the sum). */
static size_t g_sum;
static size_t prod_size_approx_sum(prod_h h)
{
  VX_ASSERT(VALID(h), "size_approx() on a producer of the list");
  if (X.size_calls < 1000) X.size_calls++;
  size_t s = nondet_size();
  if (MCQ_QUIESCENT && h == K.v) s = K.vsize;
  VX_ASSUME(s <= ((size_t) 1 << 60) - g_sum);    /* A-BOUNDED */
  g_sum += s;
  if (h == K.v) X.v_attempts++;
  return s;
}
#define prod_size_approx prod_size_approx_sum
//@FUNC
size_t size_approx(struct cq *self)
__CPROVER_requires(K.n >= 0 && K.n < 1000000 && g_sum == 0 && X.v_attempts == 0 && K.vsize <= ((size_t) 1 << 60))
__CPROVER_ensures(__CPROVER_return_value == g_sum)
/* quiescent: a non-empty producer makes the queue look non-empty */
__CPROVER_ensures((MCQ_QUIESCENT && VALID(K.v) && K.vsize > 0) ==> __CPROVER_return_value > 0)
__CPROVER_ensures(VALID(K.v) ==> X.v_attempts == 1)
__CPROVER_assigns(X, g_sum)
//@LIFT size_sum
void harness(void)
{
  struct cq q;
  K.n = nondet_long(); K.v = nondet_long(); K.vsize = nondet_size(); K.item = NULL;
  X.size_calls = 0; X.attempts = 0; X.successes = 0; X.v_attempts = 0; X.saw_nonempty = false; X.v_seen_nonempty = false; X.winner = PROD_NULL;
  g_sum = 0;
  size_t r = size_approx(&q);
  if (r == 0) VX_REACH("zero"); else VX_REACH("positive");
  if (K.n > 2) VX_REACH("several_producers");
}
#endif

#ifdef U_INNER_ENQUEUE
/* ConcurrentQueue::inner_enqueue<canAlloc>(U&&) and the two public enqueue(item) overloads: forwarders (T-contracts) */
enum AllocationMode { CanAlloc, CannotAlloc };          /* same spelling and order as concurrentqueue.hpp */
#define INITIAL_IMPLICIT_PRODUCER_HASH_SIZE ((size_t) (TRAITS_INITIAL_IMPLICIT_PRODUCER_HASH_SIZE))
static struct { long lookups, enq_calls; prod_h mine; bool have; int mode; elem_t passed; prod_h target; bool result; } E;
static prod_h get_or_add_implicit_producer(struct cq *self)
{
  if (E.lookups < 10) E.lookups++;
  E.have = nondet_bool();                    /* false: the producer could not be allocated */
  return E.have ? E.mine : PROD_NULL;
}
static bool prod_enqueue(prod_h p, int mode, elem_t v)
{
  VX_ASSERT(p != PROD_NULL && p == E.mine, "enqueue goes to the calling thread's own implicit producer");
  if (E.enq_calls < 10) E.enq_calls++;
  E.mode = mode; E.passed = v; E.target = p; E.result = nondet_bool();
  return E.result;
}
//@FUNC
bool inner_enqueue(struct cq *self, int canAlloc, elem_t element)
__CPROVER_requires(E.lookups == 0 && E.enq_calls == 0 && E.mine >= 0)
__CPROVER_ensures(E.lookups == 1 && E.enq_calls == (E.have ? 1 : 0))
__CPROVER_ensures(E.have ==> (E.mode == canAlloc && E.passed == element && __CPROVER_return_value == E.result))
__CPROVER_ensures(!E.have ==> !__CPROVER_return_value)
__CPROVER_assigns(E)
//@LIFT inner_enqueue

bool enqueue_copy(struct cq *self, elem_t item)
//@LIFT enqueue_copy
bool enqueue_move(struct cq *self, elem_t item)
//@LIFT enqueue_move

void harness(void)
{
  struct cq q; elem_t v = nondet_int();
  E.lookups = 0; E.enq_calls = 0; E.mine = 7; E.have = false; E.mode = -1; E.passed = 0; E.target = PROD_NULL; E.result = false;
  bool which = nondet_bool();
  bool r = which ? enqueue_copy(&q, v) : enqueue_move(&q, v);
  /* the public overloads add nothing: one inner_enqueue<CanAlloc> with the item */
  VX_ASSERT(E.lookups == 1, "enqueue(item) forwards to inner_enqueue exactly once");
  VX_ASSERT(!E.have || (E.mode == CanAlloc && E.passed == v && r == E.result), "enqueue(item): allocation allowed, item passed through, result passed back");
  VX_ASSERT(E.have || !r, "enqueue(item) fails when there is no producer");
  if (r) VX_REACH("enqueued"); else VX_REACH("failed");
  if (!E.have) VX_REACH("no_producer");
  if (which) VX_REACH("copy_overload"); else VX_REACH("move_overload");
}
#endif
