from vx.lift import Lift, Sub, Call, Members, Guard, DropStmt
from vx.run import Unit

CIQ = "libs/pika/concurrency/include/pika/concurrency/detail/contiguous_index_queue.hpp"

RANGE_LIFTS = {
    "increment_first": Lift(CIQ, r"constexpr range increment_first\(\)", rules=[
        Sub(r"return range\{([^,;{}]+),([^,;{}]+)\};", r"{ struct range r; r.first = \1; r.last = \2; return r; }", 1),
        Members(["first", "last"])]),
    "decrement_last": Lift(CIQ, r"constexpr range decrement_last\(\)", rules=[
        Sub(r"return range\{([^,;{}]+),([^,;{}]+)\};", r"{ struct range r; r.first = \1; r.last = \2; return r; }", 1),
        Members(["first", "last"])]),
    "range_empty": Lift(CIQ, r"constexpr bool empty\(\) noexcept(?= \{ return first)", rules=[Members(["first", "last"])]),
}

POP_RULES = [
    Sub(r"range desired_range\{0, 0\};", "struct range desired_range = {0, 0};", 1),
    Sub(r"range expected_range = current_range\.data_\.load\(std::memory_order_relaxed\);",
        "struct range expected_range = atomic_load(&self->current_range);", 1),
    Sub(r"\b(\w+)\.empty\(\)", r"range_empty(&\1)", 1),
    Sub(r"return std::nullopt;", "return opt_none();", 1),
    Call(r"current_range\.data_\.compare_exchange_weak", "atomic_cas_weak(&self->current_range, &{0}, {1})", 1),
    Call(r"std::make_optional(?:<>)?", "opt_some({0})", 1),
]
LOOP_POP = """
__CPROVER_assigns(index, desired_range, expected_range, self->current_range, lin, lin_old, lin_new, g_last_read)
__CPROVER_loop_invariant(!lin && WINV(self->current_range) && WINV(expected_range) && REQ(g_last_read, expected_range))
"""

UNITS = []
for (tname, ttype, nd) in [("u32", "uint32_t", "nondet_u32"), ("i32", "int32_t", "nondet_i32")]:
    D = ["T_TYPE=" + ttype, "T_NONDET=" + nd]
    UNITS += [
        Unit("ciq.pop_left." + tname, "ciq.c", defines=D + ["U_POP_LEFT"], enforce="pop_left",
             lifts=dict(RANGE_LIFTS, body=Lift(CIQ, r"std::optional<T> pop_left\(\)", rules=POP_RULES + [
                 Sub(r"\b(\w+)\.increment_first\(\)", r"range_increment_first(&\1)", 1)],
                 loops={1: LOOP_POP, "count": 1})),
             funcs=[CIQ + ": contiguous_index_queue<%s>::pop_left, range::increment_first, range::empty" % ttype],
             min_obligations=40, extra_flags=["--unsigned-overflow-check", "--conversion-check"]),
        Unit("ciq.pop_right." + tname, "ciq.c", defines=D + ["U_POP_RIGHT"], enforce="pop_right",
             lifts=dict(RANGE_LIFTS, body=Lift(CIQ, r"std::optional<T> pop_right\(\)", rules=POP_RULES + [
                 Sub(r"\b(\w+)\.decrement_last\(\)", r"range_decrement_last(&\1)", 1)],
                 loops={1: LOOP_POP, "count": 1})),
             funcs=[CIQ + ": contiguous_index_queue<%s>::pop_right, range::decrement_last" % ttype],
             min_obligations=40, extra_flags=["--unsigned-overflow-check", "--conversion-check"]),
        Unit("ciq.empty." + tname, "ciq.c", defines=D + ["U_EMPTY"], enforce="empty",
             lifts=dict(RANGE_LIFTS, body=Lift(CIQ, r"constexpr bool empty\(\) noexcept(?=\s*\{\s*return current_range)", rules=[
                 Sub(r"current_range\.data_\.load\(std::memory_order_relaxed\)\.empty\(\)",
                     "range_empty_v(atomic_load(&self->current_range))", 1)])),
             funcs=[CIQ + ": contiguous_index_queue<%s>::empty" % ttype]),
        Unit("ciq.reset." + tname, "ciq.c", defines=D + ["U_RESET"], enforce="reset",
             lifts=dict(RANGE_LIFTS, body=Lift(CIQ, r"constexpr void reset\(T first, T last\)", rules=[
                 Sub(r"initial_range = \{([^,;{}]+),([^,;{}]+)\};", r"self->initial_range.first = \1; self->initial_range.last = \2;", 1),
                 Sub(r"current_range\.data_ = \{([^,;{}]+),([^,;{}]+)\};", r"self->current_range.first = \1; self->current_range.last = \2;", 1)])),
             funcs=[CIQ + ": contiguous_index_queue<%s>::reset" % ttype]),
    ]

META = {
    "trusted_base": [
        "specs/C17/ciq.c atomic_load/atomic_cas_weak: std::atomic<range> modelled as an indivisible word; before every access "
        "the environment may replace the word by any value allowed by the rely (interval only shrinks, first <= last); "
        "compare_exchange_weak may fail spuriously",
        "std::optional<T> modelled as struct {has, value}",
    ],
    "assumptions": ["A-CLOSED: current_range is written only by reset/pop_left/pop_right/copy operations (census of the header)"],
    "not_decided": ["Michael's lock-free deque (deque.hpp) and moodycamel ConcurrentQueue: unverified dependencies"],
}
