from vx.lift import Lift, Sub, Call, Members, Guard, DropStmt
import os
from vx.run import Unit
CIQ_SPEC_FILE = os.path.join(os.environ.get('VX_SPEC_DIR', '/verif/specs/C17'), 'spec.py')
from vx import census

CIQ = "libs/pika/concurrency/include/pika/concurrency/detail/contiguous_index_queue.hpp"

RANGE_LIFTS = {
    "increment_first": Lift(CIQ, r"constexpr range increment_first\(\)", rules=[
        Sub(r"return range\{([^,;{}]+),([^,;{}]+)\};", r"{ struct range r; r.first = \1; r.last = \2; return r; }", 1),
        Members(["first", "last"])]),
    "decrement_last": Lift(CIQ, r"constexpr range decrement_last\(\)", rules=[
        Sub(r"return range\{([^,;{}]+),([^,;{}]+)\};", r"{ struct range r; r.first = \1; r.last = \2; return r; }", 1),
        Members(["first", "last"])]),
    "range_empty": Lift(CIQ, r"constexpr bool empty\(\) noexcept(?= \{ return first)", rules=[Members(["first", "last"])]),
}

POP_RULES = [
    # C++ spelling -> C spelling; every operand is captured (an edit of WHAT is computed must fail an obligation, not a rule)
    Sub(r"\brange (\w+)\{([^{};]*)\};", r"struct range \1 = {\2};", None),
    Call(r"\bcurrent_range\.data_\.load", "atomic_load(&self->current_range)", None),
    Sub(r"(?<!struct )\brange (\w+) = ", r"struct range \1 = ", None),
    Sub(r"\b(\w+)\.empty\(\)", r"range_empty(&\1)", None),
    Sub(r"return std::nullopt;", "return opt_none();", None),
    Call(r"current_range\.data_\.compare_exchange_(?:weak|strong)", "atomic_cas_weak(&self->current_range, &{0}, {1})", "+"),
    Call(r"std::make_optional(?:<>)?", "opt_some({0})", None),
]
LOOP_POP = """
__CPROVER_assigns(index, desired_range, expected_range, self->current_range, lin, lin_old, lin_new, g_last_read)
__CPROVER_loop_invariant(!lin && WINV(self->current_range) && WINV(expected_range) && REQ(g_last_read, expected_range))
"""

UNITS = []
for (tname, ttype, nd) in [("u32", "uint32_t", "nondet_u32"), ("i32", "int32_t", "nondet_i32")]:
    D = ["T_TYPE=" + ttype, "T_NONDET=" + nd]
    UNITS += [
        Unit("ciq.pop_left." + tname, "ciq.c", defines=D + ["U_POP_LEFT"], enforce="pop_left",
             lifts=dict(RANGE_LIFTS, body=Lift(CIQ, r"std::optional<T> pop_left\(\)", rules=POP_RULES + [
                 Sub(r"\b(\w+)\.increment_first\(\)", r"range_increment_first(&\1)", None)],
                 loops={1: LOOP_POP, "count": 1})),
             funcs=[CIQ + ": contiguous_index_queue<%s>::pop_left, range::increment_first, range::empty" % ttype],
             min_obligations=40, extra_flags=["--unsigned-overflow-check", "--conversion-check"]),
        Unit("ciq.pop_right." + tname, "ciq.c", defines=D + ["U_POP_RIGHT"], enforce="pop_right",
             lifts=dict(RANGE_LIFTS, body=Lift(CIQ, r"std::optional<T> pop_right\(\)", rules=POP_RULES + [
                 Sub(r"\b(\w+)\.decrement_last\(\)", r"range_decrement_last(&\1)", None)],
                 loops={1: LOOP_POP, "count": 1})),
             funcs=[CIQ + ": contiguous_index_queue<%s>::pop_right, range::decrement_last" % ttype],
             min_obligations=40, extra_flags=["--unsigned-overflow-check", "--conversion-check"]),
        Unit("ciq.empty." + tname, "ciq.c", defines=D + ["U_EMPTY"], enforce="empty",
             lifts=dict(RANGE_LIFTS, body=Lift(CIQ, r"constexpr bool empty\(\) noexcept(?=\s*\{\s*return current_range)", rules=[
                 Sub(r"current_range\.data_\.load\(std::memory_order_relaxed\)\.empty\(\)",
                     "range_empty_v(atomic_load(&self->current_range))", 1)])),
             funcs=[CIQ + ": contiguous_index_queue<%s>::empty" % ttype]),
        Unit("ciq.reset." + tname, "ciq.c", defines=D + ["U_RESET"], enforce="reset",
             lifts=dict(RANGE_LIFTS, body=Lift(CIQ, r"constexpr void reset\(T first, T last\)", rules=[
                 Sub(r"initial_range = \{([^,;{}]+),([^,;{}]+)\};", r"self->initial_range.first = \1; self->initial_range.last = \2;", 1),
                 Sub(r"current_range\.data_ = \{([^,;{}]+),([^,;{}]+)\};", r"self->current_range.first = \1; self->current_range.last = \2;", 1)])),
             funcs=[CIQ + ": contiguous_index_queue<%s>::reset" % ttype]),
    ]

# ---- tagged_ptr_pair ----------------------------------------------------------------------------------
import re as _re
from vx.lift import read_source, LiftError
TPP = "libs/pika/concurrency/include/pika/concurrency/detail/tagged_ptr_pair.hpp"
def _tpp_consts():
    # every `static constexpr T name = value;` of the header becomes a macro `name` (a constant added by an edit comes along)
    try:
        src = read_source(TPP)
    except LiftError:
        return []
    out = []
    for m in _re.finditer(r"static constexpr\s+[\w:]+\s+(\w+)\s*=\s*([^;]+);", src):
        v = m.group(2).replace("'", "").strip()
        if _re.fullmatch(r"0x[0-9a-fA-F]+|\d+", v):
            v += "ull"
        out.append("%s=(%s)" % (m.group(1), v))
    return out
TPP_DEFS = _tpp_consts()
TPP_RULES = [
    Sub(r"reinterpret_cast<\s*(?:Left|Right)\s*\*>", "(ptr_t)", None),
    Sub(r"reinterpret_cast<\s*compressed_ptr_t\s*>", "(compressed_ptr_t)", None),
    Sub(r"\bi\.(left|right)\b", r"i->\1", None),
    Sub(r"\bpair = ret\.value;", "*pair = ret.value;", None),
]
def tpp_lifts(extra=None):
    d = {
        "extract_left_ptr": Lift(TPP, r"static Left\* extract_left_ptr\(", rules=TPP_RULES),
        "extract_right_ptr": Lift(TPP, r"static Right\* extract_right_ptr\(", rules=TPP_RULES),
        "extract_left_tag": Lift(TPP, r"static tag_t extract_left_tag\(", rules=TPP_RULES),
        "extract_right_tag": Lift(TPP, r"static tag_t extract_right_tag\(", rules=TPP_RULES),
        "pack": Lift(TPP, r"static void pack_ptr_pair\(", rules=TPP_RULES),
    }
    d.update(extra or {})
    return d
UNITS.append(Unit("tpp.pack_extract", "tpp.c", defines=TPP_DEFS + ["U_PACK"], enforce="pack_ptr_pair", lifts=tpp_lifts(),
                  funcs=[TPP + ": tagged_ptr_pair::pack_ptr_pair, extract_left_ptr, extract_right_ptr, extract_left_tag, extract_right_tag"],
                  min_obligations=5))
SET_RULES = [
    Sub(r"\b(?:Left|Right)\* (\w+) = ", r"ptr_t \1 = ", None),
    Sub(r"\b(get_(?:left|right)_(?:ptr|tag))\(\)", r"\1(self)", None),
    Call(r"\bpack_ptr_pair", "pack_ptr_pair(&self->{0}, {1}, {2}, {3}, {4})", 1),
]
for which, (nm, param, is_tag) in enumerate([("set_left_ptr", "lptr", 0), ("set_right_ptr", "rptr", 0), ("set_left_tag", "ltag", 1), ("set_right_tag", "rtag", 1)]):
    getter = "get_" + nm[4:]
    UNITS.append(Unit("tpp." + nm, "tpp.c", defines=TPP_DEFS + ["U_SET", "SET_WHICH=%d" % which, "SET_IS_TAG=%d" % is_tag, "SET_GET=" + getter],
                      enforce="set_field",
                      lifts=tpp_lifts({"setter": Lift(TPP, r"void %s\((?:Left\* lptr|Right\* rptr|Integral ltag|Integral rtag)\) volatile" % nm,
                                                       rules=SET_RULES + [Sub(r"\b%s\b" % param, "v", "+")])}),
                      funcs=[TPP + ": tagged_ptr_pair::" + nm], min_obligations=5))

# ---- queue back-end adapters ----------------------------------------------------------------------------
BE = "libs/pika/schedulers/include/pika/schedulers/lockfree_queue_backends.hpp"
BE_RULES = [
    Call(r"\bqueue_\.(push_left|push_right|enqueue|try_enqueue)", "c_{h1}(&self->queue_, {0})", None),
    Call(r"\bqueue_\.(pop_left|pop_right|try_dequeue)", "c_{h1}(&self->queue_, &{0})", None),
    Call(r"\bqueue_\.(empty|size_approx)", "c_{h1}(&self->queue_)", None),
    Sub(r"&val\b", "val", None),   # pop(reference val): val is already a pointer in C
]
for idx, be in enumerate(["fifo", "lifo", "abp_fifo", "abp_lifo"]):
    D = ["B_" + be.upper()]
    for form, pat in [("push_copy", r"bool push\(const_reference val, bool\s*(?:other_end)?\s*= false\)"),
                      ("push_move", r"bool push\(rvalue_reference val, bool\s*(?:other_end)?\s*= false\)")]:
        UNITS.append(Unit("backend.%s.%s" % (be, form), "backends.c", defines=D + ["U_PUSH"], enforce="push",
                          lifts={"body": Lift(BE, pat, which=idx, expect=4, rules=BE_RULES)},
                          funcs=[BE + ": lockfree_%s_backend::push" % be]))
    UNITS.append(Unit("backend.%s.pop" % be, "backends.c", defines=D + ["U_POP"], enforce="pop",
                      lifts={"body": Lift(BE, r"bool pop\(reference val, bool\s*(?:steal)?\s*= true\)", which=idx, expect=4, rules=BE_RULES)},
                      funcs=[BE + ": lockfree_%s_backend::pop" % be]))
    UNITS.append(Unit("backend.%s.empty" % be, "backends.c", defines=D + ["U_EMPTY"], enforce="empty",
                      lifts={"body": Lift(BE, r"bool empty\(\)", which=idx, expect=4, rules=BE_RULES)},
                      funcs=[BE + ": lockfree_%s_backend::empty" % be]))

META = {
    "trusted_base": [
        "specs/C17/ciq.c atomic_load/atomic_cas_weak: std::atomic<range> modelled as an indivisible word; before every access "
        "the environment may replace the word by any value allowed by the rely (interval only shrinks, first <= last); "
        "compare_exchange_weak may fail spuriously",
        "std::optional<T> modelled as struct {has, value}",
    ],
    "assumptions": ["A-CLOSED: current_range is written only by reset/pop_left/pop_right/copy operations (census of the header)"],
    "not_decided": ["Michael's lock-free deque (deque.hpp) and moodycamel ConcurrentQueue: unverified dependencies"],
}

# ---- Michael's lock-free deque (written by a sub-agent after seeded change C17-2 was missed) ----------------------
exec(open(os.path.join(os.path.dirname(os.path.abspath(CIQ_SPEC_FILE)), "deque_spec.py")).read())
for _u in DEQUE_UNITS:
    # the sequential bounded stand-ins that start with a pop (on an empty deque) run in the thorough tier only
    if _u.kind == "bounded" and ".pop_" in _u.name.split("b4.")[-1].split(".")[0]:
        _u.tier = "thorough"
UNITS += DEQUE_UNITS
for _k in ("trusted_base", "assumptions", "not_decided"):
    META[_k] = [x for x in META.get(_k, []) if "Michael" not in x] + DEQUE_META.get(_k, [])

STATIC = [
    # A-CLOSED: the atomic word current_range is accessed only in reset / the copy operations / pop_left / pop_right / empty
    census.sites("contiguous_index_queue.current_range accesses", [CIQ], r"\bcurrent_range\b(?!;|\{)", 10),
]

# ---- the free list under the deque (pika's freelist.hpp wrappers + the Boost.Lockfree 1.83 freelist_stack / tagged_ptr they
# ---- instantiate: third-party code lifted from the installed headers, NOT part of /repo) -- third sub-agent -----------------------
exec(open("/verif/specs/C17/freelist_spec.py").read())
UNITS += FREELIST_UNITS
# ---- back-end adapters over a sequential container model (order lemmas), contiguous_index_queue constructors/copies -- fourth ----
exec(open("/verif/specs/C17/backends_spec.py").read())
UNITS += BACKENDS_UNITS
for _m in (FREELIST_META, BACKENDS_META):
    for _k in ("trusted_base", "assumptions", "not_decided"):
        META[_k] = list(META.get(_k, [])) + list(_m.get(_k, []))
META["not_decided"] = [x for x in META["not_decided"] if not x.startswith("freelist reuse / memory reclamation: caching_freelist / static_freelist (freelist.hpp) are not under contract")]
STATIC = list(globals().get("STATIC", [])) + list(FREELIST_STATIC) + [f for f in BACKENDS_STATIC if "current_range" not in str(getattr(f, "name", f))]


# ---- moodycamel ConcurrentQueue (vendored concurrentqueue.hpp), implicit-producer path used by lockfree_fifo_backend: per-step
# ---- contracts on the four index words + lemma: fifth sub-agent (after seeded change C17-4 was missed) --------------------------
exec(open("/verif/specs/C17/mcq_spec.py").read())
UNITS += MCQ_UNITS
for _k in ("trusted_base", "assumptions", "not_decided"):
    META[_k] = list(META.get(_k, [])) + list(MCQ_META.get(_k, []))
STATIC = list(globals().get("STATIC", [])) + list(MCQ_STATIC)
