/* C17 -- queue back-end adapters (lockfree_queue_backends.hpp): every push/pop/empty forwards to exactly one container
 * call, on the end the policy names (T-contracts).  The containers are stubs that record (operation, end). */
#include "vx.h"
typedef int T;
enum { OP_NONE = 0, OP_PUSH_LEFT, OP_PUSH_RIGHT, OP_POP_LEFT, OP_POP_RIGHT, OP_EMPTY, OP_ENQUEUE, OP_TRY_DEQUEUE, OP_SIZE_APPROX, OP_TRY_ENQUEUE };
static int g_op; static long g_calls; static T g_pushed; static bool g_result;
static bool rec(int op) { g_op = op; if (g_calls < 2) g_calls++; g_result = nondet_bool(); return g_result; }
struct container { int unused; };
static bool c_push_left(struct container *c, T v) { g_pushed = v; return rec(OP_PUSH_LEFT); }
static bool c_push_right(struct container *c, T v) { g_pushed = v; return rec(OP_PUSH_RIGHT); }
static bool c_pop_left(struct container *c, T *v) { return rec(OP_POP_LEFT); }
static bool c_pop_right(struct container *c, T *v) { return rec(OP_POP_RIGHT); }
static bool c_empty(struct container *c) { return rec(OP_EMPTY); }
static bool c_enqueue(struct container *c, T v) { g_pushed = v; return rec(OP_ENQUEUE); }
/* ConcurrentQueue::try_enqueue never allocates: it REFUSES the element once the pre-allocated blocks are in use (enqueue grows the
 * queue and fails only when memory is exhausted) -- not used by the pinned back ends; recorded as a different operation */
static bool c_try_enqueue(struct container *c, T v) { g_pushed = v; return rec(OP_TRY_ENQUEUE); }
static bool c_try_dequeue(struct container *c, T *v) { return rec(OP_TRY_DEQUEUE); }
static size_t g_size;
static size_t c_size_approx(struct container *c) { rec(OP_SIZE_APPROX); return g_size; }
struct backend { struct container queue_; };

/* policy table (from the names / documentation of the back ends, NOT from the code):
 *   fifo      : one FIFO container: enqueue / try_dequeue
 *   lifo      : push and pop at the same end (left); other_end pushes at the opposite end
 *   abp_fifo  : push left; the owner (steal == false) pops at the opposite end (right) => FIFO for the owner; a thief pops left
 *   abp_lifo  : push left (other_end: right); the owner pops at the push end (left) => LIFO; a thief pops at the opposite end (right) */
#if defined(B_FIFO)
#define EXP_PUSH(other) OP_ENQUEUE
#define EXP_POP(steal) OP_TRY_DEQUEUE
#elif defined(B_LIFO)
#define EXP_PUSH(other) ((other) ? OP_PUSH_RIGHT : OP_PUSH_LEFT)
#define EXP_POP(steal) OP_POP_LEFT
#elif defined(B_ABP_FIFO)
#define EXP_PUSH(other) OP_PUSH_LEFT
#define EXP_POP(steal) ((steal) ? OP_POP_LEFT : OP_POP_RIGHT)
#elif defined(B_ABP_LIFO)
#define EXP_PUSH(other) ((other) ? OP_PUSH_RIGHT : OP_PUSH_LEFT)
#define EXP_POP(steal) ((steal) ? OP_POP_RIGHT : OP_POP_LEFT)
#endif

#ifdef U_PUSH
//@FUNC
bool push(struct backend *self, T val, bool other_end)
__CPROVER_requires(g_calls == 0)
__CPROVER_ensures(g_calls == 1 && g_op == EXP_PUSH(other_end) && g_pushed == val && __CPROVER_return_value == g_result)
__CPROVER_assigns(g_op, g_calls, g_pushed, g_result)
//@LIFT body
#endif
#ifdef U_POP
//@FUNC
bool pop(struct backend *self, T *val, bool steal)
__CPROVER_requires(g_calls == 0)
__CPROVER_ensures(g_calls == 1 && g_op == EXP_POP(steal) && __CPROVER_return_value == g_result)
__CPROVER_assigns(g_op, g_calls, g_result)
//@LIFT body
#endif
#ifdef U_EMPTY
//@FUNC
bool empty(struct backend *self)
__CPROVER_requires(g_calls == 0)
#ifdef B_FIFO
__CPROVER_ensures(g_calls == 1 && g_op == OP_SIZE_APPROX && __CPROVER_return_value == (g_size == 0))
#else
__CPROVER_ensures(g_calls == 1 && g_op == OP_EMPTY && __CPROVER_return_value == g_result)
#endif
__CPROVER_assigns(g_op, g_calls, g_result)
//@LIFT body
#endif

void harness(void)
{
  struct backend b; T v = nondet_int();
  g_op = OP_NONE; g_calls = 0; g_pushed = 0; g_result = false; g_size = nondet_size();
#ifdef U_PUSH
  bool oe = nondet_bool();
  push(&b, v, oe);
  if (oe) VX_REACH("other_end"); else VX_REACH("default_end");
#endif
#ifdef U_POP
  bool st = nondet_bool();
  pop(&b, &v, st);
  if (st) VX_REACH("steal"); else VX_REACH("owner");
#endif
#ifdef U_EMPTY
  if (empty(&b)) VX_REACH("empty"); else VX_REACH("not_empty");
#endif
}
