# C17 (addition) -- the free list that hands out / recycles the nodes of the lock-free deque.
#
# WHAT IS WHERE.  pika/concurrency/detail/freelist.hpp (in /repo) contains only two thin wrappers:
#     caching_freelist<T>::allocate()   = boost::lockfree::detail::freelist_stack<T>::allocate<true, false>()
#     static_freelist<T>::allocate()    = ...::allocate<true, true>()          (Bounded: never asks the OS)
#     {caching,static}_freelist<T>::deallocate(n) = ...::deallocate<true>(n)
# The Treiber stack itself (allocate_impl / deallocate_impl / the *_unsafe variants / constructor / destructor) and the tagged
# head pointer (tagged_ptr, on x86-64 the pointer-compression variant) are Boost.Lockfree code: boost/lockfree/detail/freelist.hpp
# and tagged_ptr_ptrcompression.hpp of the Boost installed in this sandbox (1.83) -- the headers the pinned build compiles
# against.  They are NOT part of /repo.  They are lifted from BOOST_INC (default /usr/include; VX_BOOST_INC overrides it so that
# mutants of a scratch copy can be tried: specs/C17X/bmut.sh) with the same lifter, and every unit names the file it lifts from.
# pika's static_freelist is the POINTER based freelist_stack with Bounded=true; Boost's index based fixed_size_freelist /
# tagged_index (the "index arithmetic") is not instantiated by pika and is not under contract here.
#
# Defines FREELIST_UNITS / FREELIST_META / FREELIST_STATIC; merged into specs/C17/spec.py by the maintainer.
import os as _os
import re as _re
from vx.lift import Lift, Sub, Call, Members, Rule, LiftError, read_source, match_close
from vx.run import Unit
from vx import census as _census

BOOST_INC = _os.environ.get("VX_BOOST_INC", "/usr/include")
PK_FL = "libs/pika/concurrency/include/pika/concurrency/detail/freelist.hpp"
B_FL = _os.path.join(BOOST_INC, "boost/lockfree/detail/freelist.hpp")
B_TP = _os.path.join(BOOST_INC, "boost/lockfree/detail/tagged_ptr_ptrcompression.hpp")
B_TPSEL = _os.path.join(BOOST_INC, "boost/lockfree/detail/tagged_ptr.hpp")
B_PREFIX = _os.path.join(BOOST_INC, "boost/lockfree/detail/prefix.hpp")
_T = "../C17/freelist.c"


class Call0(Call):
    """Call with n=None but WITHOUT the fixed-point re-scan of vx.lift.Call (the replacement contains the head again).
    Copied from specs/C19/spec.py."""

    def __init__(self, head, template, stmt=False):
        Call.__init__(self, head, template, None, stmt)

    def apply(self, text):
        self._nested = True
        return Call.apply(self, text)


def _tp_consts():
    """every `static const T name = value;` of tagged_ptr_ptrcompression.hpp becomes a macro `name` (tag_index, ptr_mask)"""
    try:
        src = read_source(B_TP)
    except LiftError:
        return []
    out = []
    for m in _re.finditer(r"static const\s+[\w:]+\s+(\w+)\s*=\s*([^;]+);", src):
        v = m.group(2).strip()
        if _re.fullmatch(r"(0x[0-9a-fA-F]+|\d+)[uUlL]*", v):
            v = _re.sub(r"[uUlL]+$", "", v) + "ull"
        out.append("%s=(%s)" % (m.group(1), v))
    return out


TP_DEFS = _tp_consts()

# ---- C++ spelling -> C spelling (syntactic; operands are captured, never spelled) --------------------------------------
TP_RULES = [
    Sub(r"\(\s*T\s*\*\s*\)", "(ptr_t)", None),                                        # (T*)(e): C-style cast to the node pointer type
    Sub(r"\bT\s*\*\s*(\w+)\s*=", r"ptr_t \1 =", None),                               # T * p = ...
    Sub(r"\bcompressed_ptr_t\(", "(compressed_ptr_t)(", None),                         # function-style cast
    Sub(r"\(std::numeric_limits<(\w+)>::max\)\(\)", r"VX_NUMERIC_LIMITS_MAX_\1", None),
    Sub(r"\b(get_ptr|get_tag)\(\)", r"tp_\1(self)", None),                            # member calls on *this
    Sub(r"\boperator==\(", "tp_eq(self, ", None),
]
_TPM = TP_RULES + [Members(["ptr"])]                                                    # non-static members: bare `ptr` is this->ptr


class CtorPtrInit(Rule):
    """`explicit tagged_ptr(T * p, tag_t t = 0): ptr(EXPR) {}`  ->  `{ self->ptr = EXPR; }` (mem-initialiser as an assignment)"""
    n = 1

    def apply(self, text):
        m = _re.search(r":\s*ptr\s*\(", text)
        if not m:
            raise LiftError("CtorPtrInit: no `: ptr(` initialiser")
        o = m.end() - 1
        c = match_close(text, o)
        rest = text[c + 1:].strip()
        if not _re.fullmatch(r"\{\s*\}", rest):
            raise LiftError("CtorPtrInit: constructor body is not empty: %r" % rest[:40])
        return "{ self->ptr = %s; }" % text[o + 1:c]


def tp_lifts(extra=None):
    d = {
        "tp_extract_ptr": Lift(B_TP, r"static T\* extract_ptr\(", rules=TP_RULES),
        "tp_extract_tag": Lift(B_TP, r"static tag_t extract_tag\(", rules=TP_RULES),
        "tp_pack_ptr": Lift(B_TP, r"static compressed_ptr_t pack_ptr\(", rules=TP_RULES),
        "tp_ctor": Lift(B_TP, r"explicit tagged_ptr\(T \* p, tag_t t = 0\)", fragment_end=r"\{\s*\}", rules=[CtorPtrInit()] + TP_RULES),
        "tp_set": Lift(B_TP, r"void set\(T \* p, tag_t t\)", rules=_TPM),
        "tp_eq": Lift(B_TP, r"bool operator== \(volatile tagged_ptr const & p\) const", rules=_TPM),
        "tp_ne": Lift(B_TP, r"bool operator!= \(volatile tagged_ptr const & p\) const", rules=TP_RULES),
        "tp_get_ptr": Lift(B_TP, r"T \* get_ptr\(\) const", rules=[Members(["ptr"])] + TP_RULES),
        "tp_set_ptr": Lift(B_TP, r"void set_ptr\(T \* p\)", rules=_TPM),
        "tp_get_tag": Lift(B_TP, r"tag_t get_tag\(\) const", rules=[Members(["ptr"])] + TP_RULES),
        "tp_get_next_tag": Lift(B_TP, r"tag_t get_next_tag\(\) const", rules=TP_RULES),
        "tp_set_tag": Lift(B_TP, r"void set_tag\(tag_t t\)", rules=_TPM),
        "tp_arrow": Lift(B_TP, r"T \* operator->\(\) const", rules=TP_RULES),
        "tp_bool": Lift(B_TP, r"operator bool\(void\) const", rules=TP_RULES),
    }
    d.update(extra or {})
    return d


_FTP = "boost " + B_TP + ": tagged_ptr<T>::"
FREELIST_UNITS = [
    Unit("freelist.tptr.pack_extract", _T, defines=TP_DEFS + ["U_TP_PACK"], enforce="pack_ptr", lifts=tp_lifts(), min_obligations=8,
         funcs=[_FTP + "pack_ptr, extract_ptr, extract_tag, get_ptr, get_tag, operator->, operator bool, operator==, operator!="],
         doc="F, all 2^64 words / all canonical pointers x all tags: pack_ptr and extract_ptr/extract_tag are inverse both ways and agree "
             "with the specification view (ptr = low 48 bits, tag = bits 48..63) used by the freelist contracts"),
    Unit("freelist.tptr.get_next_tag", _T, defines=TP_DEFS + ["U_TP_NEXT"], enforce="tp_get_next_tag", lifts=tp_lifts(), min_obligations=3,
         funcs=[_FTP + "get_next_tag"], doc="F: the next tag is tag+1 modulo 2^16 for every word; it always differs from the current tag"),
]
for _nm, _key, _sp, _st in [("set_ptr", "tp_set_ptr", 1, 0), ("set_tag", "tp_set_tag", 0, 1), ("set", "tp_set", 1, 1), ("ctor", "tp_ctor", 1, 1)]:
    _l = tp_lifts()
    _l["tp_mutator"] = _l[_key]
    FREELIST_UNITS.append(
        Unit("freelist.tptr." + _nm, _T, defines=TP_DEFS + ["U_TP_SET", "SETS_PTR=%d" % _sp, "SETS_TAG=%d" % _st, "SET_IS_CTOR=%d" % (_nm == "ctor")],
             enforce="tp_mutator", lifts=_l, min_obligations=4,
             funcs=[_FTP + ("tagged_ptr(T*, tag_t)" if _nm == "ctor" else _nm)],
             doc="F: stores its argument(s) in its own field(s) and leaves the other field unchanged, for every word"))

# ---- freelist_stack (Boost) and the pika wrappers -----------------------------------------------------------------------
FS_RULES = [
    Sub(r"\bfor\s*\(\s*;\s*;\s*\)", "while (1)", None),
    Sub(r",\s*memory_order_\w+", "", None),
    Sub(r"\(\s*memory_order_\w+\s*\)", "()", None),
    Call(r"\bpool_\.load", "atomic_load(self, &self->pool_)", None),
    Call(r"\bpool_\.compare_exchange_weak", "atomic_cas_weak(self, &self->pool_, &{0}, {1})", None),
    Call(r"\bpool_\.store", "atomic_store(self, &self->pool_, {0})", None),
    Sub(r"\b(\w+)->next\.get_ptr\(\)", r"tp_get_ptr_v(node_next_load(self, tp_arrow(&\1)))", None),
    Call(r"\b(\w+)->next\.set_ptr", "node_next_set_ptr(self, tp_arrow(&{h1}), {0})", None),
    Sub(r"\b(\w+)\.(get_ptr|get_tag|get_next_tag)\(\)", r"tp_\2(&\1)", None),
    Call(r"\btagged_node_ptr\s+(\w+)", "tagged_node_ptr {h1}; tp_ctor(&{h1}, {0}, {1})", None),      # tagged_node_ptr x (p, t);
    Sub(r"\b(?:T|freelist_node|void)\s*\*\s*(\w+)\s*=", r"ptr_t \1 =", None),
    Sub(r"\breinterpret_cast<\s*(?:T|freelist_node)\s*\*\s*>", "(ptr_t)", None),
    Sub(r"\(\s*void\s*\*\s*\)", "(ptr_t)", None),
    Call(r"\bAlloc::allocate", "os_allocate(self, {0})", None),
    Call(r"\bstd::memset", "fl_memset(self, {0}, {1}, {2})", None),
    Sub(r"\b(allocate_impl(?:_unsafe)?)<(\w+)>\(\)", r"\1(self, \2)", None),
    Call0(r"\b(deallocate_impl(?:_unsafe)?)(?=\((?!self\b))", "{h1}(self, {0})"),
]
PK_RULES = [
    Sub(r"\bT\s*\*\s*(\w+)\s*=", r"ptr_t \1 =", None),
    Sub(r"\bthis->base_type::template\s+(\w+)<([^<>]*)>\(\s*\)", r"fs_\1(self, \2)", None),
    Sub(r"\bthis->base_type::template\s+(\w+)<([^<>]*)>\(([^()]+)\)", r"fs_\1(self, \2, \3)", None),
]
_LOOP_FRAME = "self->pool_, CELLS_ST, CELLS_NX, CELLS_DP, LIN_GHOSTS, g_os_allocs, g_os_block"
LOOP_ALLOC = """
__CPROVER_assigns(old_pool, %s)
__CPROVER_loop_invariant(!lin && g_lin_kind == K_NONE && g_bumps == 0 && g_os_allocs == 0)
__CPROVER_loop_invariant(SINV(self->pool_.ptr) && self->pool_.ptr == old_pool.ptr && g_last_read.ptr == old_pool.ptr)
""" % _LOOP_FRAME
LOOP_DEALLOC = """
__CPROVER_assigns(old_pool, %s)
__CPROVER_loop_invariant(!lin && g_lin_kind == K_NONE && g_os_allocs == 0 && ST_OF(n) == C_MINE)
__CPROVER_loop_invariant(SINV(self->pool_.ptr))
""" % _LOOP_FRAME


def fl_lifts(which=None, contracts=True):
    d = tp_lifts({
        "fs_allocate": Lift(B_FL, r"T \* allocate \(void\)", rules=FS_RULES, loops={"count": 0}),
        "fs_allocate_impl": Lift(B_FL, r"T \* allocate_impl \(void\)", rules=FS_RULES, loops={1: LOOP_ALLOC, "count": 1}),
        "fs_allocate_impl_unsafe": Lift(B_FL, r"T \* allocate_impl_unsafe \(void\)", rules=FS_RULES, loops={"count": 0}),
        "fs_deallocate": Lift(B_FL, r"void deallocate \(T \* n\)", rules=FS_RULES, loops={"count": 0}),
        "fs_deallocate_impl": Lift(B_FL, r"void deallocate_impl \(T \* n\)", rules=FS_RULES, loops={1: LOOP_DEALLOC, "count": 1}),
        "fs_deallocate_impl_unsafe": Lift(B_FL, r"void deallocate_impl_unsafe \(T \* n\)", rules=FS_RULES, loops={"count": 0}),
    })
    if which is not None:
        d["pk_allocate"] = Lift(PK_FL, r"T\* allocate\(\)", which=which, expect=2, rules=PK_RULES, loops={"count": 0})
        d["pk_deallocate"] = Lift(PK_FL, r"void deallocate\(T\* n\)", which=which, expect=2, rules=PK_RULES, loops={"count": 0})
    return d


_CADICAL = ["--sat-solver", "cadical"]     # MiniSat2 hangs on freelist.stack.allocate_unsafe (> 150 s; CaDiCaL: 3 s)
_FFS = "boost " + B_FL + ": freelist_stack<T, Alloc>::"
for _i, _cls in enumerate(["caching", "static"]):
    _D = TP_DEFS + ["U_FL", "P_" + _cls.upper()]
    FREELIST_UNITS += [
        Unit("freelist.%s.allocate" % _cls, _T, defines=_D + ["U_FL_PK_ALLOC"], enforce="pk_allocate", lifts=fl_lifts(_i), min_obligations=40, solver=_CADICAL,
             funcs=[PK_FL + ": %s_freelist::allocate" % _cls, _FFS + "allocate<ThreadSafe, Bounded>, allocate_impl<Bounded>, allocate_impl_unsafe<Bounded>"]),
        Unit("freelist.%s.deallocate" % _cls, _T, defines=_D + ["U_FL_PK_DEALLOC"], enforce="pk_deallocate", lifts=fl_lifts(_i), min_obligations=40, solver=_CADICAL,
             funcs=[PK_FL + ": %s_freelist::deallocate" % _cls, _FFS + "deallocate<ThreadSafe>, deallocate_impl, deallocate_impl_unsafe"]),
    ]
FREELIST_UNITS += [
    Unit("freelist.stack.allocate_unsafe", _T, defines=TP_DEFS + ["U_FL", "U_FL_BOOST_ALLOC"], enforce="fs_allocate", lifts=fl_lifts(), min_obligations=30, solver=_CADICAL,
         funcs=[_FFS + "allocate<false, Bounded>, allocate_impl_unsafe<Bounded>"]),
    Unit("freelist.stack.deallocate_unsafe", _T, defines=TP_DEFS + ["U_FL", "U_FL_BOOST_DEALLOC"], enforce="fs_deallocate", lifts=fl_lifts(), min_obligations=30, solver=_CADICAL,
         funcs=[_FFS + "deallocate<false>, deallocate_impl_unsafe"]),
]

# ---- constructor pre-allocation loop, destructor drain loop -----------------------------------------------------------------
class CtorInits(Rule):
    """constructor fragment `Name(params) : a(e1), Base<..>(args) [{ }]` -> `self->a = e1; <base template>` in the order written
    (mem-initialisers as statements; the C signature is hand written).  An initialiser that is neither a listed member nor a
    listed base, or a non-empty trailing body, is an extraction failure."""
    n = 1

    def __init__(self, members=(), bases=None, braces=False):
        self.members, self.bases, self.braces = list(members), dict(bases or {}), braces

    def apply(self, text):
        i = text.find("(")
        if i < 0:
            raise LiftError("CtorInits: no parameter list")
        j = match_close(text, i) + 1
        m = _re.match(r"\s*:(?!:)", text[j:])
        if not m:
            raise LiftError("CtorInits: no mem-initialiser list")
        j += m.end()
        out = []
        while True:
            m = _re.match(r"\s*([A-Za-z_][\w:]*(?:<[^<>]*>)?)\s*\(", text[j:])
            if not m:
                raise LiftError("CtorInits: cannot parse initialiser at %r" % text[j:j + 40])
            name = m.group(1)
            o = j + m.end() - 1
            c = match_close(text, o)
            arg = text[o + 1:c].strip()
            if name in self.members:
                out.append("self->%s = %s;" % (name, arg))
            elif name in self.bases:
                out.append(self.bases[name].replace("{args}", arg))
            else:
                raise LiftError("CtorInits: initialiser '%s' is neither a listed member nor a listed base" % name)
            j = c + 1
            m = _re.match(r"\s*,", text[j:])
            if m:
                j += m.end()
                continue
            rest = text[j:].strip()
            if rest and not _re.fullmatch(r"\{\s*\}", rest):
                raise LiftError("CtorInits: unexpected text after the initialiser list: %r" % rest[:40])
            break
        body = " ".join(out)
        return "{ %s }" % body if self.braces else body


def _tp_temp(args, env):          # tagged_node_ptr(p) / tagged_node_ptr(p, t): the declared default t = 0 spelled out
    return "tp_make(%s, %s)" % (args[0], args[1] if len(args) > 1 else "0")


_LIFE_EXTRA = [
    Sub(r"\bwhile\s*\((\w+)\)", r"while (tp_bool(&\1))", None),                       # while (current): operator bool
    Sub(r"\b(\w+)->next\b(?!\s*\.)", r"node_next_load(self, \1)", None),               # raw_node_pointer->next (whole word)
    Call(r"\bAlloc::deallocate", "os_deallocate(self, {0}, {1})", None),
    Sub(r"\(\s*T\s*\*\s*\)", "(ptr_t)", None),
    Sub(r"\bdeallocate<(\w+)>\(", r"fs_deallocate(self, \1, ", None),
    Call(r"\btagged_node_ptr(?=\s*\()", _tp_temp, None),                                # tagged_node_ptr(p [, t]) temporary
    Sub(r"\bAlloc\(\)", "VX_ALLOC_DEFAULT", None),
]
_NULL0 = [Sub(r"\bNULL\b", "0", None)]
LOOP_CTOR = """
__CPROVER_assigns(i, self->pool_, g_allocs, g_size, g_victim_pushes)
__CPROVER_loop_invariant(i <= n && g_allocs == i && g_size == i && g_victim_pushes == ((g_v < i) ? 1 : 0))
__CPROVER_loop_invariant((g_size == 0) == (S_PTR(self->pool_.ptr) == 0))
"""
LOOP_DTOR = """
__CPROVER_assigns(current, g_freed, g_victim_frees)
__CPROVER_loop_invariant(g_freed <= g_L && S_PTR(current.ptr) == (g_freed < g_L ? g_freed + 1 : 0))
__CPROVER_loop_invariant(g_victim_frees == ((g_v < g_freed) ? 1 : 0))
"""
_CTOR_LOC = r"freelist_stack \(Allocator const & alloc, std::size_t n = 0\)"


def life_lifts(which=None):
    d = tp_lifts({
        "fs_deallocate": Lift(B_FL, r"void deallocate \(T \* n\)", rules=FS_RULES, loops={"count": 0}),
        "fs_ctor_init": Lift(B_FL, _CTOR_LOC + r"\s*:", fragment_end=r"\)\s*(?=\{)",
                             rules=[CtorInits(members=["pool_"], bases={"Alloc": ""})] + _LIFE_EXTRA + FS_RULES, post=_NULL0),
        "fs_ctor_body": Lift(B_FL, _CTOR_LOC, ctor=True, rules=_LIFE_EXTRA + FS_RULES, loops={1: LOOP_CTOR, "count": 1}),
        "fs_dtor": Lift(B_FL, r"~freelist_stack\(void\)", rules=_LIFE_EXTRA + FS_RULES, loops={1: LOOP_DTOR, "count": 1}),
    })
    if which is not None:
        cls = ["caching", "static"][which]
        d["pk_ctor"] = Lift(PK_FL, cls + r"_freelist\(std::size_t n = 0\)", fragment_end=r"\)\s*\{\s*\}",
                            rules=[CtorInits(bases={"boost::lockfree::detail::freelist_stack<T, Alloc>": "fs_ctor(self, {args});"}, braces=True)] + _LIFE_EXTRA)
    return d


for _i, _cls in enumerate(["caching", "static"]):
    for _u, _sfx in [("U_LIFE_CTOR", ""), ("U_LIFE_CTOR0", ".n0")]:
        FREELIST_UNITS.append(
            Unit("freelist.%s.ctor%s" % (_cls, _sfx), _T, defines=TP_DEFS + ["U_LIFE", _u], enforce="pk_ctor", lifts=life_lifts(_i), min_obligations=15,
                 funcs=[PK_FL + ": %s_freelist::%s_freelist(std::size_t)" % (_cls, _cls), _FFS + "freelist_stack(Allocator const&, std::size_t), deallocate<ThreadSafe>"]))
FREELIST_UNITS.append(
    Unit("freelist.stack.dtor", _T, defines=TP_DEFS + ["U_LIFE", "U_LIFE_DTOR"], enforce="fs_dtor", lifts=life_lifts(), min_obligations=15,
         funcs=[_FFS + "~freelist_stack"]))

FL_ALLOC_DOC = (
    "S (rely/guarantee on the head word pool_): allocate makes at most one successful step on pool_.  A recycled node is exactly the node "
    "that was the top of the free stack in the pre-state of that step; the step makes that node's next pointer AS IT IS AT THE MOMENT OF THE "
    "STEP the new head and advances the tag by one (asserted in step(): a stale next is a failed obligation); the node is held by the caller "
    "and not in the stack afterwards (the free nodes are again exactly one acyclic chain off the head).  Without a step the result is one fresh "
    "block from the OS, requested only after reading an empty head and never by the bounded list (static_freelist), or null (bounded list "
    "only, after reading an empty head).  caching_freelist::allocate never returns null; static_freelist never asks the OS.")
FL_DEALLOC_DOC = (
    "S: deallocate(n), n held by the caller, makes exactly one successful step: the push of n, with n->next == the head it replaces written "
    "BEFORE the publishing CAS (asserted in step() and in the link-write stub); afterwards n is in the stack exactly once.")
for _u in FREELIST_UNITS:
    if not _u.doc:
        if _u.name.endswith(".allocate"):
            _u.doc = FL_ALLOC_DOC
        elif _u.name.endswith(".deallocate"):
            _u.doc = FL_DEALLOC_DOC
        elif _u.name.endswith("allocate_unsafe"):
            _u.doc = ("the same steps with load + store instead of a CAS loop, under the precondition that no other thread uses the free list "
                      "(then: returns exactly the old top / a fresh block / null, stack shortened by one); Bounded is symbolic")
        elif _u.name.endswith("deallocate_unsafe"):
            _u.doc = "the push step with load + store, no other thread: the node goes on top of the unchanged stack"
        elif ".ctor" in _u.name:
            _u.doc = ("T + loop contract: the constructor initialises the head to the empty stack and pre-allocates exactly n blocks, each obtained "
                      "from the allocator once and put on the stack once (symbolic victim), through deallocate<false> (object not yet shared)")
        elif _u.name.endswith(".dtor"):
            _u.doc = ("T + loop contract: the destructor returns every node of the stack to the allocator exactly once (symbolic victim), reads a "
                      "node's next pointer before freeing it, frees nothing else; any length")

FREELIST_META = {
    "trusted_base": [
        "SOURCE OF THE LIFTED TEXT: pika's freelist.hpp (in /repo) only forwards to boost::lockfree::detail::freelist_stack; the Treiber stack "
        "and the tagged pointer are lifted from the Boost.Lockfree headers installed in the sandbox (%s, %s; Boost 1.83, pinned by a static "
        "fact) -- third-party code outside /repo, the version the pinned build compiles against; another Boost version is not covered" % (B_FL, B_TP),
        "specs/C17/freelist.c (U_FL) atomic_load / atomic_cas_weak / atomic_store: std::atomic<tagged_ptr<freelist_node>> modelled as one "
        "indivisible 64-bit word, bitwise comparison, compare_exchange_weak may fail spuriously; all memory orders treated as seq_cst (A-SC)",
        "specs/C17/freelist.c interfere() = the RELY, run before every shared access (head load/CAS/store, read of a node's next word): other threads "
        "perform any number of push/pop steps; afterwards (a) the stack invariant SINV holds (free nodes = one acyclic chain off the head), (b) cells "
        "held by the caller and blocks not yet handed out by the OS are untouched, (c) the head tag moved by the number k of tag-changing steps and "
        "every pop is one, (d) k == 0 => no pop happened: every node that was in the stack is still in it with the same next pointer and the head "
        "pointer is unchanged or a node another thread held and pushed.  (a)-(d) are consequences of the GUARANTEE asserted for the code's own steps "
        "in step() (history induction: paper) plus A-OWN; VX_ASSUMEs: SINV, the tag relation, the k == 0 frame, A-ABA",
        "A-ABA (VX_ASSUME in interfere): fewer than 2^16 tag-changing successful steps of other threads (every allocate; Boost's deallocate keeps "
        "the tag) happen between a thread's read of the head word (load or failed CAS) and its next CAS on it -- the ONLY thing the 16-bit tag is "
        "relied on for; with 2^16 or more the CAS of allocate_impl can succeed on a recycled head with a stale next pointer (not excluded by anything)",
        "A-OWN (precondition of deallocate + (b) of the rely): a thread deallocates only a node it obtained from allocate and no longer shares, and "
        "nobody writes a node it does not hold (client obligation of deque.hpp: dealloc_node after the pop that unlinked the node)",
        "A-TYPESTABLE: node memory stays mapped while the free list lives (freelist_stack returns blocks to the allocator only in its destructor), "
        "so allocate_impl's read of old_pool->next from a node that another thread popped meanwhile reads garbage but does not fault; the stub "
        "asserts that only free-list memory is dereferenced",
        "heap model of the U_FL units: four cells with symbolic distinct canonical addresses, each UNALLOC / in the stack / held by the caller / "
        "held by another thread, next words arbitrary where the code may not rely on them; os_allocate (Alloc::allocate) returns an UNALLOC cell "
        "(VX_ASSUME: the OS hands out a block nobody uses; std::bad_alloc not modelled); memset modelled on the first word only",
        "specs/C17/freelist.c (U_LIFE) constructor / destructor: blocks named by tokens (k-th block allocated / k-th node from the top), the free "
        "stack abstracted to its length plus one symbolic victim; deallocate_impl_unsafe is a stub standing for its proved step contract (unit "
        "freelist.stack.deallocate_unsafe); node->next in the destructor returns the successor token with an arbitrary tag; n, length < 2^47",
        "template parameters lowered to bool arguments (allocate<ThreadSafe, Bounded>() -> fs_allocate(self, ThreadSafe, Bounded)); "
        "tagged_node_ptr(p) spelled tp_make(p, 0) (declared default t = 0, pinned by the constructor locator); reference parameters by value",
    ],
    "assumptions": [
        "A-ABA: fewer than 2^16 successful tag-changing operations (allocate steps of other threads) between a thread's read of the free-list head "
        "and its CAS; nothing stronger is claimed about the tag (freelist.* units)",
        "A-OWN, A-TYPESTABLE as listed under trusted_base (freelist.* units)",
        "A-CLOSED(freelist): pool_ of freelist_stack is accessed only in the constructor, destructor, is_lock_free, allocate_impl(_unsafe) and "
        "deallocate_impl(_unsafe) (static fact: 12 textual sites), and the deque calls the free list only from alloc_node (2) and dealloc_node (1)",
        "freelist.* S units quantify over all heaps of at most 4 free-list cells; the extension to longer stacks is the framing argument that a "
        "step reads/writes only the head word, the top node and the caller's own node (paper)",
    ],
    "not_decided": [
        "free list, protocol level: that the per-step guarantees compose over an arbitrary interleaved history into 'no node is handed out twice "
        "without an intervening deallocate' is the history induction (paper), and only under A-ABA; tag wrap-around (>= 2^16 allocations by other "
        "threads while one thread sits between its head read and its CAS) is NOT excluded and would hand out a node twice / lose nodes",
        "safe memory reclamation for the deque: a slow deque thread may still read a node that was deallocated and recycled (the deque's A-ABA-node "
        "/ known finding C17-deque-aba); the free list contracts say nothing about readers of a node other than its holder",
        "Boost's index-based fixed_size_freelist / tagged_index (array storage, index arithmetic) and the dcas variant of tagged_ptr: not "
        "instantiated by pika on x86-64 (static_freelist is freelist_stack with Bounded = true), not under contract",
        "memory orders (memory_order_consume loads, default seq_cst CAS) are not distinguished; lock-freedom / termination of the CAS loops; "
        "std::bad_alloc from Alloc::allocate; freelist_stack::reserve/construct/destruct (not used by pika)",
    ],
}

FREELIST_STATIC = [
    _census.sites("boost version the freelist contracts were written against (1.83)", [_os.path.join(BOOST_INC, "boost/version.hpp")],
                  r"#\s*define\s+BOOST_VERSION\s+108300\b", 1),
    _census.sites("tagged_ptr variant: pointer compression is selected on x86-64", [B_PREFIX],
                  r"#if BOOST_ARCH_X86_64 \|\|[^\n]*\n\s*#define BOOST_LOCKFREE_PTR_COMPRESSION 1", 1),
    _census.sites("tagged_ptr.hpp includes the ptrcompression variant when BOOST_LOCKFREE_PTR_COMPRESSION is defined", [B_TPSEL],
                  r"#ifndef BOOST_LOCKFREE_PTR_COMPRESSION\s*#include <boost/lockfree/detail/tagged_ptr_dcas\.hpp>\s*#else\s*"
                  r"#include <boost/lockfree/detail/tagged_ptr_ptrcompression\.hpp>", 1),
    _census.sites("freelist.hpp pool_ accesses (freelist_stack 12 + fixed_size_freelist 12)", [B_FL], r"\bpool_\b", 24),
    _census.sites("deque.hpp calls into the free list (alloc_node x2, dealloc_node)", ["libs/pika/concurrency/include/pika/concurrency/deque.hpp"],
                  r"\bpool_\.(?:allocate|deallocate)\b", 3),
    _census.sites("pika does not define BOOST_LOCKFREE_FREELIST_INIT_RUNS_DTOR (constructor uses deallocate<false>)",
                  ["libs/pika/concurrency/**/*.hpp", "libs/pika/concurrency/**/*.cpp", "libs/pika/concurrency/**/CMakeLists.txt", "CMakeLists.txt", "cmake/*.cmake"],
                  r"BOOST_LOCKFREE_FREELIST_INIT_RUNS_DTOR", 0),
]
