/* C17 -- Michael's lock-free deque: rely/guarantee STEP contracts on the anchor (S-contracts).
 *
 * Thread-modular view of ONE call: before every access to shared state (anchor load / compare / CAS, node link load /
 * CAS) the environment may run (interfere()).  The rely is stated in interfere(); the guarantee is asserted at every
 * successful CAS of the lifted text:
 *   - an anchor in lpush/rpush state is only ever stabilized, (l,r,xpush,t) -> (l,r,stable,t+1), and only once the
 *     missing back link is in place ("helping step"; any number per call);
 *   - from a stable anchor the call takes at most ONE step, and it is one of Michael's transitions for this
 *     operation (OWN_OK below): the linearisation step, recorded in lin / lin_old / lin_new.
 * Nodes live in a pool of NPOOL type-stable cells; all link fields are symbolic.  What this does NOT decide is listed
 * in DEQUE_META["not_decided"] (protocol-level linearizability, ABA-tag sufficiency, reclamation, memory orders). */
#include "deque.h"

/* the deque under test is one global object (contracts and stubs name its anchor directly; `self` is always &g_q) */
static struct deque g_q;

/* ---- ghost state ---- */
static bool lin;                       /* the call has taken its own (push/pop) step */
static struct pair lin_old, lin_new;   /* anchor before/after that step */
static struct node *g_lin_lr;          /* lin_old.left->right.ptr at the moment of the step */
static struct node *g_lin_rl;          /* lin_old.right->left.ptr at the moment of the step */
static struct node *g_lin_nr, *g_lin_nl; /* lin_new.left->right.ptr / lin_new.right->left.ptr at the moment of the step */
static T g_lin_owndata;                /* payload of the caller's new node at the moment of its publishing step */
static T g_lin_ldata, g_lin_rdata;     /* payload of lin_old.left / lin_old.right at the moment of the step */
static unsigned g_nsteps;              /* number of successful anchor CASes (own + helping); wraps, only differences are used */
static struct pair g_step_old, g_step_new;   /* the last of them */
static struct pair g_last_read;        /* last anchor value this call has read */
static struct pair g_obs;              /* the anchor word this call last observed AND holds in a local (load / failed or successful CAS) */
static struct node *g_inward_seen;     /* value this call last read from the inward link of the pushed end of g_obs */
static int g_bl_idx; static bool g_bl_left; /* back link (cell index, which link) this call has read as still missing (stale word g_bl_seen) for the unstable g_obs; -1: none */
static struct tptr g_bl_seen;
static bool g_validated;               /* anchor found equal to g_obs after the last node link load */
static struct node *g_own;             /* node allocated by this call and not yet published (push) */
static T g_own_data;                   /* shadow copies of the fields of g_own (written only by this call) */
static struct node *g_own_ll, *g_own_lr;
static long g_allocs, g_retired;
static struct node *g_retired_node;
static bool g_quiescent;               /* true: no other thread (bounded sequential unit only) */

#if defined(U_POP_LEFT)
#define OWN_OK(o, n) (T_POP_LAST(o, n) || T_POP_LEFT(o, n, g_lin_lr))
#define OWN_TEXT "pop_left step: from a STABLE anchor, (l,l) -> (NULL,NULL) or (l,r) -> (l->right, r, stable), tag+1"
#elif defined(U_POP_RIGHT)
#define OWN_OK(o, n) (T_POP_LAST(o, n) || T_POP_RIGHT(o, n, g_lin_rl))
#define OWN_TEXT "pop_right step: from a STABLE anchor, (r,r) -> (NULL,NULL) or (l,r) -> (l, r->left, stable), tag+1"
#elif defined(U_PUSH_LEFT)
#define OWN_OK(o, n) (T_PUSH_EMPTY(o, n, g_own) || (T_PUSH_LEFT(o, n, g_own) && LNK_R(g_own) == (o).left))
#define OWN_TEXT "push_left step: from a STABLE anchor, (NULL,NULL) -> (n,n,stable) or (l,r) -> (n,r,lpush) with n->right == l already set, tag+1"
#elif defined(U_PUSH_RIGHT)
#define OWN_OK(o, n) (T_PUSH_EMPTY(o, n, g_own) || (T_PUSH_RIGHT(o, n, g_own) && LNK_L(g_own) == (o).right))
#define OWN_TEXT "push_right step: from a STABLE anchor, (NULL,NULL) -> (n,n,stable) or (l,r) -> (l,n,rpush) with n->left == r already set, tag+1"
#elif defined(U_SEQ)
#define OWN_OK(o, n) (T_PUSH_EMPTY(o, n, g_own) || (T_PUSH_LEFT(o, n, g_own) && LNK_R(g_own) == (o).left) || \
                      (T_PUSH_RIGHT(o, n, g_own) && LNK_L(g_own) == (o).right) || T_POP_LAST(o, n) || \
                      T_POP_LEFT(o, n, g_lin_lr) || T_POP_RIGHT(o, n, g_lin_rl))
#define OWN_TEXT "step from a stable anchor is one of Michael's push/pop transitions"
#else
#define OWN_OK(o, n) 0
#define OWN_TEXT "stabilize / empty take no push or pop step: the only anchor step is (l,r,xpush) -> (l,r,stable)"
#endif

#define IDX_OF(p) ((p) == &g_n0 ? 0 : (p) == &g_n1 ? 1 : (p) == &g_n2 ? 2 : (p) == &g_n3 ? 3 : -1)
#define CELL_L(i) ((i) == 0 ? g_n0.left : (i) == 1 ? g_n1.left : (i) == 2 ? g_n2.left : g_n3.left)
#define CELL_R(i) ((i) == 0 ? g_n0.right : (i) == 1 ? g_n1.right : (i) == 2 ? g_n2.right : g_n3.right)
#define BL_WORD (g_bl_left ? CELL_L(g_bl_idx) : CELL_R(g_bl_idx))
/* ghosts that are pointers / indices stay well formed across loop havoc */
#define GHOSTS_OK (g_bl_idx >= -1 && g_bl_idx <= 3 && INPOOL0(g_inward_seen))

/* guarantee checks in the stubs: report the violation, then stop exploring that path (assert-then-assume: nothing is
 * assumed that has not just been checked; keeps a violated run from cascading into unrelated failures / timeouts) */
#ifdef VX_CBMC
#define G_ASSERT(c, msg) do { VX_ASSERT(c, msg); __CPROVER_assume(c); } while (0)
#else
#define G_ASSERT(c, msg) VX_ASSERT(c, msg)
#endif

/* ---- environment ---- */
static struct node *pick(void)
{
  uint8_t k = nondet_u8();
  if (k == 0) return NULL;
  if (k == 1) return &g_n0;
  if (k == 2) return &g_n1;
  if (k == 3) return &g_n2;
  return &g_n3;
}
static struct pair havoc_pair(void)
{
  struct pair p;
  p.left = pick(); p.right = pick(); p.ltag = nondet_u16(); p.rtag = nondet_u16();
  return p;
}
#define HAVOC_NODE(n) do { if (&(n) != g_own) { (n).left.ptr = pick(); (n).left.tag = nondet_u16(); \
                                               (n).right.ptr = pick(); (n).right.tag = nondet_u16(); } } while (0)
static void havoc_shared(struct deque *d)
{
  g_q.anchor_ = havoc_pair();
  HAVOC_NODE(g_n0); HAVOC_NODE(g_n1); HAVOC_NODE(g_n2); HAVOC_NODE(g_n3);
}
/* RELY.  Other threads run the same algorithm, so between two accesses of this call
 *  (a) the anchor may have moved on: everything shared is then arbitrary within the representation invariant S_OK
 *      (trusted: lemma units deque.lemma.* show every step keeps the invariant), except
 *        A-ABA : the anchor does not come back to the word this call last observed (g_obs) -- the ABA tag is taken to
 *                be sufficient; its 16-bit wrap-around is NOT decided here;
 *        A-ABA-node : an unstable anchor moves on only after its missing back link was put in place (the guarantee
 *                asserted in anchor_cas), and that link word does not come back to the stale (ptr, tag) word this
 *                call had read from it (node-level ABA tag taken to be sufficient; NOT decided here);
 *        A-OWN : a node this call allocated and has not published is referenced by nobody and not written by others;
 *        payload fields are written only when a node is constructed (not havocked);
 *  (b) or the anchor stayed: then the only node-level write another thread can make is the one stabilize() makes --
 *      putting the missing back link of an unstable anchor in place.  (Links of nodes outside the chain are not
 *      tracked: a thread whose observation of the anchor is still valid never dereferences them.) */
static void interfere(struct deque *d)
{
  if (g_quiescent) return;
  if (nondet_bool())
  {
    havoc_shared(d);
    VX_ASSUME(S_OK(g_q.anchor_));
    VX_ASSUME(!PEQ(g_q.anchor_, g_obs));
    VX_ASSUME(g_bl_idx < 0 || !TPEQ(BL_WORD, g_bl_seen));
    VX_ASSUME(g_own == NULL || NOREF(g_q.anchor_, g_own));
  }
  else if (nondet_bool())
  {
    struct pair a = g_q.anchor_;
    if (a.ltag == lpush)
    {
      struct node *x = LNK_R(a.left);
      if (x != NULL) x->left = mk_tptr(a.left, nondet_u16());
    }
    else if (a.ltag == rpush)
    {
      struct node *x = LNK_L(a.right);
      if (x != NULL) x->right = mk_tptr(a.right, nondet_u16());
    }
  }
}

/* deque_anchor::lrs -- atomic load of the 128-bit word */
static struct pair anchor_load(struct deque *d)
{
  interfere(d);
  g_last_read = g_q.anchor_;
  g_obs = g_q.anchor_;
  g_validated = false; g_bl_idx = -1; g_inward_seen = NULL;
  return g_q.anchor_;
}
/* deque_anchor::operator!=(pair) -- atomic load and compare */
static bool anchor_ne(struct deque *d, struct pair *rhs)
{
  interfere(d);
  g_last_read = g_q.anchor_;
  if (PEQ(g_q.anchor_, *rhs))
  {
    if (PEQ(*rhs, g_obs)) g_validated = true;
    return false;
  }
  return true;
}
/* deque_anchor::cas -- 128-bit compare_exchange_strong */
static bool anchor_cas(struct deque *d, struct pair *expected, struct pair desired)
{
  interfere(d);
  g_last_read = g_q.anchor_;
  if (PEQ(g_q.anchor_, *expected))
  {
    struct pair o = g_q.anchor_;
    g_q.anchor_ = desired;
    g_nsteps = g_nsteps + 1u;
    g_step_old = o; g_step_new = desired;
    g_obs = desired;
    g_validated = false; g_bl_idx = -1; g_inward_seen = NULL;
    if (T_STAB(o, desired))
    {
#if defined(U_STABILIZE) || defined(U_STABILIZE_LEFT) || defined(U_STABILIZE_RIGHT)
      VX_REACH("helping_step");
#endif
      G_ASSERT(BACKLINK_OK(o), "the anchor is stabilized only after the missing back link (l->right->left == l resp. r->left->right == r) is in place");
      G_ASSERT(S_OK(g_q.anchor_), "a stabilizing step keeps the representation invariant at both ends");
    }
    else
    {
#if defined(U_POP_LEFT) || defined(U_POP_RIGHT) || defined(U_PUSH_LEFT) || defined(U_PUSH_RIGHT)
      VX_REACH("own_step");
#endif
      G_ASSERT(!lin, "at most one push/pop step per call");
      lin = true; lin_old = o; lin_new = desired;
      g_lin_lr = LNK_R(o.left);
      g_lin_rl = LNK_L(o.right);
      g_lin_nr = LNK_R(desired.left);
      g_lin_nl = LNK_L(desired.right);
      g_lin_owndata = g_own != NULL ? DATA_OF(g_own) : 0;
      g_lin_ldata = DATA_OF(o.left);
      g_lin_rdata = DATA_OF(o.right);
      G_ASSERT(o.ltag == stable, "a pop or push step is taken only from a STABLE anchor: an anchor in lpush/rpush state is only ever stabilized, (l,r,xpush,t) -> (l,r,stable,t+1)");
      G_ASSERT(OWN_OK(o, desired), OWN_TEXT);
      G_ASSERT(A_OK(g_q.anchor_), "the step keeps the invariant of the anchor word (both ends NULL or both non-NULL; one element => stable)");
#if defined(U_PUSH_LEFT) || defined(U_PUSH_RIGHT)
      G_ASSERT(S_OK(g_q.anchor_), "a push step keeps the representation invariant at both ends (only the one back link is missing)");
#endif
#if defined(U_PUSH_LEFT) || defined(U_PUSH_RIGHT) || defined(U_SEQ)
      g_own = NULL;   /* published */
#endif
    }
    return true;
  }
  *expected = g_q.anchor_;
  g_obs = g_q.anchor_;
  g_validated = false; g_bl_idx = -1; g_inward_seen = NULL;
  return false;
}
/* std::atomic<tagged_ptr>::load on a node link */
static struct tptr node_load(struct deque *d, struct tptr *f)
{
  interfere(d);
  g_validated = false;
  if ((g_obs.ltag == lpush && g_obs.left != NULL && f == &g_obs.left->right) ||
      (g_obs.ltag == rpush && g_obs.right != NULL && f == &g_obs.right->left))
    g_inward_seen = f->ptr;
  else if (g_obs.ltag == lpush && g_inward_seen != NULL && f == &g_inward_seen->left && f->ptr != g_obs.left)
  { g_bl_idx = IDX_OF(g_inward_seen); g_bl_left = true; g_bl_seen = *f; }
  else if (g_obs.ltag == rpush && g_inward_seen != NULL && f == &g_inward_seen->right && f->ptr != g_obs.right)
  { g_bl_idx = IDX_OF(g_inward_seen); g_bl_left = false; g_bl_seen = *f; }
  return *f;
}
/* std::atomic<tagged_ptr>::store on a node link: only ever on the caller's own unpublished node */
static void node_store(struct deque *d, struct tptr *f, struct tptr v)
{
  G_ASSERT(g_own != NULL && (f == &g_own->left || f == &g_own->right), "plain store only to a link of the caller's own, not yet published node");
  *f = v;
  if (f == &g_own->left) g_own_ll = v.ptr; else g_own_lr = v.ptr;
}
/* std::atomic<tagged_ptr>::compare_exchange_strong on a node link */
static bool node_cas(struct deque *d, struct tptr *f, struct tptr *expected, struct tptr desired)
{
  interfere(d);
  /* guarantee of the node-level step (Michael, Fig. 6): it is attempted only for the missing back link of the unstable
   * anchor this call observed, after re-validating that anchor, and installs (end node, tag+1) */
  G_ASSERT(g_obs.ltag == lpush || g_obs.ltag == rpush, "a node link is CASed only while stabilizing an unstable anchor");
  G_ASSERT(g_validated, "the anchor is re-validated between reading the link to be replaced and the node-level CAS");
  G_ASSERT(g_inward_seen != NULL && f == (g_obs.ltag == lpush ? &g_inward_seen->left : &g_inward_seen->right),
            "the node-level CAS targets the back link of the inward neighbour of the pushed end (l->right->left resp. r->left->right)");
  G_ASSERT(desired.ptr == (g_obs.ltag == lpush ? g_obs.left : g_obs.right) && desired.tag == (tag_t) ((expected->tag + 1) & 0xffff),
            "the node-level CAS installs the pushed end node with the link's ABA tag incremented");
  if (TPEQ(*f, *expected))
  {
    VX_REACH("backlink_fixed");
    *f = desired;
    return true;
  }
  *expected = *f;
  return false;
}
#ifndef U_SEQ
/* pool_.allocate() + placement new: a node that is in nobody's hands (freelist correctness: trusted, A-OWN) */
static struct node *alloc_node(struct deque *d, struct node *lptr, struct node *rptr, T v, int ltag, int rtag)
{
  struct node *n = pick();
  VX_ASSUME(n != NULL && NOREF(g_q.anchor_, n));
  G_ASSERT(g_own == NULL, "one allocation per push");
  n->left = mk_tptr(lptr, ltag);
  n->right = mk_tptr(rptr, rtag);
  n->data = v;
  g_own = n; g_own_data = v; g_own_ll = lptr; g_own_lr = rptr;
  if (g_allocs < 2) g_allocs++;
  return n;
}
#else
/* bounded sequential stand-in: array-backed LIFO freelist over the four cells (caching_freelist: deallocate pushes,
 * allocate pops -- a popped node is really reused by the next push) */
static struct node *g_free[NPOOL];
static int g_nfree;
static struct node *alloc_node(struct deque *d, struct node *lptr, struct node *rptr, T v, int ltag, int rtag)
{
  G_ASSERT(g_nfree > 0 && g_nfree <= NPOOL, "sequential stand-in: at most NPOOL live nodes");
  struct node *n = g_free[g_nfree - 1];
  g_nfree--;
  G_ASSERT(g_own == NULL, "one allocation per push");
  n->left = mk_tptr(lptr, ltag);
  n->right = mk_tptr(rptr, rtag);
  n->data = v;
  g_own = n; g_own_data = v; g_own_ll = lptr; g_own_lr = rptr;
  if (g_allocs < 2) g_allocs++;
  return n;
}
#endif
static void node_destroy(struct node *n) { (void) n; }
/* pool_.deallocate(n): the node goes back to the freelist and may be handed to another thread at once */
static void pool_deallocate(struct deque *d, struct node *n)
{
  G_ASSERT(lin, "a node is retired only after the successful CAS that unlinked it");
  G_ASSERT(g_retired == 0, "a node is retired at most once");
  if (g_retired < 2) g_retired++;
  g_retired_node = n;
  n->data = nondet_int();   /* reuse: whatever is read from the node from now on is not the popped payload */
#ifdef U_SEQ
  G_ASSERT(g_nfree >= 0 && g_nfree < NPOOL, "sequential stand-in: freelist overflow (double free)");
  g_free[g_nfree] = n;
  g_nfree++;
#endif
}

/* ---- lifted functions ---- */
void dealloc_node(struct deque *self, struct node *n)
//@LIFT dealloc_node

/* `anchor_pair& lrs` of stabilize*, lowered: the reference is a pointer, the name stays */
#define lrs (*lrs_ref)
#define STAB_ASSIGNS g_q.anchor_, *lrs_ref, POOL_OBJECTS, g_nsteps, g_step_old, g_step_new, g_last_read, g_obs, g_inward_seen, g_bl_idx, g_bl_left, g_bl_seen, g_validated
/* precondition shared by the three: lrs is a word this thread has just read from (or installed in) the anchor and holds
 * as its last observation (nothing read from the nodes yet); a node the caller has allocated but not published is
 * private.  lin, g_nsteps and the caller's node are arbitrary: pop/push call stabilize before, push_* after their step */
#define STAB_PRE (self == &g_q && S_OK(g_q.anchor_) && A_OK(*lrs_ref) && PEQ(*lrs_ref, g_obs) && \
                  g_bl_idx == -1 && g_inward_seen == NULL && !g_validated && \
                  (g_own == NULL || (INPOOL(g_own) && NOREF(g_q.anchor_, g_own))) && OWN_INTACT)
/* nobody but the caller writes the caller's unpublished node: its fields equal the caller's shadow copies */
#define OWN_INTACT (g_own == NULL || (LNK_L(g_own) == g_own_ll && LNK_R(g_own) == g_own_lr && DATA_OF(g_own) == g_own_data))

//@FUNC
void stabilize_left(struct deque *self, struct pair *lrs_ref)
__CPROVER_requires(STAB_PRE && lrs_ref->ltag == lpush)
/* at most one anchor step, and it is exactly (l, r, lpush, t) -> (l, r, stable, t+1) for the lrs passed in (no step
 * if the anchor changed meanwhile); the CAS stub has checked that the back link was in place at that moment */
__CPROVER_ensures(g_nsteps - __CPROVER_old(g_nsteps) <= 1u)
__CPROVER_ensures(g_nsteps != __CPROVER_old(g_nsteps) ==> (PEQ(g_step_old, __CPROVER_old(*lrs_ref)) && T_STAB(g_step_old, g_step_new) && g_step_old.ltag == lpush))
/* frame: the representation invariant and the caller's private node are preserved */
__CPROVER_ensures(S_OK(g_q.anchor_) && (g_own == NULL || NOREF(g_q.anchor_, g_own)))
__CPROVER_ensures(OWN_INTACT && GHOSTS_OK)
__CPROVER_assigns(STAB_ASSIGNS)
//@LIFT stabilize_left

//@FUNC
void stabilize_right(struct deque *self, struct pair *lrs_ref)
__CPROVER_requires(STAB_PRE && lrs_ref->ltag == rpush)
__CPROVER_ensures(g_nsteps - __CPROVER_old(g_nsteps) <= 1u)
__CPROVER_ensures(g_nsteps != __CPROVER_old(g_nsteps) ==> (PEQ(g_step_old, __CPROVER_old(*lrs_ref)) && T_STAB(g_step_old, g_step_new) && g_step_old.ltag == rpush))
__CPROVER_ensures(S_OK(g_q.anchor_) && (g_own == NULL || NOREF(g_q.anchor_, g_own)))
__CPROVER_ensures(OWN_INTACT && GHOSTS_OK)
__CPROVER_assigns(STAB_ASSIGNS)
//@LIFT stabilize_right

//@FUNC
void stabilize(struct deque *self, struct pair *lrs_ref)
/* called only with an unstable word */
__CPROVER_requires(STAB_PRE && lrs_ref->ltag != stable)
__CPROVER_ensures(g_nsteps - __CPROVER_old(g_nsteps) <= 1u)
__CPROVER_ensures(g_nsteps != __CPROVER_old(g_nsteps) ==> (PEQ(g_step_old, __CPROVER_old(*lrs_ref)) && T_STAB(g_step_old, g_step_new)))
__CPROVER_ensures(S_OK(g_q.anchor_) && (g_own == NULL || NOREF(g_q.anchor_, g_own)))
__CPROVER_ensures(OWN_INTACT && GHOSTS_OK)
__CPROVER_assigns(STAB_ASSIGNS)
//@LIFT stabilize
#undef lrs

//@FUNC
bool pop_left(struct deque *self, T *r)
__CPROVER_requires(self == &g_q && S_OK(g_q.anchor_) && !lin && g_retired == 0 && g_own == NULL)
/* an element is taken ONLY by one successful step from a STABLE anchor: the last element (l == r) -> (NULL, NULL),
 * otherwise (l, r, stable) -> (l->right, r, stable) */
__CPROVER_ensures(__CPROVER_return_value ==> (lin && lin_old.ltag == stable && (T_POP_LAST(lin_old, lin_new) || T_POP_LEFT(lin_old, lin_new, g_lin_lr))))
/* the value returned is the payload of exactly the node that step unlinked; that node is retired exactly once */
__CPROVER_ensures(__CPROVER_return_value ==> (*r == g_lin_ldata && g_retired == 1 && g_retired_node == lin_old.left))
/* false only after reading an empty anchor, without having taken a step or retired anything */
__CPROVER_ensures(!__CPROVER_return_value ==> (!lin && g_retired == 0 && g_last_read.left == NULL))
__CPROVER_assigns(*r, g_q.anchor_, POOL_OBJECTS, lin, lin_old, lin_new, g_lin_lr, g_lin_rl, g_lin_nr, g_lin_nl, g_lin_ldata, g_lin_rdata, g_lin_owndata, g_nsteps, g_step_old, g_step_new, g_last_read, g_obs, g_inward_seen, g_bl_idx, g_bl_left, g_bl_seen, g_validated, g_own, g_retired, g_retired_node)
//@LIFT pop_left

//@FUNC
bool pop_right(struct deque *self, T *r)
__CPROVER_requires(self == &g_q && S_OK(g_q.anchor_) && !lin && g_retired == 0 && g_own == NULL)
__CPROVER_ensures(__CPROVER_return_value ==> (lin && lin_old.ltag == stable && (T_POP_LAST(lin_old, lin_new) || T_POP_RIGHT(lin_old, lin_new, g_lin_rl))))
__CPROVER_ensures(__CPROVER_return_value ==> (*r == g_lin_rdata && g_retired == 1 && g_retired_node == lin_old.right))
__CPROVER_ensures(!__CPROVER_return_value ==> (!lin && g_retired == 0 && g_last_read.right == NULL))
__CPROVER_assigns(*r, g_q.anchor_, POOL_OBJECTS, lin, lin_old, lin_new, g_lin_lr, g_lin_rl, g_lin_nr, g_lin_nl, g_lin_ldata, g_lin_rdata, g_lin_owndata, g_nsteps, g_step_old, g_step_new, g_last_read, g_obs, g_inward_seen, g_bl_idx, g_bl_left, g_bl_seen, g_validated, g_own, g_retired, g_retired_node)
//@LIFT pop_right

//@FUNC
bool push_left(struct deque *self, T data)
__CPROVER_requires(self == &g_q && S_OK(g_q.anchor_) && !lin && g_own == NULL && g_allocs == 0)
/* the new node n (carrying `data`) is published by exactly one step from a STABLE anchor: empty -> (n, n, stable),
 * otherwise (l, r, stable) -> (n, r, lpush) with n->right == l set before the step */
__CPROVER_ensures(__CPROVER_return_value ==> (lin && g_allocs == 1 && lin_old.ltag == stable && lin_new.left != NULL && g_lin_owndata == data))
__CPROVER_ensures(__CPROVER_return_value ==> (T_PUSH_EMPTY(lin_old, lin_new, lin_new.left) || (T_PUSH_LEFT(lin_old, lin_new, lin_new.left) && g_lin_nr == lin_old.left)))
__CPROVER_ensures(!__CPROVER_return_value ==> !lin)
__CPROVER_assigns(g_q.anchor_, POOL_OBJECTS, lin, lin_old, lin_new, g_lin_lr, g_lin_rl, g_lin_nr, g_lin_nl, g_lin_ldata, g_lin_rdata, g_lin_owndata, g_nsteps, g_step_old, g_step_new, g_last_read, g_obs, g_inward_seen, g_bl_idx, g_bl_left, g_bl_seen, g_validated, g_own, g_own_data, g_own_ll, g_own_lr, g_allocs)
//@LIFT push_left

//@FUNC
bool push_right(struct deque *self, T data)
__CPROVER_requires(self == &g_q && S_OK(g_q.anchor_) && !lin && g_own == NULL && g_allocs == 0)
__CPROVER_ensures(__CPROVER_return_value ==> (lin && g_allocs == 1 && lin_old.ltag == stable && lin_new.right != NULL && g_lin_owndata == data))
__CPROVER_ensures(__CPROVER_return_value ==> (T_PUSH_EMPTY(lin_old, lin_new, lin_new.right) || (T_PUSH_RIGHT(lin_old, lin_new, lin_new.right) && g_lin_nl == lin_old.right)))
__CPROVER_ensures(!__CPROVER_return_value ==> !lin)
__CPROVER_assigns(g_q.anchor_, POOL_OBJECTS, lin, lin_old, lin_new, g_lin_lr, g_lin_rl, g_lin_nr, g_lin_nl, g_lin_ldata, g_lin_rdata, g_lin_owndata, g_nsteps, g_step_old, g_step_new, g_last_read, g_obs, g_inward_seen, g_bl_idx, g_bl_left, g_bl_seen, g_validated, g_own, g_own_data, g_own_ll, g_own_lr, g_allocs)
//@LIFT push_right

//@FUNC
bool empty(struct deque *self)
__CPROVER_requires(self == &g_q && S_OK(g_q.anchor_))
__CPROVER_ensures(__CPROVER_return_value == (g_last_read.left == NULL))
__CPROVER_assigns(g_q.anchor_, POOL_OBJECTS, g_last_read, g_obs, g_validated, g_bl_idx, g_inward_seen)
//@LIFT empty

static void init_ghosts(void)
{
  lin = false; lin_old = mk_pair(NULL, NULL, 0, 0); lin_new = lin_old; g_lin_lr = NULL; g_lin_rl = NULL; g_lin_nr = NULL; g_lin_nl = NULL; g_lin_ldata = 0; g_lin_rdata = 0; g_lin_owndata = 0;
  g_nsteps = 0; g_step_old = lin_old; g_step_new = lin_old; g_last_read = lin_old; g_inward_seen = NULL; g_bl_idx = -1; g_bl_left = false; g_bl_seen = mk_tptr(NULL, 0); g_validated = false;
  g_own = NULL; g_own_data = 0; g_own_ll = NULL; g_own_lr = NULL; g_allocs = 0; g_retired = 0; g_retired_node = NULL; g_quiescent = false;
}

#ifndef U_SEQ
void harness(void)
{
  init_ghosts();
  g_n0.data = nondet_int(); g_n1.data = nondet_int(); g_n2.data = nondet_int(); g_n3.data = nondet_int();
  havoc_shared(&g_q);
  g_obs = havoc_pair();
  g_nsteps = nondet_uint();
#if defined(U_POP_LEFT) || defined(U_POP_RIGHT)
  T out = 0;
#ifdef U_POP_LEFT
  bool ok = pop_left(&g_q, &out);
#else
  bool ok = pop_right(&g_q, &out);
#endif
  if (ok) VX_REACH("popped"); else VX_REACH("empty");
  if (ok && lin_old.left == lin_old.right) VX_REACH("popped_last_element");
  if (ok && lin_old.left != lin_old.right) VX_REACH("popped_one_of_several");
#endif
#if defined(U_PUSH_LEFT) || defined(U_PUSH_RIGHT)
  T v = nondet_int();
#ifdef U_PUSH_LEFT
  bool ok = push_left(&g_q, v);
#else
  bool ok = push_right(&g_q, v);
#endif
  if (ok && lin_old.left == NULL) VX_REACH("pushed_onto_empty");
  if (ok && lin_old.left != NULL) VX_REACH("pushed_onto_nonempty");
#endif
#if defined(U_STABILIZE_LEFT) || defined(U_STABILIZE_RIGHT) || defined(U_STABILIZE)
  struct pair w = g_q.anchor_;
  g_obs = w;
  /* the callers' context is arbitrary: before or after their own step, with or without an unpublished node */
  lin = nondet_bool(); g_nsteps = nondet_uint();
  g_own = pick(); g_own_ll = LNK_L(g_own); g_own_lr = LNK_R(g_own); g_own_data = DATA_OF(g_own);
  bool had_own = g_own != NULL;
#if defined(U_STABILIZE_LEFT)
  stabilize_left(&g_q, &w);
#elif defined(U_STABILIZE_RIGHT)
  stabilize_right(&g_q, &w);
#else
  stabilize(&g_q, &w);
#endif
  if (g_step_new.ltag == stable && PEQ(g_q.anchor_, g_step_new) && g_step_new.left != NULL) VX_REACH("stabilized"); else VX_REACH("no_anchor_step");
  if (had_own) VX_REACH("caller_holds_unpublished_node");
#endif
#ifdef U_EMPTY
  if (empty(&g_q)) VX_REACH("is_empty"); else VX_REACH("not_empty");
#endif
}
#endif

#ifdef U_SEQ
/* BOUNDED sequential stand-in (never counted as proof): one thread, no interference.  ALL 4^NOPS operation sequences of
 * length NOPS = 4 over push_left / push_right / pop_left / pop_right are enumerated -- the unit instance fixes the first
 * two operations (SEQ_FIRST2), the harness loops over the other two; operation codes are concrete, pushed values symbolic.
 * Every assertion is made after each operation, so all shorter sequences are covered as prefixes.  Each sequence is
 * followed by a drain, once entirely from the left and once entirely from the right (mixed pop orders are already
 * part of the enumerated sequences).  Reference model: an array window model[lo, hi). */
#ifndef NOPS
#define NOPS 4
#endif
static bool g_seen_two, g_seen_both_ends, g_seen_emptied;
static void run_sequence(unsigned code, bool drain_left)
{
  init_ghosts();
  g_quiescent = true;
  g_q.anchor_ = mk_pair(NULL, NULL, stable, 0);          /* deque_anchor(): pair(nullptr, nullptr, stable, 0) */
  g_n0.left = mk_tptr(NULL, 0); g_n0.right = mk_tptr(NULL, 0); g_n0.data = 0;
  g_n1 = g_n0; g_n2 = g_n0; g_n3 = g_n0;
  g_free[0] = &g_n3; g_free[1] = &g_n2; g_free[2] = &g_n1; g_free[3] = &g_n0; g_nfree = NPOOL;
  g_obs = g_q.anchor_;
  T model[2 * NOPS + 1];
  int lo = NOPS, hi = NOPS;
  bool used_left = false, used_right = false;
  for (int i = 0; i < NOPS; i++)
  {
    unsigned op = (code >> (2 * i)) & 3u;
    T v = nondet_int(), out = 0;
    bool ok;
    lin = false; g_retired = 0; g_own = NULL; g_allocs = 0;
    if (op == 0)
    {
      ok = push_left(&g_q, v);
      VX_ASSERT(ok && lin, "push_left succeeds by one step");
      lo--; model[lo] = v; used_left = true;
    }
    else if (op == 1)
    {
      ok = push_right(&g_q, v);
      VX_ASSERT(ok && lin, "push_right succeeds by one step");
      model[hi] = v; hi++; used_right = true;
    }
    else if (op == 2)
    {
      ok = pop_left(&g_q, &out);
      VX_ASSERT(ok == (lo < hi), "pop_left on a non-empty quiescent deque succeeds, on an empty one it fails");
      if (ok) { VX_ASSERT(out == model[lo], "pop_left returns the leftmost element (push_left;pop_left = LIFO, push_right;pop_left = FIFO): nothing invented"); lo++; }
    }
    else
    {
      ok = pop_right(&g_q, &out);
      VX_ASSERT(ok == (lo < hi), "pop_right on a non-empty quiescent deque succeeds, on an empty one it fails");
      if (ok) { VX_ASSERT(out == model[hi - 1], "pop_right returns the rightmost element (push_right;pop_right = LIFO, push_left;pop_right = FIFO): nothing invented"); hi--; }
    }
    VX_ASSERT(empty(&g_q) == (lo == hi), "empty() iff the model is empty");
    VX_ASSERT(g_q.anchor_.ltag == stable, "a completed operation leaves the quiescent deque stable");
    VX_ASSERT(g_nfree == NPOOL - (hi - lo), "exactly the nodes of the elements in the deque are allocated");
  }
  if (hi - lo >= 2) g_seen_two = true;
  if (used_left && used_right) g_seen_both_ends = true;
  if (lo == hi && (used_left || used_right)) g_seen_emptied = true;
  /* drain */
  for (int k = 0; k < NOPS; k++)
  {
    if (lo == hi) break;
    T out = 0;
    lin = false; g_retired = 0; g_own = NULL; g_allocs = 0;
    if (drain_left)
    {
      VX_ASSERT(pop_left(&g_q, &out), "drain: pop_left on a non-empty quiescent deque succeeds");
      VX_ASSERT(out == model[lo], "drain: leftmost element");
      lo++;
    }
    else
    {
      VX_ASSERT(pop_right(&g_q, &out), "drain: pop_right on a non-empty quiescent deque succeeds");
      VX_ASSERT(out == model[hi - 1], "drain: rightmost element");
      hi--;
    }
  }
  VX_ASSERT(lo == hi, "drained after at most NOPS pops");
  VX_ASSERT(empty(&g_q) && g_nfree == NPOOL, "a drained deque is empty and every node is back in the freelist");
  {
    T out = 0;
    lin = false; g_retired = 0;
    VX_ASSERT(!pop_left(&g_q, &out) && !pop_right(&g_q, &out), "pops on the drained deque fail");
  }
}
void harness(void)
{
  g_seen_two = false; g_seen_both_ends = false; g_seen_emptied = false;
  for (unsigned rest = 0; rest < (1u << (2 * (NOPS - 2))); rest++)
  {
    run_sequence(SEQ_FIRST2 | (rest << 4), true);
    run_sequence(SEQ_FIRST2 | (rest << 4), false);
  }
  if (g_seen_two) VX_REACH("held_two_or_more_elements");
  if (g_seen_both_ends) VX_REACH("pushed_at_both_ends");
  if (g_seen_emptied) VX_REACH("emptied_by_pops_before_drain");
  VX_REACH("all_sequences_drained");
}
#endif
