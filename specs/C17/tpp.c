/* C17 -- tagged_ptr_pair<Left,Right>: bit packing of (left ptr, left tag, right ptr, right tag) into 128 bits (F-contracts,
 * loop-free, full domain: complete).  Pointers are 64-bit integers here (reinterpret_cast is the identity on bits). */
#include "vx.h"
typedef uint64_t ptr_t;              /* Left* / Right* */
typedef uint64_t compressed_ptr_t;
typedef uint16_t tag_t;
struct uint128_type { uint64_t left; uint64_t right; };
typedef struct uint128_type compressed_ptr_pair_t;
union cast_unit { compressed_ptr_pair_t value; tag_t tags[8]; };
typedef union cast_unit cast_unit;
/* constants read from the header by spec.py */
#if !defined(left_tag_index) || !defined(right_tag_index) || !defined(ptr_mask)
#error "tagged_ptr_pair.hpp no longer defines left_tag_index / right_tag_index / ptr_mask"
#endif
struct tpp { compressed_ptr_pair_t pair_; };
/* canonical user-space pointer: fits the 48-bit mask */
#define CANON(p) (((p) & ~(uint64_t) ptr_mask) == 0)

ptr_t extract_left_ptr(compressed_ptr_pair_t const *i)
//@LIFT extract_left_ptr
ptr_t extract_right_ptr(compressed_ptr_pair_t const *i)
//@LIFT extract_right_ptr
tag_t extract_left_tag(compressed_ptr_pair_t const *i)
//@LIFT extract_left_tag
tag_t extract_right_tag(compressed_ptr_pair_t const *i)
//@LIFT extract_right_tag

#ifdef U_PACK
//@FUNC
void pack_ptr_pair(compressed_ptr_pair_t *pair, ptr_t lptr, ptr_t rptr, uint64_t ltag, uint64_t rtag)
__CPROVER_requires(CANON(lptr) && CANON(rptr))
/* the four extract functions are inverse to pack on all four fields (tags are taken modulo 2^16) */
__CPROVER_ensures(extract_left_ptr(pair) == lptr && extract_right_ptr(pair) == rptr)
__CPROVER_ensures(extract_left_tag(pair) == (tag_t) ltag && extract_right_tag(pair) == (tag_t) rtag)
__CPROVER_assigns(*pair)
//@LIFT pack
#else
void pack_ptr_pair(compressed_ptr_pair_t *pair, ptr_t lptr, ptr_t rptr, uint64_t ltag, uint64_t rtag)
//@LIFT pack
#endif

static ptr_t get_left_ptr(struct tpp *self) { return extract_left_ptr(&self->pair_); }
static ptr_t get_right_ptr(struct tpp *self) { return extract_right_ptr(&self->pair_); }
static tag_t get_left_tag(struct tpp *self) { return extract_left_tag(&self->pair_); }
static tag_t get_right_tag(struct tpp *self) { return extract_right_tag(&self->pair_); }
#define FIELDS_OK(self) (CANON(get_left_ptr(self)) && CANON(get_right_ptr(self)))

#ifdef U_SET
/* spec view of the 128-bit word (little endian: 16-bit lane 3 / 7 is the top of each half) */
#define S_LPTR(p) ((p).left & (uint64_t) ptr_mask)
#define S_RPTR(p) ((p).right & (uint64_t) ptr_mask)
#define S_LTAG(p) ((uint64_t)(tag_t)((p).left >> 48))
#define S_RTAG(p) ((uint64_t)(tag_t)((p).right >> 48))
#define S_FIELD(k, p) ((k) == 0 ? S_LPTR(p) : (k) == 1 ? S_RPTR(p) : (k) == 2 ? S_LTAG(p) : S_RTAG(p))
/* each setter stores its argument in its own field and changes no other field */
//@FUNC
void set_field(struct tpp *self, uint64_t v)
__CPROVER_requires(CANON(v) || SET_IS_TAG)
__CPROVER_ensures(S_FIELD(SET_WHICH, self->pair_) == (SET_IS_TAG ? (uint64_t)(tag_t) v : v))
__CPROVER_ensures(SET_WHICH == 0 || S_LPTR(self->pair_) == (__CPROVER_old(self->pair_.left) & (uint64_t) ptr_mask))
__CPROVER_ensures(SET_WHICH == 1 || S_RPTR(self->pair_) == (__CPROVER_old(self->pair_.right) & (uint64_t) ptr_mask))
__CPROVER_ensures(SET_WHICH == 2 || S_LTAG(self->pair_) == (uint64_t)(tag_t)(__CPROVER_old(self->pair_.left) >> 48))
__CPROVER_ensures(SET_WHICH == 3 || S_RTAG(self->pair_) == (uint64_t)(tag_t)(__CPROVER_old(self->pair_.right) >> 48))
/* and the getters agree with the spec view */
__CPROVER_ensures(get_left_ptr(self) == S_LPTR(self->pair_) && get_right_ptr(self) == S_RPTR(self->pair_) && get_left_tag(self) == S_LTAG(self->pair_) && get_right_tag(self) == S_RTAG(self->pair_))
__CPROVER_assigns(self->pair_)
//@LIFT setter
#endif

void harness(void)
{
  struct tpp t;
  t.pair_.left = nondet_u64();
  t.pair_.right = nondet_u64();
#ifdef U_PACK
  compressed_ptr_pair_t p;
  pack_ptr_pair(&p, nondet_u64(), nondet_u64(), nondet_u64(), nondet_u64());
  VX_REACH("packed");
  if (extract_left_tag(&p) == 0xffff && extract_right_tag(&p) == 0xffff) VX_REACH("max_tags");
#endif
#ifdef U_SET
  set_field(&t, nondet_u64());
  VX_REACH("set");
#endif
}
