/* C17 -- ConcurrentQueue implicit sub-queue: lemma harness over the STEP GUARANTEES asserted in mcq_dequeue.c / mcq_enqueue.c
 * (no lifted text).  It justifies the RELY that mcq_interfere() of mcq_dequeue.c assumes: for an arbitrary shared state G
 * with MCQ_INV, an ACTING thread x and an OBSERVING thread y (each with its per-thread invariant MCQ_ME), every transition of
 * x -- performed with the very macros MCQ_DO_* the atomic stubs use -- leaves
 *     MCQ_INV(G') (for a claim this is x's own asserted guarantee and therefore a hypothesis here),
 *     MCQ_ME(G', y') for the observer, whose ghost counts are updated by the rule stated at each case,
 *     H and O grown, y'.above only ever switching off.
 * By induction over the interleaved history (DESIGN 3.4) MCQ_INV and every thread's MCQ_ME then hold in every reachable state,
 * which is exactly what interfere() assumes.
 *
 * The ghost counts are cardinalities of sets of tickets; what ties the counts of TWO threads together (PAIR below) are
 * inclusions between those sets, stated here as hypotheses (not derived: that would need the sets themselves):
 *   x below y (t_x < t_y), both undecided:  {undecided below x} + {x} is a subset of {undecided below y}
 *                                            a claimed ticket above y is above x as well
 *   both undecided:                          they are two different members of the undecided set (and of the Ub set when
 *                                            both are below the largest claimed ticket)
 * A-BOUNDED margins (fewer than 2^60 steps of other threads while a call runs) are hypotheses as well. */
#include "mcq.h"

static struct mcq_thread any_thread(void)
{
  struct mcq_thread m;
  m.phase = nondet_int(); m.t = nondet_u64(); m.o = nondet_u64(); m.o_valid = nondet_bool();
  m.tail = nondet_u64(); m.tail_valid = nondet_bool(); m.above = nondet_bool(); m.Ubm = nondet_u64(); m.D = nondet_u64();
  return m;
}
#define PHASE_OK(m) ((m).phase == PH_IDLE || (m).phase == PH_UNDECIDED || (m).phase == PH_CLAIMED || (m).phase == PH_REGISTERED)
#define UND(m) ((m).phase == PH_UNDECIDED)
/* two different threads: what the set inclusions give (xb: x's ticket is the smaller one) */
#define PAIR(g, x, y, xb) (!(UND(x) && UND(y)) || ((g).U >= 2 && \
    ((xb) ? ((!(y).above || (y).Ubm >= 1) && (!((y).above && (x).above) || (x).Ubm + 1 <= (y).Ubm) && ((y).above || (!(x).above && (g).Ub >= 2))) \
          : ((!(x).above || (x).Ubm >= 1) && (!((x).above && (y).above) || (y).Ubm + 1 <= (x).Ubm) && ((x).above || (!(y).above && (g).Ub >= 2)) && \
             (!(y).above || (y).Ubm + 2 <= (g).U)))))
/* a thread that has not taken its ticket yet has no position; the ticket it takes is the largest */
#define MARGINS(g, y) ((g).U + 2 < MCQ_BIG && (y).D + 1 < MCQ_BIG && (!(y).o_valid || (index_t) ((g).O - (y).o) + 1 < MCQ_BIG) && \
                       (!(y).tail_valid || (index_t) ((g).T - (y).tail) + 1 < MCQ_BIG))

void harness(void)
{
  struct mcq_shared G, G0;
  G.T = nondet_u64(); G.H = nondet_u64(); G.C = nondet_u64(); G.O = nondet_u64(); G.U = nondet_u64(); G.Ub = nondet_u64();
  struct mcq_thread x = any_thread(), y = any_thread(), y0;
  bool xb = nondet_bool();
  uint8_t which = nondet_u8();

  if (!(PHASE_OK(x) && PHASE_OK(y) && MCQ_INV(G) && MCQ_ME(G, x) && MCQ_ME(G, y) && MARGINS(G, y))) return;
  VX_REACH("some_state_satisfies_the_invariants");
  G0 = G; y0 = y;

  switch (which)
  {
  case 1:   /* TICKET by x.  Observer rule: nothing changes for y (the new ticket is above every existing one) */
    if (x.phase == PH_IDLE && x.o_valid)
    {
      MCQ_DO_TICKET(G, x, 1);
      VX_REACH("L1_ticket");
      VX_ASSERT(MCQ_INV(G), "L1: a ticket keeps the invariant");
      VX_ASSERT(MCQ_ME(G, x), "L1: the ticket holder's own invariant is established");
      VX_ASSERT(MCQ_ME(G, y), "L1: a ticket taken by another thread keeps the observer's invariant");
      if (UND(y) && y.above) VX_REACH("L1_observer_undecided_above");
    }
    break;
  case 2:   /* CLAIM by x.  Observer rule: x below y -> one undecided ticket fewer below y; x above y -> y is no longer above */
    if (UND(x) && PAIR(G, x, y, xb))
    {
      MCQ_DO_CLAIM(G, x, 1);
      if (!MCQ_INV(G)) break;                     /* x's guarantee, asserted at its headIndex.fetch_add (unit mcq.dequeue) */
      VX_REACH("L2_claim");
      if (UND(y)) { if (xb) { if (y.above) y.Ubm -= 1; } else y.above = false; }
      VX_ASSERT(MCQ_ME(G, y), "L2: a claim by another thread keeps the observer's invariant");
      VX_ASSERT(!y.above || y0.above, "L2: above only switches off");
      VX_ASSERT((index_t) (G.H - G0.H) < MCQ_BIG && G.O == G0.O && G.T == G0.T, "L2: a claim advances head only");
      if (UND(y) && xb && y.above && x.above) VX_REACH("L2_below_observer_both_above");
      if (UND(y) && !xb && y0.above) VX_REACH("L2_overtakes_observer");
      if (UND(y) && !y0.above && !x.above) VX_REACH("L2_both_below_largest_claim");
    }
    break;
  case 3:   /* REGISTER by x.  Observer rule: x below y (y above) -> one undecided fewer below y, one more registered since y looked */
    if (UND(x) && PAIR(G, x, y, xb))
    {
      MCQ_DO_REGISTER(G, x, 1);
      VX_REACH("L3_register");
      VX_ASSERT(MCQ_INV(G), "L3: registering an overcommit keeps the invariant");
      if (UND(y) && xb && y.above) { y.Ubm -= 1; y.D += 1; }
      VX_ASSERT(MCQ_ME(G, y), "L3: an overcommit registered by another thread keeps the observer's invariant");
      VX_ASSERT(y.above == y0.above, "L3: registering does not change who is above");
      VX_ASSERT((index_t) (G.O - G0.O) < MCQ_BIG && G.H == G0.H && G.T == G0.T, "L3: registering advances dequeueOvercommit only");
      if (UND(y) && xb && y.above) VX_REACH("L3_below_observer");
      if (UND(y) && !xb && !y.above && x.above) VX_REACH("L3_above_observer");
    }
    break;
  case 4:   /* PUBLISH by the producer (unit mcq.enqueue: tail + 1, within 2^60 of head) */
    if ((index_t) (G.T - G.H) + 1 < MCQ_BIG)
    {
      MCQ_DO_PUBLISH(G, 1);
      VX_REACH("L4_publish");
      VX_ASSERT(MCQ_INV(G), "L4: publishing an element keeps the invariant");
      VX_ASSERT(MCQ_ME(G, y), "L4: publishing keeps the observer's invariant");
    }
    break;
  case 5:   /* consequences used in the property argument */
    VX_REACH("L5");
    VX_ASSERT(!CLT_SPEC(G.T, G.H), "L5: head never passes tail");
    VX_ASSERT(G.T == G.H || CLT_SPEC(G.H, G.T), "L5: head == tail or head before tail");
    if (G.U == 0) VX_ASSERT((index_t) (G.C - G.O) == G.H, "L5: quiescent: tickets - overcommits == successful dequeues");
    break;
  case 6:   /* two claims never hand out the same index: the second one happens after head was advanced past the first */
    if (UND(x) && UND(y))
    {
      index_t ix = G.H;
      MCQ_DO_CLAIM(G, x, 1);
      index_t dH = nondet_u64();                  /* claims of further threads in between (rely: head only grows) */
      if (dH >= MCQ_BIG) break;
      G.H += dH;
      index_t iy = G.H;
      MCQ_DO_CLAIM(G, y, 1);
      VX_REACH("L6_two_claims");
      VX_ASSERT(ix != iy && (index_t) (iy - ix) - 1 < MCQ_BIG, "L6: two claims get different indices (the later one a larger index)");
    }
    break;
  default:
    break;
  }
}
