/* C17 (addition) -- contiguous_index_queue<T>: the members that ciq.c does not cover: range's constructors (lines 36-46),
 * the queue's constructors and its copy operations (the remaining writers of current_range besides reset / pop_*).
 * Types and the interference stub follow ciq.c (std::atomic<range> = one indivisible word, rely = the interval only shrinks). */
#include "vx.h"
typedef T_TYPE T;
#define nondet_T T_NONDET
struct range { T first; T last; };
struct ciq { struct range initial_range; struct range current_range; /* cache_line_data<std::atomic<range>> */ };

#define WINV(r) ((r).first <= (r).last)
#define RELY(o, n) (WINV(n) && (n).first >= (o).first && (n).last <= (o).last)   /* the interval only shrinks */
#define REQ(a, b) ((a).first == (b).first && (a).last == (b).last)
#define R_EMPTY(r) ((r).first >= (r).last)

static long g_loads, g_stores;
static struct range g_last_read, g_src_at_load;

/* environment: other threads may pop from a queue while it is being copied (the header says no synchronisation is done) */
static void interfere(struct range *p)
{
  if (nondet_bool())
  {
    struct range n;
    n.first = nondet_T();
    n.last = nondet_T();
    VX_ASSUME(RELY(*p, n));   /* rely of the word, proved as the guarantee of pop_left / pop_right in ciq.c */
    *p = n;
  }
}
/* std::atomic<range>::load */
static struct range atomic_load(struct range *p)
{
  interfere(p);
  if (g_loads < 1000) g_loads++;
  g_src_at_load = *p;
  g_last_read = *p;
  return *p;
}
/* std::atomic<range>::operator=(range) (a seq_cst store); the header documents that the caller excludes concurrent users of
 * the queue that is written */
static void atomic_store(struct range *p, struct range v)
{
  if (g_stores < 1000) g_stores++;
  *p = v;
}

/* ---- range: default member initialisers + `range() = default`, and range(T, T) (lifted) ---- */
/* a default constructed range holds no index */
//@FUNC
void range_default(struct range *self)
__CPROVER_ensures(R_EMPTY(*self) && WINV(*self))
__CPROVER_assigns(self->first, self->last)
//@LIFT range_nsdmi
/* F: the two constructor arguments become the two bounds, in this order */
//@FUNC
void range_ctor(struct range *self, T first, T last)
__CPROVER_ensures(self->first == first && self->last == last)
__CPROVER_assigns(self->first, self->last)
//@LIFT range_ctor

#if defined(U_CTOR_RANGE)
void reset(struct ciq *self, T first, T last)
//@LIFT reset
#endif

#ifdef U_CTOR_DEFAULT
/* "Construct a new queue with an empty range": nothing can be popped from it */
//@FUNC
void ctor_default(struct ciq *self)
__CPROVER_ensures(R_EMPTY(self->current_range) && WINV(self->current_range))
__CPROVER_assigns(self->initial_range, self->current_range)
//@LIFT body
#endif

#ifdef U_CTOR_RANGE
/* "Construct a new queue with the given range as the initial range" */
//@FUNC
void ctor_range(struct ciq *self, T first, T last)
__CPROVER_requires(first <= last)    /* reset's PIKA_ASSERT: the caller's duty */
__CPROVER_ensures(self->current_range.first == first && self->current_range.last == last)
__CPROVER_ensures(self->initial_range.first == first && self->initial_range.last == last)
__CPROVER_assigns(self->initial_range, self->current_range)
//@LIFT body
#endif

#ifdef U_COPY_CTOR
/* the copy holds exactly the interval that ONE atomic read of the source returned (a sub-interval of what the source held
 * when the call started: nothing invented), the source is not written, the initial interval is copied */
//@FUNC
void copy_ctor(struct ciq *self, struct ciq *other)
__CPROVER_requires(WINV(other->current_range) && g_loads == 0 && g_stores == 0)
__CPROVER_ensures(g_loads == 1 && REQ(self->current_range, g_last_read) && WINV(self->current_range))
__CPROVER_ensures(RELY(__CPROVER_old(other->current_range), self->current_range))
__CPROVER_ensures(REQ(other->current_range, g_src_at_load))
__CPROVER_ensures(REQ(self->initial_range, __CPROVER_old(other->initial_range)) && REQ(other->initial_range, __CPROVER_old(other->initial_range)))
__CPROVER_assigns(self->initial_range, self->current_range, other->current_range, g_loads, g_stores, g_last_read, g_src_at_load)
//@LIFT body
#endif

#ifdef U_COPY_ASSIGN
//@FUNC
struct ciq *copy_assign(struct ciq *self, struct ciq *other)
__CPROVER_requires(WINV(other->current_range) && g_loads == 0 && g_stores == 0)
__CPROVER_ensures(g_loads == 1 && REQ(self->current_range, g_last_read) && WINV(self->current_range))
__CPROVER_ensures(RELY(__CPROVER_old(other->current_range), self->current_range))
__CPROVER_ensures(REQ(other->current_range, g_src_at_load))
__CPROVER_ensures(REQ(self->initial_range, __CPROVER_old(other->initial_range)) && REQ(other->initial_range, __CPROVER_old(other->initial_range)))
__CPROVER_ensures(__CPROVER_return_value == self)
__CPROVER_assigns(self->initial_range, self->current_range, other->current_range, g_loads, g_stores, g_last_read, g_src_at_load)
//@LIFT body
#endif

void harness(void)
{
  struct ciq q, src;
  g_loads = 0; g_stores = 0;
  g_last_read.first = 0; g_last_read.last = 0; g_src_at_load = g_last_read;
  q.initial_range.first = nondet_T(); q.initial_range.last = nondet_T();
  q.current_range.first = nondet_T(); q.current_range.last = nondet_T();
  src.initial_range.first = nondet_T(); src.initial_range.last = nondet_T();
  src.current_range.first = nondet_T(); src.current_range.last = nondet_T();
#ifdef U_RANGE_CTOR
  T a = nondet_T(), b = nondet_T();
  range_ctor(&q.current_range, a, b);
  if (a < b) VX_REACH("non_empty"); else VX_REACH("empty");
#endif
#ifdef U_RANGE_DEFAULT
  range_default(&q.current_range);
  VX_REACH("constructed");
#endif
#ifdef U_CTOR_DEFAULT
  ctor_default(&q);
  VX_REACH("constructed");
#endif
#ifdef U_CTOR_RANGE
  T a = nondet_T(), b = nondet_T();
  ctor_range(&q, a, b);
  if (a < b) VX_REACH("non_empty"); else VX_REACH("empty");
#endif
#if defined(U_COPY_CTOR) || defined(U_COPY_ASSIGN)
  struct range before = src.current_range;
#ifdef U_COPY_CTOR
  copy_ctor(&q, &src);
#else
  copy_assign(&q, &src);
#endif
  if (REQ(q.current_range, before)) VX_REACH("copied_quiescent"); else VX_REACH("copied_after_interference");
  if (R_EMPTY(q.current_range)) VX_REACH("copied_empty"); else VX_REACH("copied_non_empty");
#endif
}
