/* C17 -- the free list behind the lock-free deque: pika::concurrency::detail::caching_freelist / static_freelist
 * (pika/concurrency/detail/freelist.hpp) are two-line wrappers around boost::lockfree::detail::freelist_stack
 * (boost/lockfree/detail/freelist.hpp, Boost 1.83 as installed in this sandbox -- the header the pinned build compiles
 * against; NOT part of /repo), whose head word is a boost::lockfree::detail::tagged_ptr (x86-64: the pointer-compression
 * variant tagged_ptr_ptrcompression.hpp: 48-bit pointer + 16-bit tag in one 64-bit word).
 * C types, specification view of the packed word, ghost heap and the rely/guarantee of the head word `pool_`.
 * Nothing in this file is pika or Boost logic: every function body of the code under contract is lifted. */
#ifndef C17_FREELIST_H
#define C17_FREELIST_H
#include "vx.h"

/* ---- C spelling of the C++ types --------------------------------------------------------------------------------- */
typedef uint64_t ptr_t;              /* T*, freelist_node*, void*: an address (pointers are packed into integers by the code itself) */
typedef uint64_t compressed_ptr_t;   /* boost::uint64_t */
typedef uint16_t tag_t;              /* boost::uint16_t */
union cast_unit { compressed_ptr_t value; tag_t tag[4]; };
typedef union cast_unit cast_unit;
struct tagged_ptr { compressed_ptr_t ptr; };          /* tagged_ptr<T>: one data member `compressed_ptr_t ptr` */
typedef struct tagged_ptr tagged_node_ptr;            /* typedef tagged_ptr<freelist_node> tagged_node_ptr */
struct T_payload { uint64_t w[4]; };                  /* T = deque_node<..>: {left link, right link, data}; only its size is used */
typedef struct T_payload T;
#if !defined(tag_index) || !defined(ptr_mask)
#error "tagged_ptr_ptrcompression.hpp no longer defines tag_index / ptr_mask (read from the header by freelist_spec.py)"
#endif
/* (std::numeric_limits<tag_t>::max)() */
#define VX_NUMERIC_LIMITS_MAX_tag_t ((tag_t) ~(tag_t) 0)

/* ---- specification view of the packed word (little endian: 16-bit lane 3 is the top of the word) -------------------- */
#define SPEC_PTR_MASK 0xffffffffffffull
#define S_PTR(w) ((uint64_t) (w) & SPEC_PTR_MASK)
#define S_TAG(w) ((tag_t) ((uint64_t) (w) >> 48))
#define S_WORD(p, t) (((uint64_t) (p) & SPEC_PTR_MASK) | ((uint64_t) (tag_t) (t) << 48))
#define CANON(p) (((uint64_t) (p) & ~SPEC_PTR_MASK) == 0)      /* canonical user-space address: fits 48 bits */
#define TAG_SUCC(t) ((tag_t) (((t) + 1) & 0xffff))

#endif
