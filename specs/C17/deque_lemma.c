/* C17 -- Michael's lock-free deque: lemma harness over the STEP GUARANTEES asserted in deque.c (no lifted text).
 *
 * The transitions T_* and the ends-only invariant S_OK are the very macros of deque.h that the step units assert /
 * assume.  Here the heap is ALL heaps of at most NPOOL = 4 nodes (every link field symbolic) together with a ghost
 * abstract value: the sequence s0 .. s(m-1) of nodes currently in the deque, left to right.
 *   FINV = full representation invariant: anchor.left / anchor.right are the two ends of the sequence, the nodes are
 *          pairwise distinct, every adjacent pair is doubly linked -- except that in state lpush ONLY the back link
 *          s1->left (to the freshly pushed left end) and in state rpush ONLY the link s(m-2)->right (to the freshly pushed
 *          right end) may still be missing; 0 or 1 element => stable.
 * Lemmas (one per case label of harness()):
 *   L1  FINV => S_OK                    (the invariant assumed by interfere() in deque.c is implied by the full one)
 *   L2  pop_left  step keeps FINV; the node unlinked is s0  and the abstract sequence loses exactly its first element
 *   L3  pop_right step keeps FINV; the node unlinked is s(m-1) and the abstract sequence loses exactly its last element
 *   L4  push_left  step (fresh node x, x->right == old left end set beforehand) keeps FINV; sequence becomes x :: seq
 *   L5  push_right step keeps FINV; sequence becomes seq :: x
 *   L6  the node-level step of stabilize (write the missing back link) keeps FINV, establishes BACKLINK_OK, and does
 *       not touch a link the rely declares protected while the anchor stays (rely (b) of deque.c)
 *   L7  the stabilizing anchor step (l,r,xpush,t) -> (l,r,stable,t+1), taken with BACKLINK_OK, keeps FINV and the sequence
 *   L8  every anchor transition changes the 128-bit word (tag+1): guarantee is contained in rely (a) for one step
 * The extension from <= 4 nodes to arbitrary length is the usual list-segment framing argument (no step reads or
 * writes a node other than the two end nodes, their inward neighbours and the caller's new node) -- on paper. */
#include "deque.h"

#define LAST(m, s0, s1, s2, s3) ((m) == 1 ? (s0) : (m) == 2 ? (s1) : (m) == 3 ? (s2) : (s3))
#define PAIR_OK(a, m, i, x, y) ((i) + 1 >= (m) || \
    ((LNK_R(x) == (y) || ((a).ltag == rpush && (i) + 1 == (m) - 1)) && (LNK_L(y) == (x) || ((a).ltag == lpush && (i) == 0))))
#define FINV(a, m, s0, s1, s2, s3) ( \
    (m) >= 0 && (m) <= 4 && POOL_OK && ((a).ltag == stable || (a).ltag == rpush || (a).ltag == lpush) && \
    ((m) == 0 ? ((a).left == NULL && (a).right == NULL) : ((a).left == (s0) && (a).right == LAST(m, s0, s1, s2, s3))) && \
    ((m) >= 2 || (a).ltag == stable) && \
    ((m) < 1 || INPOOL(s0)) && ((m) < 2 || (INPOOL(s1) && (s1) != (s0))) && \
    ((m) < 3 || (INPOOL(s2) && (s2) != (s0) && (s2) != (s1))) && \
    ((m) < 4 || (INPOOL(s3) && (s3) != (s0) && (s3) != (s1) && (s3) != (s2))) && \
    PAIR_OK(a, m, 0, s0, s1) && PAIR_OK(a, m, 1, s1, s2) && PAIR_OK(a, m, 2, s2, s3))

static struct node *pick(void)
{
  uint8_t k = nondet_u8();
  if (k == 0) return NULL;
  if (k == 1) return &g_n0;
  if (k == 2) return &g_n1;
  if (k == 3) return &g_n2;
  return &g_n3;
}
static struct pair any_pair(void)
{
  struct pair p;
  p.left = pick(); p.right = pick(); p.ltag = nondet_u16(); p.rtag = nondet_u16();
  return p;
}
#define HAVOC_NODE(n) do { (n).left.ptr = pick(); (n).left.tag = nondet_u16(); (n).right.ptr = pick(); (n).right.tag = nondet_u16(); (n).data = nondet_int(); } while (0)

void harness(void)
{
  HAVOC_NODE(g_n0); HAVOC_NODE(g_n1); HAVOC_NODE(g_n2); HAVOC_NODE(g_n3);
  struct pair a = any_pair();       /* anchor before the step */
  struct pair n = any_pair();       /* anchor after the step */
  struct node *s0 = pick(), *s1 = pick(), *s2 = pick(), *s3 = pick();
  int m = nondet_int();
  struct node *x = pick();          /* the pushing thread's new node */
  uint8_t which = nondet_u8();

  if (!FINV(a, m, s0, s1, s2, s3)) return;
  VX_REACH("some_heap_satisfies_FINV");
  if (m == 4 && a.ltag == lpush) VX_REACH("four_nodes_lpush");

  switch (which)
  {
  case 1:   /* L1 */
    VX_ASSERT(S_OK(a), "L1: the full representation invariant implies the ends-only invariant S_OK assumed in deque.c");
    if (m >= 3 && a.ltag == rpush) VX_REACH("L1_rpush");
    break;
  case 2:   /* L2 pop_left */
    if (T_POP_LAST(a, n) || T_POP_LEFT(a, n, LNK_R(a.left)))
    {
      VX_REACH("L2_pop_left_step");
      VX_ASSERT(m >= 1 && a.left == s0, "L2: the node unlinked by a pop_left step is the first element of the sequence");
      VX_ASSERT(FINV(n, m - 1, s1, s2, s3, s3), "L2: a pop_left step keeps the representation invariant; the sequence loses exactly its first element");
      if (m == 1) VX_REACH("L2_last_element");
      if (m == 4) VX_REACH("L2_four");
    }
    break;
  case 3:   /* L3 pop_right */
    if (T_POP_LAST(a, n) || T_POP_RIGHT(a, n, LNK_L(a.right)))
    {
      VX_REACH("L3_pop_right_step");
      VX_ASSERT(m >= 1 && a.right == LAST(m, s0, s1, s2, s3), "L3: the node unlinked by a pop_right step is the last element of the sequence");
      VX_ASSERT(FINV(n, m - 1, s0, s1, s2, s3), "L3: a pop_right step keeps the representation invariant; the sequence loses exactly its last element");
      if (m == 4) VX_REACH("L3_four");
    }
    break;
  case 4:   /* L4 push_left; A-OWN: x is a pool node that is not in the deque */
    if (m <= 3 && INPOOL(x) && (m < 1 || x != s0) && (m < 2 || x != s1) && (m < 3 || x != s2) &&
        (T_PUSH_EMPTY(a, n, x) || (T_PUSH_LEFT(a, n, x) && LNK_R(x) == a.left)))
    {
      VX_REACH("L4_push_left_step");
      VX_ASSERT(FINV(n, m + 1, x, s0, s1, s2), "L4: a push_left step keeps the representation invariant (only s1->left may be missing); the sequence becomes x :: seq");
      if (m == 0) VX_REACH("L4_onto_empty");
      if (m == 3) VX_REACH("L4_onto_three");
    }
    break;
  case 5:   /* L5 push_right */
    if (m <= 3 && INPOOL(x) && (m < 1 || x != s0) && (m < 2 || x != s1) && (m < 3 || x != s2) &&
        (T_PUSH_EMPTY(a, n, x) || (T_PUSH_RIGHT(a, n, x) && LNK_L(x) == a.right)))
    {
      VX_REACH("L5_push_right_step");
      if (m == 0) VX_ASSERT(FINV(n, 1, x, x, x, x), "L5: push_right onto the empty deque");
      if (m == 1) VX_ASSERT(FINV(n, 2, s0, x, x, x), "L5: a push_right step keeps the representation invariant; the sequence becomes seq :: x");
      if (m == 2) VX_ASSERT(FINV(n, 3, s0, s1, x, x), "L5: a push_right step keeps the representation invariant; the sequence becomes seq :: x");
      if (m == 3) VX_ASSERT(FINV(n, 4, s0, s1, s2, x), "L5: a push_right step keeps the representation invariant; the sequence becomes seq :: x");
      if (m == 3) VX_REACH("L5_onto_three");
    }
    break;
  case 6:   /* L6 node-level step of stabilize: put the missing back link in place (the anchor stays) */
    if (a.ltag == lpush)
    {
      struct node *inward = LNK_R(a.left), *far_inward = LNK_L(a.right);
      VX_ASSERT(inward != NULL, "L6: in state lpush the new left end points inward");
      inward->left = mk_tptr(a.left, nondet_u16());
      VX_REACH("L6_lpush_backlink");
      VX_ASSERT(FINV(a, m, s0, s1, s2, s3) && BACKLINK_OK(a), "L6: writing l->right->left = l keeps the invariant and completes the back link");
      VX_ASSERT(LNK_R(a.left) == inward && (inward == a.right || LNK_L(a.right) == far_inward),
                "L6: the node-level step does not touch a link that rely (b) protects while the anchor stays");
    }
    else if (a.ltag == rpush)
    {
      struct node *inward = LNK_L(a.right), *far_inward = LNK_R(a.left);
      VX_ASSERT(inward != NULL, "L6: in state rpush the new right end points inward");
      inward->right = mk_tptr(a.right, nondet_u16());
      VX_REACH("L6_rpush_backlink");
      VX_ASSERT(FINV(a, m, s0, s1, s2, s3) && BACKLINK_OK(a), "L6: writing r->left->right = r keeps the invariant and completes the back link");
      VX_ASSERT(LNK_L(a.right) == inward && (inward == a.left || LNK_R(a.left) == far_inward),
                "L6: the node-level step does not touch a link that rely (b) protects while the anchor stays");
    }
    break;
  case 7:   /* L7 stabilizing anchor step, taken only with the back link in place (asserted in anchor_cas of deque.c) */
    if (T_STAB(a, n) && BACKLINK_OK(a))
    {
      VX_REACH("L7_stabilize_step");
      VX_ASSERT(FINV(n, m, s0, s1, s2, s3), "L7: the stabilizing step keeps the representation invariant and the sequence");
    }
    break;
  case 8:   /* L8 every transition changes the anchor word */
    if (T_STAB(a, n) || T_POP_LAST(a, n) || T_POP_LEFT(a, n, LNK_R(a.left)) || T_POP_RIGHT(a, n, LNK_L(a.right)) ||
        T_PUSH_EMPTY(a, n, x) || T_PUSH_LEFT(a, n, x) || T_PUSH_RIGHT(a, n, x))
    {
      VX_REACH("L8_any_step");
      VX_ASSERT(!PEQ(a, n), "L8: every step of every operation installs a different 128-bit word (ABA tag + 1)");
    }
    break;
  default:
    break;
  }
}
