/* C17 (addition) -- queue back-end adapters (lockfree_queue_backends.hpp) over the sequential container stub of
 * backends_seq.h.  Contracts are convention free: they never say "left"/"right"; which end is which is decided by the
 * lemma units at the bottom (U_ORDER / U_OTHER_END / U_DRAIN), which run the lifted push, pop and empty of ONE back end
 * against each other and compare with what the back end's name promises (OWNER_NEWEST / THIEF_NEWEST / IS_ABP).
 * Every statement of ctor / push / pop / empty comes from the lifter. */
#include "backends_seq.h"

#define GHOST_FRAME g_x, g_y, g_track, g_push_calls, g_pop_calls, g_query_calls, g_handed, g_push_end, g_pop_end, g_result, \
                    g_last_who, g_last_val, g_last_pos
#define NO_CALLS_YET (g_push_calls == 0 && g_pop_calls == 0 && g_query_calls == 0 && g_ctor_calls == 0)

/* ------------------------------------------------------------------------------------------------------------------- */
#ifdef U_CTOR
/* lockfree_*_backend(size_type initial_size = 0, size_type num_thread = -1): the container is constructed exactly once,
 * with the requested capacity (not its own default, not a function of num_thread), empty, and nothing is pushed or popped. */
//@FUNC
void ctor(struct backend *self, uint64_t initial_size, uint64_t num_thread)
__CPROVER_requires(NO_CALLS_YET)
__CPROVER_ensures(g_ctor_calls == 1 && !g_ctor_default && g_ctor_size == initial_size)
__CPROVER_ensures(self->queue_.constructed && self->queue_.lo == self->queue_.hi)
__CPROVER_ensures(g_push_calls == 0 && g_pop_calls == 0)
__CPROVER_assigns(self->queue_, g_ctor_calls, g_ctor_default, g_ctor_size)
//@LIFT body
#endif

/* ------------------------------------------------------------------------------------------------------------------- */
#ifdef U_PUSH
/* the pushed value is handed to the container exactly once, at one of its ends; the result is the container's; on success
 * the sequence has grown by exactly this element, on failure it is unchanged; no other element (victim X) is disturbed. */
//@FUNC
bool push(struct backend *self, T val, bool other_end)
__CPROVER_requires(C_WF(&self->queue_) && NO_CALLS_YET)
__CPROVER_requires(g_track == WHO_Y && !g_y.in && g_y.pushes == 0 && g_y.pops == 0 && E_WF(g_x, &self->queue_))
__CPROVER_ensures(g_push_calls == 1 && g_pop_calls == 0 && g_handed == val && __CPROVER_return_value == g_result)
__CPROVER_ensures(__CPROVER_return_value ==> (C_SIZE(&self->queue_) == (__CPROVER_old(self->queue_.hi) - __CPROVER_old(self->queue_.lo)) + 1 && g_y.in && g_y.value == val && g_y.pushes == 1 && (g_y.pos == self->queue_.lo || g_y.pos == self->queue_.hi - 1)))
__CPROVER_ensures(!__CPROVER_return_value ==> (self->queue_.lo == __CPROVER_old(self->queue_.lo) && self->queue_.hi == __CPROVER_old(self->queue_.hi) && !g_y.in))
__CPROVER_ensures(self->queue_.lo <= __CPROVER_old(self->queue_.lo) && self->queue_.hi >= __CPROVER_old(self->queue_.hi))
__CPROVER_ensures(g_x.in == __CPROVER_old(g_x.in) && g_x.pos == __CPROVER_old(g_x.pos) && g_x.value == __CPROVER_old(g_x.value) && g_x.pops == __CPROVER_old(g_x.pops) && E_WF(g_x, &self->queue_))
__CPROVER_assigns(self->queue_.lo, self->queue_.hi, GHOST_FRAME)
//@LIFT body
#endif

/* ------------------------------------------------------------------------------------------------------------------- */
#ifdef U_POP
#define val (*val_p)     /* C++ `reference val` */
/* pop asks the container exactly once; it succeeds iff the (quiescent) sequence is not empty; the popped value is passed
 * through unchanged; the popped element is gone (it cannot be popped again) and everything else stays; a failed pop leaves
 * the sequence alone (what it does to the caller's variable is not part of the property: callers test the result). */
//@FUNC
bool pop(struct backend *self, T *val_p, bool steal)
__CPROVER_requires(C_WF(&self->queue_) && NO_CALLS_YET)
__CPROVER_requires(E_WF(g_x, &self->queue_) && E_WF(g_y, &self->queue_) && !(g_x.in && g_y.in && g_x.pos == g_y.pos) && g_x.pops == 0 && g_y.pops == 0)
__CPROVER_ensures(g_pop_calls == 1 && g_push_calls == 0 && __CPROVER_return_value == g_result)
__CPROVER_ensures(__CPROVER_return_value == ((__CPROVER_old(self->queue_.hi) - __CPROVER_old(self->queue_.lo)) > 0))
__CPROVER_ensures(__CPROVER_return_value ==> (*val_p == g_last_val && C_SIZE(&self->queue_) == (__CPROVER_old(self->queue_.hi) - __CPROVER_old(self->queue_.lo)) - 1 && (g_last_pos == __CPROVER_old(self->queue_.lo) || g_last_pos == __CPROVER_old(self->queue_.hi) - 1)))
__CPROVER_ensures((__CPROVER_return_value && g_last_who == WHO_X) ==> (*val_p == __CPROVER_old(g_x.value) && __CPROVER_old(g_x.in) && !g_x.in && g_x.pops == 1))
__CPROVER_ensures((__CPROVER_return_value && g_last_who == WHO_Y) ==> (*val_p == __CPROVER_old(g_y.value) && __CPROVER_old(g_y.in) && !g_y.in && g_y.pops == 1))
__CPROVER_ensures(!(__CPROVER_return_value && g_last_who == WHO_X) ==> (g_x.in == __CPROVER_old(g_x.in) && g_x.pops == 0))
__CPROVER_ensures(!(__CPROVER_return_value && g_last_who == WHO_Y) ==> (g_y.in == __CPROVER_old(g_y.in) && g_y.pops == 0))
__CPROVER_ensures(!__CPROVER_return_value ==> (self->queue_.lo == __CPROVER_old(self->queue_.lo) && self->queue_.hi == __CPROVER_old(self->queue_.hi)))
__CPROVER_ensures(self->queue_.lo >= __CPROVER_old(self->queue_.lo) && self->queue_.hi <= __CPROVER_old(self->queue_.hi) && E_WF(g_x, &self->queue_) && E_WF(g_y, &self->queue_))
__CPROVER_assigns(*val_p, self->queue_.lo, self->queue_.hi, GHOST_FRAME)
//@LIFT body
#undef val
#endif

/* ------------------------------------------------------------------------------------------------------------------- */
#ifdef U_EMPTY
/* empty() <=> the quiescent sequence has no element; it pushes and pops nothing */
//@FUNC
bool empty(struct backend *self)
__CPROVER_requires(C_WF(&self->queue_) && NO_CALLS_YET)
__CPROVER_ensures(__CPROVER_return_value == (C_SIZE(&self->queue_) == 0))
__CPROVER_ensures(g_push_calls == 0 && g_pop_calls == 0)
__CPROVER_ensures(self->queue_.lo == __CPROVER_old(self->queue_.lo) && self->queue_.hi == __CPROVER_old(self->queue_.hi))
__CPROVER_assigns(g_query_calls, g_result)
//@LIFT body
#endif

/* ------------------------------------------------------------------------------------------------------------------- */
#if defined(U_ORDER) || defined(U_OTHER_END) || defined(U_DRAIN)
#define LEMMA
static bool push_c(struct backend *self, T val, bool other_end)
//@LIFT push_copy
static bool push_m(struct backend *self, T val, bool other_end)
//@LIFT push_move
#define val (*val_p)
static bool pop(struct backend *self, T *val_p, bool steal)
//@LIFT pop
#undef val
static bool empty(struct backend *self)
//@LIFT empty
static bool push_any(struct backend *b, T v, bool other_end)
{ if (nondet_bool()) return push_c(b, v, other_end); return push_m(b, v, other_end); }
#endif

static void setup(struct backend *b)
{
  seq_ghost_init();
  b->queue_.lo = nondet_pos();
  b->queue_.hi = nondet_pos();
  b->queue_.constructed = true;
}

void harness(void)
{
  struct backend b;
  setup(&b);
#ifdef U_CTOR
  b.queue_.constructed = false;
  uint64_t sz = nondet_u64(), nt = nondet_u64();
  ctor(&b, sz, nt);
  if (sz == 0) VX_REACH("default_size"); else VX_REACH("sized");
#endif
#ifdef U_PUSH
  g_x.in = nondet_bool(); g_x.pos = nondet_pos(); g_x.value = nondet_int();
  g_track = WHO_Y;
  T v = nondet_int();
  bool oe = nondet_bool();
  bool r = push(&b, v, oe);
  if (r) { if (oe) VX_REACH("pushed_other_end"); else VX_REACH("pushed_default_end"); } else VX_REACH("push_failed");
  if (r && g_x.in) VX_REACH("pushed_next_to_victim");
#endif
#ifdef U_POP
  g_x.in = nondet_bool(); g_x.pos = nondet_pos(); g_x.value = nondet_int();
  g_y.in = nondet_bool(); g_y.pos = nondet_pos(); g_y.value = nondet_int();
  T out = nondet_int();
  bool st = nondet_bool();
  bool r = pop(&b, &out, st);
  if (r) { if (st) VX_REACH("stolen"); else VX_REACH("popped_by_owner"); } else VX_REACH("empty");
  if (r && g_last_who == WHO_X) VX_REACH("victim_popped");
  if (r && g_last_who == WHO_ANON && g_x.in) VX_REACH("victim_left_alone");
#endif
#ifdef U_EMPTY
  if (empty(&b)) VX_REACH("empty"); else VX_REACH("not_empty");
#endif

#ifdef LEMMA
  if (!C_WF(&b.queue_)) return;
  pos_t n = C_SIZE(&b.queue_);           /* n older, anonymous elements are already queued (any n >= 0) */
  T x = nondet_int(), y = nondet_int();
  T out1 = nondet_int(), out2 = nondet_int();
#endif

#ifdef U_ORDER
  /* push x, push y at the default end (x is older than y, both newer than the n anonymous elements), then two pops by the
   * same party: the owner (steal == false) or a thief (steal == true) */
  g_track = WHO_X;
  if (!push_any(&b, x, false)) { VX_ASSERT(C_SIZE(&b.queue_) == n && !g_x.in, "a failed push adds nothing"); VX_REACH("push_failed"); return; }
  g_track = WHO_Y;
  if (!push_any(&b, y, false)) return;
  VX_ASSERT(g_push_calls == 2 && C_SIZE(&b.queue_) == n + 2, "two pushes add exactly two elements");
  VX_ASSERT(g_x.in && g_y.in && g_x.value == x && g_y.value == y && g_x.pushes == 1 && g_y.pushes == 1, "each pushed element is in the container exactly once, value unchanged");
  VX_ASSERT(!empty(&b), "not empty after a successful push");
  bool steal = nondet_bool();
  bool newest = steal ? THIEF_NEWEST : OWNER_NEWEST;
  bool r1 = pop(&b, &out1, steal);
  VX_ASSERT(r1, "a pop on a non-empty quiescent container succeeds");
  if (newest)
    VX_ASSERT(g_last_who == WHO_Y && out1 == y, "LIFO side: the newest element comes first, value unchanged");
  else
  {
    VX_ASSERT(g_last_who != WHO_Y, "FIFO side: the newest element is not taken while older ones are queued");
    VX_ASSERT(n == 0 ? (g_last_who == WHO_X && out1 == x) : g_last_who == WHO_ANON, "FIFO side: the oldest element comes first, value unchanged");
  }
  bool r2 = pop(&b, &out2, steal);
  VX_ASSERT(r2, "second pop on a non-empty quiescent container succeeds");
  if (newest)
    VX_ASSERT(g_last_who == WHO_X && out2 == x, "LIFO side: then the second newest");
  else
    VX_ASSERT(n == 0 ? (g_last_who == WHO_Y && out2 == y) : n == 1 ? (g_last_who == WHO_X && out2 == x) : g_last_who == WHO_ANON, "FIFO side: then the second oldest");
  VX_ASSERT(g_x.pops <= 1 && g_y.pops <= 1 && g_x.pushes == 1 && g_y.pushes == 1, "no element is popped twice");
  VX_ASSERT(g_pop_calls == 2 && g_push_calls == 2 && C_SIZE(&b.queue_) == n, "two pops remove exactly two elements");
  if (steal) VX_REACH("thief"); else VX_REACH("owner");
  if (n == 0) VX_REACH("only_the_two"); else VX_REACH("older_elements_queued");
#endif

#ifdef U_OTHER_END
  /* push x at the default end, then z with other_end == true ("schedule last"): the owner never takes z before x; a thief of
   * an ABP back end works on the end opposite to the owner's, where z now is */
  g_track = WHO_X;
  if (!push_any(&b, x, false)) return;
  g_track = WHO_Y;
  if (!push_any(&b, y, true)) return;
  VX_ASSERT(g_x.in && g_y.in && g_x.value == x && g_y.value == y && C_SIZE(&b.queue_) == n + 2, "both elements queued exactly once");
  bool steal = nondet_bool();
  bool r1 = pop(&b, &out1, steal);
  VX_ASSERT(r1, "a pop on a non-empty quiescent container succeeds");
  if (steal && IS_ABP)
    VX_ASSERT(g_last_who == WHO_Y && out1 == y, "ABP thief: takes from the end opposite to the owner's (the element scheduled last)");
  else
  {
    VX_ASSERT(g_last_who != WHO_Y, "the element scheduled last is not taken before the others");
    if (OWNER_NEWEST)
      VX_ASSERT(g_last_who == WHO_X && out1 == x, "LIFO owner: the newest normally pushed element comes first");
    else
      VX_ASSERT(n == 0 ? (g_last_who == WHO_X && out1 == x) : g_last_who == WHO_ANON, "FIFO owner: the oldest element comes first");
  }
  if (steal) VX_REACH("thief"); else VX_REACH("owner");
  if (n == 0) VX_REACH("only_the_two"); else VX_REACH("older_elements_queued");
#endif

#ifdef U_DRAIN
  /* empty() and pop agree on a quiescent container; one element in, the same element out, then empty again */
  bool e0 = empty(&b);
  VX_ASSERT(e0 == (n == 0), "empty() <=> no element queued");
  bool steal = nondet_bool();
  if (n != 0)
  {
    bool r0 = pop(&b, &out1, steal);
    VX_ASSERT(r0 && C_SIZE(&b.queue_) == n - 1, "a pop on a non-empty quiescent container succeeds and removes one element");
    VX_REACH("popped_from_nonempty");
    return;
  }
  bool r0 = pop(&b, &out1, steal);
  VX_ASSERT(!r0 && C_SIZE(&b.queue_) == 0, "a pop on an empty container fails (nothing is invented)");
  g_track = WHO_X;
  bool oe = nondet_bool();
  if (!push_any(&b, x, oe)) return;
  VX_ASSERT(!empty(&b), "not empty after a successful push");
  bool r1 = pop(&b, &out1, steal);
  VX_ASSERT(r1 && g_last_who == WHO_X && out1 == x && g_x.pops == 1 && g_x.pushes == 1, "the one element put in is the one taken out, once, value unchanged");
  VX_ASSERT(empty(&b), "empty again after the only element was taken");
  bool r2 = pop(&b, &out2, !steal);
  VX_ASSERT(!r2 && g_x.pops == 1, "the element is not handed out a second time (to the other kind of consumer either)");
  if (steal) VX_REACH("thief_first"); else VX_REACH("owner_first");
  if (oe) VX_REACH("pushed_other_end"); else VX_REACH("pushed_default_end");
#endif
}
