/* C17 -- Michael's lock-free deque: the NODE-LINK ABA tag across recycling, as an OBLIGATION on the code that has to
 * establish it (assumption A-ABA-node of deque.c is only sound if this holds).
 *
 * The node-level CAS of stabilize_left/right is protected by the 16-bit tag of the link word: a thread that read the word
 * (p, t) from a link and CASes it later must fail if the link was written in between.  That only works if every write of
 * a link word continues the tag of the word it replaces -- in particular when a popped node is handed out again by the
 * freelist (alloc_node: placement new of the node) and when push_left / push_right point the new node at the old end
 * (n->right.store / n->left.store).  Obligation (asserted in node_construct / node_store below, on the lifted text of
 * both alloc_node overloads and of the two link stores):
 *     the link word a RECYCLED node is given never equals a (ptr, tag) word the cell held before: the tag continues
 *     from the cell's previous tag (+1).
 * One symbolic cell; what the freelist hands back is either a never-used cell (indeterminate contents, no history) or a
 * recycled one whose last link words are ghost-recorded.  -DKF_NODES_NOT_RECYCLED: the freelist only ever hands out
 * never-used cells (the input class under which the known finding cannot occur). */
#include "deque.h"

static struct deque g_q;
static struct node g_cell;            /* the cell pool_.allocate() returns */
static struct node g_a, g_b;          /* other nodes, only ever pointed at */
static bool g_recycled;               /* the cell has been a deque node before (its links have a history) */
static struct tptr g_prev_left, g_prev_right;   /* the words its links held last */
static bool g_threw;
static long g_constructed, g_stores;

static struct node *any_node(void)
{
  uint8_t k = nondet_u8();
  if (k == 0) return NULL;
  if (k == 1) return &g_a;
  if (k == 2) return &g_b;
  return &g_cell;
}
/* caching_freelist::allocate(): raw memory for one node, or NULL */
static struct node *pool_allocate(struct deque *d)
{
  if (nondet_bool()) return NULL;
#ifdef KF_NODES_NOT_RECYCLED
  g_recycled = false;
#else
  g_recycled = nondet_bool();
#endif
  /* never-used memory is indeterminate; a recycled cell still holds the link words of its previous life */
  g_cell.left.ptr = any_node(); g_cell.left.tag = nondet_u16();
  g_cell.right.ptr = any_node(); g_cell.right.tag = nondet_u16();
  g_cell.data = nondet_int();
  g_prev_left = g_cell.left; g_prev_right = g_cell.right;
  return &g_cell;
}
static struct node *vx_throw_bad_alloc(void) { g_threw = true; return NULL; }   /* throw std::bad_alloc(): leaves alloc_node */

#define CONTINUES(nw, old) ((nw).tag == (tag_t) (((old).tag + 1) & 0xffff))
/* new (chunk) node(lptr, rptr, v, ltag, rtag) */
static void node_construct(struct node *chunk, struct node *lptr, struct node *rptr, T v, int ltag, int rtag)
{
  struct tptr nl = mk_tptr(lptr, ltag), nr = mk_tptr(rptr, rtag);
  VX_ASSERT(chunk == &g_cell, "the node is constructed in the cell the freelist returned");
  if (g_recycled)
  {
    VX_ASSERT(CONTINUES(nl, g_prev_left) && CONTINUES(nr, g_prev_right),
              "alloc_node: the link word a recycled node is given never equals a (ptr, tag) word the cell held before: the tag continues from the cell's previous tag (+1)");
  }
  chunk->left = nl; chunk->right = nr; chunk->data = v;
  if (g_constructed < 2) g_constructed++;
}
/* std::atomic<tagged_ptr>::load / store on a link of the caller's own, unpublished node */
static struct tptr node_load(struct deque *d, struct tptr *f) { return *f; }
static void node_store(struct deque *d, struct tptr *f, struct tptr v)
{
  VX_ASSERT(f == &g_cell.left || f == &g_cell.right, "the store goes to a link of the new node");
  if (g_recycled)
  {
    VX_ASSERT(CONTINUES(v, *f),
              "push: the link word stored into a recycled node never equals a (ptr, tag) word the cell held before: the tag continues from the link's previous tag (+1)");
  }
  else
  {
    VX_ASSERT(!TPEQ(v, *f), "push: the stored link word differs from the word the fresh node was constructed with");
  }
  *f = v;
  if (g_stores < 2) g_stores++;
}

/* ---- lifted: both overloads of alloc_node, and the two link stores of push_left / push_right (fragments) ---- */
struct node *alloc_node_copy(struct deque *self, struct node *lptr, struct node *rptr, T v, tag_t ltag, tag_t rtag)
//@LIFT alloc_copy
struct node *alloc_node_move(struct deque *self, struct node *lptr, struct node *rptr, T v, tag_t ltag, tag_t rtag)
//@LIFT alloc_move
void push_left_link_store(struct deque *self, struct node *n, struct pair lrs)
{
//@LIFT store_right_link
}
void push_right_link_store(struct deque *self, struct node *n, struct pair lrs)
{
//@LIFT store_left_link
}

void harness(void)
{
  g_recycled = false; g_threw = false; g_constructed = 0; g_stores = 0;
  g_prev_left = mk_tptr(NULL, 0); g_prev_right = g_prev_left;
  g_a.left = g_prev_left; g_a.right = g_prev_left; g_a.data = 0; g_b = g_a; g_cell = g_a;
  T v = nondet_int();
  struct node *n;
  /* push_left / push_right: alloc_node(nullptr, nullptr, std::move(data)) with the declared defaults ltag = 0, rtag = 0 */
  if (nondet_bool()) n = alloc_node_move(&g_q, NULL, NULL, v, 0, 0);
  else n = alloc_node_copy(&g_q, NULL, NULL, v, 0, 0);
  if (n == NULL)
  {
    VX_ASSERT(g_threw && g_constructed == 0, "no node without memory: std::bad_alloc");
    VX_REACH("allocation_failed");
    return;
  }
  VX_ASSERT(n == &g_cell && g_constructed == 1 && n->data == v && n->left.ptr == NULL && n->right.ptr == NULL,
            "alloc_node constructs exactly one node carrying v with null links");
#ifndef KF_NODES_NOT_RECYCLED
  if (g_recycled) VX_REACH("recycled_cell");
#endif
  if (!g_recycled) VX_REACH("never_used_cell");
  /* the deque is non-empty and stable: the new node is pointed at the old end */
  struct pair lrs;
  lrs.left = nondet_bool() ? &g_a : &g_b; lrs.right = nondet_bool() ? &g_a : &g_b; lrs.ltag = stable; lrs.rtag = nondet_u16();
  if (nondet_bool())
  {
    push_left_link_store(&g_q, n, lrs);
    VX_ASSERT(g_stores == 1 && n->right.ptr == lrs.left, "push_left points the new node's right link at the old left end");
    VX_REACH("push_left_store");
  }
  else
  {
    push_right_link_store(&g_q, n, lrs);
    VX_ASSERT(g_stores == 1 && n->left.ptr == lrs.right, "push_right points the new node's left link at the old right end");
    VX_REACH("push_right_store");
  }
}
