/* C17 -- ConcurrentQueue::ImplicitProducer::new_block_index (concurrentqueue.hpp): growth of a producer's circular BLOCK INDEX.
 * Elements are located through the index purely by arithmetic relative to the TAIL slot (get_block_index_index_for_index: slot
 * (tail + (blockBase - tailBase) / BLOCK_SIZE) & (capacity - 1)), so growth must keep every carried-over entry at the SAME DISTANCE
 * behind the new tail as it was behind the old one -- otherwise a dequeue reads another block's elements (loss, duplication, order).
 * The slots after the new tail hold the freshly constructed (invalid-key) entries, each once; every slot of the new index is
 * initialised exactly once; the header is complete when it is published; on allocation failure nothing changes.
 * (written by main after seeded change C17-5 was missed; I contract, symbolic power-of-two capacities, victim entry / victim slot)
 *
 * Arrays are not modelled as memory: prev->index[p], index[s] = e, entries + i go through stubs that track ONE symbolic victim entry
 * of the old index (by its distance g_d behind the old tail), ONE symbolic fresh entry g_fj and ONE symbolic slot g_ws. */
#include "vx.h"
#ifndef INVALID_BLOCK_BASE
#define INVALID_BLOCK_BASE 1
#endif
typedef struct bie { uint64_t key; bool constructed; } BlockIndexEntry;
struct ents { int unused; }; struct idx { int unused; };
typedef struct bih { size_t capacity; size_t tail; struct ents *entries; struct idx *index; struct bih *prev; } BlockIndexHeader;
struct prod { size_t nextBlockIndexCapacity; struct bih *blockIndex; };

#define IS_POW2(c) ((c) != 0 && ((c) & ((c) - 1)) == 0)
static struct prod *g_self; static struct bih g_prev_hdr, g_new_hdr; static struct idx g_prev_index, g_new_index; static struct ents g_new_entries;
static char g_raw;
static size_t g_prevcap, g_newcap, g_entrycount, g_prevtail;
static size_t g_d;                       /* victim old entry: distance behind the old tail, < prevCapacity */
static BlockIndexEntry g_ventry, g_oentry;   /* the victim entry / any other entry of the old index */
static size_t g_fj;                      /* victim fresh entry: entries + g_fj */
static BlockIndexEntry g_fentry, g_fother;
static size_t g_ws; static bool g_ws_written;   /* victim slot of the new index */
static long g_v_places, g_f_places; static size_t g_v_slot, g_f_slot;
static bool g_alloc_fails, g_hdr_constructed, g_published;
#define GHOST g_ws_written, g_v_places, g_f_places, g_v_slot, g_f_slot, g_hdr_constructed, g_published, g_new_hdr, g_fentry, g_fother
#define BUMP(c) do { if ((c) < 2) (c)++; } while (0)

static void *vx_index_malloc(size_t n)
{
  VX_ASSERT(n >= sizeof(BlockIndexHeader) + sizeof(BlockIndexEntry) * g_entrycount + sizeof(BlockIndexEntry *) * g_newcap,
            "the allocation has room for the header, the new entries and nextBlockIndexCapacity index slots");
  return g_alloc_fails ? NULL : (void *) &g_raw;
}
static struct bih *header_construct(char *raw) { VX_ASSERT(raw == &g_raw, "placement new into the allocation"); g_hdr_constructed = true; return &g_new_hdr; }
static struct ents *entries_place(char *raw, size_t off) { VX_ASSERT(raw == &g_raw && off >= sizeof(BlockIndexHeader), "the entries follow the header"); return &g_new_entries; }
static struct idx *index_place(struct ents *e, size_t off) { VX_ASSERT(e == &g_new_entries && off >= sizeof(BlockIndexEntry) * g_entrycount, "the slot array follows the entries"); return &g_new_index; }
static BlockIndexEntry *index_get(struct idx *ix, size_t pos)
{
  VX_ASSERT(ix == &g_prev_index && pos < g_prevcap, "read within the old index");
  return pos == ((g_prevtail - g_d) & (g_prevcap - 1)) ? &g_ventry : &g_oentry;
}
static void index_set(struct idx *ix, size_t slot, BlockIndexEntry *e)
{
  VX_ASSERT(ix == &g_new_index && slot < g_newcap, "store within the new index");
  VX_ASSERT(!g_published, "the index is complete before it is published");
  if (slot == g_ws) { VX_ASSERT(!g_ws_written, "each slot of the new index is initialised once"); g_ws_written = true; }
  if (e == &g_ventry) { BUMP(g_v_places); g_v_slot = slot; }
  if (e == &g_fentry) { BUMP(g_f_places); g_f_slot = slot; }
}
/* std::copy(src, src + n, dst) over index slots */
static void index_copy(struct idx *dst, struct idx *src, size_t n)
{
  VX_ASSERT(dst == &g_new_index && src == &g_prev_index && n <= g_prevcap && n <= g_newcap, "copy within both index arrays");
  size_t vpos = (g_prevtail - g_d) & (g_prevcap - 1);
  if (g_ws < n) { VX_ASSERT(!g_ws_written, "each slot of the new index is initialised once"); g_ws_written = true; }
  if (vpos < n) { BUMP(g_v_places); g_v_slot = vpos; }
}
static BlockIndexEntry *entry_at(struct ents *e, size_t i) { VX_ASSERT(e == &g_new_entries && i < g_entrycount, "entry within the new entries"); return i == g_fj ? &g_fentry : &g_fother; }
static void entry_construct(struct ents *e, size_t i) { entry_at(e, i)->constructed = true; }
static void entry_key_store(struct ents *e, size_t i, uint64_t k) { BlockIndexEntry *p = entry_at(e, i); VX_ASSERT(p->constructed, "an entry is constructed before it is used"); p->key = k; }
/* blockIndex.store(header, release): from here on consumers use the new index */
static void blockindex_publish(struct prod *self, struct bih *h)
{
  VX_ASSERT(self == g_self && h == &g_new_hdr && g_hdr_constructed && !g_published, "the new header is published once");
  VX_ASSERT(h->capacity == g_newcap && h->tail < g_newcap && h->index == &g_new_index && h->entries == &g_new_entries, "the published header is complete");
  VX_ASSERT(h->prev == (g_prevcap ? &g_prev_hdr : NULL), "the old index stays reachable (it is freed by the destructor, consumers may still read it)");
  VX_ASSERT(g_ws >= g_newcap || g_ws_written, "every slot of the new index is initialised");
  /* a carried-over entry keeps its distance behind the tail: the lookup arithmetic finds the same block as before */
  VX_ASSERT(g_prevcap == 0 || (g_v_places == 1 && g_v_slot == ((h->tail - g_d) & (g_newcap - 1))), "an entry of the old index is found at the same distance behind the new tail");
  /* the fresh entries are what insert_block_index_entry finds after the tail: constructed, invalid key, each in one slot */
  VX_ASSERT(g_f_places == 1 && ((g_f_slot - h->tail - 1) & (g_newcap - 1)) < g_entrycount, "a fresh entry sits in exactly one slot, within entryCount slots after the tail");
  VX_ASSERT(g_fentry.constructed && g_fentry.key == INVALID_BLOCK_BASE, "a fresh entry is constructed and carries the invalid key");
  g_published = true; self->blockIndex = h;
}

//@FUNC
bool new_block_index(struct prod *self)
__CPROVER_requires(self == g_self && !g_published && !g_hdr_constructed && !g_ws_written && g_v_places == 0 && g_f_places == 0 && !g_fentry.constructed && !g_fother.constructed)
/* class invariant: capacities are powers of two; the next capacity is twice the current one; the tail is a slot */
__CPROVER_requires(IS_POW2(self->nextBlockIndexCapacity) && self->nextBlockIndexCapacity <= ((size_t)1 << 40) && g_newcap == self->nextBlockIndexCapacity)
__CPROVER_requires(self->blockIndex == NULL ? (g_prevcap == 0 && g_entrycount == g_newcap) :
                   (self->blockIndex == &g_prev_hdr && g_prev_hdr.capacity == g_prevcap && IS_POW2(g_prevcap) && g_newcap == 2 * g_prevcap && g_entrycount == g_prevcap &&
                    g_prev_hdr.tail == g_prevtail && g_prevtail < g_prevcap && g_prev_hdr.index == &g_prev_index && g_d < g_prevcap))
__CPROVER_requires(g_fj < g_entrycount)
__CPROVER_ensures(__CPROVER_return_value == !g_alloc_fails && g_published == !g_alloc_fails)
__CPROVER_ensures(g_alloc_fails ==> (self->blockIndex == __CPROVER_old(self->blockIndex) && self->nextBlockIndexCapacity == g_newcap))
__CPROVER_ensures(!g_alloc_fails ==> (self->blockIndex == &g_new_hdr && self->nextBlockIndexCapacity == 2 * g_newcap))
__CPROVER_assigns(GHOST, self->blockIndex, self->nextBlockIndexCapacity)
//@LIFT body

void harness(void)
{
  struct prod p; g_self = &p;
  g_newcap = nondet_size(); g_prevcap = nondet_size(); g_entrycount = nondet_size(); g_prevtail = nondet_size(); g_d = nondet_size(); g_fj = nondet_size(); g_ws = nondet_size();
  g_alloc_fails = nondet_bool(); g_hdr_constructed = false; g_published = false; g_ws_written = false; g_v_places = 0; g_f_places = 0; g_v_slot = 0; g_f_slot = 0;
  g_fentry.constructed = false; g_fentry.key = 0; g_fother.constructed = false; g_fother.key = 0; g_ventry.constructed = true; g_ventry.key = 0; g_oentry.constructed = true; g_oentry.key = 0;
  g_prev_hdr.capacity = g_prevcap; g_prev_hdr.tail = g_prevtail; g_prev_hdr.index = &g_prev_index; g_prev_hdr.entries = NULL; g_prev_hdr.prev = NULL;
  g_new_hdr.capacity = 0; g_new_hdr.tail = 0; g_new_hdr.index = NULL; g_new_hdr.entries = NULL; g_new_hdr.prev = NULL;
  p.nextBlockIndexCapacity = g_newcap; p.blockIndex = nondet_bool() ? &g_prev_hdr : NULL;
  bool first = p.blockIndex == NULL;
  bool r = new_block_index(&p);
  if (r && first) VX_REACH("first_index");
  if (r && !first && g_prevtail + 1 != g_prevcap) VX_REACH("grown_from_rotated_index");
  if (r && !first && g_prevtail + 1 == g_prevcap) VX_REACH("grown_from_unrotated_index");
  if (!r) VX_REACH("allocation_failed");
}
