/* C17 -- moodycamel ConcurrentQueue (pika/concurrency/concurrentqueue.hpp), IMPLICIT producer sub-queue: the four index
 * words of ProducerBase, the ghost state and the transition system of the dequeue protocol.  Shared by mcq_dequeue.c
 * (S/T contract on ImplicitProducer::dequeue), mcq_enqueue.c, mcq_lemma.c.  Nothing in this file is queue logic: the
 * function bodies under contract are lifted (//@LIFT in the templates).
 *
 * THE PROTOCOL (comment block in ExplicitProducer::dequeue, "See ExplicitProducer::dequeue for rationale"):
 *   T = tailIndex               written by the ONE producer thread only: T := T + 1 after the element is in its slot
 *   H = headIndex               a consumer CLAIMS index H by H.fetch_add(1)
 *   C = dequeueOptimisticCount  a consumer takes a TICKET t by C.fetch_add(1)
 *   O = dequeueOvercommit       a consumer whose ticket was not honoured REGISTERS that by O.fetch_add(1)
 * all four are index_t (64 bit), arithmetic is modulo 2^64, comparisons are circular_less_than.
 *
 * A ticket is UNDECIDED from C.fetch_add until its holder either claims (H.fetch_add) or registers (O.fetch_add); the
 * ghost transition is placed on that second atomic step (in between the thread only reads and computes).
 * Ghost counters (numbers of tickets, definable from the history):
 *   U   undecided tickets
 *   Ub  undecided tickets that are SMALLER than the largest ticket that has claimed (0 if nobody has claimed)
 * per thread holding an undecided ticket t, with o = the value of O it read before taking the ticket:
 *   above   no ticket larger than t has claimed yet
 *   Ubm     undecided tickets smaller than t
 *   D       tickets smaller than t that have registered but are not counted in o
 *
 * INVARIANT (MCQ_INV)
 *   I0  C - O == H + U                      every ticket is exactly one of: registered, claimed, undecided
 *   I1  H + Ub <= T  (Ub <= T - H)          claims so far, plus every undecided ticket below the largest claimed one (each of
 *                                            which may still claim without any further check succeeding for it), never exceed
 *                                            what was enqueued.  In particular H <= T: "the number of successful dequeues never
 *                                            exceeds tail", and a claim (H < T strictly before it) never gets an index >= tail
 *   I2  Ub <= U,  T - H < 2^60, U < 2^60    (A-BOUNDED: fewer than 2^60 elements / threads in flight; what circular
 *                                            comparison needs anyway)
 * PER-THREAD INVARIANT while undecided (MCQ_ME_UNDECIDED)
 *   above  ==>  t - o == H + Ubm + D        the t tickets below mine are: o registered before I looked, D registered since,
 *                                            H claimed (all below me, since I am above), Ubm undecided
 *               Ub <= Ubm < U               the undecided tickets below the largest claimed one are below me, and I am undecided too
 *   !above ==>  Ub >= 1                     I am one of the undecided tickets below the largest claimed one
 * WHY A CLAIM KEEPS I1: the claimer passed circular_less_than(t - o, tail) with tail <= T.  If it is above, the new
 * largest claimed ticket is t and the new Ub is its Ubm:  H + 1 + Ubm <= H + Ubm + D + 1 = t - o + 1 <= tail <= T.
 * If it is not above, it was counted in Ub: H + 1 + (Ub - 1) = H + Ub <= T (no check needed: its element was reserved by
 * the check of the larger ticket that claimed first).
 * The RELY of a consumer is: headIndex and dequeueOvercommit only grow (by less than 2^60 while one call runs), tailIndex
 * is never behind a value read from it, MCQ_INV and the thread's own per-thread invariant hold again after any number of
 * steps of other threads, and `above` only switches off (mcq_lemma.c checks this for every transition of another thread).
 * The RELY of the producer is: nobody else writes tailIndex; headIndex grows but never passes tailIndex (I1).            */
#ifndef C17_MCQ_H
#define C17_MCQ_H
#include "vx.h"

typedef uint64_t index_t;            /* ConcurrentQueueDefaultTraits::index_t = std::size_t */
typedef int elem_t;                  /* payload T: opaque token */
#define MCQ_BIG (1ull << 60)

/* specification of circular_less_than on 64 bit words, from its meaning: b is ahead of a by 1 .. 2^63 - 1 (mod 2^64) */
#define CLT_SPEC(a, b) ((index_t) ((index_t) ((b) - (a)) - 1) < (index_t) ((1ull << 63) - 1))

struct mcq_shared
{
  index_t T, H, C, O;                /* tailIndex, headIndex, dequeueOptimisticCount, dequeueOvercommit */
  index_t U, Ub;                     /* ghost */
};
enum mcq_phase { PH_IDLE = 0, PH_UNDECIDED, PH_CLAIMED, PH_REGISTERED };
struct mcq_thread
{
  int phase;
  index_t t;                         /* my ticket */
  index_t o; bool o_valid;           /* the value of O read last before the ticket was taken */
  index_t tail; bool tail_valid;     /* the value of T read last */
  bool above; index_t Ubm, D;        /* ghost, meaningful while undecided */
};

#define MCQ_INV(g) ((index_t) ((g).C - (g).O) == (index_t) ((g).H + (g).U) && \
                    (index_t) ((g).T - (g).H) < MCQ_BIG && (g).U < MCQ_BIG && (g).Ub <= (g).U && (g).Ub <= (index_t) ((g).T - (g).H))
/* values read earlier are past values of words that only grow */
#define MCQ_PAST(g, m) ((!(m).o_valid || (index_t) ((g).O - (m).o) < MCQ_BIG) && (!(m).tail_valid || (index_t) ((g).T - (m).tail) < MCQ_BIG))
#define MCQ_ME_UNDECIDED(g, m) ((g).U >= 1 && \
    ((m).above ? ((index_t) ((m).t - (m).o) == (index_t) ((g).H + (m).Ubm + (m).D) && (m).D < MCQ_BIG && (m).Ubm < (g).U && (g).Ub <= (m).Ubm) \
               : (g).Ub >= 1))
/* a thread that has not taken its ticket yet: there is room for one more (A-BOUNDED counts this thread too) */
#define MCQ_ME(g, m) (MCQ_PAST(g, m) && ((m).phase != PH_IDLE || (g).U + 1 < MCQ_BIG) && ((m).phase != PH_UNDECIDED || MCQ_ME_UNDECIDED(g, m)))
/* ---- the transitions (ghost bookkeeping of one atomic step of thread m; k = the amount the code adds) ---- */
/* TICKET: t := C; C += k; one more undecided ticket, above everything that exists */
#define MCQ_DO_TICKET(g, m, k) do { (m).t = (g).C; (m).above = true; (m).Ubm = (g).U; (m).D = (index_t) ((g).O - (m).o); \
                                    (g).C += (k); (g).U += 1; (m).phase = PH_UNDECIDED; } while (0)
/* CLAIM: index := H; H += k; the ticket is decided */
#define MCQ_DO_CLAIM(g, m, k) do { (g).H += (k); (g).U -= 1; (g).Ub = (m).above ? (m).Ubm : (index_t) ((g).Ub - 1); \
                                   (m).phase = PH_CLAIMED; } while (0)
/* REGISTER: O += k; the ticket is decided */
#define MCQ_DO_REGISTER(g, m, k) do { (g).O += (k); (g).U -= 1; if (!(m).above) (g).Ub -= 1; (m).phase = PH_REGISTERED; } while (0)
/* ENQUEUE (producer): T += k */
#define MCQ_DO_PUBLISH(g, k) do { (g).T += (k); } while (0)

#endif
