/* C17 -- ConcurrentQueue::ImplicitProducer::enqueue<allocMode>(U&& element), the single-element path: T-contract.
 * The ONE producer thread of an implicit sub-queue owns tailIndex (nobody else writes it); consumers advance headIndex
 * (interference before every atomic access: H grows, never past T).  Block index, block pool and free list are stubs that
 * count calls and assert the order of the steps; the slot at index tail is the one victim slot g_vslot.
 * A sub-queue is an array of slots grouped in blocks of BLOCK_SIZE; a new block is needed iff tail is a multiple of BLOCK_SIZE. */
#include "mcq.h"

/* ConcurrentQueue::BLOCK_SIZE / MAX_SUBQUEUE_SIZE from the traits values (concurrentqueue.hpp:979, 996-1002) */
#define BLOCK_SIZE ((size_t) (TRAITS_BLOCK_SIZE))
#define MAX_SUBQUEUE_SIZE ((SIZE_MAX - (size_t) (TRAITS_MAX_SUBQUEUE_SIZE) < BLOCK_SIZE) ? SIZE_MAX : \
                           (((size_t) (TRAITS_MAX_SUBQUEUE_SIZE) + (BLOCK_SIZE - 1)) / BLOCK_SIZE * BLOCK_SIZE))

struct cq { int unused; };
struct block { int unused; };
struct bientry { struct block *value; };
struct prod { struct cq *parent; struct block *tailBlock; };
enum { W_tailIndex, W_headIndex, W_dequeueOptimisticCount, W_dequeueOvercommit };

static struct mcq_shared G;                   /* only T and H matter here */
static struct mcq_enq_ghost
{
  index_t T0;                                 /* tail at entry = the index the element has to go to */
  bool boundary;                              /* T0 is the first index of a block */
  bool cfg_noexcept_ctor;                     /* MOODYCAMEL_NOEXCEPT_CTOR(T, U, ...) of the instantiation */
  bool interfered;
  long stores, constructs, inserted, requisitioned, got_block, reset, rewound, freed, caught;
  bool entry_published;
} X;
static bool vx_exc;                           /* a C++ exception is in flight */
static elem_t g_vslot;                        /* the slot at index T0 */
static struct cq g_parent;
static struct block g_newblock, g_oldblock;   /* a block from the pool / the tail block at entry */
static struct bientry g_entry;                /* the block index entry for the block that starts at T0 */

#define MCQ_ENQ_INV(g) ((index_t) ((g).T - (g).H) < MCQ_BIG)
/* environment = consumers: headIndex grows but never passes tail (MCQ_INV I1, guaranteed by every claim: unit mcq.dequeue);
 * tailIndex is not written by anybody but this thread */
static void mcq_interfere(void)
{
  index_t dH = nondet_u64();
  VX_ASSUME(dH <= (index_t) (G.T - G.H));
  if (dH != 0) X.interfered = true;
  G.H += dH;
}
static index_t idx_load(struct prod *self, int w)
{
  mcq_interfere();
  if (w == W_tailIndex) return G.T;
  if (w == W_headIndex) return G.H;
  return nondet_u64();                        /* the consumers' counters: any value */
}
static void idx_store(struct prod *self, int w, index_t v)
{
  mcq_interfere();
  VX_ASSERT(w == W_tailIndex, "enqueue writes no index word other than tailIndex");
  VX_ASSERT(X.stores == 0, "tailIndex is published once");
  VX_ASSERT(X.constructs == 1, "the element is in its slot BEFORE tailIndex is published");
  VX_ASSERT(!X.boundary || (X.entry_published && self->tailBlock == &g_newblock), "a new block is in the block index (and is the tail block) before tailIndex is published");
  VX_ASSERT(v == (index_t) (G.T + 1), "guarantee: tailIndex advances by exactly one");
  G.T = v;
  X.stores++;
  VX_ASSERT(MCQ_ENQ_INV(G), "guarantee: tail stays within 2^60 of head");
}
static index_t idx_fetch_add(struct prod *self, int w, index_t k)
{
  VX_ASSERT(0, "enqueue performs no read-modify-write on the index words");
  return 0;
}
static bool insert_block_index_entry(struct prod *self, struct bientry **out, index_t block_start)
{
  VX_ASSERT(X.boundary && block_start == X.T0, "a block index entry is inserted only for a block that starts at tail");
  VX_ASSERT(X.inserted == 0, "one block index entry per call");
  if (nondet_bool()) return false;            /* index full and CannotAlloc / allocation failed */
  X.inserted++;
  g_entry.value = NULL;
  *out = &g_entry;
  return true;
}
static void rewind_block_index_tail(struct prod *self)
{
  VX_ASSERT(X.inserted == 1 && X.rewound == 0, "only an inserted entry is rewound, once");
  X.rewound++;
}
static struct block *requisition_block(struct cq *parent)
{
  VX_ASSERT(parent == &g_parent && X.boundary && X.inserted == 1 && X.requisitioned == 0, "one block is requisitioned, for the inserted entry");
  X.requisitioned++;
  if (nondet_bool()) return NULL;
  X.got_block++;
  return &g_newblock;
}
static void block_reset_empty(struct block *b)
{
  VX_ASSERT(b == &g_newblock && X.got_block == 1 && X.reset == 0 && X.constructs == 0, "the new block's emptiness flags are reset once, before an element is put in");
  X.reset++;
}
static elem_t *block_slot(struct block *b, index_t index)
{
  VX_ASSERT(index == X.T0, "the element is stored at index tail");
  VX_ASSERT(b == (X.boundary ? &g_newblock : &g_oldblock), "... in the block that holds that index");
  return &g_vslot;
}
/* placement new of T; may throw unless T's constructor is noexcept */
static void elem_construct(elem_t *p, elem_t v)
{
  VX_ASSERT(p == &g_vslot && X.constructs == 0, "exactly one element is constructed, in the slot at index tail");
  VX_ASSERT(!X.boundary || X.reset == 1, "a new block is reset before its first element is constructed");
  if (!X.cfg_noexcept_ctor && nondet_bool()) { vx_exc = true; return; }
  *p = v;
  X.constructs++;
}
static void entry_store(struct bientry *e, struct block *v)
{
  VX_ASSERT(e == &g_entry && X.inserted == 1, "only the entry inserted by this call is written");
  VX_ASSERT(v == NULL || (v == &g_newblock && X.got_block == 1 && X.stores == 0), "the entry names the new block (or is cleared)");
  e->value = v;
  X.entry_published = (v != NULL);
}
static void add_block_to_free_list(struct cq *parent, struct block *b)
{
  VX_ASSERT(parent == &g_parent && b == &g_newblock && X.got_block == 1 && X.freed == 0 && X.stores == 0, "only the unused new block is given back, once");
  X.freed++;
}
static void vx_catch(void) { VX_ASSERT(vx_exc, "handler entered with an exception in flight"); vx_exc = false; X.caught++; }
static void vx_rethrow(void) { vx_exc = true; }
#define MCQ_NOEXCEPT_CTOR (X.cfg_noexcept_ctor)
#define MCQ_ASSERT(...) VX_ASSERT((__VA_ARGS__), "assert(" #__VA_ARGS__ ")")

static bool circular_less_than(index_t a, index_t b)
//@LIFT clt

//@FUNC
bool enqueue(struct prod *self, elem_t element)
__CPROVER_requires(MCQ_ENQ_INV(G) && (index_t) (G.T - G.H) + 1 < MCQ_BIG)
__CPROVER_requires(X.T0 == G.T && X.boundary == ((G.T & (index_t) (BLOCK_SIZE - 1)) == 0) && !vx_exc && !X.interfered && !X.entry_published)
__CPROVER_requires(X.stores == 0 && X.constructs == 0 && X.inserted == 0 && X.requisitioned == 0 && X.got_block == 0 && X.reset == 0 && X.rewound == 0 && X.freed == 0 && X.caught == 0)
__CPROVER_requires(self->parent == &g_parent && self->tailBlock == &g_oldblock)
/* success: the element was stored at index tail exactly once and THEN tail+1 was published, exactly once */
__CPROVER_ensures((__CPROVER_return_value && !vx_exc) ==> (X.constructs == 1 && X.stores == 1 && G.T == (index_t) (X.T0 + 1) && g_vslot == element))
__CPROVER_ensures((__CPROVER_return_value && !vx_exc) ==> (X.boundary ? (X.reset == 1 && g_entry.value == &g_newblock && self->tailBlock == &g_newblock && X.freed == 0 && X.rewound == 0) \
                                                                           : (X.inserted == 0 && X.requisitioned == 0 && self->tailBlock == &g_oldblock)))
/* failure (no room / no memory) or exception from T's constructor: nothing is published, no element is left in a slot,
 * the block index entry is rewound and cleared, the block taken from the pool is given back */
__CPROVER_ensures((!__CPROVER_return_value || vx_exc) ==> (X.stores == 0 && G.T == X.T0 && X.constructs == 0 && self->tailBlock == &g_oldblock))
__CPROVER_ensures((!__CPROVER_return_value || vx_exc) ==> (X.rewound == (X.requisitioned == 1 ? X.inserted : 0) && X.freed == (vx_exc ? X.got_block : 0) && (X.got_block == 0 || vx_exc) && (X.inserted == 0 || X.requisitioned == 0 || g_entry.value == NULL)))
__CPROVER_ensures(vx_exc ==> (!X.cfg_noexcept_ctor && X.caught == (X.boundary ? 1 : 0)))
__CPROVER_ensures(MCQ_ENQ_INV(G))
__CPROVER_assigns(G, X, vx_exc, g_vslot, g_entry, self->tailBlock)
//@LIFT enqueue

void harness(void)
{
  struct prod p; p.parent = &g_parent; p.tailBlock = &g_oldblock;
  elem_t v = nondet_int();
  G.T = nondet_u64(); G.H = nondet_u64(); G.C = 0; G.O = 0; G.U = 0; G.Ub = 0;
  X.T0 = G.T; X.boundary = ((G.T & (index_t) (BLOCK_SIZE - 1)) == 0); X.cfg_noexcept_ctor = nondet_bool(); X.interfered = false;
  X.stores = 0; X.constructs = 0; X.inserted = 0; X.requisitioned = 0; X.got_block = 0; X.reset = 0; X.rewound = 0; X.freed = 0; X.caught = 0;
  X.entry_published = false; vx_exc = false; g_vslot = nondet_int(); g_entry.value = NULL;
  bool r = enqueue(&p, v);
  if (r && !vx_exc && !X.boundary) VX_REACH("enqueued_in_tail_block");
  if (r && !vx_exc && X.boundary && X.cfg_noexcept_ctor) VX_REACH("enqueued_in_new_block_noexcept");
  if (r && !vx_exc && X.boundary && !X.cfg_noexcept_ctor) VX_REACH("enqueued_in_new_block_maythrow");
  if (r && X.interfered) VX_REACH("enqueued_after_interference");
  if (!r && !vx_exc && X.inserted == 0) VX_REACH("no_index_entry");
  if (!r && !vx_exc && X.requisitioned == 1) VX_REACH("no_block");
  if (vx_exc && X.boundary) VX_REACH("ctor_threw_new_block");
  if (vx_exc && !X.boundary) VX_REACH("ctor_threw_tail_block");
}
