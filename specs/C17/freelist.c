/* C17 -- free list of the lock-free deque: pika's caching_freelist / static_freelist wrappers (lifted from /repo) on top of
 * boost::lockfree::detail::freelist_stack and tagged_ptr (lifted from the installed Boost headers, see freelist.h).
 *   U_TP_*  : F contracts on the tagged pointer (loop free, full domain)
 *   U_FL_*  : S contracts (rely/guarantee on the head word pool_) on allocate / deallocate and their *_unsafe variants
 * Hand written here: C types, ghost heap, environment (interference, OS allocator, memory of the nodes), contracts, harness.
 * Every statement of a function under contract comes from the lifter. */
#include "freelist.h"

/* ================= tagged_ptr<T> (pointer compression variant), lifted ================================================= */
static ptr_t extract_ptr(compressed_ptr_t i)                 /* volatile compressed_ptr_t const & i */
//@LIFT tp_extract_ptr
static tag_t extract_tag(compressed_ptr_t i)
//@LIFT tp_extract_tag
#ifdef U_TP_PACK
//@FUNC
static compressed_ptr_t pack_ptr(ptr_t ptr, tag_t tag)
__CPROVER_requires(CANON(ptr))
/* inverse on both fields, and the word is exactly the specification view (ptr in the low 48 bits, tag on top) */
__CPROVER_ensures(extract_ptr(__CPROVER_return_value) == ptr && extract_tag(__CPROVER_return_value) == tag)
__CPROVER_ensures(__CPROVER_return_value == S_WORD(ptr, tag))
//@LIFT tp_pack_ptr
#else
static compressed_ptr_t pack_ptr(ptr_t ptr, tag_t tag)
//@LIFT tp_pack_ptr
#endif
static ptr_t tp_get_ptr(const struct tagged_ptr *self)
//@LIFT tp_get_ptr
static tag_t tp_get_tag(const struct tagged_ptr *self)
//@LIFT tp_get_tag
static void tp_ctor(struct tagged_ptr *self, ptr_t p, tag_t t)   /* explicit tagged_ptr(T * p, tag_t t = 0) */
//@LIFT tp_ctor
static void tp_set(struct tagged_ptr *self, ptr_t p, tag_t t)
//@LIFT tp_set
static void tp_set_ptr(struct tagged_ptr *self, ptr_t p)
//@LIFT tp_set_ptr
static void tp_set_tag(struct tagged_ptr *self, tag_t t)
//@LIFT tp_set_tag
#ifdef U_TP_NEXT
//@FUNC
tag_t tp_get_next_tag(const struct tagged_ptr *self)
__CPROVER_ensures(__CPROVER_return_value == TAG_SUCC(S_TAG(self->ptr)))
__CPROVER_ensures(__CPROVER_return_value != S_TAG(self->ptr))
//@LIFT tp_get_next_tag
#else
static tag_t tp_get_next_tag(const struct tagged_ptr *self)
//@LIFT tp_get_next_tag
#endif
static bool tp_eq(const struct tagged_ptr *self, struct tagged_ptr p)      /* operator==(volatile tagged_ptr const & p) */
//@LIFT tp_eq
static bool tp_ne(const struct tagged_ptr *self, struct tagged_ptr p)
//@LIFT tp_ne
static ptr_t tp_arrow(const struct tagged_ptr *self)                       /* operator->: the address that is dereferenced */
//@LIFT tp_arrow
static bool tp_bool(const struct tagged_ptr *self)                         /* operator bool */
//@LIFT tp_bool

#ifdef U_TP_SET
/* set_ptr / set_tag / set / the two-argument constructor: each stores its argument(s) in its own field(s), nothing else moves */
//@FUNC
void tp_mutator(struct tagged_ptr *self, ptr_t p, tag_t t)
__CPROVER_requires(CANON(p))
__CPROVER_ensures(S_PTR(self->ptr) == (SETS_PTR ? p : S_PTR(__CPROVER_old(self->ptr))))
__CPROVER_ensures(S_TAG(self->ptr) == (SETS_TAG ? t : S_TAG(__CPROVER_old(self->ptr))))
__CPROVER_assigns(self->ptr)
//@LIFT tp_mutator
#endif

#if defined(U_TP_PACK) || defined(U_TP_NEXT) || defined(U_TP_SET)
void harness(void)
{
  struct tagged_ptr a, b;
  a.ptr = nondet_u64();
  b.ptr = nondet_u64();
#ifdef U_TP_PACK
  bool from_word = nondet_bool();      /* dfcc: one top-level call of the function under contract */
  ptr_t p = from_word ? extract_ptr(a.ptr) : nondet_u64();
  tag_t t = from_word ? extract_tag(a.ptr) : nondet_u16();
  compressed_ptr_t w = pack_ptr(p, t);
  VX_REACH("packed");
  if (from_word) { VX_ASSERT(w == a.ptr, "pack_ptr(extract_ptr(w), extract_tag(w)) == w for all 2^64 words"); VX_REACH("repacked_word"); }
  if (t == 0xffff && p == SPEC_PTR_MASK) VX_REACH("max_fields");
  /* every 64-bit word: the observers agree with the specification view, and re-packing the two fields gives the word back */
  VX_ASSERT(extract_ptr(a.ptr) == S_PTR(a.ptr) && extract_tag(a.ptr) == S_TAG(a.ptr), "extract_ptr / extract_tag == specification view, for all words");
  VX_ASSERT(tp_get_ptr(&a) == S_PTR(a.ptr) && tp_get_tag(&a) == S_TAG(a.ptr) && tp_arrow(&a) == S_PTR(a.ptr), "get_ptr / get_tag / operator-> == specification view");
  VX_ASSERT(tp_bool(&a) == (S_PTR(a.ptr) != 0), "operator bool <=> pointer field non-null");
  VX_ASSERT(tp_eq(&a, b) == (S_PTR(a.ptr) == S_PTR(b.ptr) && S_TAG(a.ptr) == S_TAG(b.ptr)), "operator== <=> same pointer and same tag");
  VX_ASSERT(tp_ne(&a, b) == !tp_eq(&a, b), "operator!= is the negation of operator==");
  if (tp_eq(&a, b)) VX_REACH("equal_words");
#endif
#ifdef U_TP_NEXT
  tag_t n = tp_get_next_tag(&a);
  VX_REACH("next_tag");
  if (n == 0) VX_REACH("wrapped");
#endif
#ifdef U_TP_SET
  /* (for the constructor: a.ptr is the uninitialised storage -- whatever it held before) */
  tp_mutator(&a, nondet_u64(), nondet_u16());
  VX_REACH("set");
#endif
}
#endif

struct freelist_stack { struct tagged_ptr pool_; };     /* atomic<tagged_node_ptr> pool_ (the allocator base class is the OS stub) */
static struct tagged_ptr tp_make(ptr_t p, tag_t t) { struct tagged_ptr r; tp_ctor(&r, p, t); return r; }   /* glue: tagged_node_ptr(p, t) as a temporary */

#ifdef U_FL
/* ================= ghost heap: four type-stable cells, their link words, who holds them ================================= */
enum { C_UNALLOC = 0,   /* not yet obtained from the OS allocator */
       C_IN = 1,        /* in the free stack */
       C_MINE = 2,      /* held by the calling thread (allocated to it, or about to be pushed by it) */
       C_OTHER = 3 };   /* held by another thread: in use as a deque node, or between that thread's allocate/deallocate steps */
static ptr_t g_a0, g_a1, g_a2, g_a3;                 /* addresses (symbolic, canonical, distinct, non-null) */
static uint8_t g_st0, g_st1, g_st2, g_st3;           /* holder */
static compressed_ptr_t g_nx0, g_nx1, g_nx2, g_nx3;  /* first word of the cell = freelist_node::next (a tagged_ptr word) */
static uint8_t g_dp0, g_dp1, g_dp2, g_dp3;           /* ghost: position in the stack counted from the bottom (1 = last) */
#define CELLS_ST g_st0, g_st1, g_st2, g_st3
#define CELLS_NX g_nx0, g_nx1, g_nx2, g_nx3
#define CELLS_DP g_dp0, g_dp1, g_dp2, g_dp3
#define ISCELL(p) ((p) == g_a0 || (p) == g_a1 || (p) == g_a2 || (p) == g_a3)
#define ST_OF(p) ((p) == g_a0 ? g_st0 : (p) == g_a1 ? g_st1 : (p) == g_a2 ? g_st2 : (p) == g_a3 ? g_st3 : (uint8_t) 255)
#define NX_OF(p) ((p) == g_a0 ? g_nx0 : (p) == g_a1 ? g_nx1 : (p) == g_a2 ? g_nx2 : (p) == g_a3 ? g_nx3 : (compressed_ptr_t) 0)
#define DP_OF(p) ((p) == g_a0 ? g_dp0 : (p) == g_a1 ? g_dp1 : (p) == g_a2 ? g_dp2 : (p) == g_a3 ? g_dp3 : (uint8_t) 255)
#define ADDR1(a) ((a) != 0 && CANON(a))
#define ADDR_OK (ADDR1(g_a0) && ADDR1(g_a1) && ADDR1(g_a2) && ADDR1(g_a3) && g_a0 != g_a1 && g_a0 != g_a2 && g_a0 != g_a3 && \
                 g_a1 != g_a2 && g_a1 != g_a3 && g_a2 != g_a3)
#define ST1(s) ((s) <= C_OTHER)
#define CNT ((g_st0 == C_IN) + (g_st1 == C_IN) + (g_st2 == C_IN) + (g_st3 == C_IN))
/* representation invariant of the free stack: the nodes marked C_IN are exactly one acyclic chain hanging off the head */
#define CELL_OK(st, nx, dp) ((st) != C_IN || ((dp) >= 1 && (dp) <= CNT && \
    ((dp) == 1 ? S_PTR(nx) == 0 : (ST_OF(S_PTR(nx)) == C_IN && DP_OF(S_PTR(nx)) == (dp) - 1))))
#define HEAD_OK(h) (S_PTR(h) == 0 ? CNT == 0 : (ST_OF(S_PTR(h)) == C_IN && DP_OF(S_PTR(h)) == CNT))
#define SINV(h) (ST1(g_st0) && ST1(g_st1) && ST1(g_st2) && ST1(g_st3) && HEAD_OK(h) && CELL_OK(g_st0, g_nx0, g_dp0) && \
                 CELL_OK(g_st1, g_nx1, g_dp1) && CELL_OK(g_st2, g_nx2, g_dp2) && CELL_OK(g_st3, g_nx3, g_dp3))
static void set_st(ptr_t p, uint8_t v) { if (p == g_a0) g_st0 = v; else if (p == g_a1) g_st1 = v; else if (p == g_a2) g_st2 = v; else if (p == g_a3) g_st3 = v; }
static void set_nx(ptr_t p, compressed_ptr_t v) { if (p == g_a0) g_nx0 = v; else if (p == g_a1) g_nx1 = v; else if (p == g_a2) g_nx2 = v; else if (p == g_a3) g_nx3 = v; }
static void set_dp(ptr_t p, uint8_t v) { if (p == g_a0) g_dp0 = v; else if (p == g_a1) g_dp1 = v; else if (p == g_a2) g_dp2 = v; else if (p == g_a3) g_dp3 = v; }

/* ---- linearisation ghost: the one successful step of the call on pool_ ---- */
enum { K_NONE = 0, K_POP = 1, K_PUSH = 2 };
static bool lin;
static struct tagged_ptr lin_old, lin_new, g_last_read;
static uint8_t g_lin_kind;
static ptr_t g_lin_node;        /* the node the step removed (pop) / published (push) */
static ptr_t g_lin_next;        /* that node's next pointer AT THE MOMENT OF THE STEP */
static uint32_t g_bumps;        /* tag-changing steps of other threads since this call last read the head word */
static bool g_quiescent;        /* no other thread is using the free list (precondition of the *_unsafe variants) */
static bool g_interfered;
static uint8_t g_os_allocs;     /* blocks obtained from the OS allocator by this call */
static ptr_t g_os_block;
#define LIN_GHOSTS lin, lin_old, lin_new, g_last_read, g_lin_kind, g_lin_node, g_lin_next, g_bumps, g_interfered

/* ---- RELY: what the other threads may do between two accesses of this call.  Every step of theirs is a step permitted by
 * the guarantee asserted in step() below (pop: head := head->next, tag+1; push: a node they hold, linked to the head, tag kept
 * or changed), so:  (a) the stack invariant holds afterwards; (b) cells this thread holds (C_MINE) and blocks the OS has not
 * handed out are untouched [A-OWN: a thread deallocates / writes only nodes it holds]; (c) the head tag moved by the number k
 * of tag-changing steps, and every pop is one [guarantee (pop)]; (d) if k == 0 there was no pop: every node that was in the
 * stack is still in it with the same next pointer (next of a stacked node is never written), and the head pointer is either
 * unchanged or a node somebody else held and pushed.
 * A-ABA (the ONLY thing the 16-bit tag relies on): k stays below 2^16 between this call's read of the head word and its CAS.
 * A block another thread obtains from the OS meanwhile is unobservable to this call until it is pushed: such blocks are among the
 * cells marked C_OTHER from the start (their contents are arbitrary anyway); C_UNALLOC cells are the ones THIS call may be given. */
#define ENV_CELL(st, nx, dp) do { if ((st) == C_IN || (st) == C_OTHER) { (st) = nondet_bool() ? C_IN : C_OTHER; (nx) = nondet_u64(); (dp) = nondet_u8(); } } while (0)
#define KEPT(ost, onx, st, nx) ((ost) != C_IN || ((st) == C_IN && (nx) == (onx)))
static void interfere(struct freelist_stack *self)
{
  if (g_quiescent) return;
  if (!nondet_bool()) return;
  uint32_t k = nondet_u32();
#ifndef FL_DROP_A_ABA   /* -DFL_DROP_A_ABA (experiment only, never a registered unit): without the assumption the pop guarantee of allocate_impl FAILS */
  VX_ASSUME(k < 65536u && g_bumps + k < 65536u);                                  /* A-ABA */
#else
  VX_ASSUME(k < 0x40000000u && g_bumps < 0x40000000u);                            /* ghost counter does not overflow */
#endif
  compressed_ptr_t oh = self->pool_.ptr;
  uint8_t ost0 = g_st0, ost1 = g_st1, ost2 = g_st2, ost3 = g_st3;
  compressed_ptr_t onx0 = g_nx0, onx1 = g_nx1, onx2 = g_nx2, onx3 = g_nx3;
  self->pool_.ptr = nondet_u64();
  ENV_CELL(g_st0, g_nx0, g_dp0); ENV_CELL(g_st1, g_nx1, g_dp1); ENV_CELL(g_st2, g_nx2, g_dp2); ENV_CELL(g_st3, g_nx3, g_dp3);
  VX_ASSUME(SINV(self->pool_.ptr));                                               /* (a), (b) */
  VX_ASSUME(S_TAG(self->pool_.ptr) == (tag_t) (S_TAG(oh) + k));                   /* (c) */
  if (k == 0)                                                                     /* (d) */
  {
    VX_ASSUME(KEPT(ost0, onx0, g_st0, g_nx0) && KEPT(ost1, onx1, g_st1, g_nx1) && KEPT(ost2, onx2, g_st2, g_nx2) && KEPT(ost3, onx3, g_st3, g_nx3));
    ptr_t nh = S_PTR(self->pool_.ptr);
    VX_ASSUME(nh == S_PTR(oh) || (nh == g_a0 ? ost0 : nh == g_a1 ? ost1 : nh == g_a2 ? ost2 : nh == g_a3 ? ost3 : 255) == C_OTHER);
  }
  g_bumps += k;
  g_interfered = true;
}

/* ---- GUARANTEE: a successful write of pool_ by the code under contract is one push or one pop of the Treiber stack ---- */
static void step(struct freelist_stack *self, struct tagged_ptr desired)
{
  VX_ASSERT(!lin, "at most one successful step on pool_ per call");
  lin = true; lin_old = self->pool_; lin_new = desired;
  ptr_t a = S_PTR(lin_old.ptr), b = S_PTR(desired.ptr);
  if (b != 0 && ST_OF(b) == C_MINE)
  { /* push */
    VX_ASSERT(S_PTR(NX_OF(b)) == a, "guarantee (push): the node is linked in front of the head it replaces (node->next == old head) BEFORE it is published");
    VX_ASSERT(S_TAG(desired.ptr) == S_TAG(lin_old.ptr) || S_TAG(desired.ptr) == TAG_SUCC(S_TAG(lin_old.ptr)), "guarantee (push): the tag is kept or advanced by one");
    g_lin_kind = K_PUSH; g_lin_node = b; g_lin_next = S_PTR(NX_OF(b));
    set_dp(b, (uint8_t) (CNT + 1)); set_st(b, C_IN);
  }
  else
  { /* pop */
    VX_ASSERT(a != 0 && ST_OF(a) == C_IN, "guarantee (pop): only the node on top of the free stack is handed out (nothing invented, nothing held by somebody)");
    VX_ASSERT(b == S_PTR(NX_OF(a)), "guarantee (pop): the new head is the next pointer of the removed node AS IT IS AT THE MOMENT OF THE STEP (a stale next resurrects / loses nodes: ABA)");
    VX_ASSERT(S_TAG(desired.ptr) == TAG_SUCC(S_TAG(lin_old.ptr)), "guarantee (pop): every pop advances the ABA tag by one (the rely of the other threads counts on it)");
    g_lin_kind = K_POP; g_lin_node = a; g_lin_next = S_PTR(NX_OF(a));
    set_st(a, C_MINE);
  }
  self->pool_ = desired;
  VX_ASSERT(SINV(self->pool_.ptr), "guarantee: after the step the free nodes are again exactly one acyclic chain off the head (the node handed out is not in it; the node pushed is in it once)");
}

/* std::atomic<tagged_node_ptr>::load */
static struct tagged_ptr atomic_load(struct freelist_stack *self, struct tagged_ptr *p)
{
  interfere(self);
  g_last_read = *p; g_bumps = 0;
  return *p;
}
/* std::atomic<tagged_node_ptr>::compare_exchange_weak: bitwise comparison of the 64-bit word; may fail spuriously */
static bool atomic_cas_weak(struct freelist_stack *self, struct tagged_ptr *p, struct tagged_ptr *expected, struct tagged_ptr desired)
{
  interfere(self);
  if (p->ptr == expected->ptr && nondet_bool()) { step(self, desired); return true; }
  *expected = *p;
  g_last_read = *p; g_bumps = 0;
  return false;
}
/* std::atomic<tagged_node_ptr>::store: an unconditional write; admissible only as a push/pop step of the CURRENT head */
static void atomic_store(struct freelist_stack *self, struct tagged_ptr *p, struct tagged_ptr v)
{
  interfere(self);
  step(self, v);
}
/* `tp->next` read: memory of a node that may belong to somebody else by now (type-stable: A-TYPESTABLE) */
static struct tagged_ptr node_next_load(struct freelist_stack *self, ptr_t node)
{
  interfere(self);
  VX_ASSERT(ISCELL(node) && ST_OF(node) != C_UNALLOC, "dereferences only memory that belongs to the free list (type stable), never a null / foreign pointer");
  struct tagged_ptr r; r.ptr = NX_OF(node);
  return r;
}
static ptr_t tp_get_ptr_v(struct tagged_ptr v) { return tp_get_ptr(&v); }      /* glue: member call on a temporary */
/* `tp->next.set_ptr(v)`: write to the link word of a node -- legitimate only while the caller holds the node */
static void node_next_set_ptr(struct freelist_stack *self, ptr_t node, ptr_t v)
{
  VX_ASSERT(ISCELL(node) && ST_OF(node) == C_MINE, "writes the link of a node only while holding it (before publishing it)");
  struct tagged_ptr w; w.ptr = NX_OF(node);
  tp_set_ptr(&w, v);
  set_nx(node, w.ptr);
}
/* Alloc::allocate(1): the OS hands out a block nobody is using (std::allocator throws instead of returning null: not modelled) */
static ptr_t os_allocate(struct freelist_stack *self, size_t n)
{
  VX_ASSERT(n == 1, "one node per request");
  uint8_t c = nondet_u8();
  ptr_t p = c == 0 ? g_a0 : c == 1 ? g_a1 : c == 2 ? g_a2 : g_a3;
  VX_ASSUME(ST_OF(p) == C_UNALLOC);           /* a fresh block: not in the stack, not held by anybody */
  set_st(p, C_MINE); set_nx(p, nondet_u64());
  if (g_os_allocs < 2) g_os_allocs++;
  g_os_block = p;
  return p;
}
static void fl_memset(struct freelist_stack *self, ptr_t p, int v, size_t n)
{
  VX_ASSERT(ISCELL(p) && ST_OF(p) == C_MINE && n <= sizeof(T), "memset only inside a block the caller holds");
  set_nx(p, v == 0 ? 0 : nondet_u64());
}

/* ================= boost::lockfree::detail::freelist_stack<T, Alloc>, lifted ============================================ */
static ptr_t allocate_impl(struct freelist_stack *self, bool Bounded)
//@LIFT fs_allocate_impl
static ptr_t allocate_impl_unsafe(struct freelist_stack *self, bool Bounded)
//@LIFT fs_allocate_impl_unsafe
static void deallocate_impl(struct freelist_stack *self, ptr_t n)
//@LIFT fs_deallocate_impl
static void deallocate_impl_unsafe(struct freelist_stack *self, ptr_t n)
//@LIFT fs_deallocate_impl_unsafe

#define HAS_UNALLOC (g_st0 == C_UNALLOC || g_st1 == C_UNALLOC || g_st2 == C_UNALLOC || g_st3 == C_UNALLOC)
#define PRE_COMMON(self) (ADDR_OK && SINV((self)->pool_.ptr) && !lin && g_lin_kind == K_NONE && g_bumps == 0 && g_os_allocs == 0 && !g_interfered)
/* ---- allocate (property text: FL_ALLOC_DOC in freelist_spec.py).  r = result, bounded = may not ask the OS ---- */
/* null only from the bounded free list, only after reading an empty head, without having changed anything */
#define AL_NULL_ONLY_WHEN_BOUNDED_AND_EMPTY_SEEN(r, bounded) VX_IMPLIES((r) == 0, (bounded) && !lin && g_os_allocs == 0 && S_PTR(g_last_read.ptr) == 0)
/* a recycled node is exactly the node that WAS the top of the free stack in the pre-state of the call's one successful step; that
 * step made the node's next pointer (as it was at that moment) the new head and advanced the tag */
#define AL_RECYCLED_NODE_WAS_TOP_AT_ITS_STEP(r) VX_IMPLIES((r) != 0 && lin, g_lin_kind == K_POP && g_lin_node == (r) && S_PTR(lin_old.ptr) == (r) && \
  S_PTR(lin_new.ptr) == g_lin_next && S_TAG(lin_new.ptr) == TAG_SUCC(S_TAG(lin_old.ptr)) && g_os_allocs == 0)
/* otherwise it is one fresh block from the OS, asked for only after reading an empty head and never by the bounded list */
#define AL_ELSE_ONE_FRESH_BLOCK_AFTER_EMPTY_SEEN(r, bounded) VX_IMPLIES((r) != 0 && !lin, !(bounded) && g_os_allocs == 1 && (r) == g_os_block && S_PTR(g_last_read.ptr) == 0)
/* the node handed out is the caller's alone: it is not in the free stack afterwards (so it cannot be handed out again before it is deallocated) */
#define AL_RESULT_HELD_BY_CALLER_NOT_IN_STACK(self, r) (VX_IMPLIES((r) != 0, ST_OF(r) == C_MINE) && SINV((self)->pool_.ptr))
/* ---- deallocate: exactly one step, a push of n, with n->next == the head it replaced; n is in the stack once ---- */
#define DE_ONE_PUSH_OF_N_LINKED_TO_OLD_HEAD(n) (lin && g_lin_kind == K_PUSH && g_lin_node == (n) && S_PTR(lin_new.ptr) == (n) && g_lin_next == S_PTR(lin_old.ptr))
#define DE_N_IN_STACK_ONCE(self, n) (ST_OF(n) == C_IN && SINV((self)->pool_.ptr))
#define FL_FRAME self->pool_, CELLS_ST, CELLS_NX, CELLS_DP, LIN_GHOSTS, g_os_allocs, g_os_block

#ifdef U_FL_BOOST_ALLOC
//@FUNC
ptr_t fs_allocate(struct freelist_stack *self, bool ThreadSafe, bool Bounded)
__CPROVER_requires(PRE_COMMON(self) && (ThreadSafe || g_quiescent) && (Bounded || HAS_UNALLOC))
__CPROVER_ensures(AL_NULL_ONLY_WHEN_BOUNDED_AND_EMPTY_SEEN(__CPROVER_return_value, Bounded))
__CPROVER_ensures(AL_RECYCLED_NODE_WAS_TOP_AT_ITS_STEP(__CPROVER_return_value))
__CPROVER_ensures(AL_ELSE_ONE_FRESH_BLOCK_AFTER_EMPTY_SEEN(__CPROVER_return_value, Bounded))
__CPROVER_ensures(AL_RESULT_HELD_BY_CALLER_NOT_IN_STACK(self, __CPROVER_return_value))
__CPROVER_assigns(FL_FRAME)
//@LIFT fs_allocate
#else
static ptr_t fs_allocate(struct freelist_stack *self, bool ThreadSafe, bool Bounded)
//@LIFT fs_allocate
#endif
#ifdef U_FL_BOOST_DEALLOC
//@FUNC
void fs_deallocate(struct freelist_stack *self, bool ThreadSafe, ptr_t n)
__CPROVER_requires(PRE_COMMON(self) && (ThreadSafe || g_quiescent) && ST_OF(n) == C_MINE)
__CPROVER_ensures(DE_ONE_PUSH_OF_N_LINKED_TO_OLD_HEAD(n))
__CPROVER_ensures(DE_N_IN_STACK_ONCE(self, n))
__CPROVER_assigns(FL_FRAME)
//@LIFT fs_deallocate
#else
static void fs_deallocate(struct freelist_stack *self, bool ThreadSafe, ptr_t n)
//@LIFT fs_deallocate
#endif

/* ================= pika::concurrency::detail::caching_freelist / static_freelist, lifted from /repo ====================== */
#if defined(P_CACHING)
#define PK_BOUNDED 0     /* caching_freelist: falls back to the OS allocator, never fails */
#elif defined(P_STATIC)
#define PK_BOUNDED 1     /* static_freelist: only the pre-allocated nodes; null when they are all handed out */
#endif
#ifdef U_FL_PK_ALLOC
/* thread safe (called concurrently from every push of the deque) */
//@FUNC
ptr_t pk_allocate(struct freelist_stack *self)
__CPROVER_requires(PRE_COMMON(self) && !g_quiescent && (PK_BOUNDED || HAS_UNALLOC))
__CPROVER_ensures(AL_NULL_ONLY_WHEN_BOUNDED_AND_EMPTY_SEEN(__CPROVER_return_value, PK_BOUNDED))
__CPROVER_ensures(AL_RECYCLED_NODE_WAS_TOP_AT_ITS_STEP(__CPROVER_return_value))
__CPROVER_ensures(AL_ELSE_ONE_FRESH_BLOCK_AFTER_EMPTY_SEEN(__CPROVER_return_value, PK_BOUNDED))
__CPROVER_ensures(AL_RESULT_HELD_BY_CALLER_NOT_IN_STACK(self, __CPROVER_return_value))
__CPROVER_assigns(FL_FRAME)
//@LIFT pk_allocate
#endif
#ifdef U_FL_PK_DEALLOC
//@FUNC
void pk_deallocate(struct freelist_stack *self, ptr_t n)
__CPROVER_requires(PRE_COMMON(self) && !g_quiescent && ST_OF(n) == C_MINE)
__CPROVER_ensures(DE_ONE_PUSH_OF_N_LINKED_TO_OLD_HEAD(n))
__CPROVER_ensures(DE_N_IN_STACK_ONCE(self, n))
__CPROVER_assigns(FL_FRAME)
//@LIFT pk_deallocate
#endif

void harness(void)
{
  struct freelist_stack q;
  /* dfcc: statics are nondeterministic -- every ghost is set explicitly */
  g_a0 = nondet_u64(); g_a1 = nondet_u64(); g_a2 = nondet_u64(); g_a3 = nondet_u64();
  g_st0 = nondet_u8(); g_st1 = nondet_u8(); g_st2 = nondet_u8(); g_st3 = nondet_u8();
  g_nx0 = nondet_u64(); g_nx1 = nondet_u64(); g_nx2 = nondet_u64(); g_nx3 = nondet_u64();
  g_dp0 = nondet_u8(); g_dp1 = nondet_u8(); g_dp2 = nondet_u8(); g_dp3 = nondet_u8();
  q.pool_.ptr = nondet_u64();
  lin = false; lin_old.ptr = 0; lin_new.ptr = 0; g_last_read.ptr = 0; g_lin_kind = K_NONE; g_lin_node = 0; g_lin_next = 0;
  g_bumps = 0; g_interfered = false; g_os_allocs = 0; g_os_block = 0;
  compressed_ptr_t h0 = q.pool_.ptr;
  uint8_t cnt0 = CNT;
#if defined(U_FL_PK_ALLOC) || defined(U_FL_BOOST_ALLOC)
#ifdef U_FL_PK_ALLOC
  g_quiescent = false;
  ptr_t r = pk_allocate(&q);
  bool bounded = PK_BOUNDED;
#else
  g_quiescent = true;
  bool bounded = nondet_bool();
  ptr_t r = fs_allocate(&q, false, bounded);
  /* no other thread: the sequential meaning -- exactly the old top comes out and the rest of the stack stays */
  VX_ASSERT(VX_IMPLIES(S_PTR(h0) != 0, r == S_PTR(h0) && lin && CNT == cnt0 - 1), "allocate_unsafe on a non-empty stack returns its top and shortens it by one");
  VX_ASSERT(VX_IMPLIES(S_PTR(h0) == 0, !lin && q.pool_.ptr == h0), "allocate_unsafe on an empty stack leaves the head word alone");
#endif
  if (r != 0 && lin) VX_REACH("popped");
  if (r != 0 && lin && g_lin_next != 0) VX_REACH("popped_stack_still_non_empty");
#if !defined(U_FL_PK_ALLOC) || !PK_BOUNDED
  if (r != 0 && !lin) VX_REACH("fresh_block_from_os");
#endif
#if !defined(U_FL_PK_ALLOC) || PK_BOUNDED
  if (r == 0) VX_REACH("null_when_empty_and_bounded");
#endif
#ifdef U_FL_PK_ALLOC
  if (r != 0 && lin && lin_old.ptr != h0) VX_REACH("popped_after_interference");
#if PK_BOUNDED
  VX_ASSERT(g_os_allocs == 0, "static_freelist never asks the OS allocator");
#else
  VX_ASSERT(r != 0, "caching_freelist::allocate never returns null");
#endif
#endif
#endif
#if defined(U_FL_PK_DEALLOC) || defined(U_FL_BOOST_DEALLOC)
  ptr_t n = nondet_u64();
#ifdef U_FL_PK_DEALLOC
  g_quiescent = false;
  pk_deallocate(&q, n);
  if (lin_old.ptr != h0) VX_REACH("pushed_after_interference");
#else
  g_quiescent = true;
  fs_deallocate(&q, false, n);
  VX_ASSERT(lin_old.ptr == h0 && CNT == cnt0 + 1, "deallocate_unsafe puts the node on top of the unchanged stack");
#endif
  VX_REACH("pushed");
  if (S_PTR(lin_old.ptr) == 0) VX_REACH("pushed_on_empty_stack");
#endif
}
#endif

#ifdef U_LIFE
/* ================= constructor pre-allocation loop / destructor drain loop (T contracts, loop contracts) ==================
 * Object under construction / destruction: no other thread can reach it (g_quiescent; the destructor is documented not thread
 * safe).  Blocks are opaque to both loops (compared with null, handed to stubs), so a block is named by a token: the k-th
 * block obtained from the allocator (constructor) resp. the k-th node from the top of the stack (destructor) is k (1-based).
 * One symbolic victim g_v stands for every block ("pushed exactly once", "returned to the allocator exactly once"). */
#define LIFE_MAX ((size_t) 1 << 47)
static bool g_quiescent;
static size_t g_allocs;          /* blocks obtained from Alloc::allocate */
static size_t g_size;            /* nodes put on the free stack */
static size_t g_L;               /* destructor: length of the stack in the pre-state */
static size_t g_freed;           /* blocks returned to Alloc::deallocate */
static size_t g_v;               /* the victim's index (0-based) */
static uint8_t g_victim_pushes, g_victim_frees;
static ptr_t os_allocate(struct freelist_stack *self, size_t n)
{
  VX_ASSERT(n == 1, "one node per request");
  g_allocs++;
  return (ptr_t) g_allocs;
}
static void fl_memset(struct freelist_stack *self, ptr_t p, int v, size_t n)
{
  VX_ASSERT(p >= 1 && p <= g_allocs && n <= sizeof(T), "memset only inside a block obtained from the allocator");
}
/* deallocate<false> -> deallocate_impl_unsafe: its step contract is proved by unit freelist.stack.deallocate_unsafe
 * (one push of the node, linked to the old head, the node is in the stack once afterwards) */
static void deallocate_impl_unsafe(struct freelist_stack *self, ptr_t n)
{
  VX_ASSERT(g_quiescent, "the unsafe variant is used only while no other thread can reach the free list");
  VX_ASSERT(n >= 1 && n <= g_allocs, "only a block obtained from the allocator is put on the free stack");
  VX_ASSERT((g_size == 0) == (S_PTR(self->pool_.ptr) == 0), "the head word was initialised to the empty stack before the first push");
  if (n == g_v + 1)
  {
    VX_ASSERT(g_victim_pushes == 0, "no block is put on the free stack twice");
    if (g_victim_pushes < 2) g_victim_pushes++;
  }
  g_size++;
  self->pool_.ptr = S_WORD(n, S_TAG(self->pool_.ptr));
}
static void deallocate_impl(struct freelist_stack *self, ptr_t n)
{
  VX_ASSERT(g_quiescent, "unreachable in the constructor: kept so that the lifted dispatch links");
  deallocate_impl_unsafe(self, n);
}
static void fs_deallocate(struct freelist_stack *self, bool ThreadSafe, ptr_t n)
//@LIFT fs_deallocate
static struct tagged_ptr atomic_load(struct freelist_stack *self, struct tagged_ptr *p)
{
  VX_ASSERT(g_quiescent, "not thread safe: destructor only when no other thread uses the free list");
  return *p;
}
/* current_ptr->next: the node must still be allocated */
static struct tagged_ptr node_next_load(struct freelist_stack *self, ptr_t node)
{
  VX_ASSERT(node >= 1 && node <= g_L, "dereferences only nodes of the stack");
  VX_ASSERT(node > g_freed, "no read of a node that was already returned to the allocator (use after free)");
  struct tagged_ptr r; r.ptr = S_WORD(node < g_L ? node + 1 : 0, nondet_u16());
  return r;
}
static void os_deallocate(struct freelist_stack *self, ptr_t p, size_t n)
{
  VX_ASSERT(n == 1, "one node per call");
  VX_ASSERT(p >= 1 && p <= g_L, "only nodes of the stack are returned to the allocator (never null)");
  VX_ASSERT(p == g_freed + 1, "every node is returned once, none twice, none skipped (stack order)");
  if (p == g_v + 1 && g_victim_frees < 2) g_victim_frees++;
  g_freed++;
}

#ifdef U_LIFE_CTOR
/* freelist_stack(Allocator const & alloc, std::size_t n): body (the pre-allocation loop) and mem-initialiser list */
static void fs_ctor(struct freelist_stack *self, int alloc, size_t n)
{
//@LIFT fs_ctor_init
//@LIFT fs_ctor_body
}
#define VX_ALLOC_DEFAULT 0   /* Alloc() */
/* pika: caching_freelist(std::size_t n = 0) / static_freelist(std::size_t n = 0): afterwards the free stack holds exactly n
 * fresh blocks, each obtained from the allocator once and put on the stack once */
//@FUNC
void pk_ctor(struct freelist_stack *self, size_t n)
__CPROVER_requires(g_quiescent && n < LIFE_MAX && g_allocs == 0 && g_size == 0 && g_victim_pushes == 0 && g_v < n)
__CPROVER_ensures(g_allocs == n && g_size == n)
__CPROVER_ensures(g_victim_pushes == 1)
__CPROVER_ensures((n == 0) == (S_PTR(self->pool_.ptr) == 0))
__CPROVER_assigns(self->pool_, g_allocs, g_size, g_victim_pushes)
//@LIFT pk_ctor
#endif
#ifdef U_LIFE_CTOR0
static void fs_ctor(struct freelist_stack *self, int alloc, size_t n)
{
//@LIFT fs_ctor_init
//@LIFT fs_ctor_body
}
#define VX_ALLOC_DEFAULT 0
/* n == 0 (no victim): an empty free stack, nothing allocated */
//@FUNC
void pk_ctor(struct freelist_stack *self, size_t n)
__CPROVER_requires(g_quiescent && n == 0 && g_allocs == 0 && g_size == 0 && g_victim_pushes == 0)
__CPROVER_ensures(g_allocs == 0 && g_size == 0 && S_PTR(self->pool_.ptr) == 0)
__CPROVER_assigns(self->pool_, g_allocs, g_size, g_victim_pushes)
//@LIFT pk_ctor
#endif
#ifdef U_LIFE_DTOR
/* ~freelist_stack: every node of the stack goes back to the allocator exactly once, nothing else does */
//@FUNC
void fs_dtor(struct freelist_stack *self)
__CPROVER_requires(g_quiescent && g_L < LIFE_MAX && g_freed == 0 && g_victim_frees == 0 && (g_L == 0 || g_v < g_L))
__CPROVER_requires(S_PTR(self->pool_.ptr) == (g_L == 0 ? 0 : 1))
__CPROVER_ensures(g_freed == g_L)
__CPROVER_ensures(g_victim_frees == (g_L == 0 ? 0 : 1))
__CPROVER_assigns(g_freed, g_victim_frees)
//@LIFT fs_dtor
#endif

void harness(void)
{
  struct freelist_stack q;
  q.pool_.ptr = nondet_u64();           /* uninitialised storage / any tag */
  g_quiescent = true; g_allocs = 0; g_size = 0; g_freed = 0; g_victim_pushes = 0; g_victim_frees = 0;
  g_v = nondet_size(); g_L = nondet_size();
#if defined(U_LIFE_CTOR) || defined(U_LIFE_CTOR0)
  size_t n = nondet_size();
  pk_ctor(&q, n);
  VX_REACH("constructed");
#ifdef U_LIFE_CTOR
  if (n > 2 && g_v == 1) VX_REACH("several_nodes");
#endif
#endif
#ifdef U_LIFE_DTOR
  fs_dtor(&q);
  if (g_L == 0) VX_REACH("empty_stack"); else VX_REACH("drained");
  if (g_L > 2) VX_REACH("several_nodes");
#endif
}
#endif
