/* C17 -- Michael's CAS-based lock-free deque (pika/concurrency/deque.hpp): C types, ghost state and the transition
 * system of the algorithm (M. Michael, "CAS-Based Lock-Free Algorithm for Shared Deques", Euro-Par 2003).
 * Shared by deque.c (S-contracts on the anchor), deque_lemma.c (lemmas over the step guarantees) and deque_seq.c
 * (bounded sequential stand-in).  The packing of (left, right, status, tag) into 128 bits is proved by units tpp.*;
 * here the anchor is the unpacked record.  Nothing in this file is pika logic: the function bodies are lifted. */
#ifndef C17_DEQUE_H
#define C17_DEQUE_H
#include "vx.h"

typedef int T;                       /* payload: opaque token */
typedef uint16_t tag_t;              /* tagged_ptr_pair::tag_t and boost tagged_ptr::tag_t are 16 bit */
enum deque_status_type { stable, rpush, lpush };   /* same spelling and order as deque.hpp */

struct node;
struct tptr { struct node *ptr; tag_t tag; };                       /* boost::lockfree::detail::tagged_ptr<deque_node> */
struct node { struct tptr left; struct tptr right; T data; };       /* deque_node<T> */
struct pair { struct node *left; struct node *right; tag_t ltag; tag_t rtag; };   /* tagged_ptr_pair: ltag = status, rtag = ABA tag */
struct deque { struct pair anchor_; int pool_; };

/* integral tag arguments are converted with static_cast<tag_t> by pack_ptr_pair / the tagged_ptr constructor */
static struct pair mk_pair(struct node *l, struct node *r, int ltag, int rtag)
{
  struct pair p; p.left = l; p.right = r; p.ltag = (tag_t) (ltag & 0xffff); p.rtag = (tag_t) (rtag & 0xffff); return p;
}
static struct tptr mk_tptr(struct node *p, int tag)
{
  struct tptr t; t.ptr = p; t.tag = (tag_t) (tag & 0xffff); return t;
}
#define PEQ(a, b) ((a).left == (b).left && (a).right == (b).right && (a).ltag == (b).ltag && (a).rtag == (b).rtag)
#define TPEQ(a, b) ((a).ptr == (b).ptr && (a).tag == (b).tag)

/* ---- node storage: type-stable memory handed out by the freelist (never returned to the OS while the deque lives) ---- */
#ifndef NPOOL
#define NPOOL 4
#endif
/* four separate objects (not an array): pointer dereferences case-split over the objects, no symbolic offsets */
static struct node g_n0, g_n1, g_n2, g_n3;
#define POOL_OBJECTS g_n0, g_n1, g_n2, g_n3
#define INPOOL(p) ((p) == &g_n0 || (p) == &g_n1 || (p) == &g_n2 || (p) == &g_n3)
#define INPOOL0(p) ((p) == NULL || INPOOL(p))
#define NODE_OK(n) (INPOOL0((n).left.ptr) && INPOOL0((n).right.ptr))
#define POOL_OK (NODE_OK(g_n0) && NODE_OK(g_n1) && NODE_OK(g_n2) && NODE_OK(g_n3))

/* ---- the transitions of the anchor in Michael's algorithm; every one increments the ABA tag ---- */
#define TAGNEXT(o, n) ((n).rtag == (tag_t) (((o).rtag + 1) & 0xffff))
#define T_STAB(o, n) ((o).ltag != stable && (n).left == (o).left && (n).right == (o).right && (n).ltag == stable && TAGNEXT(o, n))
#define T_PUSH_EMPTY(o, n, x) ((x) != NULL && (o).ltag == stable && (o).left == NULL && (o).right == NULL && \
                               (n).left == (x) && (n).right == (x) && (n).ltag == stable && TAGNEXT(o, n))
#define T_PUSH_LEFT(o, n, x) ((x) != NULL && (o).ltag == stable && (o).left != NULL && (o).right != NULL && \
                              (n).left == (x) && (n).right == (o).right && (n).ltag == lpush && TAGNEXT(o, n))
#define T_PUSH_RIGHT(o, n, x) ((x) != NULL && (o).ltag == stable && (o).left != NULL && (o).right != NULL && \
                               (n).left == (o).left && (n).right == (x) && (n).ltag == rpush && TAGNEXT(o, n))
#define T_POP_LAST(o, n) ((o).ltag == stable && (o).left != NULL && (o).left == (o).right && \
                          (n).left == NULL && (n).right == NULL && (n).ltag == stable && TAGNEXT(o, n))
/* inward = o.left->right (resp. o.right->left) at the moment of the step */
#define T_POP_LEFT(o, n, inward) ((o).ltag == stable && (o).left != NULL && (o).right != NULL && (o).left != (o).right && \
                                  (n).left == (inward) && (n).right == (o).right && (n).ltag == stable && TAGNEXT(o, n))
#define T_POP_RIGHT(o, n, inward) ((o).ltag == stable && (o).left != NULL && (o).right != NULL && (o).left != (o).right && \
                                   (n).left == (o).left && (n).right == (inward) && (n).ltag == stable && TAGNEXT(o, n))

/* ---- invariant of the anchor word alone ---- */
#define A_OK(a) (INPOOL0((a).left) && INPOOL0((a).right) && (((a).left == NULL) == ((a).right == NULL)) && \
                 ((a).ltag == stable || (a).ltag == rpush || (a).ltag == lpush) && \
                 VX_IMPLIES((a).left == (a).right, (a).ltag == stable))
/* ---- representation invariant at the two ends (what a thread can rely on without knowing the interior):
 *   stable        : both ends of the doubly linked chain are consistent
 *   lpush / rpush : the new end node points inward; only the ONE back link to it may still be missing            */
/* link of a pool node, spelled as a case split over the four cells (specification side only; NULL for a non-pool pointer) */
#define LNK_R(p) ((p) == &g_n0 ? g_n0.right.ptr : (p) == &g_n1 ? g_n1.right.ptr : (p) == &g_n2 ? g_n2.right.ptr : (p) == &g_n3 ? g_n3.right.ptr : (struct node *) NULL)
#define LNK_L(p) ((p) == &g_n0 ? g_n0.left.ptr : (p) == &g_n1 ? g_n1.left.ptr : (p) == &g_n2 ? g_n2.left.ptr : (p) == &g_n3 ? g_n3.left.ptr : (struct node *) NULL)
#define DATA_OF(p) ((p) == &g_n0 ? g_n0.data : (p) == &g_n1 ? g_n1.data : (p) == &g_n2 ? g_n2.data : (p) == &g_n3 ? g_n3.data : 0)
#define LEFT_END_OK(a) (LNK_R((a).left) != NULL && LNK_L(LNK_R((a).left)) == (a).left)
#define RIGHT_END_OK(a) (LNK_L((a).right) != NULL && LNK_R(LNK_L((a).right)) == (a).right)
#define ENDS_OK(a) ((a).left == NULL || (a).left == (a).right || \
    ((a).ltag == stable ? (LEFT_END_OK(a) && RIGHT_END_OK(a)) : \
     (a).ltag == lpush ? (LNK_R((a).left) != NULL && (LNK_R((a).left) == (a).right || RIGHT_END_OK(a))) : \
                         (LNK_L((a).right) != NULL && (LNK_L((a).right) == (a).left || LEFT_END_OK(a)))))
#define S_OK(a) (A_OK(a) && POOL_OK && ENDS_OK(a))
/* the missing back link of an unstable anchor has been fixed */
#define BACKLINK_OK(a) ((a).ltag == lpush ? ((a).left != NULL && LEFT_END_OK(a)) : \
                        (a).ltag == rpush ? ((a).right != NULL && RIGHT_END_OK(a)) : 1)
/* x is private to the calling thread: neither the anchor nor any node links to it */
#define NOLINK(n, x) ((n).left.ptr != (x) && (n).right.ptr != (x))
#define NOREF(a, x) ((a).left != (x) && (a).right != (x) && NOLINK(g_n0, x) && NOLINK(g_n1, x) && \
                     NOLINK(g_n2, x) && NOLINK(g_n3, x))

#endif
