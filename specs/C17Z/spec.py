exec(open("/verif/specs/C17/mcq_spec.py").read()); UNITS = MCQ_UNITS; META = MCQ_META
STATIC = MCQ_STATIC
