import os
exec(open("/verif/specs/C01/mc_spec.py").read()); UNITS = MC_UNITS; META = MC_META
if os.environ.get("MC_EXCL"):
    for u in UNITS:
        u.defines = list(u.defines) + os.environ["MC_EXCL"].split(",")
