/* C13 -- common opaque types: thread ids, scheduling states, pending-exception ghost */
#ifndef C13_H
#define C13_H
#include "vx.h"

enum thread_schedule_state { /* coroutines/thread_enums.hpp */
  thread_schedule_state_unknown = 0, thread_schedule_state_active = 1, thread_schedule_state_pending = 2,
  thread_schedule_state_suspended = 3, thread_schedule_state_terminated = 4, thread_schedule_state_staged = 5,
  thread_schedule_state_pending_do_not_schedule = 6, thread_schedule_state_pending_boost = 7 };

typedef long tid_t; /* thread_id_type / thread_id_ref_type: opaque token */
#define invalid_thread_id ((tid_t) 0)

/* C++ exceptions are lowered to a pending-exception ghost: a lowered `throw` records the exception and returns;
 * a call that may throw is followed by `if (vx_exc) <leave>` (inserted by the lifting rules). */
enum { EXC_none = 0, EXC_thread_interrupted = 1, EXC_pika_exception = 2, EXC_foreign = 3 };
enum pika_error { pika_error_success = 0, pika_error_invalid_status = 1, pika_error_thread_resource_error = 2,
                  pika_error_null_thread_id = 3, pika_error_yield_aborted = 4 };
static int vx_exc;  /* kind of the exception in flight (EXC_none: normal control flow) */
static int vx_err;  /* pika::error code of a pika::exception in flight */
static int g_throws; /* number of throw statements executed */
static void vx_throw_pika(int err)
{
  VX_ASSERT(vx_exc == EXC_none, "throw while another exception is in flight");
  vx_exc = EXC_pika_exception;
  vx_err = err;
  if (g_throws < 2) g_throws++;
}
static void vx_throw(int kind)
{
  VX_ASSERT(vx_exc == EXC_none, "throw while another exception is in flight");
  vx_exc = kind;
  vx_err = pika_error_success;
  if (g_throws < 2) g_throws++;
}
/* catch: the exception in flight becomes the one being handled; `throw;` puts it back in flight */
static int vx_caught, vx_caught_err;
static void vx_catch(void) { vx_caught = vx_exc; vx_caught_err = vx_err; vx_exc = EXC_none; }
static void vx_rethrow(void)
{
  VX_ASSERT(vx_exc == EXC_none && vx_caught != EXC_none, "rethrow outside a handler");
  vx_exc = vx_caught;
  vx_err = vx_caught_err;
}
/* which handler types catch which exception kinds (pika::thread_interrupted derives from std::exception only,
 * pika::exception from std::system_error) */
#define VX_CATCHES_thread_interrupted (vx_exc == EXC_thread_interrupted)
#define VX_CATCHES_exception (vx_exc == EXC_pika_exception)
#define VX_CATCHES_all (vx_exc != EXC_none)
#endif
