"""C13 extension -- the remaining members of pika::thread, the interruption plumbing, jthread's small members.

Defines MORE_UNITS / MORE_META (merged into specs/C13/spec.py by the owner: exec + `UNITS += MORE_UNITS`).  Self-contained: it
can be exec'd on its own (scratch property C13X) or after spec.py; every helper name it defines carries the prefix M_ / m_ so
that nothing of spec.py is shadowed.  Templates: specs/C13/more_*.c, referenced as ../C13/more_*.c so that the same text works
from specs/C13 and from the scratch directory.
"""
import re

from vx.lift import (Lift, Sub, Call, Members, Guard, DropStmt, Rule, Auto, LiftError, match_close, split_args, read_source, locate,
                     resolve_pp, apply_rules, splice_loops, GENERIC_RULES)
from vx.run import Unit

M_TD = "libs/pika/threading_base/src/thread_data.cpp"
M_TDH = "libs/pika/threading_base/include/pika/threading_base/thread_data.hpp"
M_HLP = "libs/pika/threading_base/src/thread_helpers.cpp"
M_TH = "libs/pika/threading/src/thread.cpp"
M_THH = "libs/pika/threading/include/pika/threading/thread.hpp"
M_JTH = "libs/pika/threading/include/pika/threading/jthread.hpp"
M_DIR = "../C13/"


# ---------------------------------------------------------------------------------------------------------------
# local helper rules / lifts (structural only)

class M_SigLift(Lift):
    """Lift whose result also depends on the function's *signature* text (the part between the locator match and the body):
      * noexcept=True: if the signature carries `noexcept` (or the function is a destructor, dtor=True) the marker
        `VX_NOEXCEPT_FN();` is put in front of the body -- the template turns "exception in flight at exit" into "the program
        has ended" for such functions;
      * params={"cname": regex-with-one-group}: the C++ parameter name captured from the signature is renamed to the name the
        hand-written C signature uses (a renamed parameter is not a semantic change);
      * ctor_inits=True: a mem-initialiser list `: a_(x), b_(y)` becomes `self->a_ = (x); self->b_ = (y);` in front of the body
        (same lowering as specs/C07 CtorLift)."""

    def __init__(self, src, loc, rules=(), noexcept=False, dtor=False, params=None, ctor_inits=False, **kw):
        Lift.__init__(self, src, loc, rules=rules, **kw)
        self.noexcept, self.dtor, self.params, self.ctor_inits = noexcept, dtor, dict(params or {}), ctor_inits

    def run(self):
        body, line, header = locate(self.src, self.locate, self.which, self.expect, ctor=self.ctor_inits)
        raw = header + body
        text = body
        if self.ctor_inits:
            op = header.index("(")
            cl = match_close(header, op)
            rest = header[cl + 1:].strip()
            if not rest.startswith(":"):
                raise LiftError("M_SigLift: no mem-initialiser list after /%s/" % self.locate)
            inits = []
            for item in split_args(rest[1:]):
                m = re.match(r"\s*(\w+)\s*[({](.*)[)}]\s*$", item, re.S)
                if not m:
                    raise LiftError("M_SigLift: cannot parse initialiser %r" % item)
                inits.append("self->%s = (%s);" % (m.group(1), m.group(2).strip()))
            text = "{ " + " ".join(inits) + " " + body.strip()[1:]
        for cname, rx in self.params.items():
            m = re.search(rx, header, re.S)
            if not m:
                raise LiftError("M_SigLift: parameter pattern /%s/ not found in the signature of /%s/" % (rx, self.locate))
            if m.group(1) and m.group(1) != cname:
                text = re.sub(r"(?<![\w.>])%s\b" % re.escape(m.group(1)), cname, text)
        text = resolve_pp(text)
        text = apply_rules(text, self.rules)
        if self.generic:
            text = apply_rules(text, GENERIC_RULES)
        text = apply_rules(text, self.post)
        if self.noexcept and (self.dtor or re.search(r"\bnoexcept\b(?!\s*\(\s*false)", header)):
            text = text.strip()
            text = "{ VX_NOEXCEPT_FN(); " + text[1:]
        text, nloops = splice_loops(text, self.loops)
        return {"text": text, "line": line, "file": self.src, "raw": raw, "nloops": nloops, "header": header}


class M_TryCatchMulti(Rule):
    """try { A } catch (T1 ..) { B1 } catch (T2 ..) { B2 } ...   (copy of specs/C13/spec.py TryCatchMulti)
    ->  { { A' } vx_try_end_k: ; if (in flight) { if (VX_CATCHES_T1) { vx_catch(); B1 } else if ... } } if (vx_exc) VX_PROPAGATE;
    A' = A with every VX_PROPAGATE (emitted after may-throw calls) turned into a jump to the handlers."""

    def __init__(self, n=1):
        self.n = n

    def apply(self, text):
        k = 0
        while True:
            m = re.search(r"\btry\s*\{", text)
            if not m:
                break
            k += 1
            op = m.end() - 1
            cl = match_close(text, op, "{", "}")
            A = text[op + 1:cl].replace("VX_PROPAGATE", "goto vx_try_end_%d" % k)
            pos = cl + 1
            arms = []
            while True:
                mc = re.match(r"\s*catch\s*\(\s*(\.\.\.|(?:\w+::)*(\w+)\s*(?:const)?\s*&?\s*\w*)\s*\)\s*\{", text[pos:], re.S)
                if not mc:
                    break
                cop = pos + mc.end() - 1
                ccl = match_close(text, cop, "{", "}")
                arms.append(("all" if mc.group(1) == "..." else mc.group(2), text[cop + 1:ccl]))
                pos = ccl + 1
            if not arms:
                raise LiftError("try without catch clause")
            hs = " else ".join("if (VX_CATCHES_%s) { vx_catch(); %s }" % (t, b) for t, b in arms)
            rep = "{ { %s } vx_try_end_%d: ; if (vx_exc != EXC_none) { %s } } if (vx_exc) VX_PROPAGATE;" % (A, k, hs)
            text = text[:m.start()] + rep + text[pos:]
        self.check(k, "M_TryCatchMulti")
        return text


def m_propagate(ret=""):
    return Sub(r"\bVX_PROPAGATE\b", ("return " + ret).strip(), None)


M_NS = Sub(r"(?:pika::)?threads::detail::", "", None)
M_ERR_ENUM = Sub(r"(?:pika::)?error::(\w+)", r"pika_error_\1", None)
M_SCHED_ENUM = Sub(r"(?:\w+::)*thread_schedule_state::(\w+)", r"thread_schedule_state_\1", None)
# PIKA_THROW_EXCEPTION(code, where, msg...);  ->  record the exception; VX_PROPAGATE = leave (or jump to the handlers of a try)
M_THROW = Call(r"\bPIKA_THROW_EXCEPTION", "{ vx_throw_pika({0}); VX_PROPAGATE; }", None, stmt=True)
# std::terminate();  ->  the program ends: record it and leave
M_TERMINATE = Call(r"\bstd::terminate", "{ vx_terminate(); VX_DEAD_END; }", None, stmt=True)


def m_dead_end(ret=""):
    return Sub(r"\bVX_DEAD_END\b", ("return " + ret).strip(), None)


# std::unique_lock / lock_guard / scoped_lock  l(mtx_);  or  l(rhs.mtx_);   (one rule for both spellings: the Guard class orders
# the destructors by textual position of the declarations; fire count free -- a dropped lock must fail an obligation)
M_LOCK = Guard(r"std::(?:unique_lock|lock_guard|scoped_lock)\s*(?:<[^;()]*>)?\s*(\w+)\s*\(\s*((?:\w+\.)?mtx_)\s*\)\s*;",
               r"struct ulock \1 = ulock_make(&\2);", r"ulock_dtor(&\1);", None)
# std::scoped_lock l(mtx_, rhs.mtx_);   (deadlock-avoiding acquisition of two locks)
M_LOCK2 = Guard(r"std::scoped_lock\s*(?:<[^;()]*>)?\s*(\w+)\s*\(\s*((?:\w+\.)?mtx_)\s*,\s*((?:\w+\.)?mtx_)\s*\)\s*;",
                r"struct ulock2 \1 = ulock2_make(&\2, &\3);", r"ulock2_dtor(&\1);", None)
M_HANDLE = [
    Sub(r"(?<![\w.>:])(joinable_locked|detach_locked|joinable|native_handle)\(\)", r"\1(self)", None),
    Sub(r"\b(\w+)\.unlock\(\)", r"ulock_unlock(&\1)", None),
    Sub(r"\b(\w+)\.(mtx_|id_)\b", r"\1->\2", None),
    Sub(r"\bid_\.noref\(\)", "id_", None),
    Sub(r"\*\s*this\b", "self", None), Sub(r"\bthis->", "self->", None),
    M_NS, Members(["id_", "mtx_"], optional=["id_", "mtx_"]), Auto(None),
]
M_RHS = {"rhs": r"\bthread\s*&&?\s*(\w*)\s*\)"}
M_HELPERS = {
    "joinable_locked": Lift(M_THH, r"bool joinable_locked\(\) const", rules=M_HANDLE),
    "detach_locked": Lift(M_THH, r"void detach_locked\(\)", rules=M_HANDLE),
}


def m_move_rules(ret=""):
    # VX_PROPAGATE / VX_DEAD_END become `return` BEFORE the guards are lowered, so that the returns get the destructors
    return [M_ERR_ENUM, M_THROW, M_TERMINATE, m_propagate(ret), m_dead_end(ret), M_LOCK2, M_LOCK,
            Sub(r"\bstd::swap\b", "VX_STD_SWAP", None)] + M_HANDLE


MORE_UNITS = [
    Unit("more.thread.dtor", M_DIR + "more_handle.c", defines=["U_DTOR"], enforce="thread_dtor",
         lifts=dict(M_HELPERS,
                    joinable=Lift(M_THH, r"bool joinable\(\) const", rules=[M_LOCK] + M_HANDLE),
                    body=M_SigLift(M_TH, r"thread::~thread\(\)", noexcept=True, dtor=True, rules=[
                        M_ERR_ENUM, M_THROW, M_TERMINATE,
                        Call(r"\bdetail::thread_termination_handler", "{ termination_handler_call({args}); if (vx_dead) VX_DEAD_END; }", None, stmt=True),
                        Sub(r"\bdetail::thread_termination_handler\b", "termination_handler_installed()", None),
                        Sub(r"\bstd::current_exception\(\)", "vx_current_exception()", None),
                        M_TryCatchMulti(None)] + M_HANDLE + [m_propagate(), m_dead_end()])),
         funcs=[M_TH + ": pika::thread::~thread", M_THH + ": pika::thread::joinable, joinable_locked"], min_obligations=10,
         doc="T: not joinable => destroyed silently; joinable => the program ends (std::terminate, or the installed termination handler "
             "is given an invalid_status exception and does not return); PIKA_ASSERT(id_ == invalid) at the end is an obligation"),
    Unit("more.thread.move_ctor", M_DIR + "more_handle.c", defines=["U_MOVE_CTOR"], enforce="thread_move_ctor",
         lifts=dict(M_HELPERS, body=M_SigLift(M_TH, r"thread::thread\(thread&&", noexcept=True, params=M_RHS,
                                              rules=m_move_rules())),
         funcs=[M_TH + ": pika::thread::thread(thread&&)"], min_obligations=8),
    Unit("more.thread.move_assign", M_DIR + "more_handle.c", defines=["U_MOVE_ASSIGN"], enforce="thread_move_assign",
         lifts=dict(M_HELPERS, body=M_SigLift(M_TH, r"thread& thread::operator=\(thread&&", noexcept=True, params=M_RHS,
                                              rules=m_move_rules("self"))),
         funcs=[M_TH + ": pika::thread::operator=(thread&&)", M_THH + ": pika::thread::joinable_locked"], min_obligations=12),
    Unit("more.thread.swap", M_DIR + "more_handle.c", defines=["U_SWAP"], enforce="thread_swap",
         lifts=dict(M_HELPERS, body=M_SigLift(M_TH, r"void thread::swap\(thread&", noexcept=True, params={"rhs": r"\bthread\s*&\s*(\w*)\s*\)"},
                                              rules=m_move_rules())),
         funcs=[M_TH + ": pika::thread::swap"], min_obligations=10),
    Unit("more.thread.native_handle", M_DIR + "more_handle.c", defines=["U_NATIVE_HANDLE"], enforce="thread_native_handle",
         lifts=dict(M_HELPERS, body=Lift(M_THH, r"native_handle_type native_handle\(\) const", rules=[M_LOCK] + M_HANDLE)),
         funcs=[M_THH + ": pika::thread::native_handle"], min_obligations=5),
    Unit("more.thread.swap.lock_order", M_DIR + "more_handle.c", defines=["U_SWAP", "U_LOCK_ORDER"], enforce="thread_swap",
         lifts=dict(M_HELPERS, body=M_SigLift(M_TH, r"void thread::swap\(thread&", noexcept=True, params={"rhs": r"\bthread\s*&\s*(\w*)\s*\)"},
                                              rules=m_move_rules())),
         funcs=[M_TH + ": pika::thread::swap"], min_obligations=10,
         doc="lock order: the two handle locks are taken in one global order (or by std::lock/scoped_lock), so that a.swap(b) and "
             "b.swap(a) running concurrently cannot block each other for ever"),
    Unit("more.thread.move_assign.lock_order", M_DIR + "more_handle.c", defines=["U_MOVE_ASSIGN", "U_LOCK_ORDER"], enforce="thread_move_assign",
         lifts=dict(M_HELPERS, body=M_SigLift(M_TH, r"thread& thread::operator=\(thread&&", noexcept=True, params=M_RHS,
                                              rules=m_move_rules("self"))),
         funcs=[M_TH + ": pika::thread::operator=(thread&&)"], min_obligations=12,
         doc="lock order of the two handle locks (a = std::move(b) against b = std::move(a))"),
    Unit("more.thread.start_thread", M_DIR + "more_handle.c", defines=["U_START"], enforce="start_thread",
         lifts={"body": M_SigLift(M_TH, r"void thread::start_thread\(", params={
             "pool": r"thread_pool_base\s*\*\s*(\w*)\s*,", "func": r"unique_function<void\(\)>\s*&&\s*(\w*)\s*\)"}, rules=[
             M_NS, M_ERR_ENUM, M_SCHED_ENUM, M_THROW,
             Call(r"\bthread_init_data\s+(\w+)", "struct thread_init_data {h1} = thread_init_data_make({args})", None),
             Sub(r"\butil::detail::one_shot\b", "one_shot", None), Sub(r"\butil::detail::bind\b", "bind_make", None),
             Sub(r"&\s*thread::(\w+)", r"&\1", None),
             Sub(r"(?:\w+::)*thread_(priority|stacksize)::(\w+)", r"thread_\1_\2", None),
             Sub(r"(?:\w+::)*thread_schedule_hint\(\)", "thread_schedule_hint_make()", None),
             Sub(r"\berror_code\s+(\w+)\s*\(\s*throwmode::(\w+)\s*\)\s*;", r"struct error_code \1 = error_code_make(throwmode_\2);", None),
             Call(r"\b(\w+)->create_thread", "{ pool_create_thread({h1}, &({0}), &({1}), &({2})); if (vx_exc) VX_PROPAGATE; }", None, stmt=True),
             Sub(r"\bif\s*\(\s*(!?)\s*ec\s*\)", r"if (\1error_code_bool(&ec))", None),
             Sub(r"\bthis->", "self->", None), Members(["id_"], optional=["id_"]), m_propagate()])},
         funcs=[M_TH + ": pika::thread::start_thread"], min_obligations=10),
]

# ---------------------------------------------------------------------------------------------------------------
# unit group 2: interruption plumbing (templates more_intr_*.c, common prelude more_intr.h)


class M_Call0(Call):
    """Call with n=None but WITHOUT the fixed-point re-scan of vx.lift.Call (the replacement contains the head again).
    Copied from specs/C19/spec.py."""

    def __init__(self, head, template, stmt=False):
        Call.__init__(self, head, template, None, stmt)

    def apply(self, text):
        self._nested = True
        return Call.apply(self, text)


def m_defaults(name, arity, cname=None):
    """call of a function whose trailing `error_code& ec = throws` parameter(s) may be omitted -> explicit C call `<name><arity>(...)`"""
    cname = cname or (name + str(arity))
    return M_Call0(r"(?<![\w.>:])%s" % name, lambda args, env: "%s(%s)" % (cname, ", ".join(args + ["&throws"] * (arity - len(args)))))


M_LOCK_TD = Guard(r"std::(?:unique_lock|lock_guard|scoped_lock)\s*(?:<[^;()]*>)?\s*(\w+)\s*\(\s*spinlock_pool::spinlock_for\(this\)\s*\)\s*;",
                  r"struct ulock \1 = ulock_make(spinlock_for(self));", r"ulock_dtor(&\1);", None)
M_TD_FLAGS = Members(["enabled_interrupt_", "requested_interrupt_"], optional=["enabled_interrupt_", "requested_interrupt_"])


def m_td_rules(ret=""):
    return [M_ERR_ENUM, M_THROW, m_propagate(ret), M_LOCK_TD, Sub(r"\b(\w+)\.unlock\(\)", r"ulock_unlock(&\1)", None),
            Sub(r"\bstd::swap\b", "VX_STD_SWAP", None), Sub(r"\bthis->", "self->", None), M_TD_FLAGS, Auto(None)]


def m_td_unit(name, define, enforce, loc, ret, params=None, min_obl=8):
    return Unit("more.td." + name, M_DIR + "more_intr_td.c", defines=[define], enforce=enforce,
                lifts={"body": M_SigLift(M_TDH, loc, params=params, rules=m_td_rules(ret))},
                funcs=[M_TDH + ": threads::detail::thread_data::" + name], min_obligations=min_obl)


MORE_UNITS += [
    m_td_unit("interrupt", "U_TD_INTERRUPT", "td_interrupt", r"void interrupt\(bool\s+\w+\s*=\s*true\)", "", {"flag": r"bool\s+(\w+)"}),
    m_td_unit("interruption_requested", "U_TD_REQUESTED", "td_interruption_requested", r"bool interruption_requested\(\) const", "false"),
    m_td_unit("interruption_enabled", "U_TD_ENABLED", "td_interruption_enabled", r"bool interruption_enabled\(\) const", "false"),
    m_td_unit("set_interruption_enabled", "U_TD_SET_ENABLED", "td_set_interruption_enabled", r"bool set_interruption_enabled\(bool\s+\w+\)", "false",
              {"enable": r"bool\s+(\w+)"}),
]


def m_hlp_rules(ret=""):
    return [M_NS, M_ERR_ENUM, M_SCHED_ENUM,
            Sub(r"(?:\w+::)*thread_restart_state::(\w+)", r"thread_restart_state_\1", None),
            Sub(r"(?:\w+::)*thread_priority::(\w+)", r"thread_priority_\1", None),
            Call(r"\bPIKA_THROWS_IF", "{ vx_throws_if({0}, {1}); if (vx_exc) VX_PROPAGATE; }", None, stmt=True),
            M_THROW,
            Sub(r"\bec\s*=\s*make_success_code\(\)", "*ec = make_success_code()", None),
            Sub(r"&\s*ec\b", "ec", None),
            # get_thread_id_data(id)->member(args)  ->  td_member(get_thread_id_data(id), args)
            Call(r"\bget_thread_id_data\(\s*(\w+)\s*\)\s*->\s*(\w+)",
                 lambda args, env: "td_%s(%s)" % (env["h2"], ", ".join(["get_thread_id_data(%s)" % env["h1"]] + args)), None),
            # the same through a named local: `thread_data* [const] td = get_thread_id_data(id); td->member(args)`
            Sub(r"(?:\w+::)*thread_data\s*\*\s*(const\s+)?(\w+)\s*=", r"struct thread_data *\1\2 =", None),
            Call(r"(?<![\w.>:])(\w+)\s*->\s*(interrupt|interruption_point|interruption_enabled|interruption_requested|set_interruption_enabled)",
                 lambda args, env: "td_%s(%s)" % (env["h2"], ", ".join([env["h1"]] + args)), None),
            # callees that may throw, called as statements: leave if an exception is in flight
            M_Call0(r"(?<![\w.>:])(td_interrupt|td_interruption_point|set_thread_state)", "{ {h1}({args}); if (vx_exc) VX_PROPAGATE; }", stmt=True),
            m_propagate(ret), Auto(None)]


M_HLP_PARAMS = {"id": r"thread_id_type const&\s*(\w+)", "ec": r"error_code&\s*(\w+)"}


def m_hlp_unit(name, define, enforce, ret, extra=None):
    params = dict(M_HLP_PARAMS, **(extra or {}))
    return Unit("more.hlp." + name, M_DIR + "more_intr_hlp.c", defines=[define], enforce=enforce,
                lifts={"body": M_SigLift(M_HLP, r"(?:void|bool) %s\(thread_id_type const&" % name, params=params, rules=m_hlp_rules(ret))},
                funcs=[M_HLP + ": threads::detail::" + name], min_obligations=8)


MORE_UNITS += [
    m_hlp_unit("interrupt_thread", "U_HLP_INTERRUPT", "interrupt_thread", "", {"flag": r"bool\s+(\w+)"}),
    m_hlp_unit("interruption_point", "U_HLP_IPOINT", "interruption_point", ""),
    m_hlp_unit("get_thread_interruption_enabled", "U_HLP_GET_ENABLED", "hlp_get", "false"),
    m_hlp_unit("get_thread_interruption_requested", "U_HLP_GET_REQUESTED", "hlp_get", "false"),
    m_hlp_unit("set_thread_interruption_enabled", "U_HLP_SET_ENABLED", "set_thread_interruption_enabled", "false", {"enable": r"bool\s+(\w+)"}),
]

M_FWD_RULES = [
    M_NS,
    M_Call0(r"(?<![\w.>:])interrupt_thread",
            lambda args, env: ("interrupt_thread2(%s, &throws)" % args[0]) if len(args) == 1 else
            "interrupt_thread3(%s)" % ", ".join(args + ["&throws"] * (3 - len(args)))),
    m_defaults("interruption_point", 2), m_defaults("get_thread_interruption_enabled", 2), m_defaults("get_thread_interruption_requested", 2),
    Sub(r"(?<![\w.>:])native_handle\(\)", "native_handle(self)", None),
    # callees that may throw, called as statements: an exception in flight skips the rest of the function
    M_Call0(r"(?<![\w.>:])(interrupt_thread[23]|interruption_point2)", "{ {h1}({args}); if (vx_exc) VX_PROPAGATE; }", stmt=True),
    m_propagate(), Auto(None),
]
M_HLPH = "libs/pika/threading_base/include/pika/threading_base/thread_helpers.hpp"


def m_fwd_unit(name, define, enforce, loc, funcs, params=None):
    lifts = {"body": M_SigLift(M_TH, loc, params=params, rules=M_FWD_RULES),
             # thread_helpers.hpp: inline void interrupt_thread(id, ec = throws) -- the overload that supplies flag = true
             "interrupt_thread_default": M_SigLift(
                 M_HLPH, r"inline void interrupt_thread\(thread_id_type const&\s*\w+,\s*error_code&\s*\w+\s*=\s*throws\)",
                 params=M_HLP_PARAMS, rules=M_FWD_RULES)}
    return Unit("more." + name, M_DIR + "more_intr_fwd.c", defines=[define], enforce=enforce, lifts=lifts,
                funcs=funcs, min_obligations=3)


MORE_UNITS += [
    m_fwd_unit("thread.interrupt", "U_T_INTERRUPT", "thread_interrupt", r"void thread::interrupt\(bool\s+\w+\)",
               [M_TH + ": pika::thread::interrupt(bool)"], {"flag": r"bool\s+(\w+)"}),
    m_fwd_unit("thread.interrupt_id", "U_T_INTERRUPT_ID", "thread_interrupt_id", r"void thread::interrupt\(thread::id\s+\w+,",
               [M_TH + ": pika::thread::interrupt(id, bool)"], {"id": r"thread::id\s+(\w+)", "flag": r"bool\s+(\w+)"}),
    m_fwd_unit("thread.interruption_requested", "U_T_REQUESTED", "thread_interruption_requested", r"bool thread::interruption_requested\(\) const",
               [M_TH + ": pika::thread::interruption_requested"]),
    m_fwd_unit("this_thread.interruption_point", "U_TT_IPOINT", "this_thread_interruption_point", r"(?<![:\w])void interruption_point\(\)",
               [M_TH + ": pika::this_thread::interruption_point"]),
    m_fwd_unit("this_thread.interruption_enabled", "U_TT_ENABLED", "this_thread_interruption_enabled", r"(?<![:\w])bool interruption_enabled\(\)",
               [M_TH + ": pika::this_thread::interruption_enabled"]),
    m_fwd_unit("this_thread.interruption_requested", "U_TT_REQUESTED", "this_thread_interruption_requested", r"(?<![:\w])bool interruption_requested\(\)",
               [M_TH + ": pika::this_thread::interruption_requested"]),
    m_fwd_unit("this_thread.interrupt", "U_TT_INTERRUPT", "this_thread_interrupt", r"(?<![:\w])void interrupt\(\)",
               [M_TH + ": pika::this_thread::interrupt", M_HLPH + ": threads::detail::interrupt_thread(id, ec) (inline overload)"]),
]

M_SCOPE_RULES = [M_NS, m_defaults("set_thread_interruption_enabled", 3),
                 Sub(r"\bthread_self\s*\*", "struct thread_self *", None),
                 Sub(r"\b(\w+)\.(interruption_was_enabled_)\b", r"\1->\2", None),
                 Sub(r"\bthis->", "self->", None),
                 Members(["interruption_was_enabled_"], optional=["interruption_was_enabled_"]), Auto(None)]
M_SCOPE_LIFTS = {
    "disable_ctor": M_SigLift(M_TH, r"disable_interruption::disable_interruption\(\)", ctor_inits=True, rules=M_SCOPE_RULES),
    "disable_dtor": M_SigLift(M_TH, r"disable_interruption::~disable_interruption\(\)", rules=M_SCOPE_RULES),
    "restore_ctor": M_SigLift(M_TH, r"restore_interruption::restore_interruption\(disable_interruption&", ctor_inits=True,
                              params={"d": r"disable_interruption&\s*(\w+)"}, rules=M_SCOPE_RULES),
    "restore_dtor": M_SigLift(M_TH, r"restore_interruption::~restore_interruption\(\)", rules=M_SCOPE_RULES),
}
M_SCOPE_FUNCS = [M_TH + ": pika::this_thread::disable_interruption::disable_interruption, ~disable_interruption",
                 M_TH + ": pika::this_thread::restore_interruption::restore_interruption, ~restore_interruption"]
MORE_UNITS += [
    Unit("more.scope.disable_ctor", M_DIR + "more_intr_scope.c", defines=["U_SC_DISABLE_CTOR"], enforce="disable_ctor",
         lifts=M_SCOPE_LIFTS, funcs=[M_SCOPE_FUNCS[0]], min_obligations=3),
    Unit("more.scope.disable_dtor", M_DIR + "more_intr_scope.c", defines=["U_SC_DISABLE_DTOR"], enforce="disable_dtor",
         lifts=M_SCOPE_LIFTS, funcs=[M_SCOPE_FUNCS[0]], min_obligations=3),
    Unit("more.scope.restore_ctor", M_DIR + "more_intr_scope.c", defines=["U_SC_RESTORE_CTOR"], enforce="restore_ctor",
         lifts=M_SCOPE_LIFTS, funcs=[M_SCOPE_FUNCS[1]], min_obligations=3),
    Unit("more.scope.disable_restore", M_DIR + "more_intr_scope.c", defines=["U_SC_SCENARIO"], enforce=None, kind="lemma",
         lifts=M_SCOPE_LIFTS, funcs=M_SCOPE_FUNCS, min_obligations=5,
         doc="scenario over the four lifted bodies: { disable_interruption d; { restore_interruption r(d); } } -- state checked after every step"),
    Unit("more.scope.nested", M_DIR + "more_intr_scope.c", defines=["U_SC_NESTED"], enforce=None, kind="lemma",
         lifts=M_SCOPE_LIFTS, funcs=M_SCOPE_FUNCS, min_obligations=7,
         doc="scenario: { disable d1; { disable d2; { restore r(d2); } } } -- LIFO restoration, r(d2) must not re-enable inside d1"),
]

# ---------------------------------------------------------------------------------------------------------------
# unit group 3: jthread (template more_jthread.c)


class M_DefaultedLift(M_SigLift):
    """A special member function that may be declared `= default`.  If it is, the body the LANGUAGE defines for it is
    synthesised in C++ spelling -- member-wise, in declaration order of the class's non-static data members, which are scraped
    from the class definition in /repo -- and then lowered by the very same rules as a user-provided body:
        move assignment:  { m1 = std::move(x.m1); m2 = std::move(x.m2); return *this; }
    If the function has a body, it is lifted like any other function.  (`cls` = class name, `kind` = 'move_assign'.)"""

    def __init__(self, src, loc, cls, kind="move_assign", pname="x", **kw):
        M_SigLift.__init__(self, src, loc, **kw)
        self.cls, self.kind, self.pname = cls, kind, pname

    def members(self, text):
        m = re.search(r"\bclass\s+%s\b[^;{]*\{" % re.escape(self.cls), text)
        if not m:
            raise LiftError("M_DefaultedLift: class %s not found" % self.cls)
        op = m.end() - 1
        cl = match_close(text, op, "{", "}")
        body, flat, depth = text[op + 1:cl], [], 0
        for ch in body:          # keep only the text at nesting depth 0 of the class body (member declarations)
            if ch in "{(":
                depth += 1
                flat.append(ch if depth == 1 else " ")
            elif ch in "})":
                flat.append(ch if depth == 1 else " ")
                depth -= 1
            else:
                flat.append(ch if depth == 0 else " ")
        flat = "".join(flat)
        names = [mm.group(1) for mm in re.finditer(r"(?:^|[;{}:])\s*(?:mutable\s+)?[A-Za-z_][\w:]*(?:<[^;{}()]*>)?\s+(\w+)\s*(?:\{\s*\})?\s*;", flat)
                 if mm.group(1) not in ("default", "delete")]
        if not names:
            raise LiftError("M_DefaultedLift: no data members found in class %s" % self.cls)
        return names

    def run(self):
        text = read_source(self.src)
        ms = list(re.finditer(self.locate, text, re.S))
        if len(ms) != 1:
            raise LiftError("locator /%s/ matched %d times in %s (expected 1)" % (self.locate, len(ms), self.src))
        m = ms[0]
        d = re.match(r"\s*(noexcept)?\s*=\s*default\s*;", text[m.end():])
        if not d:
            return M_SigLift.run(self)
        header = text[m.start():m.end() + d.end()]
        if self.kind != "move_assign":
            raise LiftError("M_DefaultedLift: kind %s not supported" % self.kind)
        names = self.members(text)
        body = "{ " + " ".join("%s = std::move(%s.%s);" % (n, self.pname, n) for n in names) + " return *this; }"
        body = apply_rules(body, self.rules)
        body = apply_rules(body, GENERIC_RULES)
        body = apply_rules(body, self.post)
        if self.noexcept and d.group(1):
            body = "{ VX_NOEXCEPT_FN(); " + body.strip()[1:]
        return {"text": body, "line": text.count("\n", 0, m.start()) + 1, "file": self.src, "raw": header + " /* members: " + ", ".join(names) + " */",
                "nloops": 0, "header": header}


M_J_RULES = [
    Sub(r"\bthis->(joinable|request_stop|join|detach)\(\)", r"jthread_\1(self)", None),          # jthread's own members
    Sub(r"(?<![\w.>:])(joinable|request_stop|join|detach)\(\)", r"jthread_\1(self)", None),
    Sub(r"\b(\w+)\s*=\s*std::move\(\s*(\w+)\.(\w+)\s*\)\s*;", r"VX_MOVE_ASSIGN(\1, \2.\3);", None),    # member-wise move assignment
    Sub(r"\bstd::swap\b", "VX_STD_SWAP", None),
    Sub(r"\b(stop_source|stop_token)\s*\{\s*\}", r"((struct \1){0})", None),                      # value-initialised temporary
    Sub(r"\bssource_\.(request_stop|get_token)\(\)", r"stop_source_\1(&ssource_)", None),
    Sub(r"\bthread_\.(joinable|join|detach)\(\)", r"thread_\1(&thread_)", None),
    Sub(r"\*\s*this\b", "self", None), Sub(r"\bthis->", "self->", None), Sub(r"(?<![\w>.])this\b", "self", None),
    Sub(r"&\s*(x|t)\b(?!\s*[.\-])", r"\1", None),                                                # &x of a reference parameter
    Sub(r"\b(x|t)\.(ssource_|thread_)\b", r"\1->\2", None),
    Members(["ssource_", "thread_"], optional=["ssource_", "thread_"]), Auto(None),
]


def m_j_unit(name, define, enforce, lift, funcs, min_obl=3, doc=""):
    return Unit("more.jthread." + name, M_DIR + "more_jthread.c", defines=[define], enforce=enforce, lifts={"body": lift},
                funcs=[M_JTH + ": pika::jthread::" + f for f in funcs], min_obligations=min_obl, doc=doc)


M_INVOKE_RULES = [Sub(r"\bstd::forward<\s*\w+\s*>\(\s*(\w+)\s*\)\s*(?:\.\.\.)?", r"\1", None), Sub(r"\bPIKA_INVOKE\b", "VX_INVOKE", None), Auto(None)]
MORE_UNITS += [
    m_j_unit("move_assign", "U_J_MOVE_ASSIGN", "jthread_move_assign",
             M_DefaultedLift(M_JTH, r"jthread&\s*operator=\(jthread&&\s*\w*\)", "jthread", params={"x": r"jthread&&\s*(\w*)\s*\)"}, rules=M_J_RULES),
             ["operator=(jthread&&)"], 8,
             "documented effects (jthread.hpp): joinable => request_stop() then join(), then take over x's state; x ends empty. A defaulted "
             "operator= is lowered to the member-wise move assignment the language defines (thread_ = std::move(x.thread_) => "
             "thread::operator=(thread&&): terminates if *this is joinable)"),
    m_j_unit("swap", "U_J_SWAP", "jthread_swap",
             M_SigLift(M_JTH, r"void swap\(jthread&\s*\w+\)", params={"t": r"jthread&\s*(\w+)\s*\)"}, rules=M_J_RULES), ["swap"], 5),
    m_j_unit("request_stop", "U_J_REQUEST_STOP", "jthread_request_stop", Lift(M_JTH, r"bool request_stop\(\)", rules=M_J_RULES), ["request_stop"]),
    m_j_unit("get_stop_source", "U_J_GET_SOURCE", "jthread_get_stop_source", Lift(M_JTH, r"stop_source get_stop_source\(\)", rules=M_J_RULES), ["get_stop_source"]),
    m_j_unit("get_stop_token", "U_J_GET_TOKEN", "jthread_get_stop_token", Lift(M_JTH, r"stop_token get_stop_token\(\) const", rules=M_J_RULES), ["get_stop_token"]),
    m_j_unit("joinable", "U_J_JOINABLE", "jthread_joinable", Lift(M_JTH, r"bool joinable\(\) const", rules=M_J_RULES), ["joinable"]),
    m_j_unit("join", "U_J_JOIN", "jthread_join", Lift(M_JTH, r"void join\(\)", rules=M_J_RULES), ["join"]),
    m_j_unit("detach", "U_J_DETACH", "jthread_detach", Lift(M_JTH, r"void detach\(\)", rules=M_J_RULES), ["detach"]),
    m_j_unit("invoke_plain", "U_J_INVOKE_FALSE", "jthread_invoke",
             M_SigLift(M_JTH, r"static void invoke\(std::false_type,", params={"f": r"F&&\s*(\w+)", "ts": r"Ts&&\.\.\.\s*(\w+)"}, rules=M_INVOKE_RULES),
             ["invoke(std::false_type, ...)"]),
    m_j_unit("invoke_token", "U_J_INVOKE_TRUE", "jthread_invoke",
             M_SigLift(M_JTH, r"static void invoke\(std::true_type,", params={"f": r"F&&\s*(\w+)", "st": r"stop_token&&\s*(\w+)", "ts": r"Ts&&\.\.\.\s*(\w+)"},
                       rules=M_INVOKE_RULES), ["invoke(std::true_type, ...)"]),
]

# ---------------------------------------------------------------------------------------------------------------
# supporting static facts: every write site of the state the contracts speak about is a lifted unit

from vx import census as m_census  # noqa: E402

MORE_STATIC = [
    m_census.sites("C13.more.handle_id_writers", [M_TH, M_THH], r"\bid_\s*=[^=]|swap\(id_|,\s*id_\s*,", 7,
                   "writers of pika::thread::id_: move ctor (2), operator= (2), swap, start_thread (out-parameter), detach_locked"),
    m_census.sites("C13.more.interrupt_flag_writers", ["libs/pika/threading_base/src/*.cpp", "libs/pika/threading_base/include/pika/threading_base/*.hpp"],
                   r"\b(?:requested_interrupt_|enabled_interrupt_)\s*=[^=]|swap\((?:requested|enabled)_interrupt_", 5,
                   "writers of requested_interrupt_/enabled_interrupt_: thread_data::interrupt, set_interruption_enabled (more.td.*), "
                   "interruption_point (thread_data.interruption_point), rebind_base x2 (quiescent object, C12)"),
    m_census.sites("C13.more.set_interruption_enabled_callers", ["libs/pika/*/src/*.cpp", "libs/pika/*/include/pika/**/*.hpp"],
                   r"(?<!bool )\bset_thread_interruption_enabled\s*\(", 4,
                   "callers of threads::detail::set_thread_interruption_enabled: the four scope-class functions, all with get_self_id() "
                   "(supports: only the thread itself changes its enabled flag)"),
]

MORE_META = {
    "explanation":
        "Handle operations (more.thread.*): two handles, each id_ behind its own spinlock; a shared handle's id_ is arbitrary at every "
        "acquisition of its lock (other users), the id an operation works with is the one found under the lock (g_id0/g_rid0) and the value "
        "left at the last release must be the final one (no write outside the critical sections).  'The program ends' = std::terminate, a "
        "termination handler that does not return, or an exception in flight at the exit of a function whose lifted signature says noexcept "
        "(destructors included) -- the signature is read by the local M_SigLift.  Interruption plumbing: thread_data members as a monitor "
        "on the two flags (more.td.*), thread_helpers.cpp and thread.cpp forwarders as call-trace contracts (more.hlp.*, more.thread.interrupt*, "
        "more.this_thread.*), the two scope classes per function and as scenarios over the four lifted bodies (more.scope.*).  jthread "
        "(more.jthread.*): members are opaque tokens, pika::thread / stop_source operations are stubs standing for contracts proved "
        "elsewhere; a defaulted move assignment is lowered to the member-wise assignment the language defines (M_DefaultedLift).",
    "trusted_base": [
        "specs/C13/more_handle.c env_acquire/env_release: other users of a shared pika::thread handle change id_ arbitrarily while its mtx_ is "
        "free (havoc at acquisition, no VX_ASSUME); vx/prelude/monitor.h lock model (A-LOCK)",
        "specs/C13/more_handle.c ulock2_make: std::scoped_lock(a, b) / std::lock acquires both locks without deadlock (modelled as acquisition in "
        "the global order); used only by a repaired swap/operator=",
        "specs/C13/more_handle.c termination_handler_call: the installed thread_termination_handler is a user function that may return or end "
        "the program (an exception leaving it would leave a destructor); std::terminate does not return; an exception leaving a noexcept "
        "function ends the program (DEAD macro)",
        "specs/C13/more_handle.c pool_create_thread: thread_pool_base::create_thread either stores the new id through its out-parameter and "
        "clears ec, or reports through ec (lightweight mode) leaving the id untouched, or throws; that the id is stored BEFORE the new task can "
        "run is the scheduler's business (C01) -- the unit shows that the handle's own id_ is the out-parameter",
        "specs/C13/more_handle.c VX_STD_SWAP / more_intr.h VX_STD_SWAP: std::swap on ids / bools is a three-move exchange",
        "specs/C13/more_intr_td.c MON_AT_ACQUIRE: both interruption flags are arbitrary whenever the spinlock_pool lock is acquired (any other "
        "thread may call interrupt()/set_interruption_enabled() in between; no VX_ASSUME)",
        "specs/C13/more_intr_hlp.c td_* / set_thread_state stubs: thread_data::interrupt may refuse with thread_not_interruptable (more.td.interrupt), "
        "interruption_point may throw thread_interrupted (thread_data.interruption_point), set_thread_state may fail through ec or by throwing "
        "(C01/C02); get_thread_id_data(id) on a null id is an error (null dereference in pika)",
        "specs/C13/more_intr.h vx_throws_if: PIKA_THROWS_IF(ec, code, ...) throws iff ec is the object `throws`, else stores the code in ec",
        "specs/C13/more_intr_fwd.c stubs interrupt_thread3 / interruption_point2 / hlp_get / native_handle: contracts of more.hlp.* and "
        "more.thread.native_handle; omitted trailing arguments are filled in as `&throws` by the rule m_defaults (default arguments declared "
        "in thread_helpers.hpp); a two-argument interrupt_thread(a, b) call in thread.cpp is read as (id, flag)",
        "specs/C13/more_intr_scope.c: the calling thread's enabled flag is one ghost bool changed only through set_thread_interruption_enabled "
        "with the caller's own id (asserted; callers closed by the static fact C13.more.set_interruption_enabled_callers); "
        "this_thread::interruption_enabled() reads it (more.this_thread.interruption_enabled -> more.hlp.* -> more.td.interruption_enabled)",
        "specs/C13/more_jthread.c stubs: thread_join / thread_detach / thread_joinable (units thread.join / thread.detach / thread.joinable), "
        "thread_move_assign (more.thread.move_assign: ends the program if *this is joinable), stop_source_move_assign / request_stop / "
        "get_token (C14), std::swap of the two member types = exchange (through the move operations of more.thread.* / C14), copying a "
        "stop_source keeps the state identity; PIKA_INVOKE(f, args...) calls f with exactly the listed arguments",
        "specs/C13/more_spec.py local lifting helpers: M_SigLift (noexcept marker from the signature, parameter renaming, mem-initialiser "
        "lists), M_DefaultedLift (member-wise body of a defaulted move assignment, members scraped from the class), M_TryCatchMulti (copy), "
        "M_Call0 (copy), m_defaults",
    ],
    "assumptions": [
        "an object under construction or destruction (thread::~thread, the target of thread(thread&&), start_thread's handle) has no other users",
        "self != rhs for thread::operator=, thread::swap, jthread::operator=, jthread::swap (self-swap / self-move of a pika::thread takes the "
        "same non-recursive spinlock twice and never returns -- observation, not decided)",
        "the scope classes are used on pika threads (their constructors throw null_thread_id elsewhere) and only the thread itself changes "
        "its own enabled_interrupt_ flag",
        "ghost counters saturate at 2 ('0, 1, many')",
    ],
    "not_decided": [
        "jthread's constructor lambda (the computation of use_stop_token = is_invocable<F, stop_token, Ts...> and the overload resolution "
        "between the two invoke overloads; the two overloads themselves are decided), jthread(jthread&&) = default, the thread "
        "constructor templates in thread.hpp (get_self_id_data()->get_scheduler_base()->get_parent_pool())",
        "thread::interrupt(false) on a suspended target: interrupt_thread still sets the target pending with restart state `abort`, so a "
        "withdrawn request aborts the target's current wait (yield_aborted) even while its interruption is disabled -- no postcondition "
        "stated for flag == false beyond 'the state asked for is not terminated'",
        "memory ordering / data race of the deliberately unprotected flag accesses in thread_data::interruption_point against "
        "thread_data::interrupt (which takes the lock)",
        "that std::scoped_lock / std::lock over pika spinlocks is free of livelock",
    ],
}
