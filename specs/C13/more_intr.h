/* more_intr.h -- common prelude of the interruption-plumbing units (more_intr_*.c): error_code passed by reference,
 * PIKA_THROWS_IF, the extra error code */
#ifndef MORE_INTR_H
#define MORE_INTR_H
#include "c13.h"
#define pika_error_thread_not_interruptable 5
#define THROWN_PIKA(e) (vx_exc == EXC_pika_exception && vx_err == (e))
#define VX_STD_SWAP(a, b) do { __typeof__(a) vx_swap_tmp = (a); (a) = (b); (b) = vx_swap_tmp; } while (0)

/* pika::error_code passed by reference; `throws` is the distinguished object meaning "throw instead" */
struct error_code { int value; };
static struct error_code throws;
static struct error_code make_success_code(void) { struct error_code e; e.value = pika_error_success; return e; }
/* PIKA_THROWS_IF(ec, code, where, msg): throw if ec is `throws`, else store the error in ec  (errors/throw_exception.hpp) */
static void vx_throws_if(struct error_code *ec, int code)
{
  if (ec == &throws) vx_throw_pika(code); else ec->value = code;
}
#define ERR_REPORTED(ec, e) (THROWN_PIKA(e) || ((ec) != &throws && vx_exc == EXC_none && (ec)->value == (e)))

#endif
