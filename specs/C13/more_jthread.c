/* units (more_spec.py): pika::jthread -- move assignment, swap, request_stop, get_stop_source, get_stop_token, joinable, join,
 * detach, the two invoke overloads                                                                            (T + F)
 *
 * The two members are opaque tokens: ssource_ = identity of the shared stop state (0 = nostopstate, stop_possible() false),
 * thread_ = id of the task (invalid_thread_id = not joinable).  Their operations are stubs standing for the contracts of
 * other units (pika::thread: thread.join / thread.detach / thread.joinable / more.thread.move_assign / more.thread.move_ctor;
 * stop_source: property C14). */
#include "c13.h"

struct stop_source { int state; };
struct stop_token { int state; };
struct pika_thread { tid_t id; };
struct jthread { struct stop_source ssource_; struct pika_thread thread_; };

static bool vx_dead;              /* the program has ended (std::terminate) */
static int g_stops, g_joins, g_detaches, g_tokens;
static int g_stop_state;          /* stop state on which stop was requested */
static tid_t g_join_id;           /* task that was joined */
static struct pika_thread *g_join_obj;
static bool g_stop_before_join, g_rs_ret;

/* pika::thread members (contracts: thread.joinable / thread.join / thread.detach) */
static bool thread_joinable(struct pika_thread *t) { return t->id != invalid_thread_id; }
static void thread_join(struct pika_thread *t)
{
  VX_ASSERT(t->id != invalid_thread_id, "join on a handle that is not joinable (invalid_status)");
  if (g_joins < 2) g_joins++;
  g_join_id = t->id; g_join_obj = t;
  g_stop_before_join = g_stops > 0;
  t->id = invalid_thread_id;
}
static void thread_detach(struct pika_thread *t) { if (g_detaches < 2) g_detaches++; t->id = invalid_thread_id; }
/* thread& thread::operator=(thread&&) noexcept  (contract: more.thread.move_assign): assigning over a joinable handle ends
 * the program; otherwise the id moves over and the source ends not joinable */
static void thread_move_assign(struct pika_thread *a, struct pika_thread *b)
{
  if (a->id != invalid_thread_id) { vx_dead = true; return; }
  a->id = b->id;
  b->id = invalid_thread_id;
}
/* stop_source& stop_source::operator=(stop_source&&) (C14 source.move_assign): the state moves over, the source is left
 * without state */
static void stop_source_move_assign(struct stop_source *a, struct stop_source *b) { a->state = b->state; b->state = 0; }
#define VX_MOVE_ASSIGN(a, b) _Generic((a), struct stop_source: stop_source_move_assign, struct pika_thread: thread_move_assign)(&(a), &(b))
/* std::swap(a, b) = T tmp(std::move(a)); a = std::move(b); b = std::move(tmp);  For pika::thread this goes through the move
 * constructor (more.thread.move_ctor: a ends not joinable) and two move assignments onto handles that are not joinable at
 * that moment (more.thread.move_assign: no termination); for stop_source through C14's move operations.  Net effect: exchange. */
#define VX_STD_SWAP(a, b) do { __typeof__(a) vx_swap_tmp = (a); (a) = (b); (b) = vx_swap_tmp; } while (0)
/* stop_source::request_stop / get_token (C14) */
static bool stop_source_request_stop(struct stop_source *s)
{
  if (g_stops < 2) g_stops++;
  g_stop_state = s->state;
  g_rs_ret = nondet_bool();
  return g_rs_ret;
}
static struct stop_token stop_source_get_token(struct stop_source *s) { struct stop_token t; if (g_tokens < 2) g_tokens++; t.state = s->state; return t; }

/* jthread's own one-line members when called from another member (each has its own unit below) */
#if !defined(U_J_JOINABLE)
static bool jthread_joinable(struct jthread *self) { return thread_joinable(&self->thread_); }
#endif
#if !defined(U_J_REQUEST_STOP)
static bool jthread_request_stop(struct jthread *self) { return stop_source_request_stop(&self->ssource_); }
#endif
#if !defined(U_J_JOIN)
static void jthread_join(struct jthread *self) { thread_join(&self->thread_); }
#endif
#if !defined(U_J_DETACH)
static void jthread_detach(struct jthread *self) { thread_detach(&self->thread_); }
#endif

#define J_FRAME vx_dead, g_stops, g_joins, g_detaches, g_tokens, g_stop_state, g_join_id, g_join_obj, g_stop_before_join, g_rs_ret
#define J_PRE (!vx_dead && g_stops == 0 && g_joins == 0 && g_detaches == 0 && g_tokens == 0)
#define J_UNCHANGED (self->ssource_.state == __CPROVER_old(self->ssource_.state) && self->thread_.id == __CPROVER_old(self->thread_.id))

/* ------------------------------------------------------------------------------------------------------------- */
#if defined(U_J_MOVE_ASSIGN)
//@FUNC
struct jthread *jthread_move_assign(struct jthread *self, struct jthread *x)
__CPROVER_requires(J_PRE && self != x)
#ifdef KF_LHS_NOT_JOINABLE
__CPROVER_requires(self->thread_.id == invalid_thread_id) /* known input class excluded: assignment to a jthread that is still joinable */
#endif
/* jthread.hpp (and [thread.jthread.cons]): "If joinable() is true, calls request_stop() and then join().  Assigns the state
 * of x to *this and sets x to a default constructed state."  The program goes on. */
__CPROVER_ensures(!vx_dead)
__CPROVER_ensures(__CPROVER_old(self->thread_.id) != invalid_thread_id ==> (g_joins == 1 && g_join_id == __CPROVER_old(self->thread_.id) && g_join_obj == &self->thread_ && \
                  g_stop_before_join && g_stops == 1 && g_stop_state == __CPROVER_old(self->ssource_.state)))
__CPROVER_ensures(__CPROVER_old(self->thread_.id) == invalid_thread_id ==> (g_joins == 0 && g_stops == 0))
__CPROVER_ensures(self->thread_.id == __CPROVER_old(x->thread_.id) && self->ssource_.state == __CPROVER_old(x->ssource_.state))
__CPROVER_ensures(x->thread_.id == invalid_thread_id && x->ssource_.state == 0 && __CPROVER_return_value == self && g_detaches == 0)
__CPROVER_assigns(J_FRAME, self->ssource_.state, self->thread_.id, x->ssource_.state, x->thread_.id)
//@LIFT body
#endif

/* ------------------------------------------------------------------------------------------------------------- */
#if defined(U_J_SWAP)
//@FUNC
void jthread_swap(struct jthread *self, struct jthread *t)
__CPROVER_requires(J_PRE && self != t)
/* both members are exchanged; nobody is stopped, joined, detached or terminated */
__CPROVER_ensures(self->thread_.id == __CPROVER_old(t->thread_.id) && t->thread_.id == __CPROVER_old(self->thread_.id))
__CPROVER_ensures(self->ssource_.state == __CPROVER_old(t->ssource_.state) && t->ssource_.state == __CPROVER_old(self->ssource_.state))
__CPROVER_ensures(!vx_dead && g_stops == 0 && g_joins == 0 && g_detaches == 0)
__CPROVER_assigns(J_FRAME, self->ssource_.state, self->thread_.id, t->ssource_.state, t->thread_.id)
//@LIFT body
#endif

/* ------------------------------------------------------------------------------------------------------------- */
#if defined(U_J_REQUEST_STOP)
//@FUNC
bool jthread_request_stop(struct jthread *self)
__CPROVER_requires(J_PRE)
/* stop is requested on this jthread's own stop state, once; the answer is passed on; the thread is neither joined nor detached */
__CPROVER_ensures(g_stops == 1 && g_stop_state == self->ssource_.state && __CPROVER_return_value == g_rs_ret)
__CPROVER_ensures(J_UNCHANGED && g_joins == 0 && g_detaches == 0 && !vx_dead)
__CPROVER_assigns(J_FRAME)
//@LIFT body
#endif
#if defined(U_J_GET_SOURCE)
//@FUNC
struct stop_source jthread_get_stop_source(struct jthread *self)
__CPROVER_requires(J_PRE)
__CPROVER_ensures(__CPROVER_return_value.state == self->ssource_.state && J_UNCHANGED && g_stops == 0 && g_joins == 0 && g_detaches == 0 && !vx_dead)
__CPROVER_assigns(J_FRAME)
//@LIFT body
#endif
#if defined(U_J_GET_TOKEN)
//@FUNC
struct stop_token jthread_get_stop_token(struct jthread *self)
__CPROVER_requires(J_PRE)
__CPROVER_ensures(__CPROVER_return_value.state == self->ssource_.state && g_tokens == 1 && J_UNCHANGED && g_stops == 0 && g_joins == 0 && g_detaches == 0 && !vx_dead)
__CPROVER_assigns(J_FRAME)
//@LIFT body
#endif
#if defined(U_J_JOINABLE)
//@FUNC
bool jthread_joinable(struct jthread *self)
__CPROVER_requires(J_PRE)
__CPROVER_ensures(__CPROVER_return_value == (self->thread_.id != invalid_thread_id) && J_UNCHANGED && g_stops == 0 && g_joins == 0 && g_detaches == 0 && !vx_dead)
__CPROVER_assigns(J_FRAME)
//@LIFT body
#endif
#if defined(U_J_JOIN)
//@FUNC
void jthread_join(struct jthread *self)
__CPROVER_requires(J_PRE && self->thread_.id != invalid_thread_id)
/* joins its own thread_ (thread.join: returns after the body finished, handle ends not joinable); no stop request implied */
__CPROVER_ensures(g_joins == 1 && g_join_obj == &self->thread_ && g_join_id == __CPROVER_old(self->thread_.id) && self->thread_.id == invalid_thread_id)
__CPROVER_ensures(g_stops == 0 && g_detaches == 0 && !vx_dead && self->ssource_.state == __CPROVER_old(self->ssource_.state))
__CPROVER_assigns(J_FRAME, self->thread_.id)
//@LIFT body
#endif
#if defined(U_J_DETACH)
//@FUNC
void jthread_detach(struct jthread *self)
__CPROVER_requires(J_PRE)
__CPROVER_ensures(g_detaches == 1 && g_joins == 0 && g_stops == 0 && !vx_dead && self->thread_.id == invalid_thread_id && self->ssource_.state == __CPROVER_old(self->ssource_.state))
__CPROVER_assigns(J_FRAME, self->thread_.id)
//@LIFT body
#endif

/* ------------------------------------------------------------------------------------------------------------- */
#if defined(U_J_INVOKE_FALSE) || defined(U_J_INVOKE_TRUE)
/* PIKA_INVOKE(f, args...): the user's callable is called with the listed arguments (pack = one opaque token) */
typedef int callable_t;
typedef int pack_t;
static int g_calls;
static callable_t g_call_f;
static pack_t g_call_ts;
static bool g_call_with_token;
static int g_call_token;
static void vx_invoke_plain(callable_t f, pack_t ts) { if (g_calls < 2) g_calls++; g_call_f = f; g_call_ts = ts; g_call_with_token = false; }
static void vx_invoke_with_token(callable_t f, struct stop_token st, pack_t ts) { if (g_calls < 2) g_calls++; g_call_f = f; g_call_ts = ts; g_call_with_token = true; g_call_token = st.state; }
#define VX_INVOKE_SEL(_1, _2, _3, NAME, ...) NAME
#define VX_INVOKE(...) VX_INVOKE_SEL(__VA_ARGS__, vx_invoke_with_token, vx_invoke_plain, vx_invoke_needs_a_callable)(__VA_ARGS__)
#if defined(U_J_INVOKE_TRUE)
//@FUNC
void jthread_invoke(callable_t f, struct stop_token st, pack_t ts)
__CPROVER_requires(g_calls == 0)
/* invoke(std::true_type, ...): the callable accepts a stop_token -- it gets this thread's token as first argument */
__CPROVER_ensures(g_calls == 1 && g_call_f == f && g_call_ts == ts && g_call_with_token && g_call_token == st.state)
__CPROVER_assigns(g_calls, g_call_f, g_call_ts, g_call_with_token, g_call_token)
//@LIFT body
#else
//@FUNC
void jthread_invoke(callable_t f, struct stop_token st, pack_t ts)
__CPROVER_requires(g_calls == 0)
/* invoke(std::false_type, ...): the callable does not accept a stop_token -- it is called with the user's arguments only */
__CPROVER_ensures(g_calls == 1 && g_call_f == f && g_call_ts == ts && !g_call_with_token)
__CPROVER_assigns(g_calls, g_call_f, g_call_ts, g_call_with_token, g_call_token)
//@LIFT body
#endif
#endif

/* ------------------------------------------------------------------------------------------------------------- */
void harness(void)
{
  struct jthread a, b;
  a.ssource_.state = nondet_int(); a.thread_.id = nondet_long();
  b.ssource_.state = nondet_int(); b.thread_.id = nondet_long();
  vx_dead = false; g_stops = 0; g_joins = 0; g_detaches = 0; g_tokens = 0; g_stop_state = 0; g_join_id = 0; g_join_obj = NULL;
  g_stop_before_join = false; g_rs_ret = false;
#if defined(U_J_MOVE_ASSIGN)
#ifdef KF_LHS_NOT_JOINABLE
  a.thread_.id = invalid_thread_id;
#endif
  bool was_joinable = a.thread_.id != invalid_thread_id;
  jthread_move_assign(&a, &b);
#ifndef KF_LHS_NOT_JOINABLE
  if (was_joinable && !vx_dead) VX_REACH("old_thread_stopped_and_joined");
#endif
  if (!was_joinable && a.thread_.id != invalid_thread_id) VX_REACH("took_over_a_thread");
  if (!was_joinable && a.thread_.id == invalid_thread_id) VX_REACH("moved_from_empty");
#elif defined(U_J_SWAP)
  jthread_swap(&a, &b);
  if (a.thread_.id != b.thread_.id && a.ssource_.state != b.ssource_.state) VX_REACH("swapped_different");
#elif defined(U_J_REQUEST_STOP)
  if (jthread_request_stop(&a)) VX_REACH("first_request"); else VX_REACH("not_first_or_impossible");
#elif defined(U_J_GET_SOURCE)
  if (jthread_get_stop_source(&a).state != 0) VX_REACH("has_state"); else VX_REACH("no_state");
#elif defined(U_J_GET_TOKEN)
  if (jthread_get_stop_token(&a).state != 0) VX_REACH("has_state"); else VX_REACH("no_state");
#elif defined(U_J_JOINABLE)
  if (jthread_joinable(&a)) VX_REACH("joinable"); else VX_REACH("not_joinable");
#elif defined(U_J_JOIN)
  if (a.thread_.id == invalid_thread_id) a.thread_.id = 1; /* joining a jthread that is not joinable: thread.join's error path */
  jthread_join(&a);
  VX_REACH("joined");
#elif defined(U_J_DETACH)
  jthread_detach(&a);
  VX_REACH("detached");
#elif defined(U_J_INVOKE_FALSE) || defined(U_J_INVOKE_TRUE)
  struct stop_token st; st.state = nondet_int();
  g_calls = 0; g_call_f = 0; g_call_ts = 0; g_call_with_token = false; g_call_token = 0;
  jthread_invoke(nondet_int(), st, nondet_int());
#if defined(U_J_INVOKE_TRUE)
  if (g_call_with_token) VX_REACH("token_passed");
#else
  if (!g_call_with_token) VX_REACH("token_not_passed");
#endif
#endif
}
