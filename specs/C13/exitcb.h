/* C13 -- ghost state, monitor invariant and container stub for the exit-callback list of thread_data.
 *
 * Protected state (by spinlock_pool::spinlock_for(this)):  exit_funcs_ (std::forward_list<function<void()>>),
 * ran_exit_funcs_.  The list is a *sequence stub*: only its length is kept, plus the identity of ONE symbolic
 * callback, the victim (ghost id CB_VICTIM), which stands for "any callback that add_thread_exit_callback ever
 * accepted":
 *   g_vstate  V_NOTYET  the victim has not been offered / accepted (so far)
 *             V_LISTED  the victim is element number g_vpos of the list (0 = front)
 *             V_REMOVED the victim has been taken out of the list
 *   g_exec    how often the victim has been executed (saturating at 2)
 *   g_front   identity of the current front element (CB_VICTIM, CB_EMPTY = default constructed function, CB_OTHER)
 * Monitor invariant (asserted at every release point):
 *   INV:  ran_exit_funcs_  ==>  list empty          ("the list is empty when ran_exit_funcs_ becomes true")
 * Exactly-once ledger (loop invariant / postcondition of run_thread_exit_callbacks):
 *   EXACT: g_vstate == V_REMOVED ? g_exec == 1 : g_exec == 0
 */
#ifndef C13_EXITCB_H
#define C13_EXITCB_H
#include "c13.h"

typedef int cb_t; /* a util::detail::function<void()> is an opaque token */
enum { CB_EMPTY = 0, CB_VICTIM = 1, CB_OTHER = 2 };
enum { V_NOTYET = 0, V_LISTED = 1, V_REMOVED = 2 };
struct cblist { int n; };
struct thread_data { struct cblist exit_funcs_; bool ran_exit_funcs_; int sched_state; };

#define VX_BIG 1000000000
static struct thread_data *vx_self;
static struct vx_mutex *g_mtx;
static int g_vstate;
static int g_vpos;
static int g_exec;
static cb_t g_front;
static bool g_env_pushed;      /* reach ghost: the environment registered a callback while the lock was released */
static bool g_cs_ran;          /* ran_exit_funcs_ at the beginning of the current critical section */
static int g_cs_n;             /* list length at the beginning of the current critical section */
static bool g_cs_term;         /* the target was already terminated at the beginning of the current critical section */

#define LIST_N (vx_self->exit_funcs_.n)
#define INV (LIST_N >= 0 && LIST_N <= VX_BIG && (!vx_self->ran_exit_funcs_ || LIST_N == 0))
/* consistency of the ghost identity with the abstract list */
#define VCONSIST ((g_vstate == V_NOTYET || g_vstate == V_LISTED || g_vstate == V_REMOVED) && \
                  (g_vstate != V_LISTED || (0 <= g_vpos && g_vpos < LIST_N)) && \
                  (LIST_N == 0 || ((g_front == CB_VICTIM) == (g_vstate == V_LISTED && g_vpos == 0))))
#define EXACT (g_vstate == V_REMOVED ? g_exec == 1 : g_exec == 0)

static cb_t nondet_other_cb(void) { return nondet_bool() ? CB_EMPTY : CB_OTHER; }
static void vx_refresh_front(void)
{
  if (LIST_N > 0) g_front = (g_vstate == V_LISTED && g_vpos == 0) ? CB_VICTIM : nondet_other_cb();
}

/* ---- the environment --------------------------------------------------------------------------------------
 * ENV_ADDERS: other threads call add_thread_exit_callback on this thread_data.  By that function's own contract
 * (unit exitcb.add) a call pushes one callback at the front iff it finds !ran_exit_funcs_ (and the target not
 * terminated) in its critical section, and changes nothing else.  Any number of such calls may be serialised
 * while the lock is free.  One of them may be the call that offers the victim. */
static void env_adders(void)
{
  if (vx_self->ran_exit_funcs_) return;
  int k = nondet_int();
  VX_ASSUME(0 <= k && k <= VX_BIG - LIST_N); /* ghost range only: the list length stays below 10^9 */
  if (k == 0) return;
  LIST_N += k;
  g_env_pushed = true;
  if (g_vstate == V_LISTED) g_vpos += k;
  else if (g_vstate == V_NOTYET && nondet_bool())
  {
    int j = nondet_int();
    VX_ASSUME(0 <= j && j < k); /* the victim is one of the k callbacks just pushed */
    g_vstate = V_LISTED;
    g_vpos = j;
  }
  vx_refresh_front();
}
static void env_sched_state(void)
{
  if (vx_self->sched_state != thread_schedule_state_terminated)
  {
    vx_self->sched_state = nondet_int();
    VX_ASSUME(vx_self->sched_state >= thread_schedule_state_unknown && vx_self->sched_state <= thread_schedule_state_pending_boost);
  }
}
/* ENV_RUNNER: the target thread itself runs run_thread_exit_callbacks (pops, finally sets ran_exit_funcs_ with the
 * list empty -- its contract, unit exitcb.run) and its scheduling loop later marks it terminated; other adders
 * push.  Seen from one add_thread_exit_callback call: length and flag are arbitrary within INV, the flag is
 * monotone. */
static void env_runner_and_adders(void)
{
  bool ran0 = vx_self->ran_exit_funcs_;
  LIST_N = nondet_int();
  vx_self->ran_exit_funcs_ = nondet_bool();
  VX_ASSUME(INV && LIST_N < VX_BIG && (!ran0 || vx_self->ran_exit_funcs_)); /* LIST_N < 10^9: ghost range only */
  if (g_vstate == V_LISTED) { g_vpos = nondet_int(); VX_ASSUME(0 <= g_vpos && g_vpos < LIST_N); }
  vx_refresh_front();
}

#define MON_AT_RELEASE() do { \
    VX_ASSERT(INV, "monitor invariant at release: the callback list is empty once ran_exit_funcs_ is set"); \
  } while (0)
#ifdef ENV_RUNNER
#define MON_AT_ACQUIRE() do { env_runner_and_adders(); env_sched_state(); g_cs_ran = vx_self->ran_exit_funcs_; g_cs_n = LIST_N; \
    g_cs_term = vx_self->sched_state == thread_schedule_state_terminated; } while (0)
#else
#define MON_AT_ACQUIRE() do { env_adders(); g_cs_ran = vx_self->ran_exit_funcs_; g_cs_n = LIST_N; } while (0)
#endif
#include "monitor.h"

static struct vx_mutex *spinlock_for(struct thread_data *p) { return g_mtx; }

/* every access to the container must happen under the lock; an unlocked access races with push_front of a
 * concurrent add_thread_exit_callback.  What the access then sees is whatever the adders have done meanwhile. */
static void list_access(const char *what)
{
  VX_ASSERT(g_mtx->held, "monitor discipline: exit_funcs_ accessed while its spinlock is released (races with a concurrent add_thread_exit_callback)");
  if (!g_mtx->held) env_adders();
}
static bool list_empty(struct cblist *q) { list_access("empty"); return q->n == 0; }
static cb_t list_front(struct cblist *q)
{
  list_access("front");
  VX_ASSERT(q->n > 0, "forward_list::front on an empty list");
  return g_front;
}
static void list_pop_front(struct cblist *q)
{
  list_access("pop_front");
  VX_ASSERT(q->n > 0, "forward_list::pop_front on an empty list");
  q->n--;
  if (g_vstate == V_LISTED) { if (g_vpos == 0) g_vstate = V_REMOVED; else g_vpos--; }
  vx_refresh_front();
}
static void list_push_front(struct cblist *q, cb_t f)
{
  list_access("push_front");
  VX_ASSERT(q->n < VX_BIG, "ghost range");
  q->n++;
  if (g_vstate == V_LISTED) g_vpos++;
  if (f == CB_VICTIM)
  {
    VX_ASSERT(g_vstate == V_NOTYET, "ghost: the victim is offered once");
    g_vstate = V_LISTED;
    g_vpos = 0;
  }
  g_front = f;
}
static void list_clear(struct cblist *q)
{
  list_access("clear");
  VX_ASSERT(g_vstate != V_LISTED, "an accepted callback is discarded without having been executed");
  q->n = 0;
}
static bool cb_empty(cb_t f) { return f == CB_EMPTY; }
/* invocation of a stored callback (opaque; what it does -- resume the joiner -- is behind this stub) */
static void cb_call(cb_t f)
{
  VX_ASSERT(f != CB_EMPTY, "empty function object invoked (bad_function_call)");
  if (f == CB_VICTIM && g_exec < 2) g_exec++;
}
/* get_state().state(): one atomic read of the scheduling state of the target (not protected by the lock: the
 * scheduler may change it at any time; `terminated` is final for this incarnation of the thread_data) */
static int thread_state_read(struct thread_data *p)
{
  env_sched_state();
  return p->sched_state;
}
#endif
