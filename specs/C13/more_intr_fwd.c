/* units (more_spec.py): the interruption plumbing
 *   pika::thread::interrupt / interruption_requested, this_thread::interruption_point / _enabled / _requested / interrupt (thread.cpp)   (T)
 */
#include "more_intr.h"

struct pika_thread { int dummy; };
struct thread_id { tid_t id_; };    /* pika::thread::id */
static tid_t g_self_id, g_handle_id;
static struct pika_thread *g_handle;
static int g_nh_calls, g_it_calls, g_ip_calls, g_get_calls;
static tid_t g_it_id, g_ip_id, g_get_id;
static bool g_it_flag, g_get_ret, g_ip_after_it, g_it_threw;
static int g_get_what;
static struct error_code *g_it_ec, *g_ip_ec, *g_get_ec;
static tid_t get_self_id(void) { return g_self_id; }
/* thread::native_handle(): unit more.thread.native_handle (the id found under the handle's lock) */
static tid_t native_handle(struct pika_thread *self) { VX_ASSERT(self == g_handle, "native_handle of another handle"); if (g_nh_calls < 2) g_nh_calls++; return g_handle_id; }
/* threads::detail::interrupt_thread(id, flag, ec): unit more.hlp.interrupt_thread; may throw (null id, not interruptable) */
static void interrupt_thread3(tid_t id, bool flag, struct error_code *ec)
{
  if (g_it_calls < 2) g_it_calls++;
  g_it_id = id; g_it_flag = flag; g_it_ec = ec; g_it_threw = false;
  if (nondet_bool()) { g_it_threw = true; vx_throw_pika(pika_error_thread_not_interruptable); }
}
/* threads::detail::interruption_point(id, ec): unit more.hlp.interruption_point; may throw thread_interrupted */
static void interruption_point2(tid_t id, struct error_code *ec)
{
  if (g_ip_calls < 2) g_ip_calls++;
  g_ip_id = id; g_ip_ec = ec; g_ip_after_it = g_it_calls > 0;
  if (nondet_bool()) vx_throw(EXC_thread_interrupted);
}
enum { GET_enabled = 1, GET_requested = 2 };
static bool hlp_get(int what, tid_t id, struct error_code *ec)
{
  if (g_get_calls < 2) g_get_calls++;
  g_get_what = what; g_get_id = id; g_get_ec = ec; g_get_ret = nondet_bool();
  return g_get_ret;
}
#define get_thread_interruption_enabled2(id, ec) hlp_get(GET_enabled, id, ec)
#define get_thread_interruption_requested2(id, ec) hlp_get(GET_requested, id, ec)
/* thread_helpers.hpp: inline void interrupt_thread(id, ec = throws) -- lifted, it supplies the flag */
void interrupt_thread2(tid_t id, struct error_code *ec)
//@LIFT interrupt_thread_default

#define FWD_FRAME vx_exc, vx_err, g_throws, g_nh_calls, g_it_calls, g_ip_calls, g_get_calls, g_it_id, g_ip_id, g_get_id, g_it_flag, g_get_ret, g_ip_after_it, \
  g_it_threw, g_get_what, g_it_ec, g_ip_ec, g_get_ec
#define FWD_PRE (vx_exc == EXC_none && g_throws == 0 && g_nh_calls == 0 && g_it_calls == 0 && g_ip_calls == 0 && g_get_calls == 0)
#define ONLY_IT (g_it_calls == 1 && g_ip_calls == 0 && g_get_calls == 0)
#define ONLY_IP (g_it_calls == 0 && g_ip_calls == 1 && g_get_calls == 0)
#define ONLY_GET(what) (g_it_calls == 0 && g_ip_calls == 0 && g_get_calls == 1 && g_get_what == (what))

#if defined(U_T_INTERRUPT)
//@FUNC
void thread_interrupt(struct pika_thread *self, bool flag)
__CPROVER_requires(FWD_PRE && self == g_handle)
/* one request, for the task this handle refers to, with the caller's flag; errors are thrown */
__CPROVER_ensures(ONLY_IT && g_it_id == g_handle_id && g_it_flag == flag && g_it_ec == &throws)
__CPROVER_assigns(FWD_FRAME)
//@LIFT body
#endif
#if defined(U_T_INTERRUPT_ID)
//@FUNC
void thread_interrupt_id(struct thread_id id, bool flag)
__CPROVER_requires(FWD_PRE)
__CPROVER_ensures(ONLY_IT && g_it_id == id.id_ && g_it_flag == flag && g_it_ec == &throws && g_nh_calls == 0)
__CPROVER_assigns(FWD_FRAME)
//@LIFT body
#endif
#if defined(U_T_REQUESTED)
//@FUNC
bool thread_interruption_requested(struct pika_thread *self)
__CPROVER_requires(FWD_PRE && self == g_handle)
__CPROVER_ensures(ONLY_GET(GET_requested) && g_get_id == g_handle_id && g_get_ec == &throws && __CPROVER_return_value == g_get_ret)
__CPROVER_assigns(FWD_FRAME)
//@LIFT body
#endif
#if defined(U_TT_IPOINT)
//@FUNC
void this_thread_interruption_point(void)
__CPROVER_requires(FWD_PRE)
/* an interruption point of the CALLING thread: it can only end the caller, never another thread */
__CPROVER_ensures(ONLY_IP && g_ip_id == g_self_id && g_ip_ec == &throws)
__CPROVER_assigns(FWD_FRAME)
//@LIFT body
#endif
#if defined(U_TT_ENABLED)
//@FUNC
bool this_thread_interruption_enabled(void)
__CPROVER_requires(FWD_PRE)
__CPROVER_ensures(ONLY_GET(GET_enabled) && g_get_id == g_self_id && g_get_ec == &throws && __CPROVER_return_value == g_get_ret)
__CPROVER_assigns(FWD_FRAME)
//@LIFT body
#endif
#if defined(U_TT_REQUESTED)
//@FUNC
bool this_thread_interruption_requested(void)
__CPROVER_requires(FWD_PRE)
__CPROVER_ensures(ONLY_GET(GET_requested) && g_get_id == g_self_id && g_get_ec == &throws && __CPROVER_return_value == g_get_ret)
__CPROVER_assigns(FWD_FRAME)
//@LIFT body
#endif
#if defined(U_TT_INTERRUPT)
//@FUNC
void this_thread_interrupt(void)
__CPROVER_requires(FWD_PRE)
/* requests the interruption of the calling thread (flag = true) and, unless that was refused, delivers it at once */
__CPROVER_ensures(g_it_calls == 1 && g_it_id == g_self_id && g_it_flag && g_it_ec == &throws && g_get_calls == 0)
__CPROVER_ensures(g_it_threw ==> (g_ip_calls == 0 && THROWN_PIKA(pika_error_thread_not_interruptable)))
__CPROVER_ensures(!g_it_threw ==> (g_ip_calls == 1 && g_ip_id == g_self_id && g_ip_after_it && g_ip_ec == &throws))
__CPROVER_assigns(FWD_FRAME)
//@LIFT body
#endif

void harness(void)
{
  struct pika_thread t;
  g_handle = &t;
  g_self_id = nondet_long(); g_handle_id = nondet_long();
  vx_exc = EXC_none; vx_err = 0; g_throws = 0; g_nh_calls = 0; g_it_calls = 0; g_ip_calls = 0; g_get_calls = 0;
  g_it_id = 0; g_ip_id = 0; g_get_id = 0; g_it_flag = false; g_get_ret = false; g_ip_after_it = false; g_it_threw = false; g_get_what = 0;
  g_it_ec = NULL; g_ip_ec = NULL; g_get_ec = NULL; throws.value = 0;
#if defined(U_T_INTERRUPT)
  bool flag = nondet_bool();
  thread_interrupt(&t, flag);
  if (flag && vx_exc == EXC_none) VX_REACH("requested");
  if (!flag) VX_REACH("withdrawn");
  if (vx_exc != EXC_none) VX_REACH("refused");
#elif defined(U_T_INTERRUPT_ID)
  struct thread_id id; id.id_ = nondet_long();
  bool flag = nondet_bool();
  thread_interrupt_id(id, flag);
  if (flag) VX_REACH("requested"); else VX_REACH("withdrawn");
#elif defined(U_T_REQUESTED)
  if (thread_interruption_requested(&t)) VX_REACH("requested"); else VX_REACH("not_requested");
#elif defined(U_TT_IPOINT)
  this_thread_interruption_point();
  if (vx_exc == EXC_thread_interrupted) VX_REACH("interrupted"); else VX_REACH("passed");
#elif defined(U_TT_ENABLED)
  if (this_thread_interruption_enabled()) VX_REACH("enabled"); else VX_REACH("disabled");
#elif defined(U_TT_REQUESTED)
  if (this_thread_interruption_requested()) VX_REACH("requested"); else VX_REACH("not_requested");
#elif defined(U_TT_INTERRUPT)
  this_thread_interrupt();
  if (g_it_threw) VX_REACH("refused_interruption_disabled");
  if (vx_exc == EXC_thread_interrupted) VX_REACH("interrupted_itself");
  if (vx_exc == EXC_none) VX_REACH("returned");
#endif
}
