/* units: thread_data::run_thread_exit_callbacks / add_thread_exit_callback / free_thread_exit_callbacks  (M + T) */
#include "exitcb.h"

#define RUN_FRAME self->exit_funcs_.n, self->ran_exit_funcs_, g_mtx->held, g_vstate, g_vpos, g_exec, g_front, g_env_pushed, g_cs_ran, g_cs_n

#ifdef U_RUN
//@FUNC
void run_thread_exit_callbacks(struct thread_data *self)
__CPROVER_requires(self == vx_self && !g_mtx->held && INV && VCONSIST && g_exec == 0 && g_vstate != V_REMOVED)
__CPROVER_requires(!self->ran_exit_funcs_ || g_vstate == V_NOTYET)
/* the callbacks have run: flag set, and the list is empty when the flag becomes true */
__CPROVER_ensures(self->ran_exit_funcs_ && self->exit_funcs_.n == 0 && !g_mtx->held)
/* a callback that was accepted (is or was in the list) has been executed exactly once; one that was never accepted, never */
__CPROVER_ensures(g_vstate != V_LISTED)
__CPROVER_ensures(g_vstate == V_REMOVED ==> g_exec == 1)
__CPROVER_ensures(g_vstate == V_NOTYET ==> g_exec == 0)
__CPROVER_assigns(RUN_FRAME)
//@LIFT body
#endif

#ifdef U_ADD
//@FUNC
bool add_thread_exit_callback(struct thread_data *self, cb_t f)
__CPROVER_requires(self == vx_self && !g_mtx->held && INV && VCONSIST && g_vstate == V_NOTYET && f == CB_VICTIM)
/* refused once the callbacks ran or the target is terminated, accepted otherwise (decided in one critical section) */
__CPROVER_ensures((g_cs_ran || g_cs_term) ==> !__CPROVER_return_value)
/* ... and only then */
__CPROVER_ensures(!__CPROVER_return_value ==> (g_cs_ran || self->sched_state == thread_schedule_state_terminated))
/* accepted: f is in the list (exactly one copy), nothing else changed */
__CPROVER_ensures(__CPROVER_return_value ==> (g_vstate == V_LISTED && self->exit_funcs_.n == g_cs_n + 1 && !self->ran_exit_funcs_))
/* refused: the list is untouched and f is not in it */
__CPROVER_ensures(!__CPROVER_return_value ==> (g_vstate == V_NOTYET && self->exit_funcs_.n == g_cs_n))
__CPROVER_ensures(self->ran_exit_funcs_ == g_cs_ran && g_exec == 0 && !g_mtx->held && INV)
__CPROVER_assigns(RUN_FRAME, self->sched_state, g_cs_term)
//@LIFT body
#endif

#ifdef U_FREE
/* called by the exiting thread after run_thread_exit_callbacks (thread.cpp run_thread_exit_callbacks) */
//@FUNC
void free_thread_exit_callbacks(struct thread_data *self)
__CPROVER_requires(self == vx_self && !g_mtx->held && INV && VCONSIST && self->ran_exit_funcs_ && EXACT)
__CPROVER_ensures(self->exit_funcs_.n == 0 && self->ran_exit_funcs_ && !g_mtx->held)
__CPROVER_ensures(g_exec == __CPROVER_old(g_exec) && g_vstate == __CPROVER_old(g_vstate))
__CPROVER_assigns(RUN_FRAME)
//@LIFT body
#endif

void harness(void)
{
  struct thread_data td;
  struct vx_mutex m;
  vx_self = &td;
  g_mtx = &m;
  m.held = false;
  td.exit_funcs_.n = nondet_int();
  td.ran_exit_funcs_ = nondet_bool();
  td.sched_state = nondet_int();
  g_vstate = nondet_int();
  g_vpos = nondet_int();
  g_front = nondet_int();
  g_exec = 0;
  g_env_pushed = false;
  g_cs_term = false;
  g_cs_ran = td.ran_exit_funcs_;
  g_cs_n = td.exit_funcs_.n;
#ifdef U_RUN
  int v0 = g_vstate;
  int n0 = td.exit_funcs_.n;
  bool ran0 = td.ran_exit_funcs_;
  run_thread_exit_callbacks(&td);
  VX_REACH("returned");
  if (n0 == 0) VX_REACH("list_was_empty");
  if (ran0) VX_REACH("second_run");
  if (v0 == V_LISTED && g_exec == 1) VX_REACH("listed_callback_executed_once");
  if (v0 == V_NOTYET && g_vstate == V_REMOVED) VX_REACH("callback_registered_during_run_executed");
  if (g_vstate == V_NOTYET) VX_REACH("never_registered");
  if (g_env_pushed) VX_REACH("interference_while_unlocked");
#endif
#ifdef U_ADD
  bool r = add_thread_exit_callback(&td, CB_VICTIM);
  if (r) VX_REACH("accepted");
  if (!r && g_cs_ran) VX_REACH("refused_callbacks_already_ran");
  if (!r && !g_cs_ran) VX_REACH("refused_target_terminated");
#endif
#ifdef U_FREE
  free_thread_exit_callbacks(&td);
  VX_REACH("freed");
#endif
}
