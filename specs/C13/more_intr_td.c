/* units (more_spec.py): the interruption plumbing
 *   thread_data::interrupt / interruption_requested / interruption_enabled / set_interruption_enabled  (thread_data.hpp)   (M)
 */
#include "more_intr.h"

/* Protected state: requested_interrupt_ / enabled_interrupt_ behind spinlock_pool::spinlock_for(this).  Other agents may
 * call interrupt() / set_interruption_enabled() on the same thread_data whenever the lock is free: both flags are
 * arbitrary at every acquisition.  g_en0/g_rq0 = the flags found under the lock, g_pub_* = the flags published at release. */
struct thread_data { bool requested_interrupt_; bool enabled_interrupt_; };
static struct vx_mutex *g_mtx;
static struct thread_data *g_td;
static bool g_en0, g_rq0, g_pub_en, g_pub_rq;
static int g_acq;
#define MON_AT_RELEASE() do { g_pub_en = g_td->enabled_interrupt_; g_pub_rq = g_td->requested_interrupt_; } while (0)
#define MON_AT_ACQUIRE() do { g_td->enabled_interrupt_ = nondet_bool(); g_td->requested_interrupt_ = nondet_bool(); \
    if (g_acq == 0) { g_en0 = g_td->enabled_interrupt_; g_rq0 = g_td->requested_interrupt_; } if (g_acq < 2) g_acq++; } while (0)
#include "monitor.h"
static struct vx_mutex *spinlock_for(struct thread_data *p) { VX_ASSERT(p == g_td, "lock of another object"); return g_mtx; }

#define TD_FRAME self->requested_interrupt_, self->enabled_interrupt_, g_mtx->held, g_en0, g_rq0, g_pub_en, g_pub_rq, g_acq, vx_exc, vx_err, g_throws
#define TD_PRE (self == g_td && !g_mtx->held && g_acq == 0 && vx_exc == EXC_none && g_throws == 0)
/* at exit: lock free, taken once, nothing written after the release */
#define TD_QUIET (!g_mtx->held && g_acq == 1 && self->enabled_interrupt_ == g_pub_en && self->requested_interrupt_ == g_pub_rq)

#if defined(U_TD_INTERRUPT)
//@FUNC
void td_interrupt(struct thread_data *self, bool flag)
__CPROVER_requires(TD_PRE)
/* a request made while interruption is disabled is refused with thread_not_interruptable and changes nothing */
__CPROVER_ensures((flag && !g_en0) ==> (THROWN_PIKA(pika_error_thread_not_interruptable) && self->requested_interrupt_ == g_rq0))
__CPROVER_ensures(vx_exc != EXC_none ==> (flag && !g_en0))
/* otherwise the request only sets (or withdraws) the flag */
__CPROVER_ensures(vx_exc == EXC_none ==> self->requested_interrupt_ == flag)
__CPROVER_ensures(self->enabled_interrupt_ == g_en0 && TD_QUIET)
__CPROVER_assigns(TD_FRAME)
//@LIFT body
#endif
#if defined(U_TD_REQUESTED)
//@FUNC
bool td_interruption_requested(struct thread_data *self)
__CPROVER_requires(TD_PRE)
__CPROVER_ensures(__CPROVER_return_value == g_rq0 && self->requested_interrupt_ == g_rq0 && self->enabled_interrupt_ == g_en0 && TD_QUIET && vx_exc == EXC_none)
__CPROVER_assigns(TD_FRAME)
//@LIFT body
#endif
#if defined(U_TD_ENABLED)
//@FUNC
bool td_interruption_enabled(struct thread_data *self)
__CPROVER_requires(TD_PRE)
__CPROVER_ensures(__CPROVER_return_value == g_en0 && self->requested_interrupt_ == g_rq0 && self->enabled_interrupt_ == g_en0 && TD_QUIET && vx_exc == EXC_none)
__CPROVER_assigns(TD_FRAME)
//@LIFT body
#endif
#if defined(U_TD_SET_ENABLED)
//@FUNC
bool td_set_interruption_enabled(struct thread_data *self, bool enable)
__CPROVER_requires(TD_PRE)
/* installs the new value and returns exactly the value it replaced; a pending request is kept */
__CPROVER_ensures(__CPROVER_return_value == g_en0 && self->enabled_interrupt_ == enable && self->requested_interrupt_ == g_rq0 && TD_QUIET && vx_exc == EXC_none)
__CPROVER_assigns(TD_FRAME)
//@LIFT body
#endif

void harness(void)
{
  struct thread_data td;
  struct vx_mutex mtx;
  g_td = &td; g_mtx = &mtx; mtx.held = false;
  td.enabled_interrupt_ = nondet_bool(); td.requested_interrupt_ = nondet_bool();
  g_acq = 0; g_en0 = false; g_rq0 = false; g_pub_en = false; g_pub_rq = false;
  vx_exc = EXC_none; vx_err = 0; g_throws = 0;
#if defined(U_TD_INTERRUPT)
  bool flag = nondet_bool();
  td_interrupt(&td, flag);
  if (vx_exc != EXC_none) VX_REACH("refused_while_disabled");
  if (vx_exc == EXC_none && flag) VX_REACH("requested");
  if (vx_exc == EXC_none && !flag && g_rq0) VX_REACH("request_withdrawn");
  if (vx_exc == EXC_none && !flag && !g_en0) VX_REACH("withdrawn_while_disabled");
#elif defined(U_TD_REQUESTED)
  if (td_interruption_requested(&td)) VX_REACH("requested"); else VX_REACH("not_requested");
#elif defined(U_TD_ENABLED)
  if (td_interruption_enabled(&td)) VX_REACH("enabled"); else VX_REACH("disabled");
#elif defined(U_TD_SET_ENABLED)
  bool en = nondet_bool();
  bool old = td_set_interruption_enabled(&td, en);
  if (old && !en) VX_REACH("disabled_was_enabled");
  if (!old && en) VX_REACH("enabled_was_disabled");
  if (old == en) VX_REACH("no_change");
#endif
}
