/* units (more_spec.py): the interruption plumbing
 *   threads::detail::interrupt_thread / interruption_point / get|set_thread_interruption_* (thread_helpers.cpp)   (T)
 */
#include "more_intr.h"

enum thread_restart_state { /* coroutines/thread_enums.hpp (opaque tokens here) */
  thread_restart_state_unknown = 0, thread_restart_state_signaled = 1, thread_restart_state_timeout = 2,
  thread_restart_state_terminate = 3, thread_restart_state_abort = 4 };
enum { thread_priority_normal = 2 };
struct thread_data { int dummy; };
static struct thread_data g_td_obj;
static tid_t g_data_id;             /* argument of the last get_thread_id_data */
static int g_lookups, g_td_calls, g_set_states;
static int g_td_what;               /* which thread_data member was called */
enum { TD_interrupt = 1, TD_interruption_point, TD_interruption_enabled, TD_set_interruption_enabled, TD_interruption_requested };
static bool g_td_arg, g_td_ret, g_td_threw;
static tid_t g_ss_id; static int g_ss_state, g_ss_stateex, g_ss_prio; static bool g_ss_retry; static struct error_code *g_ss_ec;
static bool g_ec_reset_before_work;
static struct error_code *g_ec;

/* get_thread_id_data(id): the thread_data behind a (non-null) id */
static struct thread_data *get_thread_id_data(tid_t id)
{
  VX_ASSERT(id != invalid_thread_id, "get_thread_id_data on a null thread id (null pointer dereference follows)");
  if (g_lookups < 2) g_lookups++;
  g_data_id = id;
  return &g_td_obj;
}
static void td_enter(struct thread_data *td, int what)
{
  VX_ASSERT(td == &g_td_obj, "member call on something that is not the thread_data of the id");
  if (g_td_calls < 2) g_td_calls++;
  g_td_what = what;
  g_ec_reset_before_work = (g_ec == &throws) || g_ec->value == pika_error_success;
}
/* contracts of the thread_data members: units more.td.* and thread_data.interruption_point */
static void td_interrupt(struct thread_data *td, bool flag)
{
  td_enter(td, TD_interrupt); g_td_arg = flag; g_td_threw = false;
  if (flag && nondet_bool()) { g_td_threw = true; vx_throw_pika(pika_error_thread_not_interruptable); } /* refused: interruption disabled */
}
static void td_interruption_point(struct thread_data *td)
{
  td_enter(td, TD_interruption_point); g_td_threw = false;
  if (nondet_bool()) { g_td_threw = true; vx_throw(EXC_thread_interrupted); } /* enabled && requested: delivered here */
}
static bool td_interruption_enabled(struct thread_data *td) { td_enter(td, TD_interruption_enabled); g_td_ret = nondet_bool(); return g_td_ret; }
static bool td_interruption_requested(struct thread_data *td) { td_enter(td, TD_interruption_requested); g_td_ret = nondet_bool(); return g_td_ret; }
static bool td_set_interruption_enabled(struct thread_data *td, bool enable) { td_enter(td, TD_set_interruption_enabled); g_td_arg = enable; g_td_ret = nondet_bool(); return g_td_ret; }
/* set_thread_state(id, state, stateex, priority, retry_on_active, ec)  (C01/C02): may fail through ec / by throwing */
static void set_thread_state(tid_t id, int state, int stateex, int prio, bool retry, struct error_code *ec)
{
  VX_ASSERT(g_td_calls > 0, "target woken before the request was recorded in its thread_data");
  if (g_set_states < 2) g_set_states++;
  g_ss_id = id; g_ss_state = state; g_ss_stateex = stateex; g_ss_prio = prio; g_ss_retry = retry; g_ss_ec = ec;
  if (nondet_bool()) vx_throws_if(ec, pika_error_invalid_status);
}

#define HLP_FRAME vx_exc, vx_err, g_throws, ec->value, g_data_id, g_lookups, g_td_calls, g_set_states, g_td_what, g_td_arg, g_td_ret, g_td_threw, \
  g_ss_id, g_ss_state, g_ss_stateex, g_ss_prio, g_ss_retry, g_ss_ec, g_ec_reset_before_work
#define HLP_PRE (g_ec == ec && vx_exc == EXC_none && g_throws == 0 && g_lookups == 0 && g_td_calls == 0 && g_set_states == 0)
/* a null id is reported as null_thread_id and nothing is touched */
#define NULL_ID_REFUSED (id == invalid_thread_id ==> (ERR_REPORTED(ec, pika_error_null_thread_id) && g_lookups == 0 && g_td_calls == 0 && g_set_states == 0))
/* otherwise exactly one member call on the thread_data of exactly this id, ec cleared first (unless it is `throws`) */
#define ONE_MEMBER_CALL(what) (id != invalid_thread_id ==> (g_td_calls == 1 && g_td_what == (what) && g_data_id == id && g_ec_reset_before_work))

#if defined(U_HLP_INTERRUPT)
//@FUNC
void interrupt_thread(tid_t id, bool flag, struct error_code *ec)
__CPROVER_requires(HLP_PRE)
__CPROVER_ensures(NULL_ID_REFUSED)
__CPROVER_ensures(ONE_MEMBER_CALL(TD_interrupt) && (id != invalid_thread_id ==> g_td_arg == flag))
/* a refused request (thread_not_interruptable) propagates and the target is left alone */
__CPROVER_ensures(g_td_threw ==> (THROWN_PIKA(pika_error_thread_not_interruptable) && g_set_states == 0))
/* an accepted request wakes the target exactly once: pending + abort, without waiting for an active target -- it never
 * ends the target by itself */
__CPROVER_ensures((id != invalid_thread_id && !g_td_threw && flag) ==> (g_set_states == 1 && g_ss_id == id && g_ss_state == thread_schedule_state_pending && \
                  g_ss_stateex == thread_restart_state_abort && !g_ss_retry && g_ss_ec == ec))
__CPROVER_ensures(g_set_states > 0 ==> (g_ss_id == id && g_ss_state != thread_schedule_state_terminated))
__CPROVER_assigns(HLP_FRAME)
//@LIFT body
#endif
#if defined(U_HLP_IPOINT)
//@FUNC
void interruption_point(tid_t id, struct error_code *ec)
__CPROVER_requires(HLP_PRE)
__CPROVER_ensures(NULL_ID_REFUSED)
__CPROVER_ensures(ONE_MEMBER_CALL(TD_interruption_point) && g_set_states == 0)
/* thread_interrupted raised by the target's own interruption point propagates unchanged */
__CPROVER_ensures(g_td_threw ==> vx_exc == EXC_thread_interrupted)
__CPROVER_ensures((id != invalid_thread_id && !g_td_threw) ==> vx_exc == EXC_none)
__CPROVER_assigns(HLP_FRAME)
//@LIFT body
#endif
#if defined(U_HLP_GET_ENABLED) || defined(U_HLP_GET_REQUESTED)
#if defined(U_HLP_GET_ENABLED)
#define WHAT TD_interruption_enabled
#else
#define WHAT TD_interruption_requested
#endif
//@FUNC
bool hlp_get(tid_t id, struct error_code *ec)
__CPROVER_requires(HLP_PRE)
__CPROVER_ensures(NULL_ID_REFUSED)
__CPROVER_ensures(ONE_MEMBER_CALL(WHAT) && g_set_states == 0)
__CPROVER_ensures(id != invalid_thread_id ==> (vx_exc == EXC_none && __CPROVER_return_value == g_td_ret))
__CPROVER_assigns(HLP_FRAME)
//@LIFT body
#endif
#if defined(U_HLP_SET_ENABLED)
//@FUNC
bool set_thread_interruption_enabled(tid_t id, bool enable, struct error_code *ec)
__CPROVER_requires(HLP_PRE)
__CPROVER_ensures(NULL_ID_REFUSED)
__CPROVER_ensures(ONE_MEMBER_CALL(TD_set_interruption_enabled) && g_set_states == 0)
/* the new value is passed on unchanged and the previous value comes back unchanged */
__CPROVER_ensures(id != invalid_thread_id ==> (vx_exc == EXC_none && g_td_arg == enable && __CPROVER_return_value == g_td_ret))
__CPROVER_assigns(HLP_FRAME)
//@LIFT body
#endif

void harness(void)
{
  struct error_code my_ec;
  struct error_code *ec = nondet_bool() ? &throws : &my_ec;
  my_ec.value = nondet_int(); throws.value = 0;
  g_ec = ec;
  vx_exc = EXC_none; vx_err = 0; g_throws = 0; g_lookups = 0; g_td_calls = 0; g_set_states = 0; g_td_what = 0;
  g_td_arg = false; g_td_ret = false; g_td_threw = false; g_ss_id = 0; g_ss_state = 0; g_ss_stateex = 0; g_ss_prio = 0; g_ss_retry = false;
  g_ss_ec = NULL; g_ec_reset_before_work = false; g_data_id = 0;
  tid_t id = nondet_long();
#if defined(U_HLP_INTERRUPT)
  bool flag = nondet_bool();
  interrupt_thread(id, flag, ec);
  if (id == invalid_thread_id && vx_exc != EXC_none) VX_REACH("null_id_thrown");
  if (id == invalid_thread_id && vx_exc == EXC_none) VX_REACH("null_id_in_ec");
  if (g_td_threw) VX_REACH("refused_not_interruptable");
  if (g_set_states == 1 && flag && vx_exc == EXC_none) VX_REACH("requested_and_woken");
  if (g_set_states == 1 && !flag) VX_REACH("withdrawn");
#elif defined(U_HLP_IPOINT)
  interruption_point(id, ec);
  if (id == invalid_thread_id) VX_REACH("null_id");
  if (g_td_threw) VX_REACH("interrupted");
  if (g_td_calls == 1 && vx_exc == EXC_none) VX_REACH("not_interrupted");
#elif defined(U_HLP_GET_ENABLED) || defined(U_HLP_GET_REQUESTED)
  bool r = hlp_get(id, ec);
  if (id == invalid_thread_id) VX_REACH("null_id");
  if (g_td_calls == 1 && r) VX_REACH("true");
  if (g_td_calls == 1 && !r) VX_REACH("false");
#elif defined(U_HLP_SET_ENABLED)
  bool r = set_thread_interruption_enabled(id, nondet_bool(), ec);
  if (id == invalid_thread_id) VX_REACH("null_id");
  if (g_td_calls == 1 && r) VX_REACH("was_enabled");
  if (g_td_calls == 1 && !r) VX_REACH("was_disabled");
#endif
}
