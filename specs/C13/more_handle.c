/* units (more_spec.py): pika::thread::~thread, thread(thread&&), operator=(thread&&), swap, start_thread, native_handle   (M + T)
 *
 * Two handles take part in a call: `self` and (for the move operations and swap) `rhs`.  id_ of a handle is protected by
 * the handle's own spinlock mtx_.  A handle marked *shared* may be used by other agents (detach, join, a move) whenever its
 * mtx_ is free: its id_ is arbitrary at every acquisition.  An object under construction / destruction is exclusive.
 * Ghost:
 *   g_id0 / g_rid0     id_ found at the FIRST acquisition of self->mtx_ / rhs->mtx_  ("the id the operation saw under the lock")
 *   g_pub / g_rpub     id_ published at the LAST release of the respective lock (a write after the release shows up as
 *                      `id_ != published value` in the postcondition)
 *   g_acq / g_racq     number of acquisitions (0, 1, many)
 *   g_nest_sr/g_nest_rs  rhs->mtx_ was acquired while self->mtx_ was held / the other way round (lock order)
 *   vx_dead            std::terminate() was called or the termination handler did not return: the program has ended
 *   g_noexcept         the lifted function is declared noexcept (or is a destructor): an exception in flight at its exit
 *                      ends the program as well (see DEAD)
 */
#include "c13.h"

struct vx_mutex;
static void env_acquire(struct vx_mutex *m);
static void env_release(struct vx_mutex *m);
#define MON_AT_RELEASE() env_release(m)
#define MON_AT_ACQUIRE() env_acquire(m)
#include "monitor.h"

struct pika_thread { struct vx_mutex mtx_; tid_t id_; };

static struct pika_thread *g_self, *g_rhs;
static bool g_shared_self, g_shared_rhs;
static tid_t g_id0, g_rid0, g_pub, g_rpub;
static int g_acq, g_racq;
static bool g_nest_sr, g_nest_rs, g_self_first;
static bool vx_dead, g_noexcept;
static int g_terminates;

static void env_acquire(struct vx_mutex *m)
{
  if (m == &g_self->mtx_)
  {
    if (g_shared_self) g_self->id_ = nondet_long(); /* other users of the handle acted while its lock was free */
    if (g_acq == 0) g_id0 = g_self->id_;
    if (g_acq < 2) g_acq++;
    if (g_rhs != NULL && g_rhs->mtx_.held)
    {
      g_nest_rs = true;
#ifdef U_LOCK_ORDER
      VX_ASSERT(!g_self_first, "lock order: takes self.mtx_ while holding rhs.mtx_ although self comes first in the global order (ABBA with the mirrored call)");
#endif
    }
  }
  else
  {
    VX_ASSERT(g_rhs != NULL && m == &g_rhs->mtx_, "acquires a lock that belongs to neither handle");
    if (g_shared_rhs) g_rhs->id_ = nondet_long();
    if (g_racq == 0) g_rid0 = g_rhs->id_;
    if (g_racq < 2) g_racq++;
    if (g_self->mtx_.held)
    {
      g_nest_sr = true;
#ifdef U_LOCK_ORDER
      VX_ASSERT(g_self_first, "lock order: takes rhs.mtx_ while holding self.mtx_ although rhs comes first in the global order (ABBA with the mirrored call)");
#endif
    }
  }
}
static void env_release(struct vx_mutex *m)
{
  if (m == &g_self->mtx_) g_pub = g_self->id_;
  else if (g_rhs != NULL && m == &g_rhs->mtx_) g_rpub = g_rhs->id_;
}
/* std::scoped_lock l(a, b) / std::lock(a, b): deadlock-avoiding acquisition of both (TRUSTED: std::lock's guarantee);
 * modelled as acquisition in the global order */
struct ulock2 { struct ulock a, b; };
static struct ulock2 ulock2_make(struct vx_mutex *a, struct vx_mutex *b)
{
  struct ulock2 l;
  bool a_first = (a == &g_self->mtx_) == g_self_first;
  if (a_first) { l.a = ulock_make(a); l.b = ulock_make(b); } else { l.b = ulock_make(b); l.a = ulock_make(a); }
  return l;
}
static void ulock2_dtor(struct ulock2 *l) { ulock_dtor(&l->b); ulock_dtor(&l->a); }

/* std::terminate(): the program ends here (the lifting rule leaves the function after the call) */
static void vx_terminate(void) { if (g_terminates < 2) g_terminates++; vx_dead = true; }
#define VX_NOEXCEPT_FN() do { g_noexcept = true; } while (0)
/* the program has ended: std::terminate()/a handler that does not return, or an exception leaving a noexcept function */
#define DEAD (vx_dead || (g_noexcept && vx_exc != EXC_none))
#define THROWN_PIKA(e) (vx_exc == EXC_pika_exception && vx_err == (e))
/* std::swap on two ids (thread_id_ref_type): TRUSTED three-move exchange */
#define VX_STD_SWAP(a, b) do { __typeof__(a) vx_swap_tmp = (a); (a) = (b); (b) = vx_swap_tmp; } while (0)

/* ---- lifted helpers (thread.hpp) ---------------------------------------------------------------------------- */
#if !defined(U_START)
bool joinable_locked(struct pika_thread *self)
//@LIFT joinable_locked
void detach_locked(struct pika_thread *self)
//@LIFT detach_locked
#endif
#if defined(U_DTOR)
bool joinable(struct pika_thread *self)
//@LIFT joinable
#endif

#define H_FRAME g_id0, g_rid0, g_pub, g_rpub, g_acq, g_racq, g_nest_sr, g_nest_rs, vx_dead, g_noexcept, g_terminates, \
  vx_exc, vx_err, g_throws, vx_caught, vx_caught_err
#define H_PRE1 (g_self == self && g_rhs == NULL && !self->mtx_.held && vx_exc == EXC_none && g_throws == 0 && g_acq == 0 && g_racq == 0 && \
                !g_nest_sr && !g_nest_rs && !vx_dead && !g_noexcept && g_terminates == 0)
#define H_PRE2 (g_self == self && g_rhs == rhs && self != rhs && !self->mtx_.held && !rhs->mtx_.held && vx_exc == EXC_none && g_throws == 0 && \
                g_acq == 0 && g_racq == 0 && !g_nest_sr && !g_nest_rs && !vx_dead && !g_noexcept && g_terminates == 0)

/* ------------------------------------------------------------------------------------------------------------- */
#if defined(U_DTOR)
/* detail::thread_termination_handler: util::detail::function<void(std::exception_ptr const&)> set by
 * set_thread_termination_handler (init_runtime installs [](e){ report_error(e); }).  A user function: it may return, or
 * end the program (an exception leaving it would leave a destructor => std::terminate). */
struct exc_ptr { int kind, err; };
static bool g_handler_set;
static int g_handler_calls;
static bool g_handler_returned;
static struct exc_ptr g_handler_arg;
static bool termination_handler_installed(void) { return g_handler_set; }
static struct exc_ptr vx_current_exception(void) { struct exc_ptr e; e.kind = vx_caught; e.err = vx_caught_err; return e; }
static void termination_handler_call(struct exc_ptr e)
{
  VX_ASSERT(g_handler_set, "empty thread_termination_handler invoked");
  if (g_handler_calls < 2) g_handler_calls++;
  g_handler_arg = e;
#ifdef KF_HANDLER_NORETURN
  vx_dead = true;
#else
  if (nondet_bool()) vx_dead = true; else g_handler_returned = true;
#endif
}
//@FUNC
void thread_dtor(struct pika_thread *self)
__CPROVER_requires(H_PRE1 && g_handler_calls == 0)
/* a handle that is not joinable is destroyed silently */
__CPROVER_ensures(g_id0 == invalid_thread_id ==> (!DEAD && g_handler_calls == 0 && g_terminates == 0 && g_throws == 0))
/* a still joinable handle ends the program ... */
__CPROVER_ensures(g_id0 != invalid_thread_id ==> DEAD)
/* ... through the installed termination handler (given an invalid_status pika::exception) or std::terminate */
__CPROVER_ensures((g_id0 != invalid_thread_id && g_handler_set) ==> (g_handler_calls == 1 && g_handler_arg.kind == EXC_pika_exception && g_handler_arg.err == pika_error_invalid_status))
__CPROVER_ensures((g_id0 != invalid_thread_id && !g_handler_set) ==> g_terminates == 1)
/* no exception leaves the destructor; the lock is free again */
__CPROVER_ensures(vx_exc == EXC_none && !self->mtx_.held && g_acq == 1)
__CPROVER_assigns(H_FRAME, self->mtx_.held, g_handler_calls, g_handler_arg, g_handler_returned)
//@LIFT body
#endif

/* ------------------------------------------------------------------------------------------------------------- */
#if defined(U_MOVE_CTOR)
//@FUNC
void thread_move_ctor(struct pika_thread *self, struct pika_thread *rhs)
__CPROVER_requires(H_PRE2 && self->id_ == invalid_thread_id)
/* the new handle takes over the id rhs held (as seen under rhs's lock); rhs ends not joinable */
__CPROVER_ensures(self->id_ == g_rid0 && rhs->id_ == invalid_thread_id && rhs->id_ == g_rpub)
__CPROVER_ensures(!DEAD && vx_exc == EXC_none && !rhs->mtx_.held && !self->mtx_.held && g_racq == 1)
__CPROVER_assigns(H_FRAME, self->id_, rhs->id_, self->mtx_.held, rhs->mtx_.held)
//@LIFT body
#endif

/* ------------------------------------------------------------------------------------------------------------- */
#if defined(U_MOVE_ASSIGN)
//@FUNC
struct pika_thread *thread_move_assign(struct pika_thread *self, struct pika_thread *rhs)
__CPROVER_requires(H_PRE2)
/* assigning over a joinable handle ends the program (an exception out of a noexcept function / std::terminate) */
__CPROVER_ensures(g_id0 != invalid_thread_id ==> DEAD)
/* otherwise the handle takes over rhs's id, rhs ends not joinable, *this is returned, both locks are free and nothing was
 * written outside the critical sections */
__CPROVER_ensures(g_id0 == invalid_thread_id ==> (!DEAD && vx_exc == EXC_none && self->id_ == g_rid0 && rhs->id_ == invalid_thread_id && \
                  self->id_ == g_pub && rhs->id_ == g_rpub && __CPROVER_return_value == self && g_acq == 1 && g_racq == 1))
__CPROVER_ensures(!self->mtx_.held && !rhs->mtx_.held)
__CPROVER_assigns(H_FRAME, self->id_, rhs->id_, self->mtx_.held, rhs->mtx_.held)
//@LIFT body
#endif

/* ------------------------------------------------------------------------------------------------------------- */
#if defined(U_SWAP)
//@FUNC
void thread_swap(struct pika_thread *self, struct pika_thread *rhs)
__CPROVER_requires(H_PRE2)
/* the ids (each as seen under its own lock) are exchanged; both locks were held at the exchange and are free again */
__CPROVER_ensures(self->id_ == g_rid0 && rhs->id_ == g_id0 && self->id_ == g_pub && rhs->id_ == g_rpub)
__CPROVER_ensures(!DEAD && vx_exc == EXC_none && !self->mtx_.held && !rhs->mtx_.held && g_acq == 1 && g_racq == 1 && (g_nest_sr || g_nest_rs))
__CPROVER_assigns(H_FRAME, self->id_, rhs->id_, self->mtx_.held, rhs->mtx_.held)
//@LIFT body
#endif

/* ------------------------------------------------------------------------------------------------------------- */
#if defined(U_NATIVE_HANDLE)
//@FUNC
tid_t thread_native_handle(struct pika_thread *self)
__CPROVER_requires(H_PRE1)
__CPROVER_ensures(__CPROVER_return_value == g_id0 && self->id_ == g_id0 && !self->mtx_.held && vx_exc == EXC_none && g_acq == 1)
__CPROVER_assigns(H_FRAME, self->id_, self->mtx_.held)
//@LIFT body
#endif

/* ------------------------------------------------------------------------------------------------------------- */
#if defined(U_START)
/* threads::detail::thread_init_data(func, description, priority, hint, stacksize, initial_state, run_now) */
enum { thread_priority_default_ = 0, thread_priority_normal = 2 };
enum { thread_stacksize_default_ = 0 };
enum { throwmode_plain = 0, throwmode_rethrow = 1, throwmode_lightweight = 2 };
typedef int ufunc_t;                                        /* util::detail::unique_function<void()>: opaque token */
struct thread_result { int state; tid_t id; };
/* unit thread.nullary; only its address is used here */
static struct thread_result thread_function_nullary(ufunc_t func) { struct thread_result r; r.state = thread_schedule_state_terminated; r.id = invalid_thread_id; return r; }
struct bound_entry { struct thread_result (*fn)(ufunc_t); ufunc_t arg; };
struct thread_init_data { struct bound_entry func; const char *description; int priority; int hint; int stacksize; int initial_state; bool run_now; };
struct error_code { int value; int mode; };
struct thread_pool_base { int dummy; };
static struct bound_entry bind_make(struct thread_result (*fn)(ufunc_t), ufunc_t arg) { struct bound_entry b; b.fn = fn; b.arg = arg; return b; }
#define one_shot(x) (x)
static int thread_schedule_hint_make(void) { return 0; }
static struct thread_init_data thread_init_data_make(struct bound_entry f, const char *desc, int prio, int hint, int stack, int state, bool run_now)
{
  struct thread_init_data d;
  d.func = f; d.description = desc; d.priority = prio; d.hint = hint; d.stacksize = stack; d.initial_state = state; d.run_now = run_now;
  return d;
}
static struct error_code error_code_make(int mode) { struct error_code e; e.value = 0; e.mode = mode; return e; }
static bool error_code_bool(struct error_code *e) { return e->value != 0; }

static int g_creates;
static struct thread_init_data g_create_data;
static tid_t *g_create_idp;
static struct thread_pool_base *g_create_pool;
static int g_create_mode;
static bool g_create_ok;
static tid_t g_new_id;
/* thread_pool_base::create_thread(data, id, ec)  (scheduled_thread_pool_impl.hpp -> threading_base/src/create_thread.cpp):
 * success: the new task's id is stored through `id` before the task can be scheduled (C01), ec is clear;
 * failure (pool not running, bad parameter): reported through ec in the lightweight mode used here, `id` untouched;
 * allocation failure may surface as a foreign exception. */
static void pool_create_thread(struct thread_pool_base *pool, struct thread_init_data *data, tid_t *id, struct error_code *ec)
{
  if (g_creates < 2) g_creates++;
  g_create_pool = pool;
  g_create_data = *data;
  g_create_idp = id;
  g_create_mode = ec->mode;
  int k = nondet_int();
  g_create_ok = false;
  if (k == 0) { g_create_ok = true; *id = g_new_id; ec->value = 0; }
  else if (k == 1) { vx_throw(EXC_foreign); }
  else { ec->value = pika_error_invalid_status; }
}
//@FUNC
void start_thread(struct pika_thread *self, struct thread_pool_base *pool, ufunc_t func)
__CPROVER_requires(H_PRE1 && g_creates == 0 && pool != NULL && self->id_ == invalid_thread_id && g_new_id != invalid_thread_id)
/* exactly one task is created on the given pool: entry = thread_function_nullary bound to the user's function, initially
 * pending; the handle's own id_ is the out-parameter the scheduler fills in before the task can run */
__CPROVER_ensures(g_creates == 1 && g_create_pool == pool && g_create_idp == &self->id_)
__CPROVER_ensures(g_create_data.func.fn == thread_function_nullary && g_create_data.func.arg == func && g_create_data.initial_state == thread_schedule_state_pending)
/* created ==> the handle is joinable and refers to the new task, nothing is thrown */
__CPROVER_ensures(g_create_ok ==> (vx_exc == EXC_none && self->id_ == g_new_id))
/* not created ==> an exception tells the caller (thread_resource_error for a refusal) and the handle stays not joinable */
__CPROVER_ensures(!g_create_ok ==> (vx_exc != EXC_none && self->id_ == invalid_thread_id))
__CPROVER_ensures((!g_create_ok && vx_exc == EXC_pika_exception) ==> vx_err == pika_error_thread_resource_error)
__CPROVER_assigns(H_FRAME, self->id_, g_creates, g_create_data, g_create_idp, g_create_pool, g_create_mode, g_create_ok)
//@LIFT body
#endif

/* ------------------------------------------------------------------------------------------------------------- */
static void ghost_init(void)
{
  vx_exc = EXC_none; vx_err = 0; vx_caught = EXC_none; vx_caught_err = 0; g_throws = 0;
  g_acq = 0; g_racq = 0; g_nest_sr = false; g_nest_rs = false; vx_dead = false; g_noexcept = false; g_terminates = 0;
  g_id0 = 0; g_rid0 = 0; g_pub = 0; g_rpub = 0;
  g_self_first = nondet_bool();
#ifdef KF_SELF_FIRST
  g_self_first = true; /* known input class excluded: the call whose rhs precedes *this in the global lock order */
#endif
}

void harness(void)
{
  struct pika_thread a, b;
  ghost_init();
  a.mtx_.held = false; b.mtx_.held = false;
  a.id_ = nondet_long(); b.id_ = nondet_long();
  g_self = &a;
#if defined(U_DTOR)
  g_rhs = NULL; g_shared_self = false; g_shared_rhs = false;   /* an object being destroyed has no other users */
  g_handler_set = nondet_bool(); g_handler_calls = 0; g_handler_returned = false; g_handler_arg.kind = 0; g_handler_arg.err = 0;
  thread_dtor(&a);
  if (g_id0 == invalid_thread_id) VX_REACH("not_joinable_destroyed_silently");
  if (g_terminates == 1) VX_REACH("joinable_std_terminate");
  if (g_handler_calls == 1 && vx_dead) VX_REACH("joinable_handler_ends_program");
#ifndef KF_HANDLER_NORETURN
  if (g_handler_returned) VX_REACH("joinable_handler_returned");
#endif
#elif defined(U_MOVE_CTOR)
  g_rhs = &b; g_shared_self = false; g_shared_rhs = nondet_bool();
  a.id_ = invalid_thread_id; /* thread_id_ref_type's default constructor ran before the body */
  thread_move_ctor(&a, &b);
  if (a.id_ != invalid_thread_id) VX_REACH("took_over_a_thread"); else VX_REACH("moved_from_empty_handle");
#elif defined(U_MOVE_ASSIGN)
  g_rhs = &b; g_shared_self = nondet_bool(); g_shared_rhs = nondet_bool();
  struct pika_thread *r = thread_move_assign(&a, &b);
  if (DEAD) VX_REACH("assigned_over_joinable_terminates");
  if (!DEAD && a.id_ != invalid_thread_id) VX_REACH("took_over_a_thread");
  if (!DEAD && a.id_ == invalid_thread_id) VX_REACH("moved_from_empty_handle");
#elif defined(U_SWAP)
  g_rhs = &b; g_shared_self = nondet_bool(); g_shared_rhs = nondet_bool();
  thread_swap(&a, &b);
  if (a.id_ != b.id_) VX_REACH("swapped_different_ids");
  if (g_nest_sr) VX_REACH("rhs_locked_inside_self");
#elif defined(U_NATIVE_HANDLE)
  g_rhs = NULL; g_shared_self = nondet_bool(); g_shared_rhs = false;
  if (thread_native_handle(&a) != invalid_thread_id) VX_REACH("valid_id"); else VX_REACH("invalid_id");
#elif defined(U_START)
  struct thread_pool_base pool;
  g_rhs = NULL; g_shared_self = false; g_shared_rhs = false;
  a.id_ = invalid_thread_id; /* start_thread is private: called from the constructors of a fresh handle only */
  g_creates = 0; g_new_id = nondet_long(); g_create_ok = false; g_create_idp = NULL; g_create_pool = NULL; g_create_mode = 0;
  start_thread(&a, &pool, nondet_int());
  if (g_create_ok) VX_REACH("created_joinable");
  if (THROWN_PIKA(pika_error_thread_resource_error)) VX_REACH("refused_thread_resource_error");
  if (vx_exc == EXC_foreign) VX_REACH("create_thread_threw");
#endif
}
