/* C13 -- pika::this_thread::suspend(state, nextid, description, ec) (threading_base/src/thread_helpers.cpp): the blocking primitive under
 * every wait of a pika thread (condition variables, futures, join).  interrupt_thread() sets the target's request flag and, if the
 * target is suspended, wakes it with restart state `abort`.  "Interruption ends the thread without affecting others": the woken thread
 * must leave suspend() by pika::thread_interrupted -- the one exception thread::thread_function_nullary swallows -- and not by the
 * generic yield_aborted error (which escapes the thread function and is reported by the worker as a runtime error), nor by a normal
 * return: there is an interruption point BEFORE the yield and one AFTER it.
 * (written by main after seeded change C13-6 was missed; T contract, loop free, full domain; the timed overload: c02.timed.suspend_until) */
#include "vx.h"
enum { RS_unknown = 0, RS_signaled = 1, RS_timeout = 2, RS_terminate = 3, RS_abort = 4 };
enum { ERR_NONE = 0, ERR_INTERRUPTED = 1, ERR_YIELD_ABORTED = 2 };
struct sched { int unused; };
struct td { struct sched *scheduler_base_; };
struct error_code { int value; };
struct coroutine_self { struct td *id; };
struct result { int state; struct td *next; };
static struct error_code vx_throws_obj, vx_ec_obj;
static struct td g_td, g_next_td; static struct sched g_sched_a, g_sched_b; static struct coroutine_self g_self;
static bool vx_exc; static int g_thrown;
static bool g_intr_pending, g_intr_at_entry, g_intr_while_suspended;   /* requested_interrupt_ && enabled_interrupt_ of the running task */
static long g_ipoints, g_yields, g_sch_calls; static int g_y_state, g_delivered; static struct td *g_y_next, *g_sch_thrd; static bool g_sch_ok;

static struct coroutine_self *get_self(void) { return &g_self; }
static struct td *coroutine_get_thread_id(struct coroutine_self *c) { return c->id; }
/* threads::detail::interruption_point(id, ec): thread_data::interruption_point() throws thread_interrupted iff requested && enabled */
static void interruption_point(struct td *id, struct error_code *ec)
{
  VX_ASSERT(id == &g_td, "the interruption point of the calling task");
  if (g_ipoints < 3) g_ipoints++;
  if (g_intr_pending) { g_intr_pending = false; vx_exc = true; g_thrown = ERR_INTERRUPTED; return; }
  if (ec != &vx_throws_obj) ec->value = 0;
}
static bool ec_failed(struct error_code const *ec) { return ec != &vx_throws_obj && ec->value != 0; }
static struct result result_make(int state, struct td *next) { struct result r; r.state = state; r.next = next; return r; }
/* coroutine_self::yield(result): hand-over to the worker; returns when somebody woke the task, with the waker's restart state */
static int coroutine_yield(struct coroutine_self *c, struct result r)
{
  VX_ASSERT(!vx_exc, "no context switch while an exception is in flight");
  if (g_yields < 2) g_yields++;
  g_y_state = r.state; g_y_next = r.next;
  if (nondet_bool()) { g_intr_pending = true; g_intr_while_suspended = true; }   /* interrupted while suspended */
  g_delivered = nondet_int();
  VX_ASSUME(g_delivered == RS_signaled || g_delivered == RS_timeout || g_delivered == RS_abort);   /* what wakers pass (C02 A-RESTART) */
  return g_delivered;
}
static struct sched *td_get_scheduler_base(struct td *t) { return t->scheduler_base_; }
static void sched_schedule_thread(struct sched *s, struct td *t) { if (g_sch_calls < 2) g_sch_calls++; g_sch_thrd = t; g_sch_ok = (t != NULL && s == t->scheduler_base_); }
static void vx_throws_if(struct error_code *ec, int code) { if (ec == &vx_throws_obj) { vx_exc = true; g_thrown = code; } else ec->value = code; }
#define FOREIGN_NEXT (nextid != NULL && nextid->scheduler_base_ != g_td.scheduler_base_)

//@FUNC
int suspend(int state, struct td *nextid, const char *description, struct error_code *ec)
__CPROVER_requires(g_self.id == &g_td && (nextid == NULL || nextid == &g_next_td) && (ec == &vx_throws_obj || ec == &vx_ec_obj))
__CPROVER_requires(!vx_exc && g_ipoints == 0 && g_yields == 0 && g_sch_calls == 0 && g_intr_pending == g_intr_at_entry && !g_intr_while_suspended)
/* a request pending on entry: delivered before anything else happens */
__CPROVER_ensures(g_intr_at_entry ==> (vx_exc && g_thrown == ERR_INTERRUPTED && g_yields == 0 && g_sch_calls == 0))
/* otherwise exactly one hand-over with the requested state; a nextid of another scheduler is dispatched there, not handed to the worker */
__CPROVER_ensures(!g_intr_at_entry ==> (g_yields == 1 && g_y_state == state && g_y_next == (FOREIGN_NEXT ? NULL : nextid)))
__CPROVER_ensures(g_sch_calls == ((g_yields == 1 && FOREIGN_NEXT) ? 1 : 0) && (g_sch_calls == 1 ==> (g_sch_thrd == nextid && g_sch_ok)))
/* a request that arrived while the task was suspended ends the call by thread_interrupted, whatever restart state the waker delivered */
__CPROVER_ensures((g_yields == 1 && g_intr_while_suspended) ==> (vx_exc && g_thrown == ERR_INTERRUPTED))
/* no request: `abort` is reported as yield_aborted (thrown if the caller asked for exceptions), everything else is returned */
__CPROVER_ensures((g_yields == 1 && !g_intr_while_suspended && g_delivered == RS_abort && ec == &vx_throws_obj) ==> (vx_exc && g_thrown == ERR_YIELD_ABORTED))
__CPROVER_ensures((g_yields == 1 && !g_intr_while_suspended && (g_delivered != RS_abort || ec != &vx_throws_obj)) ==> (!vx_exc && __CPROVER_return_value == g_delivered))
__CPROVER_assigns(vx_exc, g_thrown, g_intr_pending, g_intr_while_suspended, g_ipoints, g_yields, g_sch_calls, g_y_state, g_delivered, g_y_next, g_sch_thrd, g_sch_ok, vx_ec_obj)
//@LIFT body

void harness(void)
{
  g_td.scheduler_base_ = &g_sched_a; g_next_td.scheduler_base_ = nondet_bool() ? &g_sched_a : &g_sched_b; g_self.id = &g_td;
  vx_exc = false; g_thrown = ERR_NONE; g_ipoints = g_yields = g_sch_calls = 0; g_y_state = 0; g_delivered = 0; g_y_next = NULL; g_sch_thrd = NULL; g_sch_ok = false;
  g_intr_at_entry = nondet_bool(); g_intr_pending = g_intr_at_entry; g_intr_while_suspended = false;
  vx_ec_obj.value = nondet_int();
  struct error_code *ec = nondet_bool() ? &vx_throws_obj : &vx_ec_obj;
  struct td *nextid = nondet_bool() ? &g_next_td : NULL;
  int r = suspend(nondet_int(), nextid, "desc", ec);
  if (g_intr_at_entry) VX_REACH("interrupted_before_suspending");
  if (g_yields == 1 && g_intr_while_suspended && g_delivered == RS_abort) VX_REACH("interrupted_while_suspended");
  if (g_yields == 1 && !vx_exc && r == RS_signaled) VX_REACH("woken_normally");
  if (vx_exc && g_thrown == ERR_YIELD_ABORTED) VX_REACH("aborted_without_interruption");
  if (g_sch_calls == 1) VX_REACH("foreign_nextid_dispatched");
}
