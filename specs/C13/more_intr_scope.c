/* units (more_spec.py): the interruption plumbing
 *   this_thread::disable_interruption / restore_interruption constructors and destructors + nesting scenarios (thread.cpp)   (I)
 */
#include "more_intr.h"

/* The calling thread's enabled_interrupt_ flag is the ghost g_enabled: only the thread itself changes it (through the
 * two scope classes), so it is stable between the calls of a scenario.  Contracts of the callees: units more.tt.* /
 * more.hlp.* / more.td.* (set_interruption_enabled returns the value it replaced). */
struct thread_self { int dummy; };
struct disable_interruption { bool interruption_was_enabled_; };
struct restore_interruption { bool interruption_was_enabled_; };
static tid_t g_self_id;
static struct thread_self g_self_obj, *g_self_ptr;
static bool g_enabled;
static int g_sets, g_gets;
static tid_t get_self_id(void) { return g_self_id; }
static struct thread_self *get_self_ptr(void) { return g_self_ptr; }
static bool interruption_enabled(void) { if (g_gets < 2) g_gets++; return g_enabled; } /* this_thread::interruption_enabled */
static bool set_thread_interruption_enabled3(tid_t id, bool enable, struct error_code *ec)
{
  VX_ASSERT(id == g_self_id && id != invalid_thread_id, "changes the interruption state of a thread other than the caller");
  if (g_sets < 2) g_sets++;
  bool old = g_enabled;
  g_enabled = enable;
  return old;
}
#define SC_FRAME g_enabled, g_sets, g_gets, vx_exc, vx_err, g_throws
#define SC_PRE (vx_exc == EXC_none && g_throws == 0 && g_self_id != invalid_thread_id)

#if defined(U_SC_DISABLE_CTOR)
//@FUNC
void disable_ctor(struct disable_interruption *self)
__CPROVER_requires(SC_PRE)
/* saves the current state and leaves interruption disabled */
__CPROVER_ensures(!g_enabled && self->interruption_was_enabled_ == __CPROVER_old(g_enabled) && vx_exc == EXC_none)
__CPROVER_assigns(SC_FRAME, self->interruption_was_enabled_)
//@LIFT disable_ctor
#else
void disable_ctor(struct disable_interruption *self)
//@LIFT disable_ctor
#endif

#if defined(U_SC_DISABLE_DTOR)
//@FUNC
void disable_dtor(struct disable_interruption *self)
__CPROVER_requires(SC_PRE)
/* restores exactly the saved value (on a pika thread; elsewhere there is no thread state to restore) */
__CPROVER_ensures(g_self_ptr != NULL ==> g_enabled == self->interruption_was_enabled_)
__CPROVER_ensures(g_self_ptr == NULL ==> (g_enabled == __CPROVER_old(g_enabled) && g_sets == __CPROVER_old(g_sets)))
__CPROVER_ensures(vx_exc == EXC_none && self->interruption_was_enabled_ == __CPROVER_old(self->interruption_was_enabled_))
__CPROVER_assigns(SC_FRAME)
//@LIFT disable_dtor
#else
void disable_dtor(struct disable_interruption *self)
//@LIFT disable_dtor
#endif

#if defined(U_SC_RESTORE_CTOR)
//@FUNC
void restore_ctor(struct restore_interruption *self, struct disable_interruption *d)
__CPROVER_requires(SC_PRE && !g_enabled) /* inside d's scope: interruption is disabled */
/* re-establishes the state d saved: interruption is enabled again iff it was enabled before d */
__CPROVER_ensures(g_enabled == d->interruption_was_enabled_ && d->interruption_was_enabled_ == __CPROVER_old(d->interruption_was_enabled_) && vx_exc == EXC_none)
__CPROVER_assigns(SC_FRAME, self->interruption_was_enabled_)
//@LIFT restore_ctor
#else
void restore_ctor(struct restore_interruption *self, struct disable_interruption *d)
//@LIFT restore_ctor
#endif

void restore_dtor(struct restore_interruption *self)
//@LIFT restore_dtor

void harness(void)
{
  struct disable_interruption d1, d2;
  struct restore_interruption r;
  g_self_id = nondet_long();
  if (g_self_id == invalid_thread_id) g_self_id = 1; /* the scope classes are used on pika threads (their constructors throw elsewhere) */
  g_self_ptr = &g_self_obj;
  g_enabled = nondet_bool();
  g_sets = 0; g_gets = 0; vx_exc = EXC_none; vx_err = 0; g_throws = 0;
  bool e0 = g_enabled;
#if defined(U_SC_DISABLE_CTOR)
  disable_ctor(&d1);
  if (e0) VX_REACH("was_enabled"); else VX_REACH("was_disabled");
#elif defined(U_SC_DISABLE_DTOR)
  d1.interruption_was_enabled_ = nondet_bool();
  if (nondet_bool()) g_self_ptr = NULL;
  disable_dtor(&d1);
  if (g_self_ptr != NULL && g_enabled) VX_REACH("restored_enabled");
  if (g_self_ptr != NULL && !g_enabled) VX_REACH("restored_disabled");
  if (g_self_ptr == NULL) VX_REACH("not_a_pika_thread");
#elif defined(U_SC_RESTORE_CTOR)
  g_enabled = false;
  d1.interruption_was_enabled_ = nondet_bool();
  restore_ctor(&r, &d1);
  if (d1.interruption_was_enabled_) VX_REACH("re_enabled"); else VX_REACH("stays_disabled");
#elif defined(U_SC_SCENARIO)
  /* { disable_interruption d1; { restore_interruption r(d1); } }   -- every step is the lifted text */
  disable_ctor(&d1);
  VX_ASSERT(!g_enabled, "inside disable_interruption: interruption disabled");
  restore_ctor(&r, &d1);
  VX_ASSERT(g_enabled == e0, "inside restore_interruption: the state from before disable_interruption is back (re-enabled iff it was enabled)");
  restore_dtor(&r);
  VX_ASSERT(!g_enabled, "after restore_interruption: disabled again");
  disable_dtor(&d1);
  VX_ASSERT(g_enabled == e0, "after disable_interruption: the original state is back");
  VX_ASSERT(vx_exc == EXC_none, "no exception");
  if (e0) VX_REACH("started_enabled"); else VX_REACH("started_disabled");
#elif defined(U_SC_NESTED)
  /* { disable_interruption d1; { disable_interruption d2; { restore_interruption r(d2); } } }   -- LIFO */
  disable_ctor(&d1);
  VX_ASSERT(!g_enabled, "inside d1: disabled");
  disable_ctor(&d2);
  VX_ASSERT(!g_enabled, "inside d2: disabled");
  restore_ctor(&r, &d2);
  VX_ASSERT(!g_enabled, "restore_interruption(d2) inside d1: d2 found interruption disabled, so it stays disabled (d1 still protects the code)");
  restore_dtor(&r);
  VX_ASSERT(!g_enabled, "after r: disabled");
  disable_dtor(&d2);
  VX_ASSERT(!g_enabled, "after d2: still inside d1, disabled");
  disable_dtor(&d1);
  VX_ASSERT(g_enabled == e0, "after d1: the original state is back");
  VX_ASSERT(vx_exc == EXC_none, "no exception");
  if (e0) VX_REACH("started_enabled"); else VX_REACH("started_disabled");
#endif
}
